//! C07/C08 harness: process image + drivers + fault latch + safe state, through the real
//! compiler and Runtime::execute_cycle with scripted logging drivers.
//!
//! ids starting with t: the same case compiled as TWO programs under two periodic tasks of one resource (1 ms interval, the clock is
//!   advanced 1 ms before every cycle): Main (priority 1) holds the variables, the bindings and all statements, Aux (priority 2, runs
//!   second) holds the faulting statement, which is the LAST statement of the modelled program - the model and the expected
//!   observations are those of the single program
//! Case line:  <id> : <config> : <ops> : <observations>
//!   config = nb { area(0 I,1 Q,2 M) size(0 X,1 B,2 W,3 D,4 L) byte bit ty var } nv { ty }   (types 0..12 as in Model/Cycle.v)
//!            np { 0 dst src | 1 trig } ns { area size byte bit value(-1 = ill-typed entry) }
//!            policy wd nd  li lo lm
//!   ops    = { 0 (cycle) per-driver: r (0 fail | 1 ok) npatch {pos byte} w1 w2 | 1 (watchdog) per-driver scripts | 2 (simfault) … | 3 var value (set) }
//!   obs    = per op: res(0 ok,1 refused,2 err,9 n/a) nlog { kind(0 rd,1 wr) d [len bytes..] } faulted  li bytes.. lo bytes.. lm bytes..  nv values..
use std::io::Write;
use std::sync::{Arc, Mutex};
use trust_runtime::error::RuntimeError;
use trust_runtime::harness::TestHarness;
use trust_runtime::io::{IoAddress, IoDriver, IoSafeState};
use trust_runtime::value::Value;
use trust_runtime::watchdog::{FaultPolicy, WatchdogAction, WatchdogPolicy};
use vh::Rng;

const TYNAMES: [&str; 13] = ["BOOL", "BYTE", "SINT", "USINT", "WORD", "INT", "UINT", "DWORD", "DINT", "UDINT", "LWORD", "LINT", "ULINT"];
fn ty_size(t: usize) -> usize {
    match t { 0 => 0, 1..=3 => 1, 4..=6 => 2, 7..=9 => 3, _ => 4 }
}
fn ty_bits(t: usize) -> u32 {
    match t { 0 => 1, 1..=3 => 8, 4..=6 => 16, 7..=9 => 32, _ => 64 }
}
fn ty_signed(t: usize) -> bool {
    matches!(t, 2 | 5 | 8 | 11)
}

#[derive(Clone, Debug)]
struct Binding { area: usize, size: usize, byte: u32, bit: u8, ty: usize, var: usize }
#[derive(Clone, Debug)]
enum Stmt { Copy(usize, usize), FaultIf(usize) }
#[derive(Clone, Debug)]
struct Safe { area: usize, size: usize, byte: u32, bit: u8, value: i128 }
#[derive(Clone, Debug, Default)]
struct DScript { read_ok: bool, patches: Vec<(usize, u8)>, w1: bool, w2: bool }
#[derive(Clone, Debug)]
enum Op { Cycle(Vec<DScript>), Watchdog(Vec<DScript>), SimFault(Vec<DScript>), Set(usize, i128) }
#[derive(Clone, Debug)]
struct Case {
    bindings: Vec<Binding>, vtys: Vec<usize>, prog: Vec<Stmt>, safe: Vec<Safe>,
    policy: usize, wd: usize, nd: usize, lens: [usize; 3], ops: Vec<Op>,
    /// compile as two programs under two tasks (ids t…); requires the FaultIf to be the last statement
    split: bool,
}

fn addr_text(area: usize, size: usize, byte: u32, bit: u8) -> String {
    let a = ["I", "Q", "M"][area];
    match size {
        0 => format!("%{a}X{byte}.{bit}"),
        1 => format!("%{a}B{byte}"),
        2 => format!("%{a}W{byte}"),
        3 => format!("%{a}D{byte}"),
        _ => format!("%{a}L{byte}"),
    }
}

fn source(c: &Case) -> String {
    let split = c.split && matches!(c.prog.last(), Some(Stmt::FaultIf(_))) && c.prog.iter().filter(|s| matches!(s, Stmt::FaultIf(_))).count() == 1;
    let mut s = String::new();
    if split {
        s += "CONFIGURATION C\nVAR_GLOBAL\n  gtrig : BOOL;\nEND_VAR\nRESOURCE R ON PLC\nTASK T1 (INTERVAL := T#1ms, PRIORITY := 1);\nTASK T2 (INTERVAL := T#1ms, PRIORITY := 2);\nPROGRAM Main WITH T1 : MainP;\nPROGRAM Aux WITH T2 : AuxP;\nEND_RESOURCE\nEND_CONFIGURATION\n";
        s += "PROGRAM AuxP\nVAR_EXTERNAL\n  gtrig : BOOL;\nEND_VAR\nVAR\n  zero : INT := 0;\n  dz : INT;\nEND_VAR\nIF gtrig THEN dz := 1 / zero; END_IF;\nEND_PROGRAM\n";
        s += "PROGRAM MainP\nVAR_EXTERNAL\n  gtrig : BOOL;\nEND_VAR\nVAR\n";
    } else {
        s += "PROGRAM Main\nVAR\n";
    }
    for (i, t) in c.vtys.iter().enumerate() {
        match c.bindings.iter().find(|b| b.var == i) {
            Some(b) => s += &format!("  v{i} AT {} : {};\n", addr_text(b.area, b.size, b.byte, b.bit), TYNAMES[*t]),
            None => s += &format!("  v{i} : {};\n", TYNAMES[*t]),
        }
    }
    s += "  zero : INT := 0;\n  dz : INT;\nEND_VAR\n";
    for st in &c.prog {
        match st {
            Stmt::Copy(d, sr) => s += &format!("v{d} := v{sr};\n"),
            Stmt::FaultIf(t) if split => s += &format!("gtrig := v{t};\n"),
            Stmt::FaultIf(t) => s += &format!("IF v{t} THEN dz := 1 / zero; END_IF;\n"),
        }
    }
    s += "END_PROGRAM\n";
    s
}

#[derive(Default)]
struct Shared {
    log: Vec<(u8, usize, Vec<u8>)>,
    scripts: Vec<DScript>,
    writes_seen: Vec<u32>,
}
struct LogDriver { id: usize, sh: Arc<Mutex<Shared>> }
impl IoDriver for LogDriver {
    fn read_inputs(&mut self, inputs: &mut [u8]) -> Result<(), RuntimeError> {
        let mut sh = self.sh.lock().unwrap();
        sh.log.push((0, self.id, vec![]));
        let sc = sh.scripts[self.id].clone();
        if !sc.read_ok {
            return Err(RuntimeError::IoDriver("scripted read failure".into()));
        }
        for (p, b) in sc.patches {
            if p < inputs.len() {
                inputs[p] = b;
            }
        }
        Ok(())
    }
    fn write_outputs(&mut self, outputs: &[u8]) -> Result<(), RuntimeError> {
        let mut sh = self.sh.lock().unwrap();
        sh.log.push((1, self.id, outputs.to_vec()));
        let n = sh.writes_seen[self.id];
        sh.writes_seen[self.id] += 1;
        let ok = if n == 0 { sh.scripts[self.id].w1 } else { sh.scripts[self.id].w2 };
        if ok { Ok(()) } else { Err(RuntimeError::IoDriver("scripted write failure".into())) }
    }
}

fn to_value(t: usize, v: i128) -> Value {
    match t {
        0 => Value::Bool(v != 0), 1 => Value::Byte(v as u8), 2 => Value::SInt(v as i8), 3 => Value::USInt(v as u8),
        4 => Value::Word(v as u16), 5 => Value::Int(v as i16), 6 => Value::UInt(v as u16),
        7 => Value::DWord(v as u32), 8 => Value::DInt(v as i32), 9 => Value::UDInt(v as u32),
        10 => Value::LWord(v as u64), 11 => Value::LInt(v as i64), _ => Value::ULInt(v as u64),
    }
}
fn io_value(size: usize, v: i128) -> Value {
    match size { 0 => Value::Bool(v != 0), 1 => Value::Byte(v as u8), 2 => Value::Word(v as u16), 3 => Value::DWord(v as u32), _ => Value::LWord(v as u64) }
}
fn from_value(v: Option<&Value>) -> String {
    match v {
        Some(Value::Bool(b)) => (*b as u8).to_string(),
        Some(Value::Byte(x)) | Some(Value::USInt(x)) => x.to_string(),
        Some(Value::SInt(x)) => x.to_string(),
        Some(Value::Word(x)) | Some(Value::UInt(x)) => x.to_string(),
        Some(Value::Int(x)) => x.to_string(),
        Some(Value::DWord(x)) | Some(Value::UDInt(x)) => x.to_string(),
        Some(Value::DInt(x)) => x.to_string(),
        Some(Value::LWord(x)) | Some(Value::ULInt(x)) => x.to_string(),
        Some(Value::LInt(x)) => x.to_string(),
        other => format!("?{other:?}").replace(' ', "_"),
    }
}

fn run_case(c: &Case) -> Result<String, String> {
    let src = source(c);
    let mut h = TestHarness::from_source(&src).map_err(|e| format!("compile: {e:?} :: {}", src.replace('\n', "\\n")))?;
    let pid = match h.runtime().storage().get_global("Main") {
        Some(Value::Instance(id)) => *id,
        other => return Err(format!("no Main instance: {other:?}")),
    };
    let sh = Arc::new(Mutex::new(Shared { log: vec![], scripts: vec![DScript::default(); c.nd], writes_seen: vec![0; c.nd] }));
    for d in 0..c.nd {
        h.runtime_mut().add_io_driver(format!("d{d}"), Box::new(LogDriver { id: d, sh: sh.clone() }));
    }
    h.runtime_mut().io_mut().resize(c.lens[0], c.lens[1], c.lens[2]);
    let pol = [FaultPolicy::Halt, FaultPolicy::SafeHalt, FaultPolicy::Restart];
    h.runtime_mut().set_fault_policy(pol[c.policy]);
    let wda = [WatchdogAction::Halt, WatchdogAction::SafeHalt, WatchdogAction::Restart];
    let mut wp = WatchdogPolicy::default();
    wp.action = wda[c.wd];
    h.runtime_mut().set_watchdog_policy(wp);
    let mut safe = IoSafeState::default();
    for s in &c.safe {
        let a = IoAddress::parse(&addr_text(s.area, s.size, s.byte, s.bit)).map_err(|e| format!("addr {e:?}"))?;
        // an ill-typed entry (value -1): a Bool for a non-bit address / a Byte for a bit address
        let v = if s.value < 0 { if s.size == 0 { Value::Byte(1) } else { Value::Bool(true) } } else { io_value(s.size, s.value) };
        safe.outputs.push((a, v));
    }
    h.runtime_mut().set_io_safe_state(safe);
    let mut out = String::new();
    for op in &c.ops {
        {
            let mut g = sh.lock().unwrap();
            g.log.clear();
            g.writes_seen = vec![0; c.nd];
            match op {
                Op::Cycle(ds) | Op::Watchdog(ds) | Op::SimFault(ds) => g.scripts = ds.clone(),
                Op::Set(..) => {}
            }
        }
        let res = match op {
            Op::Cycle(_) => {
                if c.split { h.advance_time(trust_runtime::value::Duration::from_millis(1)); }
                let r = h.cycle();
                match r.errors.first() {
                    None => 0,
                    Some(RuntimeError::ResourceFaulted) => 1,
                    Some(_) => 2,
                }
            }
            Op::Watchdog(_) => { let _ = h.runtime_mut().watchdog_timeout(); 9 }
            Op::SimFault(_) => { let _ = h.runtime_mut().simulation_fault("verif"); 9 }
            Op::Set(i, v) => {
                h.runtime_mut().storage_mut().set_instance_var(pid, format!("v{i}"), to_value(c.vtys[*i], *v));
                9
            }
        };
        let g = sh.lock().unwrap();
        out += &format!(" {res} {}", g.log.len());
        for (k, d, bytes) in &g.log {
            out += &format!(" {k} {d}");
            if *k == 1 {
                out += &format!(" {}", bytes.len());
                for b in bytes { out += &format!(" {b}"); }
            }
        }
        let rt = h.runtime();
        out += &format!(" {}", rt.faulted() as u8);
        for img in [rt.io().inputs(), rt.io().outputs(), rt.io().memory()] {
            out += &format!(" {}", img.len());
            for b in img { out += &format!(" {b}"); }
        }
        out += &format!(" {}", c.vtys.len());
        for i in 0..c.vtys.len() {
            out += &format!(" {}", from_value(rt.storage().get_instance_var(pid, &format!("v{i}"))));
        }
    }
    Ok(out)
}

fn gen_scripts(rng: &mut Rng, nd: usize, fail_bias: u64) -> Vec<DScript> {
    (0..nd).map(|_| DScript {
        read_ok: !rng.chance(1, fail_bias),
        patches: (0..rng.below(4)).map(|_| (rng.below(12) as usize, rng.below(256) as u8)).collect(),
        w1: !rng.chance(1, fail_bias),
        w2: !rng.chance(1, 4),
    }).collect()
}

fn gen_case(rng: &mut Rng) -> Case {
    let nv = rng.range(2, 8) as usize;
    // group variables by type so copies are well-typed
    let tpool: Vec<usize> = (0..3).map(|_| rng.below(13) as usize).collect();
    let mut vtys: Vec<usize> = (0..nv).map(|_| *rng.pick(&tpool)).collect();
    vtys.push(0); // a BOOL trigger variable (last)
    let trig = nv;
    let mut bindings = Vec::new();
    for i in 0..nv {
        if rng.chance(3, 4) {
            let area = rng.below(3) as usize;
            let size = ty_size(vtys[i]);
            bindings.push(Binding { area, size, byte: rng.below(10) as u32, bit: rng.below(8) as u8, ty: vtys[i], var: i });
        }
    }
    let mut prog = Vec::new();
    let split = rng.chance(1, 4);
    let nst = rng.range(1, 6) as usize;
    let fault_pos = if split { nst } else { rng.below(5) as usize };
    for k in 0..nst {
        if k == fault_pos { prog.push(Stmt::FaultIf(trig)); }
        let d = rng.below(nv as u64) as usize;
        let cands: Vec<usize> = (0..nv).filter(|j| vtys[*j] == vtys[d]).collect();
        let s = *rng.pick(&cands);
        prog.push(Stmt::Copy(d, s));
    }
    if fault_pos >= nst { prog.push(Stmt::FaultIf(trig)); }
    let mut safe = Vec::new();
    for _ in 0..rng.below(4) {
        let size = rng.below(5) as usize;
        let max: i128 = match size { 0 => 1, 1 => 255, 2 => 65535, 3 => u32::MAX as i128, _ => u64::MAX as i128 };
        let value = if rng.chance(1, 10) { -1 } else if rng.chance(1, 3) { max } else { (rng.next() as i128) % (max + 1) };
        safe.push(Safe { area: if rng.chance(5, 6) { 1 } else { 2 }, size, byte: rng.below(10) as u32, bit: rng.below(8) as u8, value });
    }
    let nd = rng.below(4) as usize;
    let lens = [rng.below(14) as usize, rng.below(14) as usize, rng.below(6) as usize];
    let nops = rng.range(1, 12) as usize;
    let mut ops = Vec::new();
    for _ in 0..nops {
        match rng.below(12) {
            0 => ops.push(Op::Watchdog(gen_scripts(rng, nd, 6))),
            1 => ops.push(Op::SimFault(gen_scripts(rng, nd, 6))),
            2 => ops.push(Op::Set(trig, rng.chance(1, 2) as i128)),
            3 | 4 => {
                let i = rng.below(nv as u64) as usize;
                let bits = ty_bits(vtys[i]);
                let raw = rng.next() as u128 as i128;
                let v = if bits == 64 { if ty_signed(vtys[i]) { raw as i64 as i128 } else { raw as u64 as i128 } }
                        else if ty_signed(vtys[i]) { (raw % (1i128 << bits)) - (1i128 << (bits - 1)) } else { raw % (1i128 << bits) };
                ops.push(Op::Set(i, v));
            }
            _ => ops.push(Op::Cycle(gen_scripts(rng, nd, 9))),
        }
    }
    Case { bindings, vtys, prog, safe, policy: rng.below(3) as usize, wd: rng.below(3) as usize, nd, lens, ops, split }
}

fn fmt_case(id: &str, c: &Case, obs: &str) -> String {
    let mut s = format!("{id} : {}", c.bindings.len());
    for b in &c.bindings { s += &format!(" {} {} {} {} {} {}", b.area, b.size, b.byte, b.bit, b.ty, b.var); }
    s += &format!(" {}", c.vtys.len());
    for t in &c.vtys { s += &format!(" {t}"); }
    s += &format!(" {}", c.prog.len());
    for st in &c.prog { match st { Stmt::Copy(d, sr) => s += &format!(" 0 {d} {sr}"), Stmt::FaultIf(t) => s += &format!(" 1 {t}") } }
    s += &format!(" {}", c.safe.len());
    for x in &c.safe { s += &format!(" {} {} {} {} {}", x.area, x.size, x.byte, x.bit, x.value); }
    s += &format!(" {} {} {} {} {} {} :", c.policy, c.wd, c.nd, c.lens[0], c.lens[1], c.lens[2]);
    for op in &c.ops {
        let scripts = |ds: &Vec<DScript>| {
            let mut t = String::new();
            for d in ds {
                t += &format!(" {} {}", d.read_ok as u8, d.patches.len());
                for (p, b) in &d.patches { t += &format!(" {p} {b}"); }
                t += &format!(" {} {}", d.w1 as u8, d.w2 as u8);
            }
            t
        };
        match op {
            Op::Cycle(ds) => s += &format!(" 0{}", scripts(ds)),
            Op::Watchdog(ds) => s += &format!(" 1{}", scripts(ds)),
            Op::SimFault(ds) => s += &format!(" 2{}", scripts(ds)),
            Op::Set(i, v) => s += &format!(" 3 {i} {v}"),
        }
    }
    s += " :";
    s += obs;
    s
}

fn parse_case(line: &str) -> Option<(String, Case)> {
    let parts: Vec<&str> = line.split(':').collect();
    if parts.len() < 3 { return None; }
    let id = parts[0].trim().to_string();
    let t: Vec<i128> = parts[1].split_whitespace().map(|x| x.parse().unwrap()).collect();
    let mut i = 0;
    let mut nx = || { let v = t[i]; i += 1; v };
    let nb = nx() as usize;
    let bindings = (0..nb).map(|_| Binding { area: nx() as usize, size: nx() as usize, byte: nx() as u32, bit: nx() as u8, ty: nx() as usize, var: nx() as usize }).collect();
    let nv = nx() as usize;
    let vtys: Vec<usize> = (0..nv).map(|_| nx() as usize).collect();
    let np = nx() as usize;
    let prog = (0..np).map(|_| if nx() == 0 { Stmt::Copy(nx() as usize, nx() as usize) } else { Stmt::FaultIf(nx() as usize) }).collect();
    let ns = nx() as usize;
    let safe = (0..ns).map(|_| Safe { area: nx() as usize, size: nx() as usize, byte: nx() as u32, bit: nx() as u8, value: nx() }).collect();
    let (policy, wd, nd) = (nx() as usize, nx() as usize, nx() as usize);
    let lens = [nx() as usize, nx() as usize, nx() as usize];
    let o: Vec<i128> = parts[2].split_whitespace().map(|x| x.parse().unwrap()).collect();
    let mut j = 0;
    let mut ops = Vec::new();
    while j < o.len() {
        let k = o[j]; j += 1;
        if k == 3 { ops.push(Op::Set(o[j] as usize, o[j + 1])); j += 2; continue; }
        let mut ds = Vec::new();
        for _ in 0..nd {
            let read_ok = o[j] != 0; let npch = o[j + 1] as usize; j += 2;
            let patches = (0..npch).map(|q| (o[j + 2 * q] as usize, o[j + 2 * q + 1] as u8)).collect(); j += 2 * npch;
            ds.push(DScript { read_ok, patches, w1: o[j] != 0, w2: o[j + 1] != 0 }); j += 2;
        }
        ops.push(match k { 0 => Op::Cycle(ds), 1 => Op::Watchdog(ds), _ => Op::SimFault(ds) });
    }
    let split = id.starts_with('t');
    Some((id, Case { bindings, vtys, prog, safe, policy, wd, nd, lens, ops, split }))
}

fn main() {
    let args: Vec<String> = std::env::args().collect();
    if args.get(1).map(|s| s.as_str()) == Some("--replay") {
        let text = std::fs::read_to_string(&args[2]).expect("read");
        let mut out = std::io::BufWriter::new(std::fs::File::create(&args[3]).expect("open"));
        for line in text.lines() {
            if let Some((id, c)) = parse_case(line) {
                match run_case(&c) {
                    Ok(obs) => writeln!(out, "{}", fmt_case(&id, &c, &obs)).unwrap(),
                    Err(e) => writeln!(out, "{id} ERROR {e}").unwrap(),
                }
            }
        }
        return;
    }
    let count: usize = args.get(1).and_then(|s| s.parse().ok()).unwrap_or(100);
    let outp = args.get(2).cloned().unwrap_or_else(|| "/dev/stdout".into());
    let mut out = std::io::BufWriter::new(std::fs::File::create(&outp).expect("open output"));
    let mut rng = Rng::new(vh::seed_from_env());
    for k in 0..count {
        let c = gen_case(&mut rng);
        match run_case(&c) {
            Ok(obs) => writeln!(out, "{}", fmt_case(&format!("{}{k}", if c.split { "t" } else { "c" }), &c, &obs)).unwrap(),
            Err(e) => writeln!(out, "c{k} ERROR {e}").unwrap(),
        }
    }
}
