//! C16 rename sweep: trust_ide::rename at identifier occurrences of feature-sweep programs (harness/src/bin/stsweep.rs sources),
//! judged by oracles that follow from "rename refuses or preserves every binding": after the returned edits are applied the
//! project has no new error diagnostics and runs exactly as before (per-cycle outcomes and a names-free digest of all values);
//! the edits are well-formed (disjoint, each replaces an occurrence of the old name by the new name).
//! Not renamed here (recorded findings of C16, each with its own probe in checks/c16.py): names declared as VAR_INPUT / VAR_OUTPUT /
//! VAR_IN_OUT parameters, enumeration types and values (used as Type#Value).
//!   rnsweep <srcdir> <out> <per-file>      for every <srcdir>/*.st: <per-file> renames at random identifier occurrences
//! line: <file> <offset> <old> <new> : refused | e<edits_ok> d<diag_same> b<behaviour_same>    (ERROR … for a panic)
use std::io::Write;
use text_size::TextSize;
use trust_hir::db::{FileId, SemanticDatabase, SourceDatabase};
use trust_hir::Database;
use trust_runtime::harness::TestHarness;
use trust_runtime::value::Duration;
use trust_syntax::{lex, TokenKind};
use vh::Rng;

fn load(t: &str) -> Database { let mut db = Database::new(); db.set_source_text(FileId(0), t.to_string()); db }
fn errors(db: &Database) -> usize { db.diagnostics(FileId(0)).iter().filter(|d| format!("{:?}", d.severity).contains("Error")).count() }
/// per-cycle outcome and a digest of all values with every letter removed (names change under renaming, numbers do not)
fn behaviour(src: &str) -> String {
    let mut h = match TestHarness::from_source(src) { Ok(h) => h, Err(_) => return "compile-error".into() };
    let mut out = String::new();
    for _ in 0..4 {
        h.advance_time(Duration::from_millis(7));
        let r = std::panic::catch_unwind(std::panic::AssertUnwindSafe(|| h.cycle()));
        match r {
            Err(_) => { out += "PANIC;"; break; }
            Ok(res) => {
                if let Some(e) = res.errors.first() { out += &format!("E:{};", format!("{e:?}").chars().take_while(|c| c.is_alphanumeric()).collect::<String>()); break; }
                let st = h.runtime().storage();
                let mut hsh: u64 = 0xcbf29ce484222325;
                // identifiers (with the digits they contain) are dropped, numbers and punctuation are kept
                let mut feed = |t: &str| {
                    let bytes = t.as_bytes(); let mut i = 0;
                    while i < bytes.len() {
                        let c = bytes[i];
                        if c.is_ascii_alphabetic() || c == b'_' { while i < bytes.len() && (bytes[i].is_ascii_alphanumeric() || bytes[i] == b'_') { i += 1; } continue; }
                        hsh ^= c as u64; hsh = hsh.wrapping_mul(0x100000001b3); i += 1;
                    }
                };
                for (_, v) in st.globals().iter() { feed(&format!("{v:?};")); }
                for (_, inst) in st.instances().iter() { for (_, v) in inst.variables.iter() { feed(&format!("{v:?},")); } }
                out += &format!("{:08x};", hsh as u32);
            }
        }
    }
    out
}

fn main() {
    std::panic::set_hook(Box::new(|_| {}));
    let args: Vec<String> = std::env::args().collect();
    if args.get(1).map(|s| s.as_str()) == Some("--one") {
        // rnsweep --one <file> <offset> <new>: show the edits, the diagnostics after them and both behaviours
        let src = std::fs::read_to_string(&args[2]).unwrap();
        let pos: usize = args[3].parse().unwrap();
        let db = load(&src);
        match trust_ide::rename::rename(&db, FileId(0), TextSize::from(pos as u32), &args[4]) {
            None => println!("refused"),
            Some(res) => {
                let mut text = src.clone();
                let mut all: Vec<(usize, usize, String)> = vec![];
                for (_, edits) in res.edits.iter() { for e in edits.iter() { all.push((usize::from(e.range.start()), usize::from(e.range.end()), e.new_text.clone())); } }
                all.sort();
                for (x, y, t) in all.iter().rev() { text.replace_range(*x..*y, t); }
                println!("edits at {:?}", all.iter().map(|(x, _, _)| *x).collect::<Vec<_>>());
                let db2 = load(&text);
                for d in db2.diagnostics(FileId(0)).iter() { println!("DIAG {:?}", d); }
                println!("before {}\nafter  {}", behaviour(&src), behaviour(&text));
                if args.len() > 5 { println!("{text}"); }
            }
        }
        return;
    }
    let per: usize = args[3].parse().unwrap();
    let mut out = std::io::BufWriter::new(std::fs::File::create(&args[2]).expect("out"));
    let mut rng = Rng::new(vh::seed_from_env());
    let mut files: Vec<_> = std::fs::read_dir(&args[1]).expect("dir").flatten().map(|e| e.path()).filter(|p| p.extension().map(|x| x == "st").unwrap_or(false)).collect();
    files.sort();
    for f in files {
        let src = std::fs::read_to_string(&f).unwrap();
        let name = f.file_name().unwrap().to_string_lossy().to_string();
        let db = load(&src);
        if errors(&db) > 0 { continue; }
        let before = behaviour(&src);
        if before == "compile-error" || before.contains("PANIC") { continue; }
        let idents: Vec<(usize, usize)> = lex(&src).into_iter().filter(|t| t.kind == TokenKind::Ident).map(|t| (u32::from(t.range.start()) as usize, u32::from(t.range.end()) as usize)).collect();
        if idents.is_empty() { continue; }
        let mut names: Vec<String> = idents.iter().map(|(a, b)| src[*a..*b].to_string()).collect(); names.sort(); names.dedup();
        // names declared as parameters, enumeration values or struct fields (lower-cased)
        let mut excluded: std::collections::BTreeSet<String> = std::collections::BTreeSet::new();
        {
            let toks: Vec<_> = lex(&src).into_iter().filter(|t| !t.kind.is_trivia()).collect();
            let text = |i: usize| src[u32::from(toks[i].range.start()) as usize..u32::from(toks[i].range.end()) as usize].to_ascii_uppercase();
            let mut mode = 0u8; // 1 parameter block, 2 struct, 3 enum list
            let mut i = 0;
            while i < toks.len() {
                let t = text(i);
                match t.as_str() {
                    "VAR_INPUT" | "VAR_OUTPUT" | "VAR_IN_OUT" => mode = 1,
                    "END_VAR" => mode = 0,
                    "STRUCT" => mode = 2,
                    "END_STRUCT" => mode = 0,
                    _ => {}
                }
                // `Name : ( A, B, C )` inside TYPE: an enumeration
                if toks[i].kind == TokenKind::LParen && i >= 2 && toks[i - 1].kind == TokenKind::Colon {
                    mode = 3;
                    if toks[i - 2].kind == TokenKind::Ident { excluded.insert(text(i - 2).to_ascii_lowercase()); } // the enumeration type: used as Type#Value
                }
                if toks[i].kind == TokenKind::RParen && mode == 3 { mode = 0; }
                if toks[i].kind == TokenKind::Ident {
                    let declared = mode == 1 && i + 1 < toks.len() && (toks[i + 1].kind == TokenKind::Colon || toks[i + 1].kind == TokenKind::Comma);
                    if declared || mode == 3 { excluded.insert(t.to_ascii_lowercase()); }
                }
                i += 1;
            }
        }
        let idents: Vec<(usize, usize)> = idents.into_iter().filter(|(a, b)| !excluded.contains(&src[*a..*b].to_ascii_lowercase())).collect();
        if idents.is_empty() { continue; }
        for k in 0..per {
            let (a, b) = *rng.pick(&idents);
            let old = src[a..b].to_string();
            let new = if rng.chance(1, 2) { format!("zq{}_new", (b'a' + (k % 26) as u8) as char) } else { rng.pick(&names).clone() };
            if new.eq_ignore_ascii_case(&old) { continue; }
            let pos = a + rng.below((b - a) as u64) as usize;
            let r = std::panic::catch_unwind(std::panic::AssertUnwindSafe(|| trust_ide::rename::rename(&db, FileId(0), TextSize::from(pos as u32), &new)));
            let Ok(r) = r else { writeln!(out, "{name} {a} {old} {new} : ERROR rename panicked").unwrap(); continue };
            match r {
                None => writeln!(out, "{name} {a} {old} {new} : refused").unwrap(),
                Some(res) => {
                    let mut text = src.clone();
                    let mut edits_ok = true;
                    let mut all: Vec<(usize, usize, String)> = vec![];
                    for (fid, edits) in res.edits.iter() {
                        if fid.0 != 0 { edits_ok = false; continue; }
                        for e in edits.iter() { all.push((usize::from(e.range.start()), usize::from(e.range.end()), e.new_text.clone())); }
                    }
                    all.sort();
                    for w in all.windows(2) { if w[0].1 > w[1].0 { edits_ok = false; } }
                    for (x, y, t) in all.iter().rev() {
                        if *y > text.len() || x > y || !text.is_char_boundary(*x) || !text.is_char_boundary(*y) { edits_ok = false; continue; }
                        if !src[*x..*y].eq_ignore_ascii_case(&old) || *t != new { edits_ok = false; }
                        text.replace_range(*x..*y, t);
                    }
                    let diag_same = errors(&load(&text)) == 0;
                    let after = behaviour(&text);
                    writeln!(out, "{name} {a} {old} {new} : e{} d{} b{}", edits_ok as u8, diag_same as u8, (after == before) as u8).unwrap();
                }
            }
        }
    }
    out.flush().unwrap();
}
