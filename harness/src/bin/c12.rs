//! C12 harness: lexing and parsing of arbitrary texts, observed through the trust-syntax verif hook.
//!   c12 gen <n> <cases> <repo>     write n inputs `<id> : <hex utf-8>` (corpus files from <repo>, mutations, token soups, random text, deep nesting)
//!   c12 run <cases> <out>          evaluate in child processes (a stack overflow kills only the child -> PANIC line)
//!   c12 child <cases> <out> <start>
//! Result line:  <id> : <hex> : ki kd kdd | nraw (kind trivia start end)… | ntok (kind trivia start end)… | nev events… | tree… | nerr (s e)… | pure shape
//!               or  <id> : <hex> : PANIC
use logos::Logos;
use std::io::{BufRead, Write};
use trust_syntax::parser::event::Event;
use trust_syntax::parser::{parse, verif_parse_events};
use trust_syntax::{lex, SyntaxKind, SyntaxNode, TokenKind};
use vh::Rng;

fn hex(b: &[u8]) -> String { b.iter().map(|x| format!("{x:02x}")).collect() }
fn unhex(s: &str) -> Vec<u8> { (0..s.len() / 2).map(|i| u8::from_str_radix(&s[2 * i..2 * i + 2], 16).unwrap_or(0)).collect() }
fn sk(k: TokenKind) -> u16 { SyntaxKind::from(k) as u16 }

const VOCAB: &[&str] = &["PROGRAM", "END_PROGRAM", "FUNCTION_BLOCK", "END_FUNCTION_BLOCK", "FUNCTION", "END_FUNCTION", "VAR", "VAR_INPUT", "END_VAR", "IF", "THEN", "ELSIF", "ELSE", "END_IF",
    "CASE", "OF", "END_CASE", "FOR", "TO", "BY", "DO", "END_FOR", "WHILE", "END_WHILE", "REPEAT", "UNTIL", "END_REPEAT", "TYPE", "END_TYPE", "STRUCT", "END_STRUCT", "ARRAY", "CONFIGURATION",
    "END_CONFIGURATION", "RESOURCE", "ON", "END_RESOURCE", "TASK", "WITH", "CLASS", "END_CLASS", "METHOD", "END_METHOD", "INTERFACE", "END_INTERFACE", "NAMESPACE", "END_NAMESPACE", "USING",
    ":=", "=>", ":", ";", ",", ".", "..", "(", ")", "[", "]", "+", "-", "*", "/", "**", "=", "<>", "<", ">", "<=", ">=", "&", "AND", "OR", "XOR", "NOT", "MOD", "#", "^", "@",
    "x", "y1", "_z", "Main", "INT", "BOOL", "REAL", "STRING", "TRUE", "FALSE", "1", "42", "1.", "1..5", "1.5", "1.5e3", "16#FF", "2#1010", "8#77", "1_000", "INT#5", "T#5s", "T#1h2m", "D#2024-01-01",
    "TOD#12:00:00", "DT#2024-01-01-12:00:00", "'str'", "'it$'s'", "\"w\"", "'unterminated", "(* c *)", "(* open", "// line\n", "/* b */", "{pragma}", "{open", "%IX0.0", "%QW1", "%MD10", "%I*", " ", "\n", "\t", "\r\n",
    "é", "ß", "日本", "🙂", "\u{feff}", "\u{0}", "$", "\\", "`", "~", "?", "!"];

fn corpus(repo: &str) -> Vec<String> {
    let mut out = Vec::new();
    let mut stack = vec![std::path::PathBuf::from(repo).join("examples"), std::path::PathBuf::from(repo).join("crates"), std::path::PathBuf::from(repo).join("docs")];
    while let Some(d) = stack.pop() {
        let Ok(rd) = std::fs::read_dir(&d) else { continue };
        let mut entries: Vec<_> = rd.flatten().map(|e| e.path()).collect();
        entries.sort();
        for p in entries {
            if p.is_dir() { if p.file_name().map(|n| n != "target" && n != "node_modules" && n != ".git").unwrap_or(false) { stack.push(p); } }
            else if p.extension().map(|e| e == "st").unwrap_or(false) {
                if let Ok(t) = std::fs::read_to_string(&p) { if t.len() <= 5000 && !t.is_empty() { out.push(t); } }
            }
        }
    }
    out.sort(); out.dedup();
    out
}
fn char_boundary(s: &str, mut i: usize) -> usize { while i < s.len() && !s.is_char_boundary(i) { i += 1; } i.min(s.len()) }

fn gen_input(rng: &mut Rng, corpus: &[String]) -> String {
    match rng.below(24) {
        // end-of-input boundaries: the text ends exactly at / inside a token that needs look-ahead (no trailing white space)
        20 | 21 => {
            const TAILS: &[&str] = &["1.", "1..", "1..5", "16#FF.", "1.5.", "1.5e", "1e", "16#", "2#", "T#", "T#5", "INT#", "x.", "x#", "%", "%I", "%IX0.", "'", "'a$", "\"", "(*", "(* a *", "/*", "/", "//", "{", ":", ":=", "=", "=>", "<", "<=", "<>", ">", ">=", "*", "**", ".", "..", "&", "^", "@", "$", "#", "-", "1_", "_", "é"];
            let pre = *rng.pick(&["", "x := ", "a : ARRAY[0..10] OF INT := [", "PROGRAM P\nVAR x : INT; END_VAR\nx := ", "a.", "f(", "1 + "]);
            let mut s = pre.to_string(); s += *rng.pick(TAILS);
            if rng.chance(1, 4) { s += *rng.pick(TAILS); }
            s
        }
        // a corpus file cut right after the dot that follows a digit (`0.` of `0..10`, `3.` of `3.14`) or at any token-internal position
        22 | 23 if !corpus.is_empty() => {
            let s = rng.pick(corpus).clone();
            let b = s.as_bytes();
            let cand: Vec<usize> = (1..b.len()).filter(|i| b[*i] == b'.' && b[*i - 1].is_ascii_digit()).map(|i| i + 1).collect();
            if cand.is_empty() || rng.chance(1, 3) { let a = char_boundary(&s, rng.below(s.len() as u64 + 1) as usize); s[..a].to_string() } else { s[..*rng.pick(&cand)].to_string() }
        }
        0..=3 if !corpus.is_empty() => rng.pick(corpus).clone(),
        4..=10 if !corpus.is_empty() => {
            let mut s = rng.pick(corpus).clone();
            for _ in 0..rng.range(1, 4) {
                let a = char_boundary(&s, rng.below(s.len() as u64 + 1) as usize);
                let b = char_boundary(&s, (a + rng.below(40) as usize).min(s.len()));
                match rng.below(6) {
                    0 => { s.replace_range(a..b, ""); }
                    1 => { let piece = s[a..b].to_string(); s.insert_str(a, &piece); }
                    2 => { s.insert_str(a, *rng.pick(VOCAB)); }
                    3 => { s.truncate(a); }
                    4 => { let other = rng.pick(corpus); let c = char_boundary(other, rng.below(other.len() as u64 + 1) as usize); let d = char_boundary(other, (c + rng.below(120) as usize).min(other.len())); s.insert_str(a, &other[c..d]); }
                    _ => { s.replace_range(a..b, *rng.pick(VOCAB)); }
                }
                if s.len() > 6000 { let c = char_boundary(&s, 6000); s.truncate(c); }
            }
            s
        }
        11..=14 => { let n = rng.range(1, 120); let mut s = String::new(); for _ in 0..n { s += *rng.pick(VOCAB); if rng.chance(2, 3) { s += " "; } } s }
        15 => { let n = rng.range(0, 200); (0..n).filter_map(|_| char::from_u32(match rng.below(4) { 0 => rng.below(128) as u32, 1 => rng.below(0x800) as u32, 2 => rng.below(0x10000) as u32, _ => rng.below(0x110000) as u32 })).collect() }
        16 => { let d = rng.range(50, 400) as usize; format!("PROGRAM P\nVAR x : INT; END_VAR\nx := {}1{};\nEND_PROGRAM\n", "(".repeat(d), ")".repeat(d)) }
        17 => { let d = rng.range(20, 150) as usize; format!("PROGRAM P\n{}x := 1;\n{}END_PROGRAM\n", "IF TRUE THEN\n".repeat(d), "END_IF;\n".repeat(d)) }
        18 => { let d = rng.range(20, 200) as usize; format!("TYPE T : {}INT; END_TYPE\n", "ARRAY[0..1] OF ".repeat(d)) }
        _ => { let d = rng.range(50, 400) as usize; format!("PROGRAM P\nx := {}1;\nEND_PROGRAM\n", "NOT -".repeat(d)) }
    }
}

fn encode_tree(node: &SyntaxNode, out: &mut Vec<String>) {
    let n = node.children_with_tokens().count();
    out.push(format!("0 {} {}", node.kind() as u16, n));
    for c in node.children_with_tokens() {
        match c {
            rowan::NodeOrToken::Node(n) => encode_tree(&n, out),
            rowan::NodeOrToken::Token(t) => out.push(format!("1 {} {}", t.kind() as u16, t.text().len())),
        }
    }
}
/// node kinds and non-trivia leaves (kind, text) in pre-order
fn shape(node: &SyntaxNode, out: &mut Vec<String>) {
    out.push(format!("N{}", node.kind() as u16));
    for c in node.children_with_tokens() {
        match c {
            rowan::NodeOrToken::Node(n) => shape(&n, out),
            rowan::NodeOrToken::Token(t) => if !t.kind().is_trivia() { out.push(format!("L{}:{}", t.kind() as u16, t.text())) },
        }
    }
    out.push("E".into());
}

fn eval_case(src: &str, rng: &mut Rng) -> String {
    let mut s = format!("{} {} {}", sk(TokenKind::IntLiteral), sk(TokenKind::Dot), sk(TokenKind::DotDot));
    // raw tokens of the generated lexer
    let mut lx = TokenKind::lexer(src);
    let mut raw = Vec::new();
    while let Some(k) = lx.next() { let sp = lx.span(); let k = k.unwrap_or(TokenKind::Error); raw.push((sk(k), k.is_trivia() as u8, sp.start, sp.end)); }
    s += &format!(" | {}", raw.len());
    for (k, t, a, b) in &raw { s += &format!(" {k} {t} {a} {b}"); }
    let (tokens, events, errors) = verif_parse_events(src);
    assert_eq!(tokens, lex(src));
    s += &format!(" | {}", tokens.len());
    for t in &tokens { s += &format!(" {} {} {} {}", sk(t.kind), t.kind.is_trivia() as u8, u32::from(t.range.start()), u32::from(t.range.end())); }
    s += &format!(" | {}", events.len());
    for e in &events {
        match e {
            Event::Start { kind, forward_parent } => s += &format!(" 0 {} {}", *kind as u16, forward_parent.map(|f| f + 1).unwrap_or(0)),
            Event::Token { kind, n_tokens } => s += &format!(" 1 {} {}", *kind as u16, n_tokens),
            Event::Finish => s += " 2",
            Event::Placeholder => s += " 3",
        }
    }
    let p = parse(src);
    let root = p.syntax();
    let mut enc = Vec::new(); encode_tree(&root, &mut enc);
    s += &format!(" | {}", enc.join(" "));
    // the tree text must be the input (checked here against rowan itself; the model re-derives the tree from tokens + events)
    let lossless = root.text().to_string() == src;
    let errs: Vec<_> = p.errors().iter().map(|e| (u32::from(e.range.start()), u32::from(e.range.end()))).collect();
    assert_eq!(errs.len(), errors.len());
    s += &format!(" | {}", errs.len());
    for (a, b) in &errs { s += &format!(" {a} {b}"); }
    // purity
    let p2 = parse(src);
    let mut enc2 = Vec::new(); encode_tree(&p2.syntax(), &mut enc2);
    let pure = lossless && enc2 == enc && p2.errors().len() == p.errors().len();
    // trivia insertion between two adjacent tokens of an error-free input
    let mut shape_flag = 2;
    if p.ok() && tokens.len() >= 2 {
        let i = 1 + rng.below(tokens.len() as u64 - 1) as usize;
        let at = u32::from(tokens[i].range.start()) as usize;
        let ins = *rng.pick(&[" ", "\n", "\t", "(* c *)", "  \n  ", "// c\n"]);
        let mut t = src.to_string(); t.insert_str(at, ins);
        let q = parse(&t);
        let (mut a, mut b) = (Vec::new(), Vec::new());
        shape(&root, &mut a); shape(&q.syntax(), &mut b);
        shape_flag = (a == b && q.ok()) as u8;
        if shape_flag == 0 && std::env::var("VERIF_SHOW_PANIC").is_ok() { eprintln!("SHAPE differs after inserting {ins:?} at {at} (token {i})"); }
    }
    s += &format!(" | {} {}", pure as u8, shape_flag);
    s
}

fn main() {
    if std::env::var("VERIF_SHOW_PANIC").is_err() { std::panic::set_hook(Box::new(|_| {})); }
    let args: Vec<String> = std::env::args().collect();
    match args[1].as_str() {
        "gen" => {
            let count: usize = args[2].parse().unwrap();
            let mut out = std::io::BufWriter::new(std::fs::File::create(&args[3]).expect("open"));
            let mut rng = Rng::new(vh::seed_from_env());
            let corp = corpus(&args[4]);
            for k in 0..count { let s = gen_input(&mut rng, &corp); writeln!(out, "c{k} : {}", hex(s.as_bytes())).unwrap(); }
            eprintln!("corpus files: {}", corp.len());
        }
        "run" => {
            let total = std::fs::read_to_string(&args[2]).expect("read").lines().count();
            let _ = std::fs::remove_file(&args[3]);
            let mut start = 0usize;
            let exe = std::env::current_exe().unwrap();
            while start < total {
                let status = std::process::Command::new(&exe).args(["child", &args[2], &args[3], &start.to_string()]).status().expect("spawn child");
                let done = std::fs::read_to_string(&args[3]).unwrap_or_default();
                let lines: Vec<&str> = done.lines().collect();
                let finished = lines.iter().filter(|l| !l.starts_with("BEGIN ")).count();
                if status.success() && finished >= total { break; }
                let cases = std::fs::read_to_string(&args[2]).unwrap();
                let pending = lines.last().filter(|l| l.starts_with("BEGIN ")).map(|l| l[6..].trim().parse::<usize>().unwrap_or(finished)).unwrap_or(finished);
                let case = cases.lines().nth(pending).unwrap_or("");
                let mut f = std::fs::OpenOptions::new().append(true).create(true).open(&args[3]).unwrap();
                writeln!(f, "{} : PANIC", case).unwrap();
                start = pending + 1;
            }
            let text = std::fs::read_to_string(&args[3]).unwrap_or_default();
            let kept: Vec<&str> = text.lines().filter(|l| !l.starts_with("BEGIN ")).collect();
            std::fs::write(&args[3], kept.join("\n") + "\n").unwrap();
        }
        "child" => {
            let start: usize = args[4].parse().unwrap();
            let f = std::fs::File::open(&args[2]).expect("open cases");
            let mut out = std::fs::OpenOptions::new().create(true).append(true).open(&args[3]).expect("open out");
            let mut rng = Rng::new(vh::seed_from_env() ^ 0x5151);
            for (k, line) in std::io::BufReader::new(f).lines().enumerate() {
                let line = line.unwrap();
                if k < start { continue; }
                let Some((id, hx)) = line.split_once(" : ") else { continue };
                writeln!(out, "BEGIN {k}").unwrap(); out.flush().unwrap();
                let bytes = unhex(hx.trim());
                let src = String::from_utf8_lossy(&bytes).to_string();
                let mut r2 = Rng::new(rng.next());
                let r = std::panic::catch_unwind(std::panic::AssertUnwindSafe(|| eval_case(&src, &mut r2)));
                match r { Ok(r) => writeln!(out, "{} : {} : {r}", id.trim(), hx.trim()).unwrap(), Err(_) => writeln!(out, "{} : {} : PANIC", id.trim(), hx.trim()).unwrap() }
                out.flush().unwrap();
            }
        }
        _ => eprintln!("usage: c12 gen|run|child …"),
    }
}
