//! ad-hoc probe: which phase overflows the stack on deep inputs?  c12probe <kind> <depth> <phase>
use trust_syntax::parser::parse;
fn main() {
    let a: Vec<String> = std::env::args().collect();
    let d: usize = a[2].parse().unwrap();
    let src = match a[1].as_str() {
        "paren" => format!("PROGRAM P\nx := {}1{};\nEND_PROGRAM\n", "(".repeat(d), ")".repeat(d)),
        "field" => format!("PROGRAM P\nx := {}b;\nEND_PROGRAM\n", "a.".repeat(d)),
        "plus" => format!("PROGRAM P\nx := {}1;\nEND_PROGRAM\n", "1 + ".repeat(d)),
        _ => String::new(),
    };
    eprintln!("lexing"); let toks = trust_syntax::lex(&src); eprintln!("tokens {}", toks.len());
    if a[3] == "lex" { return; }
    eprintln!("parsing"); let p = parse(&src); eprintln!("errors {}", p.errors().len());
    if a[3] == "parse" { std::mem::forget(p); return; }
    eprintln!("syntax()"); let root = p.syntax(); eprintln!("text len {}", u32::from(root.text().len()));
    if a[3] == "text" { std::mem::forget(root); std::mem::forget(p); return; }
    eprintln!("dropping"); drop(root); drop(p); eprintln!("dropped");
}
