//! C15 helper: the significant-token view of texts, computed with the real lexer.
//!   c15 canon   stdin: one text per line as hex utf-8;  stdout: per line  `<line> <kind> <hex text>` triples separated by ' | '
//!   c15 lines   same input; per text the formatter's view of each line: `<skip> <k> <kind>*` separated by ' | ' - skip = the line
//!               lies in a block comment / a token spanning lines / a pragma's continuation, or is blank; the kinds are those of the
//!               tokens the formatter assigns to the line (comments and pragmas excluded) - a transcription of the first loop of
//!               format_document; the model (Model/FmtIndent.v) classifies the lines from them
//!   c15 kinds   same input; `<Debug name>=<number>` for every token: cross-check of the translator's numbering
//!   every token except white space is significant; keyword texts are upper-cased (keywords compare case-insensitively);
//!   a token belongs to the line it starts on.
use std::io::BufRead;
use trust_syntax::{lex, TokenKind};
fn hex_in(line: &str) -> String {
    let bytes: Vec<u8> = (0..line.trim().len() / 2).map(|i| u8::from_str_radix(&line.trim()[2 * i..2 * i + 2], 16).unwrap_or(0)).collect();
    String::from_utf8_lossy(&bytes).to_string()
}
fn line_of(src: &str, off: usize) -> usize { src.as_bytes()[..off.min(src.len())].iter().filter(|b| **b == b'\n').count() }
fn canon(src: &str) -> String {
    let mut out = Vec::new();
    let mut ln = 0usize; let mut pos = 0usize;
    for t in lex(src) {
        let a = u32::from(t.range.start()) as usize; let b = u32::from(t.range.end()) as usize;
        ln += src[pos..a].matches('\n').count(); pos = a;
        if t.kind == TokenKind::Whitespace { continue; }
        let text = if t.kind.is_keyword() { src[a..b].to_ascii_uppercase() } else { src[a..b].to_string() };
        out.push(format!("{ln} {} {}", t.kind as u16, text.bytes().map(|x| format!("{x:02x}")).collect::<String>()));
    }
    out.join(" | ")
}
fn lines(src: &str) -> String {
    let texts: Vec<&str> = src.split('\n').collect();
    let n = texts.len();
    let mut skip = vec![false; n];
    let mut kinds: Vec<Vec<u16>> = vec![Vec::new(); n];
    for t in lex(src) {
        let a = u32::from(t.range.start()) as usize; let b = u32::from(t.range.end()) as usize;
        let first = line_of(src, a); let last = line_of(src, b.saturating_sub(1));
        match t.kind {
            TokenKind::BlockComment => { for i in first..=last { if i < n { skip[i] = true; } } continue; }
            TokenKind::LineComment => continue,
            TokenKind::Pragma => { for i in first + 1..=last { if i < n { skip[i] = true; } } continue; }
            k if k.is_trivia() => continue,
            _ => {}
        }
        if last > first || src[a..b].contains('\n') { for i in first..=last { if i < n { skip[i] = true; } } }
        if first < n { kinds[first].push(t.kind as u16); }
    }
    (0..n).map(|i| {
        let blank = texts[i].trim().is_empty();
        format!("{} {}{}", (skip[i] || blank) as u8, kinds[i].len(), kinds[i].iter().map(|k| format!(" {k}")).collect::<String>())
    }).collect::<Vec<_>>().join(" | ")
}
fn kinds(src: &str) -> String {
    lex(src).into_iter().filter(|t| t.kind != TokenKind::Whitespace).map(|t| format!("{:?}={}", t.kind, t.kind as u16)).collect::<Vec<_>>().join(" ")
}
fn main() {
    let mode = std::env::args().nth(1).unwrap_or_else(|| "canon".into());
    let stdin = std::io::stdin();
    for line in stdin.lock().lines() {
        let src = hex_in(&line.unwrap());
        let m = mode.clone();
        let r = std::panic::catch_unwind(move || match m.as_str() { "lines" => lines(&src), "kinds" => kinds(&src), _ => canon(&src) });
        match r { Ok(s) => println!("{s}"), Err(_) => println!("PANIC") }
    }
}
