//! C15 helper: the significant-token view of texts, computed with the real lexer.
//!   c15 canon   stdin: one text per line as hex utf-8;  stdout: per line  `<line> <kind> <hex text>` triples separated by ' | '
//!   every token except white space is significant; keyword texts are upper-cased (keywords compare case-insensitively);
//!   a token belongs to the line it starts on.
use std::io::BufRead;
use trust_syntax::{lex, TokenKind};
fn main() {
    let stdin = std::io::stdin();
    for line in stdin.lock().lines() {
        let line = line.unwrap();
        let bytes: Vec<u8> = (0..line.trim().len() / 2).map(|i| u8::from_str_radix(&line.trim()[2 * i..2 * i + 2], 16).unwrap_or(0)).collect();
        let src = String::from_utf8_lossy(&bytes).to_string();
        let r = std::panic::catch_unwind(|| {
            let mut out = Vec::new();
            let mut ln = 0usize; let mut pos = 0usize;
            for t in lex(&src) {
                let a = u32::from(t.range.start()) as usize; let b = u32::from(t.range.end()) as usize;
                ln += src[pos..a].matches('\n').count(); pos = a;
                if t.kind == TokenKind::Whitespace { continue; }
                let text = if t.kind.is_keyword() { src[a..b].to_ascii_uppercase() } else { src[a..b].to_string() };
                out.push(format!("{ln} {} {}", t.kind as u16, text.bytes().map(|x| format!("{x:02x}")).collect::<String>()));
            }
            out.join(" | ")
        });
        match r { Ok(s) => println!("{s}"), Err(_) => println!("PANIC") }
    }
}
