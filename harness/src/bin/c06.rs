//! C06 harness: task configurations x timelines through the real compiler + scheduler.
//! Line format:  <id> : <tasks> : <cycles> : <results>
//!   tasks   = nt { interval single(-1=none) prio np p.. } ns { init } nprog
//!   cycles  = per cycle: now s_0..s_{ns-1}
//!   results = per cycle: k prog.. (executed program indices in order) then nt overrun counts
use std::io::Write;
use trust_runtime::harness::TestHarness;
use trust_runtime::value::{Duration, Value};
use vh::Rng;

#[derive(Clone, Debug)]
struct Task {
    interval: i64, // ns
    single: i64,   // -1 none
    prio: u32,
    progs: Vec<usize>,
}
#[derive(Clone, Debug)]
struct Case {
    tasks: Vec<Task>,
    singles: Vec<bool>,
    nprog: usize,
    cycles: Vec<(i64, Vec<bool>)>,
}

fn source(c: &Case) -> String {
    let mut s = String::from("CONFIGURATION C\nVAR_GLOBAL\n  seq : DINT := 0;\n");
    for (k, v) in c.singles.iter().enumerate() {
        s += &format!("  s{k} : BOOL := {};\n", if *v { "TRUE" } else { "FALSE" });
    }
    s += "END_VAR\n";
    for (k, t) in c.tasks.iter().enumerate() {
        if t.single >= 0 {
            s += &format!("TASK T{k} (SINGLE := s{}, INTERVAL := T#{}us, PRIORITY := {});\n", t.single, t.interval / 1000, t.prio);
        } else {
            s += &format!("TASK T{k} (INTERVAL := T#{}us, PRIORITY := {});\n", t.interval / 1000, t.prio);
        }
    }
    for p in 0..c.nprog {
        match c.tasks.iter().position(|t| t.progs.contains(&p)) {
            Some(k) => s += &format!("PROGRAM P{p} WITH T{k} : Prog{p};\n"),
            None => s += &format!("PROGRAM P{p} : Prog{p};\n"),
        }
    }
    s += "END_CONFIGURATION\n";
    for p in 0..c.nprog {
        s += &format!("\nPROGRAM Prog{p}\nVAR_EXTERNAL\n  seq : DINT;\nEND_VAR\nVAR\n  ord : DINT := 0;\n  cnt : DINT := 0;\nEND_VAR\nseq := seq + 1;\nord := seq;\ncnt := cnt + 1;\nEND_PROGRAM\n");
    }
    s
}

fn as_i64(v: Option<&Value>) -> i64 {
    match v {
        Some(Value::SInt(x)) => *x as i64,
        Some(Value::Int(x)) => *x as i64,
        Some(Value::DInt(x)) => *x as i64,
        Some(Value::LInt(x)) => *x,
        other => panic!("unexpected counter value {other:?}"),
    }
}

fn run_case(c: &Case) -> Result<Vec<(Vec<usize>, Vec<u64>)>, String> {
    let src = source(c);
    let mut h = TestHarness::from_source(&src).map_err(|e| format!("compile: {e:?} :: {}", src.replace('\n', "\\n")))?;
    let ids: Vec<_> = (0..c.nprog)
        .map(|p| match h.runtime().storage().get_global(&format!("P{p}")) {
            Some(Value::Instance(id)) => *id,
            other => panic!("program instance P{p}: {other:?}"),
        })
        .collect();
    let mut prev_cnt = vec![0i64; c.nprog];
    let mut out = Vec::new();
    for (now, sv) in &c.cycles {
        h.runtime_mut().set_current_time(Duration::from_nanos(*now));
        for (k, v) in sv.iter().enumerate() {
            h.runtime_mut().storage_mut().set_global(format!("s{k}"), Value::Bool(*v));
        }
        let res = h.cycle();
        if !res.errors.is_empty() {
            return Err(format!("cycle error {:?}", res.errors));
        }
        let st = h.runtime().storage();
        let mut ran: Vec<(i64, usize)> = Vec::new();
        for p in 0..c.nprog {
            let cnt = as_i64(st.get_instance_var(ids[p], "cnt"));
            if cnt == prev_cnt[p] + 1 {
                ran.push((as_i64(st.get_instance_var(ids[p], "ord")), p));
            } else if cnt != prev_cnt[p] {
                return Err(format!("program P{p} ran {} times in one cycle", cnt - prev_cnt[p]));
            }
            prev_cnt[p] = cnt;
        }
        ran.sort();
        let ov: Vec<u64> = (0..c.tasks.len())
            .map(|k| h.runtime().task_overrun_count(&format!("T{k}")).unwrap_or(u64::MAX))
            .collect();
        out.push((ran.into_iter().map(|x| x.1).collect(), ov));
    }
    Ok(out)
}

fn gen_case(rng: &mut Rng) -> Case {
    let nt = rng.range(1, 6) as usize;
    let ns = rng.range(0, 3) as usize;
    let singles: Vec<bool> = (0..ns).map(|_| rng.chance(1, 3)).collect();
    let base_iv: i64 = *rng.pick(&[1_000i64, 5_000, 10_000, 1_000_000, 7_000]);
    let mut tasks: Vec<Task> = (0..nt)
        .map(|_| {
            let single = if ns > 0 && rng.chance(1, 2) { rng.below(ns as u64) as i64 } else { -1 };
            let interval = if single >= 0 && rng.chance(1, 2) {
                0
            } else {
                match rng.below(5) {
                    0 => 0,
                    1 => base_iv,
                    2 => base_iv * 2,
                    3 => base_iv * rng.range(1, 5),
                    _ => *rng.pick(&[1_000i64, 3_000, 10_000, 250_000]),
                }
            };
            Task { interval, single, prio: rng.below(3) as u32 + if rng.chance(1, 8) { 1000 } else { 0 }, progs: vec![] }
        })
        .collect();
    let nprog = rng.range(1, 8) as usize;
    for p in 0..nprog {
        if rng.chance(4, 5) {
            let k = rng.below(nt as u64) as usize;
            tasks[k].progs.push(p);
        }
    }
    let ncyc = rng.range(1, 30) as usize;
    let mut now: i64 = 0;
    let mut cur = singles.clone();
    let mut cycles = Vec::new();
    for _ in 0..ncyc {
        let iv = if rng.chance(1, 2) { base_iv } else { tasks[rng.below(nt as u64) as usize].interval.max(1000) };
        let dt = match rng.below(12) {
            0 => 0,
            1 => 1,
            2 => iv - 1,
            3 | 4 => iv,
            5 => iv + 1,
            6 => 2 * iv,
            7 => 2 * iv - 1,
            8 => 3 * iv + rng.range(0, 5),
            9 => iv * rng.range(4, 40),
            10 => rng.range(0, 1 << 40),
            _ => iv / 2,
        };
        if rng.chance(1, 30) && now > 0 {
            now -= rng.range(0, now.min(20_000));
        } else {
            now = now.saturating_add(dt).min(1 << 61);
        }
        for v in cur.iter_mut() {
            if rng.chance(1, 3) {
                *v = !*v;
            }
        }
        cycles.push((now, cur.clone()));
    }
    Case { tasks, singles, nprog, cycles }
}

fn fmt_case(id: &str, c: &Case, res: Option<&[(Vec<usize>, Vec<u64>)]>) -> String {
    let mut s = format!("{id} : {}", c.tasks.len());
    for t in &c.tasks {
        s += &format!(" {} {} {} {}", t.interval, t.single, t.prio, t.progs.len());
        for p in &t.progs {
            s += &format!(" {p}");
        }
    }
    s += &format!(" {}", c.singles.len());
    for v in &c.singles {
        s += &format!(" {}", *v as u8);
    }
    s += &format!(" {} :", c.nprog);
    for (now, sv) in &c.cycles {
        s += &format!(" {now}");
        for v in sv {
            s += &format!(" {}", *v as u8);
        }
    }
    s += " :";
    if let Some(res) = res {
        for (seq, ov) in res {
            s += &format!(" {}", seq.len());
            for p in seq {
                s += &format!(" {p}");
            }
            for o in ov {
                s += &format!(" {o}");
            }
        }
    }
    s
}

fn parse_case(line: &str) -> Option<(String, Case)> {
    let parts: Vec<&str> = line.split(':').collect();
    if parts.len() < 3 {
        return None;
    }
    let id = parts[0].trim().to_string();
    let t: Vec<i64> = parts[1].split_whitespace().map(|x| x.parse().unwrap()).collect();
    let mut i = 0;
    let nt = t[i] as usize;
    i += 1;
    let mut tasks = Vec::new();
    for _ in 0..nt {
        let (interval, single, prio, np) = (t[i], t[i + 1], t[i + 2] as u32, t[i + 3] as usize);
        i += 4;
        let progs = t[i..i + np].iter().map(|x| *x as usize).collect();
        i += np;
        tasks.push(Task { interval, single, prio, progs });
    }
    let ns = t[i] as usize;
    i += 1;
    let singles: Vec<bool> = t[i..i + ns].iter().map(|x| *x != 0).collect();
    i += ns;
    let nprog = t[i] as usize;
    let c: Vec<i64> = parts[2].split_whitespace().map(|x| x.parse().unwrap()).collect();
    let cycles = c.chunks(ns + 1).map(|ch| (ch[0], ch[1..].iter().map(|x| *x != 0).collect())).collect();
    Some((id, Case { tasks, singles, nprog, cycles }))
}

fn main() {
    let args: Vec<String> = std::env::args().collect();
    if args.get(1).map(|s| s.as_str()) == Some("--replay") {
        let text = std::fs::read_to_string(&args[2]).expect("read");
        let mut out = std::io::BufWriter::new(std::fs::File::create(&args[3]).expect("open"));
        for line in text.lines() {
            if let Some((id, c)) = parse_case(line) {
                match run_case(&c) {
                    Ok(res) => writeln!(out, "{}", fmt_case(&id, &c, Some(&res))).unwrap(),
                    Err(e) => writeln!(out, "{id} ERROR {e}").unwrap(),
                }
            }
        }
        return;
    }
    let count: usize = args.get(1).and_then(|s| s.parse().ok()).unwrap_or(100);
    let outp = args.get(2).cloned().unwrap_or_else(|| "/dev/stdout".into());
    let mut out = std::io::BufWriter::new(std::fs::File::create(&outp).expect("open output"));
    let mut rng = Rng::new(vh::seed_from_env());
    for k in 0..count {
        let c = gen_case(&mut rng);
        match run_case(&c) {
            Ok(res) => writeln!(out, "{}", fmt_case(&format!("c{k}"), &c, Some(&res))).unwrap(),
            Err(e) => writeln!(out, "c{k} ERROR {e}").unwrap(),
        }
    }
}
