//! C17 harness: a cycle thread runs an ST program (two tasks, nested calls, loops) while a controller thread issues
//! debugger commands; the debugger's own trace (ST_DEBUG_TRACE=1, ST_DEBUG_TRACE_LOG=<file>, written under the state
//! mutex) is turned into events for the model judge, and the final state is compared with an undebugged run.
//!   c17 <n> <out> <logfile>            generate n cases from VERIF_SEED
//!   c17 --replay <in> <out> <logfile>  re-run the cases whose ids (c<k>_<seed>) appear in <in>
//! Line:  <id> : <events> : <a k b | a k b> hang stops_on_channel sync ncmds cyc_err timed_resumes
//! events: 1 depth hasloc cur mode tgt pend nsteps bp sk kind target should k r1..rk end | 2 mode k r1..rk end | 3 act thread outcome before after
use std::io::{Read, Seek, SeekFrom, Write};
use std::sync::mpsc::channel;
use std::thread;
use std::time::{Duration as StdDuration, Instant};
use trust_runtime::debug::{ControlAction, DebugBreakpoint, DebugControl};
use trust_runtime::harness::{CompileSession, SourceFile};
use trust_runtime::value::{Duration, Value};
use trust_runtime::Runtime;
use vh::Rng;

const CYCLES: usize = 12;

fn source(rng: &mut Rng) -> String {
    let n1 = rng.range(1, 3);
    let mut s = String::new();
    s += "FUNCTION Leaf : DINT\nVAR_INPUT x : DINT; END_VAR\n  Leaf := x + 1;\n  Leaf := Leaf MOD 1000;\nEND_FUNCTION\n";
    s += &format!("FUNCTION Mid : DINT\nVAR_INPUT x : DINT; END_VAR\nVAR i : DINT; END_VAR\n  Mid := x;\n  FOR i := 1 TO {n1} DO\n    Mid := Leaf(Mid);\n  END_FOR;\n  Mid := Mid + 2;\nEND_FUNCTION\n");
    s += "CONFIGURATION C\nRESOURCE R ON PLC\nTASK T1 (INTERVAL := T#10ms, PRIORITY := 1);\nTASK T2 (INTERVAL := T#10ms, PRIORITY := 2);\nPROGRAM P1 WITH T1 : Main;\nPROGRAM P2 WITH T2 : Aux;\nEND_RESOURCE\nEND_CONFIGURATION\n";
    s += "PROGRAM Main\nVAR a : DINT; k : DINT; END_VAR\n";
    for _ in 0..rng.range(3, 8) {
        match rng.below(6) {
            0 => s += "  a := a + 1;\n",
            1 => s += "  a := Mid(a);\n",
            2 => s += "  a := Leaf(a) + Mid(k);\n",
            3 => s += &format!("  k := 0;\n  WHILE k < {} DO\n    k := k + 1;\n    a := a + Leaf(k);\n  END_WHILE;\n", rng.range(1, 3)),
            4 => s += "  IF a > 500 THEN\n    a := a - 500;\n  END_IF;\n",
            _ => s += "  a := a MOD 1000;\n",
        }
    }
    s += "  a := a MOD 1000;\nEND_PROGRAM\nPROGRAM Aux\nVAR b : DINT; END_VAR\n  b := b + 1;\n";
    if rng.chance(1, 2) { s += "  b := Leaf(b);\n"; }
    if rng.chance(1, 2) { s += "  b := Mid(b) MOD 1000;\n"; }
    s += "END_PROGRAM\n";
    s
}

fn dint(v: Option<&Value>) -> String {
    match v { Some(Value::DInt(x)) => x.to_string(), other => format!("?{other:?}").replace(' ', "_") }
}
fn observe(rt: &Runtime) -> String {
    let st = rt.storage();
    let inst = |p: &str| match st.get_global(p) { Some(Value::Instance(id)) => Some(*id), _ => None };
    let get = |p: &str, v: &str| inst(p).map(|id| dint(st.get_instance_var(id, v))).unwrap_or_else(|| "?noinst".into());
    format!("{} {} {}", get("P1", "a"), get("P1", "k"), get("P2", "b"))
}
fn build(src: &str) -> Runtime {
    CompileSession::from_sources(vec![SourceFile::with_path("main.st", src)]).build_runtime().unwrap_or_else(|e| panic!("compile: {e:?}\n{src}"))
}
fn run_cycles(rt: &mut Runtime) -> usize {
    let mut errs = 0;
    for _ in 0..CYCLES {
        rt.advance_time(Duration::from_millis(10));
        if rt.execute_cycle().is_err() { errs += 1; }
    }
    errs
}

fn log_text(path: &str) -> String {
    let mut t = String::new();
    if let Ok(mut f) = std::fs::File::open(path) { let _ = f.seek(SeekFrom::Start(0)); let _ = f.read_to_string(&mut t); }
    t
}
/// (number of wake-ups so far, is the cycle thread parked right now) — exact, because the trace is written under the
/// state mutex and only this controller can un-park the thread
fn wake_state(path: &str) -> (usize, bool) {
    let (mut wakes, mut parked) = (0, false);
    for l in log_text(path).lines() {
        if l.contains("] hook.wake ") { wakes += 1; parked = false; } else if l.contains("] hook.wait ") { parked = true; }
    }
    (wakes, parked)
}

fn field<'a>(line: &'a str, key: &str) -> &'a str {
    let pat = format!("{key}=");
    match line.find(&pat) {
        Some(i) => { let rest = &line[i + pat.len()..]; rest.split(' ').next().unwrap_or("") }
        None => "",
    }
}
fn opt_num(s: &str) -> i64 { if s.starts_with("Some(") { s[5..].trim_end_matches(')').parse().unwrap_or(-1) } else { 0 } }
fn mode_num(s: &str) -> i64 { if s.starts_with("Paused") { 1 } else { 0 } }
fn reason_num(s: &str) -> i64 {
    let s = s.trim_start_matches("Some(").trim_end_matches(')');
    match s { "Pause" => 1, "Step" => 2, "Breakpoint" => 3, "Entry" => 4, _ => 0 }
}
fn kind_num(s: &str) -> i64 { match s { "Into" => 0, "Over" => 1, _ => 2 } }

/// the trace lines of one case -> event tokens
fn events(log: &str) -> Result<Vec<i64>, String> {
    let mut out = Vec::new();
    // current open segment: (header tokens, bp, step tokens, stops)
    let mut seg: Option<(Vec<i64>, i64, [i64; 4], Vec<i64>, bool)> = None;
    for raw in log.lines() {
        let Some(msg) = raw.strip_prefix("## [trust-runtime][debug] ") else { continue };
        if msg.starts_with("action=") {
            if seg.is_some() { return Err(format!("action line inside a hook segment: {msg}")); }
            let a = field(msg, "action");
            let (name, arg) = match a.find('(') { Some(i) => (&a[..i], &a[i + 1..a.len() - 1]), None => (a, "None") };
            let code = match name { "Pause" => 0, "Continue" => 1, "StepIn" => 2, "StepOver" => 3, "StepOut" => 4, _ => return Err(format!("action {a}")) };
            let m = field(msg, "mode");
            let (b, af) = m.split_once("->").ok_or("mode arrow")?;
            out.extend([3, code, opt_num(arg), if field(msg, "outcome") == "Applied" { 0 } else { 1 }, mode_num(b), mode_num(af)]);
        } else if msg.starts_with("hook.entry") {
            if seg.is_some() { return Err("hook.entry inside a segment".into()); }
            let hdr = vec![1, field(msg, "depth").parse().unwrap_or(-1), (field(msg, "location") != "<none>") as i64, opt_num(field(msg, "current_thread")),
                           mode_num(field(msg, "mode")), opt_num(field(msg, "target_thread")), reason_num(field(msg, "pending_stop")), field(msg, "steps").parse().unwrap_or(-1)];
            seg = Some((hdr, 2, [0, 0, 0, 0], Vec::new(), false));
        } else if msg.starts_with("hook.wake") {
            if seg.is_some() { return Err("hook.wake inside a segment".into()); }
            seg = Some((vec![2, mode_num(field(msg, "mode"))], 2, [0, 0, 0, 0], Vec::new(), true));
        } else if msg.starts_with("hook.step.arm") {
            if let Some(s) = seg.as_mut() { s.2 = [1, kind_num(field(msg, "kind")), field(msg, "target_depth").parse().unwrap_or(-1), 0]; }
        } else if msg.starts_with("hook.step.check") {
            if let Some(s) = seg.as_mut() { s.2 = [2, kind_num(field(msg, "kind")), field(msg, "target_depth").parse().unwrap_or(-1), (field(msg, "should_pause") == "true") as i64]; }
        } else if msg.starts_with("hook.breakpoint.check") {
            if let Some(s) = seg.as_mut() { s.1 = field(msg, "matched_generation").starts_with("Some") as i64; }
        } else if msg.starts_with("stop reason=") {
            match seg.as_mut() { Some(s) => s.3.push(reason_num(field(msg, "reason"))), None => return Err("stop outside a segment".into()) }
        } else if msg.starts_with("hook.exit") || msg.starts_with("hook.wait") {
            let Some((hdr, bp, st, stops, is_wake)) = seg.take() else { return Err("segment end without start".into()) };
            let end = if msg.starts_with("hook.wait") { 2 } else if field(msg, "reason") == "running" { 0 } else { 1 };
            out.extend(hdr);
            if !is_wake { out.push(bp); out.extend(st); }
            out.push(stops.len() as i64); out.extend(stops); out.push(end);
        }
    }
    if seg.is_some() { return Err("trace ends inside a hook segment".into()); }
    Ok(out)
}

fn run_case(seed: u64, logpath: &str) -> Result<String, String> {
    let mut rng = Rng::new(seed);
    let src = source(&mut rng);
    let nlines = src.lines().count() as u32;
    // undebugged run
    let mut plain = build(&src);
    let plain_errs = run_cycles(&mut plain);
    let plain_obs = observe(&plain);
    // debugged run
    let _ = std::fs::OpenOptions::new().write(true).create(true).open(logpath).and_then(|f| f.set_len(0));
    let mut rt = build(&src);
    let lines_with_stmt: Vec<_> = (0..nlines).filter_map(|l| rt.resolve_breakpoint_location(&src, 0, l, 0)).collect();
    let control: DebugControl = rt.enable_debug();
    let (tx, rx) = channel();
    control.set_stop_sender(tx);
    let sync = rng.chance(1, 2);
    let set_bps = |rng: &mut Rng, control: &DebugControl| {
        let mut bps = Vec::new();
        for _ in 0..rng.range(1, 3) { if !lines_with_stmt.is_empty() { bps.push(DebugBreakpoint::new(*rng.pick(&lines_with_stmt))); } }
        control.set_breakpoints_for_file(0, bps);
    };
    // arm something before the thread starts so that it parks early
    match rng.below(4) { 0 => { let _ = control.apply_action(ControlAction::Pause(None)); } 1 => set_bps(&mut rng, &control), 2 => { let _ = control.apply_action(ControlAction::Pause(Some(rng.range(1, 2) as u32))); } _ => {} }
    let handle = thread::spawn(move || { let errs = run_cycles(&mut rt); (rt, errs) });
    let mut stops = 0usize; let mut hang = 0; let mut ncmds = 0; let mut timed = 0;
    let nscript = rng.range(4, 30);
    let thr = |rng: &mut Rng| match rng.below(6) { 0 => Some(1u32), 1 => Some(2), 2 => Some(3), _ => None };
    for _ in 0..nscript {
        let cmd = rng.below(12);
        let resume = matches!(cmd, 2..=8);
        if sync && resume && !wake_state(logpath).1 {
            if let Ok(_s) = rx.recv_timeout(StdDuration::from_millis(20)) { stops += 1; }
        }
        while let Ok(_s) = rx.try_recv() { stops += 1; }
        let (wakes_before, parked) = if resume { wake_state(logpath) } else { (0, false) };
        ncmds += 1;
        match cmd {
            0 => { let _ = control.apply_action(ControlAction::Pause(None)); }
            1 => { let _ = control.apply_action(ControlAction::Pause(thr(&mut rng))); }
            2 | 3 => { let _ = control.apply_action(ControlAction::Continue); }
            4 | 5 => { let _ = control.apply_action(ControlAction::StepIn(thr(&mut rng))); }
            6 | 7 => { let _ = control.apply_action(ControlAction::StepOver(thr(&mut rng))); }
            8 => { let _ = control.apply_action(ControlAction::StepOut(thr(&mut rng))); }
            9 | 10 => set_bps(&mut rng, &control),
            _ => control.clear_breakpoints(),
        }
        if resume && parked {
            // every continue / step issued while the thread is parked must un-park it
            timed += 1;
            let t0 = Instant::now();
            loop {
                if wake_state(logpath).0 > wakes_before || handle.is_finished() { break; }
                if t0.elapsed() > StdDuration::from_secs(20) { hang = 1; break; }
                thread::sleep(StdDuration::from_micros(200));
            }
            if hang != 0 { break; }
        }
        match rng.below(4) { 0 => {} 1 => { for _ in 0..rng.below(3000) { std::hint::spin_loop(); } } 2 => thread::yield_now(), _ => thread::sleep(StdDuration::from_micros(rng.below(300))) }
    }
    // wind down: nothing can pause after this
    control.clear_breakpoints();
    let _ = control.apply_action(ControlAction::Continue);
    let t0 = Instant::now();
    while !handle.is_finished() {
        if t0.elapsed() > StdDuration::from_secs(30) { hang = if hang == 0 { 2 } else { hang }; break; }
        thread::sleep(StdDuration::from_millis(1));
    }
    while let Ok(_s) = rx.try_recv() { stops += 1; }
    let (dbg_obs, errs) = if handle.is_finished() {
        let (rt, errs) = handle.join().map_err(|_| "cycle thread panicked".to_string())?;
        (observe(&rt), errs)
    } else { ("? ? ?".to_string(), 0) };
    let ev = events(&log_text(logpath))?;
    let evs: Vec<String> = ev.iter().map(|x| x.to_string()).collect();
    Ok(format!("{} : {dbg_obs} | {plain_obs} {hang} {stops} {} {ncmds} {} {timed}", evs.join(" "), sync as u8, errs + plain_errs))
}

fn main() {
    let args: Vec<String> = std::env::args().collect();
    if std::env::var_os("ST_DEBUG_TRACE").is_none() { eprintln!("ST_DEBUG_TRACE / ST_DEBUG_TRACE_LOG must be set by the caller"); std::process::exit(2); }
    if args.get(1).map(|s| s.as_str()) == Some("--replay") {
        let text = std::fs::read_to_string(&args[2]).expect("read");
        let mut out = std::io::BufWriter::new(std::fs::File::create(&args[3]).expect("open"));
        for line in text.lines() {
            let id = line.split(':').next().unwrap_or("").trim().to_string();
            if let Some(seed) = id.split('_').nth(1).and_then(|s| s.parse::<u64>().ok()) {
                match run_case(seed, &args[4]) { Ok(l) => writeln!(out, "{id} : {l}").unwrap(), Err(e) => writeln!(out, "{id} ERROR {e}").unwrap() }
            }
        }
        return;
    }
    let count: usize = args[1].parse().unwrap();
    let mut out = std::io::BufWriter::new(std::fs::File::create(&args[2]).expect("open output"));
    let mut rng = Rng::new(vh::seed_from_env());
    for k in 0..count {
        let seed = rng.next() >> 1;
        match run_case(seed, &args[3]) { Ok(l) => writeln!(out, "c{k}_{seed} : {l}").unwrap(), Err(e) => writeln!(out, "c{k}_{seed} ERROR {e}").unwrap() }
    }
}
