//! C18 harness: sends every request type x credential x endpoint configuration through the REAL
//! control server (unix socket transport) and classifies the reply; state probes tell whether
//! anything changed.
//!   usage: c18 <kinds-file> <out-file>        kinds-file: one request type per line (index = line no.)
//! Output line:  <id> : <kind-index> <cred> <token_set> <debug_on> <has_params> <key-index> <key as hex or -> : <class> <need> <changed> <has_result> <admin_changed>
//!   key-index (config.set only): index into CONFIG_KEYS - an ordinary key, the four admin-only keys and other spellings of them;
//!   admin_changed: the auth token, the control mode, web.auth or mesh.auth_token differ after the request
//!   cred: 0 none 1 wrong 2 admin-token 3 pair-viewer 4 pair-operator 5 pair-engineer 6 revoked 7 expired
//!         8 empty string 9 prefix of the token 10 token+suffix 11 lower-cased token 12 first character of the token
//!   class: 0 unauthorized 1 forbidden(need=rank) 2 debug-disabled 3 unsupported 4 dispatched 5 invalid-request 9 no-reply/crash
//! Extra lines:  g<id> : <garbled-line-index> … (class must be 5, nothing changed), and the
//! `stops` scenario line (does a viewer's debug.stops consume the stop notification?).
use std::collections::VecDeque;
use std::io::{BufRead, BufReader, Write};
use std::os::unix::net::UnixStream;
use std::path::PathBuf;
use std::sync::atomic::{AtomicBool, AtomicU64, Ordering};
use std::sync::{Arc, Mutex};
use std::thread;

use indexmap::IndexMap;
use smol_str::SmolStr;
use trust_runtime::config::ControlMode;
use trust_runtime::control::{ControlEndpoint, ControlServer, ControlState, HmiRuntimeDescriptor, SourceRegistry};
use trust_runtime::debug::DebugVariableHandles;
use trust_runtime::error::RuntimeError;
use trust_runtime::harness::TestHarness;
use trust_runtime::metrics::RuntimeMetrics;
use trust_runtime::scheduler::{ResourceCommand, ResourceControl, StdClock};
use trust_runtime::security::AccessRole;
use trust_runtime::settings::{BaseSettings, DiscoverySettings, MeshSettings, RuntimeSettings, SimulationSettings, WebSettings};
use trust_runtime::watchdog::{FaultPolicy, RetainMode, WatchdogPolicy};
use trust_runtime::web::pairing::PairingStore;

const SRC: &str = "PROGRAM Main\nVAR\n  x : INT;\n  y AT %QW0 : INT;\nEND_VAR\nx := x + 1;\ny := x;\nEND_PROGRAM\n";
const ADMIN: &str = "ADMIN-TOKEN-verif";

fn runtime_settings() -> RuntimeSettings {
    RuntimeSettings::new(
        BaseSettings { log_level: SmolStr::new("info"), watchdog: WatchdogPolicy::default(), fault_policy: FaultPolicy::SafeHalt, retain_mode: RetainMode::None, retain_save_interval: None },
        WebSettings { enabled: false, listen: SmolStr::new("127.0.0.1:0"), auth: SmolStr::new("local"), tls: false },
        DiscoverySettings { enabled: false, service_name: SmolStr::new("truST"), advertise: false, interfaces: Vec::new() },
        MeshSettings { enabled: false, listen: SmolStr::new("127.0.0.1:0"), tls: false, auth_token: None, publish: Vec::new(), subscribe: IndexMap::new() },
        SimulationSettings { enabled: false, time_scale: 1, mode_label: SmolStr::new("production"), warning: SmolStr::new("") },
    )
}

struct Env {
    state: Arc<ControlState>,
    sock: PathBuf,
    tokens: [String; 5], // viewer operator engineer revoked expired
    commands: Arc<Mutex<Vec<String>>>,
}

static COUNTER: AtomicU64 = AtomicU64::new(0);

fn build_env(dir: &str, token_set: bool, debug_on: bool) -> Env {
    let mut harness = TestHarness::from_source(SRC).expect("harness");
    let debug = harness.runtime_mut().enable_debug();
    harness.cycle();
    let snapshot = trust_runtime::debug::DebugSnapshot { storage: harness.runtime().storage().clone(), now: harness.runtime().current_time() };
    let (resource, cmd_rx) = ResourceControl::stub(StdClock::new());
    let commands = Arc::new(Mutex::new(Vec::new()));
    let cmds = commands.clone();
    thread::spawn(move || {
        while let Ok(command) = cmd_rx.recv() {
            let name = format!("{command:?}");
            cmds.lock().unwrap().push(name.split(|c: char| !c.is_alphanumeric()).next().unwrap_or("").to_string());
            match command {
                ResourceCommand::ReloadBytecode { respond_to, .. } => { let _ = respond_to.send(Err(RuntimeError::ControlError(SmolStr::new("unsupported")))); }
                ResourceCommand::MeshSnapshot { respond_to, .. } => { let _ = respond_to.send(IndexMap::new()); }
                ResourceCommand::Snapshot { respond_to } => { let _ = respond_to.send(snapshot.clone()); }
                _ => {}
            }
        }
    });
    let n = COUNTER.fetch_add(1, Ordering::SeqCst);
    let clock = Arc::new(AtomicU64::new(1_000));
    let ck = clock.clone();
    let pair_path = PathBuf::from(format!("{dir}/pair-{}-{n}.json", std::process::id()));
    let _ = std::fs::remove_file(&pair_path);
    let store = Arc::new(PairingStore::with_clock(pair_path, Arc::new(move || ck.load(Ordering::SeqCst))));
    let mut mint = |role: AccessRole| -> String {
        let code = store.start_pairing();
        clock.fetch_add(1, Ordering::SeqCst);
        store.claim(&code.code, Some(role)).expect("claim")
    };
    // the expired token is minted first, then the clock jumps past its lifetime
    let expired = mint(AccessRole::Operator);
    clock.fetch_add(400 * 24 * 3600, Ordering::SeqCst);
    let viewer = mint(AccessRole::Viewer);
    let operator = mint(AccessRole::Operator);
    let engineer = mint(AccessRole::Engineer);
    let revoked = mint(AccessRole::Engineer);
    let rid = store.list().into_iter().last().map(|s| s.id).expect("listed");
    assert!(store.revoke(&rid));
    let sources = SourceRegistry::new(vec![trust_runtime::control::SourceFile { id: 1, path: PathBuf::from("main.st"), text: SRC.to_string() }]);
    let hmi_descriptor = Arc::new(Mutex::new(HmiRuntimeDescriptor::from_sources(None, &sources)));
    let state = Arc::new(ControlState {
        debug,
        resource,
        metadata: Arc::new(Mutex::new(harness.runtime().metadata_snapshot())),
        sources,
        io_snapshot: Arc::new(Mutex::new(None)),
        pending_restart: Arc::new(Mutex::new(None)),
        auth_token: Arc::new(Mutex::new(if token_set { Some(SmolStr::new(ADMIN)) } else { None })),
        control_requires_auth: token_set,
        control_mode: Arc::new(Mutex::new(ControlMode::Debug)),
        audit_tx: None,
        metrics: Arc::new(Mutex::new(RuntimeMetrics::default())),
        events: Arc::new(Mutex::new(VecDeque::new())),
        settings: Arc::new(Mutex::new(runtime_settings())),
        project_root: None,
        resource_name: SmolStr::new("RESOURCE"),
        io_health: Arc::new(Mutex::new(Vec::new())),
        debug_enabled: Arc::new(AtomicBool::new(debug_on)),
        debug_variables: Arc::new(Mutex::new(DebugVariableHandles::new())),
        hmi_live: Arc::new(Mutex::new(trust_runtime::hmi::HmiLiveState::default())),
        hmi_descriptor,
        historian: None,
        pairing: Some(store),
    });
    let sock = PathBuf::from(format!("{dir}/c18-{}-{n}.sock", std::process::id()));
    ControlServer::start(ControlEndpoint::Unix(sock.clone()), state.clone()).expect("server");
    Env { state, sock, tokens: [viewer, operator, engineer, revoked, expired], commands }
}

/// config.set params: (key, value). Index 0 is an ordinary key; 1, 6, 7, 8 are the admin-only keys as documented; the rest are
/// the same keys spelled with other letter case or with white space around them
const CONFIG_KEYS: &[(&str, &str)] = &[
    ("log.level", "debug"), ("control.auth_token", "changed-by-verif-harness"), ("Control.Auth_Token", "changed-by-verif-harness"),
    (" control.mode", "production"), ("WEB.AUTH", "token"), ("mesh.auth_token ", "mesh-verif"), ("control.mode", "production"),
    ("web.auth", "token"), ("mesh.auth_token", "mesh-verif"), ("CONTROL.AUTH_TOKEN\t", "changed-by-verif-harness"), ("Control.Mode", "production"),
];
fn admin_probe(env: &Env) -> String {
    let s = &env.state;
    let st = s.settings.lock().unwrap();
    format!("{:?}|{:?}|{:?}|{:?}", s.auth_token.lock().unwrap(), s.control_mode.lock().unwrap(), st.web.auth, st.mesh.auth_token)
}
fn probe(env: &Env) -> String {
    let s = &env.state;
    // ask before taking any lock: the request handler locks the same mutexes
    let forced = send(env, &serde_json::json!({"id": 0, "type": "var.forced", "auth": ADMIN}).to_string());
    format!(
        "{:?}|{:?}|{:?}|{:?}|{}|{}|{}|{:?}|{}|{:?}",
        s.pending_restart.lock().unwrap(),
        s.settings.lock().unwrap(),
        s.control_mode.lock().unwrap(),
        s.auth_token.lock().unwrap(),
        s.debug.is_paused(),
        s.debug.breakpoint_count(),
        s.pairing.as_ref().map(|p| p.list().len()).unwrap_or(0),
        (s.debug.mode(), forced),
        s.debug_enabled.load(Ordering::SeqCst),
        env.commands.lock().unwrap().len(),
    )
}

fn send(env: &Env, line: &str) -> Option<String> {
    let stream = UnixStream::connect(&env.sock).ok()?;
    stream.set_read_timeout(Some(std::time::Duration::from_secs(5))).ok()?;
    let mut w = stream.try_clone().ok()?;
    writeln!(w, "{line}").ok()?;
    let mut reader = BufReader::new(stream);
    let mut reply = String::new();
    reader.read_line(&mut reply).ok()?;
    if reply.trim().is_empty() { None } else { Some(reply) }
}

/// (class, need, has_result)
fn classify(reply: Option<&str>) -> (u8, i32, u8) {
    let Some(reply) = reply else { return (9, -1, 0) };
    let Ok(v) = serde_json::from_str::<serde_json::Value>(reply) else { return (9, -1, 0) };
    let has_result = v.get("result").map(|r| !r.is_null()).unwrap_or(false) as u8;
    if v.get("ok").and_then(|o| o.as_bool()) == Some(true) { return (4, -1, has_result); }
    let err = v.get("error").and_then(|e| e.as_str()).unwrap_or("");
    if err == "unauthorized" { return (0, -1, has_result); }
    if let Some(rest) = err.strip_prefix("forbidden: requires role ") {
        let need = match rest.trim() { "viewer" => 0, "operator" => 1, "engineer" => 2, "admin" => 3, _ => -2 };
        return (1, need, has_result);
    }
    if err == "debug disabled" { return (2, -1, has_result); }
    if err == "unsupported request" { return (3, -1, has_result); }
    if err.starts_with("invalid request") { return (5, -1, has_result); }
    (4, -1, has_result)
}

fn cred_field(env: &Env, cred: usize) -> Option<String> {
    match cred {
        0 => None,
        1 => Some("definitely-not-a-token".into()),
        2 => Some(ADMIN.into()),
        3..=7 => Some(env.tokens[cred - 3].clone()),
        // near misses of the configured token: empty, proper prefix, extension, case variant
        8 => Some(String::new()),
        9 => Some(ADMIN[..ADMIN.len() / 2].to_string()),
        10 => Some(format!("{ADMIN}x")),
        11 => Some(ADMIN.to_ascii_lowercase()),
        12 => Some(ADMIN[..1].to_string()),
        _ => None,
    }
}

fn main() {
    let args: Vec<String> = std::env::args().collect();
    let kinds: Vec<String> = std::fs::read_to_string(&args[1]).expect("kinds").lines().map(|s| s.to_string()).collect();
    let mut out = std::io::BufWriter::new(std::fs::File::create(&args[2]).expect("out"));
    let dir = std::env::var("VERIF_SOCK_DIR").unwrap_or_else(|_| "/verif/.cache/c18".into());
    std::fs::create_dir_all(&dir).ok();
    let garbled = [
        "", "{", "not json at all", "[]", "42", "null", "{\"id\":1}", "{\"type\":\"status\"}", "{\"id\":\"x\",\"type\":\"status\"}",
        "{\"id\":1,\"type\":5}", "{\"id\":-1,\"type\":\"status\"}", "{\"id\":1,\"type\":\"status\",\"auth\":7}",
        "{\"id\":1,\"type\":\"shutdown\",\"params\":", "\u{0}\u{1}\u{2}", "{\"id\":1e99,\"type\":\"status\"}",
    ];
    let mut id = 0u64;
    for token_set in [true, false] {
        for debug_on in [true, false] {
            let mut env = build_env(&dir, token_set, debug_on);
            for (ki, kind) in kinds.iter().enumerate() {
                for cred in 0..13usize {
                    let variants: Vec<(bool, usize)> = if kind == "config.set" { std::iter::once((false, 0)).chain((0..CONFIG_KEYS.len()).map(|k| (true, k))).collect() } else { vec![(true, 0), (false, 0)] };
                    for (hp, ak) in variants {
                        id += 1;
                        let mut req = serde_json::json!({"id": id, "type": kind});
                        if hp {
                            req["params"] = if kind == "config.set" { let mut m = serde_json::Map::new(); m.insert(CONFIG_KEYS[ak].0.to_string(), serde_json::json!(CONFIG_KEYS[ak].1)); serde_json::Value::Object(m) }
                                            else { serde_json::json!({}) };
                        }
                        if let Some(a) = cred_field(&env, cred) { req["auth"] = serde_json::json!(a); }
                        let before = probe(&env); let abefore = admin_probe(&env);
                        let reply = send(&env, &req.to_string());
                        let (class, need, has_result) = classify(reply.as_deref());
                        let after = probe(&env);
                        let changed = (before != after) as u8;
                        let admin_changed = (abefore != admin_probe(&env)) as u8;
                        let keyhex = if kind == "config.set" && hp { CONFIG_KEYS[ak].0.bytes().map(|b| format!("{b:02x}")).collect::<String>() } else { "-".to_string() };
                        writeln!(out, "r{id} : {ki} {cred} {} {} {} {ak} {keyhex} : {class} {need} {changed} {has_result} {admin_changed}", token_set as u8, debug_on as u8, hp as u8).unwrap();
                        if class == 4 && changed == 1 {
                            // a handler ran and changed something: continue on a fresh endpoint
                            let _ = std::fs::remove_file(&env.sock);
                            env = build_env(&dir, token_set, debug_on);
                        }
                    }
                }
            }
            for (gi, g) in garbled.iter().enumerate() {
                id += 1;
                let before = probe(&env);
                let reply = send(&env, g);
                let (class, _need, has_result) = if g.trim().is_empty() && reply.is_none() { (5, -1, 0) } else { classify(reply.as_deref()) };
                let changed = (before != probe(&env)) as u8;
                // the endpoint must still answer afterwards
                let alive = send(&env, &serde_json::json!({"id": 1, "type": "status", "auth": ADMIN}).to_string()).is_some() as u8;
                writeln!(out, "g{id} : {gi} {} {} : {class} {changed} {has_result} {alive}", token_set as u8, debug_on as u8).unwrap();
            }
            let _ = std::fs::remove_file(&env.sock);
        }
    }
    // scenario: does a VIEWER's debug.stops consume the debugger's stop notification?
    {
        let env = build_env(&dir, true, true);
        // produce one stop notification: pause, then run a cycle on another thread until it blocks in the hook
        let mut h = TestHarness::from_source(SRC).expect("harness");
        let dbg = env.state.debug.clone();
        h.runtime_mut().set_debug_control(dbg.clone());
        dbg.pause();
        let t = thread::spawn(move || { let _ = h.cycle(); });
        let mut waited = 0;
        while !(dbg.is_paused() && dbg.last_stop().is_some()) && waited < 500 { thread::sleep(std::time::Duration::from_millis(5)); waited += 1; }
        thread::sleep(std::time::Duration::from_millis(50));
        let count = |reply: Option<String>| -> i64 {
            reply.and_then(|r| serde_json::from_str::<serde_json::Value>(&r).ok())
                .and_then(|v| v["result"]["stops"].as_array().map(|a| a.len() as i64)).unwrap_or(-1)
        };
        let viewer = count(send(&env, &serde_json::json!({"id": 1, "type": "debug.stops", "auth": env.tokens[0]}).to_string()));
        let admin_after = count(send(&env, &serde_json::json!({"id": 2, "type": "debug.stops", "auth": ADMIN}).to_string()));
        dbg.continue_run();
        let _ = t.join();
        writeln!(out, "stops : {} : {viewer} {admin_after}", dbg.is_paused() as u8).unwrap();
        let _ = std::fs::remove_file(&env.sock);
    }
}
