//! C04 harness: generates call traces for the standard function blocks, runs the real
//! implementation (pure structs and the ST execution path through TestHarness) and prints
//! one line per instance trace:  `<id> <kind> <variant> <mode> <init> <n> : <calls…> : <impl outputs…>`
//! The OCaml driver (extracted Coq model) reads the same lines.
use std::io::Write;
use trust_runtime::harness::TestHarness;
use trust_runtime::stdlib::fbs::{Ctd, Ctu, Ctud, FTrig, RTrig, Rs, Sr, Tof, Ton, Tp};
use trust_runtime::value::{Duration, Value};
use vh::Rng;

#[derive(Clone, Debug)]
struct Inst {
    kind: &'static str,    // ton tof tp ctu ctd ctud rtrig ftrig sr rs
    variant: &'static str, // TIME LTIME | INT DINT LINT UDINT ULINT | -
    init: i128,            // counters: preloaded CV (st mode), else 0
    calls: Vec<Vec<i128>>, // per call: inputs (timers: in pt ; counters: c r pv / cu cd r ld pv ; ...)
}

fn int_range(variant: &str) -> (i128, i128) {
    match variant {
        "INT" => (i16::MIN as i128, i16::MAX as i128),
        "DINT" => (i32::MIN as i128, i32::MAX as i128),
        "LINT" => (i64::MIN as i128, i64::MAX as i128),
        "UDINT" => (0, u32::MAX as i128),
        "ULINT" => (0, u64::MAX as i128),
        _ => (0, 0),
    }
}

fn int_value(variant: &str, v: i128) -> Value {
    match variant {
        "INT" => Value::Int(v as i16),
        "DINT" => Value::DInt(v as i32),
        "LINT" => Value::LInt(v as i64),
        "UDINT" => Value::UDInt(v as u32),
        "ULINT" => Value::ULInt(v as u64),
        _ => unreachable!(),
    }
}

fn value_int(v: &Value) -> Option<i128> {
    Some(match v {
        Value::SInt(x) => *x as i128,
        Value::Int(x) => *x as i128,
        Value::DInt(x) => *x as i128,
        Value::LInt(x) => *x as i128,
        Value::USInt(x) => *x as i128,
        Value::UInt(x) => *x as i128,
        Value::UDInt(x) => *x as i128,
        Value::ULInt(x) => *x as i128,
        Value::Time(d) | Value::LTime(d) => d.as_nanos() as i128,
        Value::Bool(b) => *b as i128,
        _ => return None,
    })
}

fn gen_bool_runs(rng: &mut Rng, n: usize) -> Vec<bool> {
    let mut out = Vec::with_capacity(n);
    let mut cur = rng.chance(1, 2);
    let flip = *rng.pick(&[2u64, 3, 5, 8]);
    for _ in 0..n {
        if rng.chance(1, flip) {
            cur = !cur;
        }
        out.push(cur);
    }
    out
}

fn gen_pt(rng: &mut Rng) -> i64 {
    match rng.below(10) {
        0 => -(rng.range(1, 1000)),
        1 => 0,
        2 => 1,
        3 => i64::MAX,
        4 => i64::MIN,
        5 | 6 => rng.range(2, 50),
        _ => rng.range(1, 5_000) * 1_000_000,
    }
}

fn gen_dt(rng: &mut Rng, pt: i64) -> i64 {
    let p = pt.clamp(0, 1 << 40);
    let v = match rng.below(10) {
        0 => 0,
        1 => 1,
        2 => p - 1,
        3 => p,
        4 => p + 1,
        5 => p / 3,
        6 => p / 2 + 1,
        7 => rng.range(0, 1 << 41),
        _ => rng.range(0, 20),
    };
    v.max(0)
}

fn gen_pv(rng: &mut Rng, variant: &str) -> i128 {
    let (lo, hi) = int_range(variant);
    match rng.below(9) {
        0 => lo,
        1 => hi,
        2 => hi - 1,
        3 => 0,
        4 => 1,
        5 => (-1i128).max(lo),
        6 => lo + 1,
        _ => rng.range(0, 6) as i128,
    }
}

fn gen_inst(rng: &mut Rng, st_mode: bool, n: usize) -> Inst {
    let kinds = ["ton", "tof", "tp", "ctu", "ctd", "ctud", "rtrig", "ftrig", "sr", "rs"];
    let kind = *rng.pick(&kinds);
    match kind {
        "ton" | "tof" | "tp" => {
            let variant = if st_mode && rng.chance(1, 3) { "LTIME" } else { "TIME" };
            let ins = gen_bool_runs(rng, n);
            let const_pt = rng.chance(7, 10);
            let mut pt = gen_pt(rng);
            let calls = ins
                .iter()
                .map(|&i| {
                    if !const_pt && rng.chance(1, 6) {
                        pt = gen_pt(rng);
                    }
                    vec![i as i128, pt as i128]
                })
                .collect();
            Inst { kind, variant, init: 0, calls }
        }
        "ctu" | "ctd" | "ctud" => {
            let variant = if st_mode {
                *rng.pick(&["INT", "DINT", "LINT", "UDINT", "ULINT"])
            } else {
                "INT"
            };
            let (lo, hi) = int_range(variant);
            let init = if st_mode {
                match rng.below(6) {
                    0 => hi,
                    1 => hi - 1,
                    2 => lo,
                    3 => lo + 1,
                    _ => 0,
                }
            } else {
                0
            };
            let mut pv = gen_pv(rng, variant);
            let const_pv = rng.chance(1, 2);
            let c1 = gen_bool_runs(rng, n);
            let c2 = gen_bool_runs(rng, n);
            let calls = (0..n)
                .map(|k| {
                    if !const_pv && rng.chance(1, 5) {
                        pv = gen_pv(rng, variant);
                    }
                    let r = rng.chance(1, 9);
                    let ld = rng.chance(1, 9);
                    match kind {
                        "ctu" | "ctd" => vec![c1[k] as i128, r as i128, pv],
                        _ => vec![c1[k] as i128, c2[k] as i128, r as i128, ld as i128, pv],
                    }
                })
                .collect();
            Inst { kind, variant, init, calls }
        }
        "rtrig" | "ftrig" => {
            let c = gen_bool_runs(rng, n);
            Inst { kind, variant: "-", init: 0, calls: c.iter().map(|&x| vec![x as i128]).collect() }
        }
        _ => {
            let a = gen_bool_runs(rng, n);
            let b = gen_bool_runs(rng, n);
            Inst {
                kind,
                variant: "-",
                init: 0,
                calls: (0..n).map(|k| vec![a[k] as i128, b[k] as i128]).collect(),
            }
        }
    }
}

/// run through the public pure structs; timers get explicit deltas (third column)
fn run_pure(inst: &Inst, dts: &[i64]) -> Vec<Vec<i128>> {
    let d = |x: i128| Duration::from_nanos(x as i64);
    let mut out = Vec::new();
    match inst.kind {
        "ton" => {
            let mut fb = Ton::new();
            for (c, dt) in inst.calls.iter().zip(dts) {
                let o = fb.step(c[0] != 0, d(c[1]), Duration::from_nanos(*dt));
                out.push(vec![o.q as i128, o.et.as_nanos() as i128]);
            }
        }
        "tof" => {
            let mut fb = Tof::new();
            for (c, dt) in inst.calls.iter().zip(dts) {
                let o = fb.step(c[0] != 0, d(c[1]), Duration::from_nanos(*dt));
                out.push(vec![o.q as i128, o.et.as_nanos() as i128]);
            }
        }
        "tp" => {
            let mut fb = Tp::new();
            for (c, dt) in inst.calls.iter().zip(dts) {
                let o = fb.step(c[0] != 0, d(c[1]), Duration::from_nanos(*dt));
                out.push(vec![o.q as i128, o.et.as_nanos() as i128]);
            }
        }
        "ctu" => {
            let mut fb = Ctu::new();
            for c in &inst.calls {
                let o = fb.step(c[0] != 0, c[1] != 0, c[2] as i16);
                out.push(vec![o.q as i128, o.cv as i128]);
            }
        }
        "ctd" => {
            let mut fb = Ctd::new();
            for c in &inst.calls {
                let o = fb.step(c[0] != 0, c[1] != 0, c[2] as i16);
                out.push(vec![o.q as i128, o.cv as i128]);
            }
        }
        "ctud" => {
            let mut fb = Ctud::new();
            for c in &inst.calls {
                let o = fb.step(c[0] != 0, c[1] != 0, c[2] != 0, c[3] != 0, c[4] as i16);
                out.push(vec![o.qu as i128, o.qd as i128, o.cv as i128]);
            }
        }
        "rtrig" => {
            let mut fb = RTrig::new();
            for c in &inst.calls {
                out.push(vec![fb.step(c[0] != 0) as i128]);
            }
        }
        "ftrig" => {
            let mut fb = FTrig::new();
            for c in &inst.calls {
                out.push(vec![fb.step(c[0] != 0) as i128]);
            }
        }
        "sr" => {
            let mut fb = Sr::new();
            for c in &inst.calls {
                out.push(vec![fb.step(c[0] != 0, c[1] != 0) as i128]);
            }
        }
        "rs" => {
            let mut fb = Rs::new();
            for c in &inst.calls {
                out.push(vec![fb.step(c[0] != 0, c[1] != 0) as i128]);
            }
        }
        _ => unreachable!(),
    }
    out
}

fn fb_type_name(inst: &Inst) -> String {
    match inst.kind {
        "ton" | "tof" | "tp" => {
            let base = inst.kind.to_uppercase();
            if inst.variant == "LTIME" { format!("{base}_LTIME") } else { base }
        }
        "ctu" | "ctd" | "ctud" => {
            let base = inst.kind.to_uppercase();
            if inst.variant == "INT" { base } else { format!("{base}_{}", inst.variant) }
        }
        "rtrig" => "R_TRIG".into(),
        "ftrig" => "F_TRIG".into(),
        "sr" => "SR".into(),
        "rs" => "RS".into(),
        _ => unreachable!(),
    }
}

fn st_program(insts: &[Inst]) -> String {
    let mut decl = String::new();
    let mut body = String::new();
    for (k, inst) in insts.iter().enumerate() {
        let ty = fb_type_name(inst);
        decl += &format!("  fb{k} : {ty};\n  a{k} : BOOL; b{k} : BOOL; c{k} : BOOL; d{k} : BOOL;\n");
        match inst.kind {
            "ton" | "tof" | "tp" => {
                decl += &format!("  p{k} : {};\n", inst.variant);
                body += &format!("fb{k}(IN := a{k}, PT := p{k});\n");
            }
            "ctu" => {
                decl += &format!("  p{k} : {};\n", inst.variant);
                body += &format!("fb{k}(CU := a{k}, R := b{k}, PV := p{k});\n");
            }
            "ctd" => {
                decl += &format!("  p{k} : {};\n", inst.variant);
                body += &format!("fb{k}(CD := a{k}, LD := b{k}, PV := p{k});\n");
            }
            "ctud" => {
                decl += &format!("  p{k} : {};\n", inst.variant);
                body += &format!("fb{k}(CU := a{k}, CD := b{k}, R := c{k}, LD := d{k}, PV := p{k});\n");
            }
            "rtrig" | "ftrig" => body += &format!("fb{k}(CLK := a{k});\n"),
            "sr" => body += &format!("fb{k}(S1 := a{k}, R := b{k});\n"),
            "rs" => body += &format!("fb{k}(S := a{k}, R1 := b{k});\n"),
            _ => unreachable!(),
        }
    }
    format!("PROGRAM Main\nVAR\n{decl}END_VAR\n{body}END_PROGRAM\n")
}

fn inst_id(h: &TestHarness, name: &str) -> trust_runtime::memory::InstanceId {
    match h.get_output(name) {
        Some(Value::Instance(id)) => id,
        other => panic!("instance {name} not found: {other:?}"),
    }
}

/// run K instances in one ST program over a shared clock trace; returns outputs per instance per call
fn run_st(insts: &[Inst], nows: &[i64]) -> Result<Vec<Vec<Vec<i128>>>, String> {
    let src = st_program(insts);
    let mut h = TestHarness::from_source(&src).map_err(|e| format!("compile: {e:?}\n{src}"))?;
    let ids: Vec<_> = (0..insts.len()).map(|k| inst_id(&h, &format!("fb{k}"))).collect();
    for (k, inst) in insts.iter().enumerate() {
        if matches!(inst.kind, "ctu" | "ctd" | "ctud") && inst.init != 0 {
            h.runtime_mut().storage_mut().set_instance_var(ids[k], "CV", int_value(inst.variant, inst.init));
        }
    }
    let mut outs = vec![Vec::new(); insts.len()];
    for (step, now) in nows.iter().enumerate() {
        h.runtime_mut().set_current_time(Duration::from_nanos(*now));
        for (k, inst) in insts.iter().enumerate() {
            let c = &inst.calls[step];
            let names = ["a", "b", "c", "d"];
            match inst.kind {
                "ton" | "tof" | "tp" => {
                    h.set_input(&format!("a{k}"), c[0] != 0);
                    let dv = Duration::from_nanos(c[1] as i64);
                    let v = if inst.variant == "LTIME" { Value::LTime(dv) } else { Value::Time(dv) };
                    h.set_input(&format!("p{k}"), v);
                }
                "ctu" | "ctd" => {
                    h.set_input(&format!("a{k}"), c[0] != 0);
                    h.set_input(&format!("b{k}"), c[1] != 0);
                    h.set_input(&format!("p{k}"), int_value(inst.variant, c[2]));
                }
                "ctud" => {
                    for j in 0..4 {
                        h.set_input(&format!("{}{k}", names[j]), c[j] != 0);
                    }
                    h.set_input(&format!("p{k}"), int_value(inst.variant, c[4]));
                }
                _ => {
                    for (j, v) in c.iter().enumerate() {
                        h.set_input(&format!("{}{k}", names[j]), *v != 0);
                    }
                }
            }
        }
        let res = h.cycle();
        if !res.errors.is_empty() {
            return Err(format!("cycle error {:?}", res.errors));
        }
        for (k, inst) in insts.iter().enumerate() {
            let st = h.runtime().storage();
            let get = |n: &str| -> i128 {
                st.get_instance_var(ids[k], n).and_then(value_int).unwrap_or(-999_999)
            };
            let o = match inst.kind {
                "ton" | "tof" | "tp" => vec![get("Q"), get("ET")],
                "ctu" | "ctd" => vec![get("Q"), get("CV")],
                "ctud" => vec![get("QU"), get("QD"), get("CV")],
                "rtrig" | "ftrig" => vec![get("Q")],
                _ => vec![get("Q1")],
            };
            outs[k].push(o);
        }
    }
    Ok(outs)
}

fn emit(out: &mut impl Write, id: &str, inst: &Inst, mode: &str, times: &[i64], res: &[Vec<i128>]) {
    let mut s = format!("{id} {} {} {mode} {} {} :", inst.kind, inst.variant, inst.init, inst.calls.len());
    for (c, t) in inst.calls.iter().zip(times) {
        for v in c {
            s += &format!(" {v}");
        }
        if matches!(inst.kind, "ton" | "tof" | "tp") {
            s += &format!(" {t}");
        }
    }
    s += " :";
    for o in res {
        for v in o {
            s += &format!(" {v}");
        }
    }
    writeln!(out, "{s}").unwrap();
}

fn gen_nows(rng: &mut Rng, insts: &[Inst], n: usize) -> Vec<i64> {
    // a shared clock; deltas are chosen relative to the preset of a random timer instance
    let mut now: i64 = if rng.chance(1, 4) { rng.range(0, 1 << 50) } else { 0 };
    let pts: Vec<i64> = insts
        .iter()
        .filter(|i| matches!(i.kind, "ton" | "tof" | "tp"))
        .map(|i| i.calls[0][1] as i64)
        .collect();
    let mut out = Vec::with_capacity(n);
    for _ in 0..n {
        let pt = if pts.is_empty() { 10 } else { *rng.pick(&pts) };
        let dt = gen_dt(rng, pt);
        if rng.chance(1, 25) && now > 0 {
            now -= rng.range(0, now.min(1000)); // clock stepping backwards: delta clamps to 0
        } else {
            now = now.saturating_add(dt).min(1 << 61);
        }
        out.push(now);
    }
    out
}

fn leak(s: &str) -> &'static str {
    Box::leak(s.to_string().into_boxed_str())
}

/// replay mode: read case lines (outputs part ignored), run the implementation, emit lines again
fn replay(inp: &str, outp: &str) {
    let text = std::fs::read_to_string(inp).expect("read replay input");
    let mut out = std::io::BufWriter::new(std::fs::File::create(outp).expect("open output"));
    for line in text.lines() {
        let parts: Vec<&str> = line.split(':').collect();
        if parts.len() < 2 {
            continue;
        }
        let hd: Vec<&str> = parts[0].split_whitespace().collect();
        if hd.len() != 6 {
            continue;
        }
        let (id, kind, variant, mode) = (hd[0], leak(hd[1]), leak(hd[2]), hd[3]);
        let init: i128 = hd[4].parse().unwrap();
        let toks: Vec<i128> = parts[1].split_whitespace().map(|t| t.parse().unwrap()).collect();
        let timer = matches!(kind, "ton" | "tof" | "tp");
        let width = match kind {
            "ton" | "tof" | "tp" => 3,
            "ctu" | "ctd" => 3,
            "ctud" => 5,
            "rtrig" | "ftrig" => 1,
            _ => 2,
        };
        let mut calls = Vec::new();
        let mut times = Vec::new();
        for c in toks.chunks(width) {
            if timer {
                calls.push(vec![c[0], c[1]]);
                times.push(c[2] as i64);
            } else {
                calls.push(c.to_vec());
                times.push(0);
            }
        }
        let inst = Inst { kind, variant, init, calls };
        if mode == "pure" {
            let res = run_pure(&inst, &times);
            emit(&mut out, id, &inst, "pure", &times, &res);
        } else {
            if !timer {
                // non-timer instances do not depend on the clock
                for (k, t) in times.iter_mut().enumerate() {
                    *t = k as i64;
                }
            }
            match run_st(std::slice::from_ref(&inst), &times) {
                Ok(res) => emit(&mut out, id, &inst, "st", &times, &res[0]),
                Err(e) => writeln!(out, "{id} ERROR {}", e.replace('\n', "\\n")).unwrap(),
            }
        }
    }
}

fn main() {
    let args: Vec<String> = std::env::args().collect();
    if args.get(1).map(|s| s.as_str()) == Some("--replay") {
        replay(&args[2], &args[3]);
        return;
    }
    let seed = vh::seed_from_env();
    let count: usize = args.get(1).and_then(|s| s.parse().ok()).unwrap_or(200);
    let outp = args.get(2).cloned().unwrap_or_else(|| "/dev/stdout".into());
    let mut out = std::io::BufWriter::new(std::fs::File::create(&outp).expect("open output"));
    let mut rng = Rng::new(seed);
    let mut case = 0usize;
    while case < count {
        let n = rng.range(1, 40) as usize;
        if rng.chance(1, 3) {
            // pure structs
            let inst = gen_inst(&mut rng, false, n);
            let pt0 = if inst.calls[0].len() > 1 { inst.calls[0][1] as i64 } else { 10 };
            let mut total: i64 = 0;
            let dts: Vec<i64> = (0..n)
                .map(|_| {
                    let d = gen_dt(&mut rng, pt0).min((1i64 << 61) - total);
                    total += d;
                    d
                })
                .collect();
            let res = run_pure(&inst, &dts);
            emit(&mut out, &format!("p{case}"), &inst, "pure", &dts, &res);
            case += 1;
        } else {
            let k = rng.range(1, 5) as usize;
            let insts: Vec<Inst> = (0..k).map(|_| gen_inst(&mut rng, true, n)).collect();
            let nows = gen_nows(&mut rng, &insts, n);
            match run_st(&insts, &nows) {
                Ok(res) => {
                    for (j, inst) in insts.iter().enumerate() {
                        emit(&mut out, &format!("s{case}.{j}"), inst, "st", &nows, &res[j]);
                    }
                }
                Err(e) => {
                    writeln!(out, "s{case} ERROR {}", e.replace('\n', "\\n")).unwrap();
                }
            }
            case += 1;
        }
    }
}
