//! C09 harness: restart / retain-store histories through the real runtime.
//!   c09 <n> <out> <workdir>       generate;   c09 --replay <in> <out> <workdir>
//! Line:  <id> : <config> : <ops> : <observations>
//!   config = ng {retain init} np { nv {retain init bound(0/1)} }      (all variables are INT; program p's body adds p+1+i to
//!            variable i, adds 1 to every global and publishes bound variables on %QW(16*p+2*i))
//!   every configuration also has an event task (SINGLE := trig) whose program counts its activations in evc; op 6 v sets trig
//!   and a periodic task (INTERVAL := T#10ms) whose program counts its activations in pc
//!   ids starting with i: every global g<i> is a FUNCTION_BLOCK INSTANCE (type AccG<i> with one member total : INT := init) declared in
//!            VAR_GLOBAL [RETAIN]; the programs call it (total := total + 1) instead of incrementing an INT, and g<i> in the observations is
//!            its member total - for the model it is the same RETAIN / non-RETAIN global; these cases contain no power cycle (op 4)
//!   ops    = 0 dt (cycle) | 1 i v (set global) | 2 p i v (set program var) | 3 warm(0/1) (restart) | 4 (save, power cycle, load) | 5 (fault)
//!   obs    = per op: ng values, per program nv values, per bound variable the %QW word, time_ns faulted evc pc
use std::io::Write;
use trust_runtime::harness::TestHarness;
use trust_runtime::retain::FileRetainStore;
use trust_runtime::value::{Duration, Value};
use trust_runtime::RestartMode;
use vh::Rng;

#[derive(Clone, Debug)]
struct V { retain: bool, init: i64, bound: bool }
#[derive(Clone, Debug)]
struct Case { globals: Vec<V>, progs: Vec<Vec<V>>, ops: Vec<Vec<i64>>, fbmode: bool }

fn source(c: &Case) -> String {
    let mut s = String::new();
    if c.fbmode { for (i, g) in c.globals.iter().enumerate() { s += &format!("FUNCTION_BLOCK AccG{i}\nVAR\n  total : INT := {};\nEND_VAR\ntotal := total + INT#1;\nEND_FUNCTION_BLOCK\n", g.init); } }
    s += "CONFIGURATION C\n";
    for (i, g) in c.globals.iter().enumerate() {
        if c.fbmode { s += &format!("VAR_GLOBAL{} g{i} : AccG{i}; END_VAR\n", if g.retain { " RETAIN" } else { "" }); continue; }
        s += &format!("VAR_GLOBAL{} g{i} : INT := {}; END_VAR\n", if g.retain { " RETAIN" } else { "" }, g.init);
    }
    s += "VAR_GLOBAL trig : BOOL := FALSE; evc : INT := 0; pc : INT := 0; END_VAR\nTASK Ev (SINGLE := trig, PRIORITY := 1);\nTASK Per (INTERVAL := T#10ms, PRIORITY := 2);\nPROGRAM PE WITH Ev : MainE;\nPROGRAM PP WITH Per : MainP;\n";
    for p in 0..c.progs.len() { s += &format!("PROGRAM P{p} : Main{p};\n"); }
    s += "END_CONFIGURATION\nPROGRAM MainE\nVAR_EXTERNAL\n  evc : INT;\nEND_VAR\nevc := evc + INT#1;\nEND_PROGRAM\nPROGRAM MainP\nVAR_EXTERNAL\n  pc : INT;\nEND_VAR\npc := pc + INT#1;\nEND_PROGRAM\n";
    for (p, vars) in c.progs.iter().enumerate() {
        s += &format!("PROGRAM Main{p}\n");
        if !c.globals.is_empty() {
            s += "VAR_EXTERNAL\n";
            for i in 0..c.globals.len() { if c.fbmode { s += &format!("  g{i} : AccG{i};\n"); } else { s += &format!("  g{i} : INT;\n"); } }
            s += "END_VAR\n";
        }
        for (i, v) in vars.iter().enumerate() {
            let at = if v.bound { format!(" AT %QW{}", 16 * p + 2 * i) } else { String::new() };
            s += &format!("VAR{} v{i}{at} : INT := {}; END_VAR\n", if v.retain { " RETAIN" } else { "" }, v.init);
        }
        for i in 0..c.globals.len() { if c.fbmode { s += &format!("g{i}();\n"); } else { s += &format!("g{i} := g{i} + INT#1;\n"); } }
        for i in 0..vars.len() { s += &format!("v{i} := v{i} + INT#{};\n", p + 1 + i); }
        s += "END_PROGRAM\n";
    }
    s
}

fn ival(v: Option<&Value>) -> String {
    match v {
        Some(Value::Int(x)) => x.to_string(), Some(Value::DInt(x)) => x.to_string(), Some(Value::SInt(x)) => x.to_string(), Some(Value::LInt(x)) => x.to_string(),
        other => format!("?{other:?}").replace(' ', "_"),
    }
}

fn observe(h: &TestHarness, c: &Case) -> String {
    let st = h.runtime().storage();
    let mut o = String::new();
    for i in 0..c.globals.len() {
        if c.fbmode { o += &format!(" {}", match st.get_global(&format!("g{i}")) { Some(Value::Instance(id)) => ival(st.get_instance_var(*id, "total")), other => format!("?{other:?}").replace(' ', "_") }); }
        else { o += &format!(" {}", ival(st.get_global(&format!("g{i}")))); }
    }
    for (p, vars) in c.progs.iter().enumerate() {
        let id = match st.get_global(&format!("P{p}")) { Some(Value::Instance(id)) => Some(*id), _ => None };
        for i in 0..vars.len() {
            o += &format!(" {}", id.map(|id| ival(st.get_instance_var(id, &format!("v{i}")))).unwrap_or_else(|| "?noinst".into()));
        }
    }
    for (p, vars) in c.progs.iter().enumerate() {
        for (i, v) in vars.iter().enumerate() {
            if v.bound {
                let w = match h.get_direct_output(&format!("%QW{}", 16 * p + 2 * i)) { Ok(Value::Word(w)) => (w as i16).to_string(), other => format!("?{other:?}").replace(' ', "_") };
                o += &format!(" {w}");
            }
        }
    }
    o += &format!(" {} {} {} {}", h.runtime().current_time().as_nanos(), h.runtime().faulted() as u8, ival(st.get_global("evc")), ival(st.get_global("pc")));
    o
}

fn run_case(c: &Case, workdir: &str, tag: &str) -> Result<String, String> {
    let src = source(c);
    let mut h = TestHarness::from_source(&src).map_err(|e| format!("compile: {e:?} :: {}", src.replace('\n', "\\n")))?;
    let path = format!("{workdir}/retain-{}-{tag}.bin", std::process::id());
    let _ = std::fs::remove_file(&path);
    h.runtime_mut().set_retain_store(Some(Box::new(FileRetainStore::new(&path))), None);
    let mut out = String::new();
    for op in &c.ops {
        match op[0] {
            0 => { h.advance_time(Duration::from_nanos(op[1])); let _ = h.cycle(); }
            1 if c.fbmode => { if let Some(Value::Instance(id)) = h.runtime().storage().get_global(&format!("g{}", op[1])).cloned() { h.runtime_mut().storage_mut().set_instance_var(id, "total".to_string(), Value::Int(op[2] as i16)); } }
            1 => { h.runtime_mut().storage_mut().set_global(format!("g{}", op[1]), Value::Int(op[2] as i16)); }
            2 => {
                if let Some(Value::Instance(id)) = h.runtime().storage().get_global(&format!("P{}", op[1])).cloned() {
                    h.runtime_mut().storage_mut().set_instance_var(id, format!("v{}", op[2]), Value::Int(op[3] as i16));
                }
            }
            3 => { h.restart(if op[1] != 0 { RestartMode::Warm } else { RestartMode::Cold }).map_err(|e| format!("restart: {e:?}"))?; }
            4 => {
                h.runtime_mut().save_retain_store().map_err(|e| format!("save: {e:?}"))?;
                // a new process would build the runtime from the same sources and load the store
                let mut fresh = TestHarness::from_source(&src).map_err(|e| format!("recompile: {e:?}"))?;
                fresh.runtime_mut().set_retain_store(Some(Box::new(FileRetainStore::new(&path))), None);
                fresh.runtime_mut().load_retain_store().map_err(|e| format!("load: {e:?}"))?;
                h = fresh;
            }
            6 => { h.runtime_mut().storage_mut().set_global("trig".to_string(), Value::Bool(op[1] != 0)); }
            _ => { let _ = h.runtime_mut().simulation_fault("verif"); }
        }
        out += &observe(&h, c);
    }
    let _ = std::fs::remove_file(&path);
    let _ = std::fs::remove_file(format!("{path}.tmp"));
    Ok(out)
}

fn fmt_case(id: &str, c: &Case, obs: &str) -> String {
    let mut s = format!("{id} : {}", c.globals.len());
    for g in &c.globals { s += &format!(" {} {}", g.retain as u8, g.init); }
    s += &format!(" {}", c.progs.len());
    for vars in &c.progs { s += &format!(" {}", vars.len()); for v in vars { s += &format!(" {} {} {}", v.retain as u8, v.init, v.bound as u8); } }
    s += " :";
    for op in &c.ops { for t in op { s += &format!(" {t}"); } }
    s += " :";
    s += obs;
    s
}
fn parse_case(line: &str) -> Option<(String, Case)> {
    let parts: Vec<&str> = line.split(':').collect();
    if parts.len() < 3 { return None; }
    let t: Vec<i64> = parts[1].split_whitespace().map(|x| x.parse().unwrap()).collect();
    let mut i = 0; let mut nx = || { let v = t[i]; i += 1; v };
    let ng = nx() as usize;
    let globals = (0..ng).map(|_| V { retain: nx() != 0, init: nx(), bound: false }).collect();
    let np = nx() as usize;
    let progs = (0..np).map(|_| { let nv = nx() as usize; (0..nv).map(|_| V { retain: nx() != 0, init: nx(), bound: nx() != 0 }).collect() }).collect();
    let o: Vec<i64> = parts[2].split_whitespace().map(|x| x.parse().unwrap()).collect();
    let mut ops = Vec::new(); let mut j = 0;
    while j < o.len() {
        let w = match o[j] { 0 => 2, 1 => 3, 2 => 4, 3 => 2, 6 => 2, _ => 1 };
        ops.push(o[j..j + w].to_vec()); j += w;
    }
    let fbmode = parts[0].trim().starts_with('i');
    Some((parts[0].trim().to_string(), Case { globals, progs, ops, fbmode }))
}

fn gen_case(rng: &mut Rng) -> Case {
    let ng = rng.below(4) as usize;
    let globals = (0..ng).map(|_| V { retain: rng.chance(1, 2), init: rng.range(-5, 50), bound: false }).collect::<Vec<_>>();
    let np = rng.range(1, 3) as usize;
    let progs: Vec<Vec<V>> = (0..np).map(|_| (0..rng.range(1, 4)).map(|_| V { retain: rng.chance(1, 2), init: rng.range(-5, 50), bound: rng.chance(1, 2) }).collect()).collect();
    let mut ops = Vec::new();
    for _ in 0..rng.range(1, 14) {
        match rng.below(15) {
            12 | 13 => ops.push(vec![6, rng.chance(2, 3) as i64]),
            0 | 1 if ng > 0 => ops.push(vec![1, rng.below(ng as u64) as i64, rng.range(-100, 100)]),
            2 | 3 => { let p = rng.below(np as u64) as usize; ops.push(vec![2, p as i64, rng.below(progs[p].len() as u64) as i64, rng.range(-100, 100)]); }
            4 => ops.push(vec![3, 0]),
            5 => ops.push(vec![3, 1]),
            6 => ops.push(vec![4]),
            7 if rng.chance(1, 2) => ops.push(vec![5]),
            _ => ops.push(vec![0, *rng.pick(&[0i64, 1, 1_000_000, 20_000_000, 5_000_000, 10_000_000, 9_999_999, 35_000_000])]),
        }
    }
    let fbmode = ng > 0 && rng.chance(1, 4);
    if fbmode { for op in ops.iter_mut() { if op[0] == 4 { *op = vec![0, 5_000_000]; } } }
    Case { globals, progs, ops, fbmode }
}

fn main() {
    let args: Vec<String> = std::env::args().collect();
    if args.get(1).map(|s| s.as_str()) == Some("--replay") {
        let text = std::fs::read_to_string(&args[2]).expect("read");
        let mut out = std::io::BufWriter::new(std::fs::File::create(&args[3]).expect("open"));
        std::fs::create_dir_all(&args[4]).ok();
        for line in text.lines() {
            if let Some((id, c)) = parse_case(line) {
                match run_case(&c, &args[4], &id) { Ok(obs) => writeln!(out, "{}", fmt_case(&id, &c, &obs)).unwrap(), Err(e) => writeln!(out, "{id} ERROR {e}").unwrap() }
            }
        }
        return;
    }
    let count: usize = args[1].parse().unwrap();
    let mut out = std::io::BufWriter::new(std::fs::File::create(&args[2]).expect("open output"));
    std::fs::create_dir_all(&args[3]).ok();
    let mut rng = Rng::new(vh::seed_from_env());
    for k in 0..count {
        let c = gen_case(&mut rng);
        let id = format!("{}{k}", if c.fbmode { "i" } else { "c" });
        match run_case(&c, &args[3], &id) { Ok(obs) => writeln!(out, "{}", fmt_case(&id, &c, &obs)).unwrap(), Err(e) => writeln!(out, "{id} ERROR {e}").unwrap() }
    }
}
