use trust_runtime::harness::TestHarness;
use trust_runtime::RestartMode;
fn main() {
    let src = std::fs::read_to_string(std::env::args().nth(1).unwrap()).unwrap();
    let mut h = TestHarness::from_source(&src).unwrap();
    h.cycle(); h.cycle();
    println!("before restart: %QW0 = {:?}, instances = {}", h.get_direct_output("%QW0"), h.runtime().storage().instances().len());
    h.restart(RestartMode::Cold).unwrap();
    h.cycle();
    println!("after cold restart + 1 cycle: %QW0 = {:?}, n = {:?}, instances = {}", h.get_direct_output("%QW0"), h.get_output("n"), h.runtime().storage().instances().len());
}
