//! C05 harness: one process = one compile or one run, so that hash seeds, allocator layout and
//! process identity differ between the runs that are compared.
//!   c05 compile <src-file>            -> prints the STBC container as hex (or ERR …)
//!   c05 run <src-file> <trace-file>   -> per cycle: result, every global/program variable, drained runtime events
//! trace-file lines:  <now_ns> { name=value }   (values: b0/b1 or i<int>)
use trust_runtime::harness::{bytecode_bytes_from_source, TestHarness};
use trust_runtime::value::{Duration, Value};

fn main() {
    let args: Vec<String> = std::env::args().collect();
    let src = std::fs::read_to_string(&args[2]).expect("source");
    match args[1].as_str() {
        "compile" => match bytecode_bytes_from_source(&src) {
            Ok(bytes) => println!("{}", bytes.iter().map(|b| format!("{b:02x}")).collect::<String>()),
            Err(e) => println!("ERR {e:?}"),
        },
        "run" => {
            let mut h = match TestHarness::from_source(&src) { Ok(h) => h, Err(e) => { println!("ERR {e:?}"); return; } };
            let debug = h.runtime_mut().enable_debug();
            let trace = std::fs::read_to_string(&args[3]).expect("trace");
            for line in trace.lines() {
                let mut it = line.split_whitespace();
                let Some(now) = it.next() else { continue };
                h.runtime_mut().set_current_time(Duration::from_nanos(now.parse().unwrap()));
                for kv in it {
                    let (k, v) = kv.split_once('=').unwrap();
                    let val = if let Some(b) = v.strip_prefix('b') { Value::Bool(b == "1") } else { Value::Int(v[1..].parse().unwrap()) };
                    h.set_input(k, val);
                }
                let r = h.cycle();
                let st = h.runtime().storage();
                let mut vars: Vec<String> = st.globals().iter().map(|(k, v)| format!("{k}={v:?}")).collect();
                let mut insts: Vec<String> = st.instances().iter().map(|(id, inst)| {
                    let vs: Vec<String> = inst.variables.iter().map(|(k, v)| format!("{k}={v:?}")).collect();
                    format!("#{id:?}:{}[{}]", inst.type_name, vs.join(","))
                }).collect();
                // registries are IndexMaps: iteration order is part of the observable state, so no sorting here
                vars.append(&mut insts);
                let events: Vec<String> = debug.drain_runtime_events().iter().map(|e| format!("{e:?}")).collect();
                println!("{:?} | {} | {}", r.errors, vars.join(";"), events.join(";"));
            }
        }
        _ => eprintln!("usage"),
    }
}
