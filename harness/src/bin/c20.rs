//! C20 harness: 2-4 resource threads share the configuration globals x and y; a controller pauses, resumes and stops them.
//!   c20 <n> <out>            generate n cases from VERIF_SEED;    c20 --replay <in> <out>  re-run the cases (ids c<k>_<seed>)
//!   a third of the cases give all resources ONE shared ManualClock and a 10 ms cycle interval (threads park in sleep_until between
//!   cycles, the controller advances the clock) and stop the resources one at a time
//!   a quarter of the cases attach ONE StartGate to all resources: the controller opens it at a random point of its script, or never
//!   (then every resource is stopped while it waits at the gate: state Stopped, no cycle, nothing saved); stop() goes through the
//!   ResourceHandle or through a ResourceControl clone, chosen per resource
//! Line:  <id> : nres ncmds gate(0 none, 1 opened, 2 never opened) : x y x_end limit nw (a b)* nres (state joined saves mine(-1 = none, -2 = stopped at the gate) bad)*
//!   every resource runs:  IF x <> y THEN bad := bad + 1; x := x + 1; mine := mine + 1; y := y + 1; and the faulting one divides by zero
//!   in its limit-th cycle.  Values are scaled down by nothing: counters are exact.
use std::io::Write;
use std::sync::atomic::{AtomicUsize, Ordering};
use std::sync::mpsc::channel;
use std::sync::Arc;
use std::time::{Duration as StdDuration, Instant};
use trust_runtime::error::RuntimeError;
use trust_runtime::harness::TestHarness;
use trust_runtime::retain::RetainStore;
use trust_runtime::RetainSnapshot;
use trust_runtime::scheduler::{ManualClock, ResourceCommand, ResourceControl, ResourceHandle, ResourceRunner, ResourceState, SharedGlobals, StartGate};
use trust_runtime::value::{Duration, Value};
use vh::Rng;

struct CountingStore(Arc<AtomicUsize>);
impl RetainStore for CountingStore {
    fn load(&self) -> Result<RetainSnapshot, RuntimeError> { Ok(RetainSnapshot::default()) }
    fn store(&self, _s: &RetainSnapshot) -> Result<(), RuntimeError> { self.0.fetch_add(1, Ordering::SeqCst); Ok(()) }
}

fn source(limit: i64) -> String {
    format!("CONFIGURATION C\nVAR_GLOBAL\n x : DINT := 0;\n y : DINT := 0;\n mine : DINT := 0;\n bad : DINT := 0;\n lim : DINT := {limit};\n keep : DINT := 0;\nEND_VAR\nPROGRAM P1 : Main;\nEND_CONFIGURATION\n\
PROGRAM Main\nVAR_EXTERNAL\n x : DINT; y : DINT; mine : DINT; bad : DINT; lim : DINT;\nEND_VAR\nIF x <> y THEN\n bad := bad + 1;\nEND_IF;\nx := x + 1;\nmine := mine + 1;\ny := y + 1;\nIF lim > 0 AND mine >= lim THEN\n mine := mine / (lim - lim);\nEND_IF;\nEND_PROGRAM\n")
}
fn dint(v: Option<&Value>) -> i64 { match v { Some(Value::DInt(x)) => *x as i64, Some(Value::Int(x)) => *x as i64, Some(Value::LInt(x)) => *x, _ => -999 } }
fn state_num(s: ResourceState) -> u8 { match s { ResourceState::Boot => 0, ResourceState::Ready => 1, ResourceState::Running => 2, ResourceState::Paused => 3, ResourceState::Faulted => 4, ResourceState::Stopped => 5 } }

/// (mine, bad) of a live resource, through its command queue
fn query(c: &ResourceControl<ManualClock>) -> Option<(i64, i64)> {
    let (tx, rx) = channel();
    c.send_command(ResourceCommand::MeshSnapshot { names: vec!["mine".into(), "bad".into()], respond_to: tx }).ok()?;
    let m = rx.recv_timeout(StdDuration::from_secs(20)).ok()?;
    Some((dint(m.get("mine")), dint(m.get("bad"))))
}
fn wait_state(c: &ResourceControl<ManualClock>, want: ResourceState, ms: u64) -> bool {
    let t0 = Instant::now();
    while t0.elapsed() < StdDuration::from_millis(ms) { let st = c.state(); if st == want { return true; } if matches!(st, ResourceState::Faulted | ResourceState::Stopped) { return false; } std::thread::sleep(StdDuration::from_micros(100)); }
    c.state() == want
}

fn run_case(seed: u64) -> Result<String, String> {
    let mut rng = Rng::new(seed);
    let nres = rng.range(2, 4) as usize;
    let faulty = if rng.chance(1, 2) { Some(rng.below(nres as u64) as usize) } else { None };
    let limit = if faulty.is_some() { rng.range(1, 400) } else { 0 };
    let mut handles: Vec<ResourceHandle<ManualClock>> = Vec::new();
    let shared_clock: Option<ManualClock> = if rng.chance(1, 3) { Some(ManualClock::new()) } else { None };
    let mut saves = Vec::new();
    let gate: Option<Arc<StartGate>> = if rng.chance(1, 4) { Some(Arc::new(StartGate::new())) } else { None };
    let never_open = gate.is_some() && rng.chance(1, 3);
    let mut shared: Option<SharedGlobals> = None;
    for i in 0..nres {
        let src = source(if faulty == Some(i) { limit } else { 0 });
        let mut rt = TestHarness::from_source(&src).map_err(|e| format!("compile {e:?}"))?.into_runtime();
        let cnt = Arc::new(AtomicUsize::new(0));
        rt.set_retain_store(Some(Box::new(CountingStore(cnt.clone()))), None);
        saves.push(cnt);
        if shared.is_none() { shared = Some(SharedGlobals::from_runtime(vec!["x".into(), "y".into()], &rt).map_err(|e| format!("{e:?}"))?); }
        let runner = if let Some(clock) = &shared_clock { ResourceRunner::new(rt, clock.clone(), Duration::from_millis(10)) } else { ResourceRunner::new(rt, ManualClock::new(), Duration::from_millis(0)) };
        let runner = if let Some(g) = &gate { runner.with_start_gate(g.clone()) } else { runner };
        handles.push(runner.spawn_with_shared(format!("res-{i}"), shared.clone().unwrap()).map_err(|e| format!("{e:?}"))?);
    }
    let shared = shared.unwrap();
    let ctl: Vec<ResourceControl<ManualClock>> = handles.iter().map(|h| h.control()).collect();
    let mut windows: Vec<(i64, i64)> = Vec::new();
    let ncmds = rng.range(2, 14);
    let open_at = if gate.is_some() && !never_open { rng.below(ncmds as u64) as i64 } else { -1 };
    let mut opened = gate.is_none();
    for k in 0..ncmds {
        if k == open_at {
            gate.as_ref().unwrap().open(); opened = true;
            for c in &ctl { let t0 = Instant::now(); while c.state() == ResourceState::Ready && t0.elapsed() < StdDuration::from_secs(5) { std::thread::sleep(StdDuration::from_micros(100)); } }
        }
        let i = rng.below(nres as u64) as usize;
        match rng.below(6) {
            0 | 1 if opened => {
                let _ = ctl[i].pause();
                if wait_state(&ctl[i], ResourceState::Paused, 2000) {
                    if let Some((a, _)) = query(&ctl[i]) {
                        std::thread::sleep(StdDuration::from_micros(rng.below(3000)));
                        if let Some((b, _)) = query(&ctl[i]) { windows.push((a, b)); }
                    }
                }
            }
            0 | 1 => { if rng.chance(1, 2) { let _ = ctl[i].pause(); } }
            2 | 3 => { let _ = ctl[i].resume(); }
            4 => { if let Some(clock) = &shared_clock { clock.advance(Duration::from_millis(*rng.pick(&[1i64, 10, 10, 25]))); } std::thread::sleep(StdDuration::from_micros(rng.below(2000))); }
            _ => { for _ in 0..rng.below(5000) { std::hint::spin_loop(); } }
        }
    }
    // quiesce: pause everything that is alive, read the private counters and the shared pair
    for c in &ctl { let _ = c.pause(); }
    let mut mine = vec![if opened { -1i64 } else { -2i64 }; nres]; let mut bad = vec![0i64; nres];
    for (i, c) in ctl.iter().enumerate() {
        if opened && wait_state(c, ResourceState::Paused, 30000) {
            if let Some((m, b)) = query(c) { mine[i] = m; bad[i] = b; }
        }
    }
    let x = dint(shared.get("x").as_ref()); let y = dint(shared.get("y").as_ref());
    // stop and join (with a limit)
    let mut joined = vec![false; nres];
    let one_by_one = shared_clock.is_some();
    // on a shared clock the (paused) threads are parked in sleep_until between their polls: they are stopped one at a time
    let via_control: Vec<bool> = (0..nres).map(|_| rng.chance(1, 2)).collect();
    if !one_by_one { for (i, h) in handles.iter().enumerate() { if via_control[i] { ctl[i].stop(); } else { h.stop(); } } }
    let mut states = vec![0u8; nres];
    for (i, mut h) in handles.into_iter().enumerate() {
        if one_by_one { if via_control[i] { ctl[i].stop(); } else { h.stop(); } }
        let (tx, rx) = channel();
        let c = ctl[i].clone();
        std::thread::spawn(move || { let r = h.join(); let _ = tx.send(r.is_ok()); });
        joined[i] = rx.recv_timeout(StdDuration::from_secs(if one_by_one { 10 } else { 30 })).unwrap_or(false);
        states[i] = state_num(c.state());
    }
    let x_end = dint(shared.get("x").as_ref());
    let mut s = format!("{nres} {ncmds} {} : {x} {y} {x_end} {limit} {}", if gate.is_none() { 0 } else if opened { 1 } else { 2 }, windows.len());
    for (a, b) in &windows { s += &format!(" {a} {b}"); }
    s += &format!(" {nres}");
    for i in 0..nres { s += &format!(" {} {} {} {} {}", states[i], joined[i] as u8, saves[i].load(Ordering::SeqCst), mine[i], bad[i]); }
    Ok(s)
}

fn main() {
    let args: Vec<String> = std::env::args().collect();
    if args.get(1).map(|s| s.as_str()) == Some("--replay") {
        let text = std::fs::read_to_string(&args[2]).expect("read");
        let mut out = std::io::BufWriter::new(std::fs::File::create(&args[3]).expect("open"));
        for line in text.lines() {
            let id = line.split(':').next().unwrap_or("").trim().to_string();
            if let Some(seed) = id.split('_').nth(1).and_then(|s| s.parse::<u64>().ok()) {
                match run_case(seed) { Ok(l) => writeln!(out, "{id} : {l}").unwrap(), Err(e) => writeln!(out, "{id} ERROR {e}").unwrap() }
            }
        }
        return;
    }
    let count: usize = args[1].parse().unwrap();
    let mut out = std::io::BufWriter::new(std::fs::File::create(&args[2]).expect("open output"));
    let mut rng = Rng::new(vh::seed_from_env());
    for k in 0..count {
        let seed = rng.next() >> 1;
        match run_case(seed) {
            Ok(l) => {
                writeln!(out, "c{k}_{seed} : {l}").unwrap();
                // a resource that did not join within the limit leaves a thread behind (and every later case would wait for its
                // time-outs again): the failing line is on record, stop here
                let per: Vec<&str> = l.split(':').nth(1).unwrap_or("").split_whitespace().collect();
                let nw: usize = per.get(4).and_then(|t| t.parse().ok()).unwrap_or(0);
                let base = 6 + 2 * nw;
                let stuck = per.len() > base && per[base..].chunks(5).any(|c| c.len() == 5 && c[1] == "0");
                if stuck { out.flush().unwrap(); std::process::exit(0); }
            }
            Err(e) => writeln!(out, "c{k}_{seed} ERROR {e}").unwrap(),
        }
    }
}
