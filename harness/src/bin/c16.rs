//! C16 harness: trust_ide::rename on generated multi-file projects with a two-level scope structure.
//!   c16 <n> <out>   generate n projects from VERIF_SEED; for each, rename at every kind of occurrence with fresh and colliding names
//! Line:  <id> : full ; ng g… ; np (nl l… nu u…)… ; target (0 i x | 1 x) ; y : refused names… | edits_ok diag_same back_ok behaviour_same
//!   flags: 1 holds, 0 violated, 2 not applicable (rename back refused: the old name would newly shadow a project-level name; mixed-case project)
//!   names are indices into a per-project vocabulary (normalised, case-insensitive); `names…` = the vocabulary index of every occurrence
//!   after the implementation's edits were applied (globals, then per POU locals and uses) - the same layout the model prints
//!   project: every global is a FUNCTION name : DINT (VAR_INPUT v : DINT); POU i is PROGRAM Prog<i> with DINT locals and an accumulator
//!   acc<i>; a use of a local adds it to the accumulator, a use of a global calls it.
use std::io::Write;
use text_size::{TextRange, TextSize};
use trust_hir::db::{FileId, SemanticDatabase, SourceDatabase};
use trust_hir::Database;
use trust_runtime::harness::TestHarness;
use trust_runtime::value::Value;
use vh::Rng;

const VOCAB: &[&str] = &["alpha", "beta", "gamma", "delta", "hval", "fn1", "fn2", "tmp", "val", "idx", "speed", "lim9"];
#[derive(Clone)]
struct Pou { locals: Vec<usize>, uses: Vec<usize> }
#[derive(Clone)]
struct Proj { globals: Vec<usize>, pous: Vec<Pou>, mixed: bool }

/// an occurrence: (file, byte range, vocabulary index)
struct Occ { file: usize, start: usize, end: usize, name: usize }

/// mixed = false: every occurrence is written as in the vocabulary (the runtime looks variables up case-sensitively - a known
/// finding of C01 - so run-time behaviour can only be compared for consistently spelled projects)
fn spell(rng: &mut Rng, n: usize, mixed: bool) -> String {
    let s = VOCAB[n];
    if !mixed { return s.to_string(); }
    match rng.below(4) { 0 => s.to_uppercase(), 1 => { let mut c = s.chars(); c.next().map(|f| f.to_uppercase().collect::<String>() + c.as_str()).unwrap_or_default() } _ => s.to_string() }
}
/// render the project; file 0 holds the functions, file 1+i the program i; returns texts and the occurrences in model order
fn render(rng: &mut Rng, p: &Proj) -> (Vec<String>, Vec<Occ>) {
    let mut texts = Vec::new(); let mut occ = Vec::new();
    let mut f = String::new();
    for (k, g) in p.globals.iter().enumerate() {
        f += "FUNCTION ";
        let s = spell(rng, *g, p.mixed); occ.push(Occ { file: 0, start: f.len(), end: f.len() + s.len(), name: *g }); f += &s;
        // the function result is assigned through the RETURN-value name: that is another occurrence of the name, not part of the model's
        // layout; it is written with the declaration's spelling and must be renamed together with it (checked by diagnostics)
        f += &format!(" : DINT\nVAR_INPUT\n  v : DINT;\nEND_VAR\n  {s} := v + {};\nEND_FUNCTION\n\n", k + 1);
    }
    texts.push(f);
    for (i, pou) in p.pous.iter().enumerate() {
        let mut t = format!("PROGRAM Prog{i}\nVAR\n  acc{i} : DINT;\n");
        for l in &pou.locals { t += "  "; let s = spell(rng, *l, p.mixed); occ.push(Occ { file: 1 + i, start: t.len(), end: t.len() + s.len(), name: *l }); t += &s; t += " : DINT := 3;\n"; }
        t += "END_VAR\n";
        for u in &pou.uses {
            let is_local = pou.locals.contains(u);
            t += &format!("  acc{i} := acc{i} + ");
            let s = spell(rng, *u, p.mixed); occ.push(Occ { file: 1 + i, start: t.len(), end: t.len() + s.len(), name: *u }); t += &s;
            t += if is_local { ";\n" } else { "(2);\n" };
        }
        t += "END_PROGRAM\n";
        texts.push(t);
    }
    (texts, occ)
}
fn load(texts: &[String]) -> Database {
    let mut db = Database::new();
    for (i, t) in texts.iter().enumerate() { db.set_source_text(FileId(i as u32), t.clone()); }
    db
}
fn errors(db: &Database, n: usize) -> Vec<usize> {
    (0..n).map(|i| db.diagnostics(FileId(i as u32)).iter().filter(|d| format!("{:?}", d.severity).contains("Error")).count()).collect()
}
fn behaviour(texts: &[String], np: usize) -> String {
    let refs: Vec<&str> = texts.iter().map(|s| s.as_str()).collect();
    let mut h = match TestHarness::from_sources(&refs) { Ok(h) => h, Err(e) => return format!("compile-error:{}", format!("{e:?}").len().min(1)) };
    let mut out = String::new();
    for _ in 0..3 { let r = h.cycle(); if let Some(e) = r.errors.first() { out += &format!("E:{e:?};"); } }
    for i in 0..np {
        let v = match h.runtime().storage().get_global(&format!("Prog{i}")) { Some(Value::Instance(id)) => h.runtime().storage().get_instance_var(*id, &format!("acc{i}")).cloned(), _ => None };
        out += &format!("{v:?};");
    }
    out
}

fn gen_proj(rng: &mut Rng) -> Proj {
    let ng = rng.range(1, 3) as usize;
    let mut pool: Vec<usize> = (0..VOCAB.len()).collect();
    for i in (1..pool.len()).rev() { let j = rng.below(i as u64 + 1) as usize; pool.swap(i, j); }
    let globals: Vec<usize> = pool[..ng].to_vec();
    let np = rng.range(1, 3) as usize;
    let pous = (0..np).map(|_| {
        // locals may shadow a global name (legal) ; uses refer to locals or to visible globals
        let nl = rng.range(1, 3) as usize;
        let mut locals: Vec<usize> = Vec::new();
        while locals.len() < nl { let c = *rng.pick(&pool[..(ng + 6).min(pool.len())]); if !locals.contains(&c) { locals.push(c); } }
        let visible: Vec<usize> = locals.iter().copied().chain(globals.iter().copied()).collect();
        let uses = (0..rng.range(1, 5)).map(|_| *rng.pick(&visible)).collect();
        Pou { locals, uses }
    }).collect();
    Proj { globals, pous, mixed: rng.chance(1, 2) }
}
fn enc(p: &Proj) -> String {
    let mut s = format!("{}", p.globals.len());
    for g in &p.globals { s += &format!(" {g}"); }
    s += &format!(" ; {}", p.pous.len());
    for q in &p.pous { s += &format!(" {}", q.locals.len()); for l in &q.locals { s += &format!(" {l}"); } s += &format!(" {}", q.uses.len()); for u in &q.uses { s += &format!(" {u}"); } }
    s
}

fn main() {
    let args: Vec<String> = std::env::args().collect();
    let count: usize = args[1].parse().unwrap();
    let mut out = std::io::BufWriter::new(std::fs::File::create(&args[2]).expect("open output"));
    let full = std::env::var("VERIF_C16_FULL").map(|v| v != "0").unwrap_or(true) as u8;
    let mut rng = Rng::new(vh::seed_from_env());
    let mut case = 0usize;
    for k in 0..count {
        let p = gen_proj(&mut rng);
        let (texts, occ) = render(&mut rng, &p);
        let db = load(&texts);
        let nfiles = texts.len();
        let before_err = errors(&db, nfiles);
        if before_err.iter().any(|e| *e > 0) { writeln!(out, "g{k} ERROR generated project has diagnostics: {before_err:?} :: {}", texts.join("|").replace('\n', "\\n")).unwrap(); continue; }
        let before_beh = behaviour(&texts, p.pous.len());
        if !p.mixed && before_beh.contains("E:") { writeln!(out, "g{k} ERROR generated project faults at run time: {before_beh}").unwrap(); continue; }
        // occurrences to rename at: one per distinct (scope, name)
        let mut seen = std::collections::BTreeSet::new();
        for (oi, o) in occ.iter().enumerate() {
            // which declaration does this occurrence denote in the model?
            let (target, key) = if o.file == 0 { (format!("1 {}", o.name), (usize::MAX, o.name)) } else {
                let i = o.file - 1;
                if p.pous[i].locals.contains(&o.name) { (format!("0 {i} {}", o.name), (i, o.name)) } else { (format!("1 {}", o.name), (usize::MAX, o.name)) }
            };
            if !seen.insert((key, oi % 2)) { continue; }
            for _ in 0..3 {
                let y = rng.below(VOCAB.len() as u64) as usize;
                if y == o.name { continue; }
                let new_spelling = spell(&mut rng, y, p.mixed);
                let r = std::panic::catch_unwind(std::panic::AssertUnwindSafe(|| trust_ide::rename::rename(&db, FileId(o.file as u32), TextSize::from((o.start + rng.below((o.end - o.start) as u64) as usize) as u32), &new_spelling)));
                let Ok(r) = r else { writeln!(out, "c{case} ERROR rename panicked").unwrap(); case += 1; continue };
                let mut line = format!("c{case} : {full} ; {} ; {target} ; {y} :", enc(&p));
                case += 1;
                match r {
                    None => { line += " 1 | 1 1 1 1"; }
                    Some(res) => {
                        // apply the edits
                        let mut new_texts = texts.clone();
                        let mut edits_ok = true;
                        let mut edited: Vec<(usize, TextRange)> = Vec::new();
                        for (fid, edits) in res.edits.iter() {
                            let fi = fid.0 as usize;
                            let mut es: Vec<_> = edits.iter().collect();
                            es.sort_by_key(|e| e.range.start());
                            for w in es.windows(2) { if w[0].range.end() > w[1].range.start() { edits_ok = false; } }
                            for e in es.iter().rev() {
                                let (a, b) = (usize::from(e.range.start()), usize::from(e.range.end()));
                                if fi >= texts.len() || b > texts[fi].len() || a > b || !texts[fi].is_char_boundary(a) || !texts[fi].is_char_boundary(b) { edits_ok = false; continue; }
                                if !texts[fi][a..b].eq_ignore_ascii_case(VOCAB[o.name]) || e.new_text != new_spelling { edits_ok = false; }
                                new_texts[fi].replace_range(a..b, &e.new_text);
                                edited.push((fi, e.range));
                            }
                        }
                        // the vocabulary index of every model occurrence after the edits
                        line += " 0";
                        for oc in &occ {
                            let hit = edited.iter().any(|(fi, r)| *fi == oc.file && usize::from(r.start()) == oc.start && usize::from(r.end()) == oc.end);
                            line += &format!(" {}", if hit { y } else { oc.name });
                        }
                        let db2 = load(&new_texts);
                        let diag_same = errors(&db2, nfiles) == before_err;
                        let after_beh = behaviour(&new_texts, p.pous.len());
                        let beh_same = after_beh == before_beh;
                        if std::env::var("VERIF_SHOW_SRC").is_ok() && !beh_same { eprintln!("BEHAVIOUR {before_beh} -> {after_beh}"); }
                        // rename back at the same occurrence (its new position: everything before it in the same file may have moved)
                        let shift: isize = edited.iter().filter(|(fi, r)| *fi == o.file && usize::from(r.start()) < o.start).map(|(_, r)| new_spelling.len() as isize - (usize::from(r.end()) - usize::from(r.start())) as isize).sum();
                        let pos = (o.start as isize + shift) as usize;
                        let back = trust_ide::rename::rename(&db2, FileId(o.file as u32), TextSize::from(pos as u32), VOCAB[o.name]);
                        let back_ok: u8 = match back {
                            Some(res2) => {
                                let mut t2 = new_texts.clone();
                                for (fid, edits) in res2.edits.iter() { let fi = fid.0 as usize; let mut es: Vec<_> = edits.iter().collect(); es.sort_by_key(|e| e.range.start());
                                    for e in es.iter().rev() { let (a, b) = (usize::from(e.range.start()), usize::from(e.range.end())); if fi < t2.len() && b <= t2[fi].len() && a <= b { t2[fi].replace_range(a..b, &e.new_text); } } }
                                t2.iter().zip(texts.iter()).all(|(a, b)| a.to_lowercase() == b.to_lowercase()) as u8
                            }
                            None => { if std::env::var("VERIF_SHOW_SRC").is_ok() { eprintln!("BACK refused: {} -> {} at file {} pos {pos}: {:?}", new_spelling, VOCAB[o.name], o.file, &new_texts[o.file][pos.saturating_sub(3)..(pos + 8).min(new_texts[o.file].len())]); } 2 }
                        };
                        line += &format!(" | {} {} {} {}", edits_ok as u8, diag_same as u8, back_ok, if p.mixed { 2 } else { beh_same as u8 });
                        if std::env::var("VERIF_SHOW_SRC").is_ok() && !(diag_same && beh_same) { eprintln!("--- c{} rename {} -> {}\n{}\n=>\n{}", case - 1, VOCAB[o.name], new_spelling, texts.join("\n"), new_texts.join("\n")); }
                    }
                }
                writeln!(out, "{line}").unwrap();
            }
        }
    }
}
