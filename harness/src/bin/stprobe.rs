//! ad-hoc probe: run ST source from a file for 2 cycles, print errors and variables of instance Main
use trust_runtime::harness::TestHarness;
fn main() {
    let src = std::fs::read_to_string(std::env::args().nth(1).unwrap()).unwrap();
    match TestHarness::from_source(&src) {
        Err(e) => println!("compile error: {e:?}"),
        Ok(mut h) => { for _ in 0..2 { let r = h.cycle(); println!("cycle errors: {:?}", r.errors); } }
    }
}
