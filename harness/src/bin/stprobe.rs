//! ad-hoc probe: compile + run one ST source given on stdin, print errors and variables
use std::io::Read;
use trust_runtime::harness::TestHarness;
fn main() {
    let mut src = String::new();
    std::io::stdin().read_to_string(&mut src).unwrap();
    match TestHarness::from_source(&src) {
        Err(e) => println!("COMPILE ERROR: {e:?}"),
        Ok(mut h) => {
            let n: usize = std::env::args().nth(1).and_then(|s| s.parse().ok()).unwrap_or(1);
            for _ in 0..n {
                let r = h.cycle();
                println!("cycle errors: {:?}", r.errors);
            }
            if let Some(trust_runtime::value::Value::Instance(id)) = h.runtime().storage().get_global("Main").cloned() {
                if let Some(inst) = h.runtime().storage().get_instance(id) { println!("{:?}", inst.variables); }
            }
        }
    }
}
