//! C19 harness: the browser IDE's file API (trust_runtime::web::ide::WebIdeState) on a project nested in a sentinel tree.
//!   c19 <n> <out> <workdir>            generate n cases from VERIF_SEED  (p-, d- and t-lines, see below)
//!   c19 --replay <in> <out> <workdir>  re-run p-/d-lines
//! p-lines (one file-API call; calls with the same case number run in order on one tree):
//!   p<k>.<j> : we sk op first n c1..cn m d1..dm : cls changed_out changed_hidden changed_in leak L e1..eL
//!   sk 0 editor 1 viewer 2 unknown/expired token; op 0 open 1 apply 2 create file 3 create dir 4 delete 5 rename 6 list tree
//!   7 list sources 8 search; cls 0 ok 1 InvalidInput 2 Forbidden 3 NotFound 4 Conflict 5 Unauthorized 6 TooLarge 7 Internal 8 other
//! d-lines (sequential open/apply/external-edit history on main.st):  d<k> : c0 (0 s | 1 s e c | 2 c)* : (0 v c | 1 v | 2)*
//! t-lines (threads, honest optimistic clients):  t<k> : nthreads nwrites : initial final | per success: thread expected version content known_content
use std::collections::BTreeMap;
use std::io::Write;
use std::path::{Path, PathBuf};
use std::sync::Arc;
use trust_runtime::web::ide::{IdeErrorKind, IdeRole, IdeTreeNode, WebIdeState};
use vh::Rng;

fn build_tree(case: &Path) -> PathBuf {
    let _ = std::fs::remove_dir_all(case);
    let proj = case.join("outer/proj");
    std::fs::create_dir_all(proj.join("sub/inner")).unwrap();
    std::fs::create_dir_all(proj.join(".hidden")).unwrap();
    std::fs::create_dir_all(case.join("outer/other")).unwrap();
    let w = |p: PathBuf, c: &str| std::fs::write(p, c).unwrap();
    w(case.join("outer/secret.st"), "(* SENTINEL_OUT_1 *)\n");
    w(case.join("outer/other/deep.st"), "(* SENTINEL_OUT_2 *)\n");
    w(proj.join("main.st"), "PROGRAM Main\nEND_PROGRAM\n");
    w(proj.join("notes.txt"), "notes\n");
    w(proj.join("sub/a.st"), "PROGRAM A\nEND_PROGRAM\n");
    w(proj.join("sub/inner/b.st"), "PROGRAM B\nEND_PROGRAM\n");
    w(proj.join(".hidden/h.st"), "(* SENTINEL_HID_1 *)\n");
    w(proj.join(".env"), "SENTINEL_HID_2\n");
    use std::os::unix::fs::symlink;
    symlink("../secret.st", proj.join("linkfile.st")).unwrap();
    symlink("../other", proj.join("linkdir")).unwrap();
    symlink("sub/a.st", proj.join("inlink.st")).unwrap();
    symlink("../nonexistent.st", proj.join("dangling.st")).unwrap();
    proj
}

/// everything below the case directory, symlinks not followed
fn snapshot(dir: &Path, rel: &str, out: &mut BTreeMap<String, String>) {
    let Ok(rd) = std::fs::read_dir(dir) else { return };
    for e in rd.flatten() {
        let name = e.file_name().to_string_lossy().to_string();
        let r = if rel.is_empty() { name.clone() } else { format!("{rel}/{name}") };
        let Ok(ft) = e.file_type() else { continue };
        if ft.is_symlink() { out.insert(r, format!("L{:?}", std::fs::read_link(e.path()).ok())); }
        else if ft.is_dir() { out.insert(r.clone(), "D".into()); snapshot(&e.path(), &r, out); }
        else { out.insert(r, format!("F{:?}", std::fs::read(e.path()).ok())); }
    }
}
fn classify(before: &BTreeMap<String, String>, after: &BTreeMap<String, String>) -> (bool, bool, bool) {
    let (mut o, mut h, mut i) = (false, false, false);
    let keys: std::collections::BTreeSet<&String> = before.keys().chain(after.keys()).collect();
    for k in keys {
        if before.get(k) == after.get(k) { continue; }
        match k.strip_prefix("outer/proj/") {
            None => { if k != "outer/proj" { o = true } else { i = true } }
            Some(inner) => if inner.split('/').any(|c| c.starts_with('.')) { h = true } else { i = true },
        }
    }
    (o, h, i)
}
fn class(e: IdeErrorKind) -> u8 {
    match e { IdeErrorKind::InvalidInput => 1, IdeErrorKind::Forbidden => 2, IdeErrorKind::NotFound => 3, IdeErrorKind::Conflict => 4, IdeErrorKind::Unauthorized => 5, IdeErrorKind::TooLarge => 6, IdeErrorKind::Internal => 7, _ => 8 }
}
fn tree_paths(nodes: &[IdeTreeNode], out: &mut Vec<String>) { for n in nodes { out.push(n.path.clone()); tree_paths(&n.children, out); } }
/// a listing leaks when it names a hidden entry or something whose real location is outside the project
fn leaky_listing(paths: &[String], proj: &Path) -> bool {
    let root = proj.canonicalize().unwrap_or_else(|_| proj.to_path_buf());
    paths.iter().any(|p| p.split('/').any(|c| c.starts_with('.')) || match proj.join(p).canonicalize() { Ok(c) => !c.starts_with(&root), Err(_) => false })
}

const COMPONENTS: &[&str] = &["main.st", "sub", "a.st", "inner", "b.st", "new.st", "newdir", "x.st", ".hidden", "h.st", ".env", "linkfile.st", "linkdir", "deep.st",
    "inlink.st", "dangling.st", "..", ".", "", "secret.st", "other", " ", "\t", "sub\\a.st", "ünï.st", "...", "..x", ".st", "a..b", "notes.txt", "outer", "proj",
    "\u{a0}", "\u{3000}main.st", "main.st\u{2003}", "nul\u{0}l"];
fn gen_path(rng: &mut Rng, case: &Path) -> String {
    if rng.chance(1, 40) { return case.join("outer/secret.st").to_string_lossy().to_string(); }
    if rng.chance(1, 40) { return "x/".repeat(rng.range(200, 2500) as usize) + "y.st"; }
    let n = rng.range(1, 4);
    let mut s = String::new();
    match rng.below(12) { 0 => s += "/", 1 => s += "./", 2 => s += "../", 3 => s += " ", 4 => s += "//", 5 => s += "\u{a0}", _ => {} }
    for i in 0..n { if i > 0 { s += if rng.chance(1, 12) { "//" } else { "/" }; } s += *rng.pick(COMPONENTS); }
    match rng.below(10) { 0 => s += "/", 1 => s += " ", 2 => s += "/.", 3 => s += "/..", 4 => s += "\n", _ => {} }
    s
}
fn codes(s: &str) -> String { let v: Vec<String> = s.chars().map(|c| (c as u32).to_string()).collect(); format!("{} {}", v.len(), v.join(" ")) }
fn decode(t: &[i64], i: &mut usize) -> String { let n = t[*i] as usize; *i += 1; let s: String = t[*i..*i + n].iter().map(|c| char::from_u32(*c as u32).unwrap_or('?')).collect(); *i += n; s }

struct Call { we: bool, sk: u8, op: u8, p: String, p2: String }
fn run_calls(id: &str, calls: &[Call], workdir: &str, out: &mut impl Write) {
    let case = PathBuf::from(workdir).join(format!("case-{}", std::process::id()));
    let proj = build_tree(&case);
    let ide = WebIdeState::new(Some(proj.clone()));
    let editor = ide.create_session(IdeRole::Editor).unwrap().token;
    let viewer = ide.create_session(IdeRole::Viewer).unwrap().token;
    for (j, c) in calls.iter().enumerate() {
        let tok = match c.sk { 0 => editor.as_str(), 1 => viewer.as_str(), _ => "0123456789abcdef-not-a-session" };
        let mut before = BTreeMap::new(); snapshot(&case, "", &mut before);
        let (mut cls, mut leak, mut npath) = (0u8, false, String::new());
        let r = std::panic::catch_unwind(std::panic::AssertUnwindSafe(|| match c.op {
            0 => match ide.open_source(tok, &c.p) { Ok(s) => (0, s.content.contains("SENTINEL"), s.path), Err(e) => (class(e.kind()), false, String::new()) },
            1 => {
                let v = ide.open_source(&editor, &c.p).map(|s| s.version).unwrap_or(1);
                match ide.apply_source(tok, &c.p, v, "PROGRAM W\nEND_PROGRAM\n".into(), c.we) { Ok(r) => (0, false, r.path), Err(e) => (class(e.kind()), false, String::new()) }
            }
            2 => match ide.create_entry(tok, &c.p, false, Some("PROGRAM N\nEND_PROGRAM\n".into()), c.we) { Ok(r) => (0, false, r.path), Err(e) => (class(e.kind()), false, String::new()) },
            3 => match ide.create_entry(tok, &c.p, true, None, c.we) { Ok(r) => (0, false, r.path), Err(e) => (class(e.kind()), false, String::new()) },
            4 => match ide.delete_entry(tok, &c.p, c.we) { Ok(r) => (0, false, r.path), Err(e) => (class(e.kind()), false, String::new()) },
            5 => match ide.rename_entry(tok, &c.p, &c.p2, c.we) { Ok(r) => (0, false, r.path), Err(e) => (class(e.kind()), false, String::new()) },
            6 => match ide.list_tree(tok) { Ok(n) => { let mut ps = Vec::new(); tree_paths(&n, &mut ps); (0, leaky_listing(&ps, &proj), String::new()) } Err(e) => (class(e.kind()), false, String::new()) },
            7 => match ide.list_sources(tok) { Ok(ps) => (0, leaky_listing(&ps, &proj), String::new()), Err(e) => (class(e.kind()), false, String::new()) },
            _ => match ide.workspace_search(tok, "SENTINEL", None, None, 50) { Ok(h) => (0, !h.is_empty(), String::new()), Err(e) => (class(e.kind()), false, String::new()) },
        }));
        match r { Ok((a, b, c2)) => { cls = a; leak = b; npath = c2; } Err(_) => { cls = 8; } }
        // the read of op 1's helper open is done with the editor session: its leak is judged by op 0 cases
        let mut after = BTreeMap::new(); snapshot(&case, "", &mut after);
        let (o, h, i) = classify(&before, &after);
        writeln!(out, "{id}.{j} : {} {} {} {} {} {} : {cls} {} {} {} {} {}", c.we as u8, c.sk, c.op, (j == 0) as u8, codes(&c.p), codes(&c.p2), o as u8, h as u8, i as u8, leak as u8, codes(&npath)).unwrap();
    }
    let _ = std::fs::remove_dir_all(&case);
}

fn run_docs(id: &str, c0: u64, calls: &[Vec<u64>], workdir: &str, out: &mut impl Write) {
    let case = PathBuf::from(workdir).join(format!("case-{}", std::process::id()));
    let proj = build_tree(&case);
    let text = |c: u64| format!("(* C{c} *)\n");
    let num = |s: &str| s.trim().trim_start_matches("(* C").trim_end_matches("*)").trim().parse::<u64>().unwrap_or(999_999);
    std::fs::write(proj.join("main.st"), text(c0)).unwrap();
    let ide = WebIdeState::new(Some(proj.clone()));
    let toks: Vec<String> = (0..3).map(|_| ide.create_session(IdeRole::Editor).unwrap().token).collect();
    let mut req = format!("{c0}"); let mut obs = String::new();
    for c in calls {
        match c[0] {
            0 => { req += &format!(" 0 {}", c[1]); match ide.open_source(&toks[c[1] as usize], "main.st") { Ok(s) => obs += &format!(" 0 {} {}", s.version, num(&s.content)), Err(_) => obs += " 2" } }
            1 => { req += &format!(" 1 {} {} {}", c[1], c[2], c[3]);
                   match ide.apply_source(&toks[c[1] as usize], "main.st", c[2], text(c[3]), true) { Ok(r) => obs += &format!(" 0 {} {}", r.version, c[3]), Err(e) => match e.current_version() { Some(v) => obs += &format!(" 1 {v}"), None => obs += " 2" } } }
            _ => { req += &format!(" 2 {}", c[1]); std::fs::write(proj.join("main.st"), text(c[1])).unwrap(); obs += " 2"; }
        }
    }
    writeln!(out, "{id} : {req} :{obs}").unwrap();
    let _ = std::fs::remove_dir_all(&case);
}

/// several documents in directories whose names share string prefixes; sequential opens / applies / external edits / renames / deletes
/// m-line:  <id> : ndirs (dir nfiles content…)… calls… : outs…     (calls and outs as in ocaml/c19_main.ml)
const DIRS: &[&str] = &["lib", "lib_io", "lib2", "core", "core_x", "li"];
fn run_multi(id: &str, init: &[(usize, Vec<u64>)], calls: &[Vec<u64>], workdir: &str, out: &mut impl Write) {
    let case = PathBuf::from(workdir).join(format!("case-{}", std::process::id()));
    let proj = build_tree(&case);
    let text = |c: u64| format!("(* C{c} *)\n");
    let num = |s: &str| s.trim().trim_start_matches("(* C").trim_end_matches("*)").trim().parse::<u64>().unwrap_or(999_999);
    let path = |d: u64, f: u64| format!("{}/f{}.st", DIRS[d as usize], f);
    let mut req = format!("{}", init.len());
    for (d, files) in init {
        std::fs::create_dir_all(proj.join(DIRS[*d])).unwrap();
        req += &format!(" {d} {}", files.len());
        for (f, c) in files.iter().enumerate() { std::fs::write(proj.join(path(*d as u64, f as u64)), text(*c)).unwrap(); req += &format!(" {c}"); }
    }
    let ide = WebIdeState::new(Some(proj.clone()));
    let tok = ide.create_session(IdeRole::Editor).unwrap().token;
    let mut obs = String::new();
    let fs_class = |e: IdeErrorKind| match e { IdeErrorKind::NotFound => " 3", IdeErrorKind::Conflict => " 4", _ => " 6" };
    for c in calls {
        for t in c { req += &format!(" {t}"); }
        match c[0] {
            0 => match ide.open_source(&tok, &path(c[1], c[2])) { Ok(s) => obs += &format!(" 0 {} {}", s.version, num(&s.content)), Err(e) => obs += fs_class(e.kind()) },
            1 => match ide.apply_source(&tok, &path(c[1], c[2]), c[3], text(c[4]), true) { Ok(r) => obs += &format!(" 0 {} {}", r.version, c[4]), Err(e) => match e.current_version() { Some(v) => obs += &format!(" 1 {v}"), None => obs += fs_class(e.kind()) } },
            2 => { let p = proj.join(path(c[1], c[2])); if p.is_file() { std::fs::write(p, text(c[3])).unwrap(); obs += " 5"; } else { obs += " 3"; } }
            3 => match ide.rename_entry(&tok, DIRS[c[1] as usize], DIRS[c[2] as usize], true) { Ok(_) => obs += " 5", Err(e) => obs += fs_class(e.kind()) },
            4 => match ide.rename_entry(&tok, &path(c[1], c[2]), &path(c[3], c[4]), true) { Ok(_) => obs += " 5", Err(e) => obs += fs_class(e.kind()) },
            5 => match ide.delete_entry(&tok, &path(c[1], c[2]), true) { Ok(_) => obs += " 5", Err(e) => obs += fs_class(e.kind()) },
            _ => match ide.delete_entry(&tok, DIRS[c[1] as usize], true) { Ok(_) => obs += " 5", Err(e) => obs += fs_class(e.kind()) },
        }
    }
    writeln!(out, "{id} : {req} :{obs}").unwrap();
    let _ = std::fs::remove_dir_all(&case);
}

/// honest optimistic clients on real threads: open, then write with the version last received; after a conflict re-open
fn run_threads(id: &str, nthreads: usize, nwrites: usize, big: bool, workdir: &str, out: &mut impl Write) {
    let case = PathBuf::from(workdir).join(format!("case-{}", std::process::id()));
    let proj = build_tree(&case);
    let pad = if big { " ".repeat(200_000) } else { String::new() };
    let text = move |c: u64| format!("(* C{c} *){pad}\n");
    let num = |s: &str| s.split("*)").next().unwrap_or("").trim().trim_start_matches("(* C").trim().parse::<u64>().unwrap_or(999_999);
    std::fs::write(proj.join("main.st"), text(0)).unwrap();
    let ide = Arc::new(WebIdeState::new(Some(proj.clone())));
    let mut handles = Vec::new();
    for t in 0..nthreads {
        let ide = ide.clone(); let text = text.clone();
        handles.push(std::thread::spawn(move || {
            let tok = ide.create_session(IdeRole::Editor).unwrap().token;
            let mut log = Vec::new(); // (expected, version, content, known_content)
            let mut known: Option<(u64, u64)> = None;
            for i in 0..nwrites {
                if known.is_none() { if let Ok(s) = ide.open_source(&tok, "main.st") { known = Some((s.version, num(&s.content))); } }
                let Some((v, kc)) = known else { continue };
                let c = (t as u64 + 1) * 1000 + i as u64;
                match ide.apply_source(&tok, "main.st", v, text(c), true) {
                    Ok(r) => { log.push((v, r.version, c, kc)); known = Some((r.version, c)); }
                    Err(_) => { known = None; }
                }
            }
            log
        }));
    }
    let mut succ = Vec::new();
    for (t, h) in handles.into_iter().enumerate() { for (e, v, c, k) in h.join().unwrap_or_default() { succ.push((t, e, v, c, k)); } }
    let fin = num(&std::fs::read_to_string(proj.join("main.st")).unwrap_or_default());
    let mut s = format!("{id} : {nthreads} {nwrites} : 0 {fin} |");
    for (t, e, v, c, k) in succ { s += &format!(" {t} {e} {v} {c} {k}"); }
    writeln!(out, "{s}").unwrap();
    let _ = std::fs::remove_dir_all(&case);
}

fn main() {
    let args: Vec<String> = std::env::args().collect();
    if args.get(1).map(|s| s.as_str()) == Some("--replay") {
        let text = std::fs::read_to_string(&args[2]).expect("read");
        let mut out = std::io::BufWriter::new(std::fs::File::create(&args[3]).expect("open"));
        std::fs::create_dir_all(&args[4]).ok();
        // p-lines of one case are replayed together
        let mut group: Vec<Call> = Vec::new(); let mut gid = String::new();
        let flush = |gid: &str, group: &mut Vec<Call>, out: &mut std::io::BufWriter<std::fs::File>| { if !group.is_empty() { run_calls(gid, group, &args[4], out); group.clear(); } };
        for line in text.lines() {
            let parts: Vec<&str> = line.split(':').collect();
            if parts.len() < 2 { continue; }
            let id = parts[0].trim();
            let t: Vec<i64> = parts[1].split_whitespace().filter_map(|x| x.parse().ok()).collect();
            if id.starts_with('p') {
                let base = id.split('.').next().unwrap().to_string();
                if base != gid { flush(&gid, &mut group, &mut out); gid = base; }
                let mut i = 4; let p = decode(&t, &mut i); let p2 = decode(&t, &mut i);
                group.push(Call { we: t[0] != 0, sk: t[1] as u8, op: t[2] as u8, p, p2 });
            } else if id.starts_with('m') {
                flush(&gid, &mut group, &mut out);
                let tu: Vec<u64> = t.iter().map(|x| *x as u64).collect();
                let mut i = 1; let mut init = Vec::new();
                for _ in 0..tu[0] { let d = tu[i] as usize; let nf = tu[i + 1] as usize; init.push((d, tu[i + 2..i + 2 + nf].to_vec())); i += 2 + nf; }
                let mut calls = Vec::new();
                while i < tu.len() { let w = match tu[i] { 0 => 3, 1 => 5, 2 => 4, 3 => 3, 4 => 5, 5 => 3, _ => 2 }; calls.push(tu[i..i + w].to_vec()); i += w; }
                run_multi(id, &init, &calls, &args[4], &mut out);
            } else if id.starts_with('d') {
                flush(&gid, &mut group, &mut out);
                let mut calls = Vec::new(); let mut i = 1;
                while i < t.len() { let w = match t[i] { 0 => 2, 1 => 4, _ => 2 }; calls.push(t[i..i + w].iter().map(|x| *x as u64).collect()); i += w; }
                run_docs(id, t[0] as u64, &calls, &args[4], &mut out);
            }
        }
        flush(&gid, &mut group, &mut out);
        return;
    }
    let count: usize = args[1].parse().unwrap();
    let mut out = std::io::BufWriter::new(std::fs::File::create(&args[2]).expect("open output"));
    std::fs::create_dir_all(&args[3]).ok();
    let mut rng = Rng::new(vh::seed_from_env());
    let shard = vh::seed_from_env() % 1000;
    let case_dir = PathBuf::from(&args[3]).join(format!("case-{}", std::process::id()));
    for k in 0..count {
        match rng.below(10) {
            0..=6 => {
                let n = rng.range(1, 4);
                let calls: Vec<Call> = (0..n).map(|_| {
                    let op = match rng.below(16) { 0..=2 => 0, 3..=4 => 1, 5..=6 => 2, 7 => 3, 8..=9 => 4, 10..=11 => 5, 12 => 6, 13 => 7, 14 => 8, _ => 0 } as u8;
                    let sk = match rng.below(6) { 0 => 1, 1 => 2, _ => 0 };
                    // half of the calls use a well-formed path to an existing / fresh entry so that the deeper code paths are reached
                    let plain = rng.chance(1, 2);
                    let existing = ["main.st", "sub/a.st", "notes.txt", "sub", "sub/inner/b.st", "inlink.st", "linkfile.st", "linkdir", "dangling.st", "linkdir/deep.st"];
                    let fresh = ["newdir/x.st", "d1/d2/y.st", "sub/new.st", "fresh.st", "sub/inner/deeper/z.st", "dangling.st", "linkdir/new.st"];
                    let p = if plain { (*rng.pick(if matches!(op, 2 | 3) { &fresh[..] } else { &existing[..] })).to_string() } else { gen_path(&mut rng, &case_dir) };
                    let p2 = if op == 5 { if plain || rng.chance(1, 2) { (*rng.pick(&fresh[..])).to_string() } else { gen_path(&mut rng, &case_dir) } } else { String::new() };
                    Call { we: !rng.chance(1, 6), sk, op, p, p2 }
                }).collect();
                run_calls(&format!("p{shard}x{k}"), &calls, &args[3], &mut out);
            }
            7 if rng.chance(2, 3) => {
                // directories 0..2 exist with two files each; 3..5 are rename targets
                let mut next = 10u64;
                let init: Vec<(usize, Vec<u64>)> = (0..3).map(|d| (d, (0..2).map(|_| { next += 1; next }).collect())).collect();
                // phase 1: open and edit some files (expected versions tracked so that most writes succeed); phase 2: renames and
                // deletes; phase 3: more opens and writes, some with the version held before phase 2
                let mut ver = std::collections::BTreeMap::new();
                let mut calls: Vec<Vec<u64>> = Vec::new();
                let edit = |rng: &mut Rng, calls: &mut Vec<Vec<u64>>, ver: &mut std::collections::BTreeMap<(u64, u64), u64>, next: &mut u64, n: i64| {
                    for _ in 0..n {
                        *next += 1; let d = rng.below(4); let f = rng.below(2);
                        match rng.below(10) {
                            0..=2 => { calls.push(vec![0, d, f]); ver.entry((d, f)).or_insert(1); }
                            3..=7 => { let v = *ver.get(&(d, f)).unwrap_or(&1); let e = if rng.chance(1, 5) { rng.range(0, 4) as u64 } else { v }; calls.push(vec![1, d, f, e, *next]); if e == v { ver.insert((d, f), v + 1); } }
                            8 => calls.push(vec![2, d.min(2), f, *next]),
                            _ => calls.push(vec![0, rng.below(6), f]),
                        }
                    }
                };
                let n1 = rng.range(2, 7); edit(&mut rng, &mut calls, &mut ver, &mut next, n1);
                for _ in 0..rng.range(1, 3) {
                    match rng.below(8) {
                        0..=4 => calls.push(vec![3, rng.below(3), 3 + rng.below(3)]),
                        5 => calls.push(vec![3, rng.below(6), rng.below(6)]),
                        6 => calls.push(vec![4, rng.below(3), rng.below(2), rng.below(6), rng.below(3)]),
                        _ => if rng.chance(1, 2) { calls.push(vec![5, rng.below(3), rng.below(2)]) } else { calls.push(vec![6, rng.below(3)]) },
                    }
                }
                let n3 = rng.range(2, 7); edit(&mut rng, &mut calls, &mut ver, &mut next, n3);
                run_multi(&format!("m{shard}x{k}"), &init, &calls, &args[3], &mut out);
            }
            7 | 8 => {
                let n = rng.range(2, 14);
                let mut next = 1u64;
                let calls: Vec<Vec<u64>> = (0..n).map(|_| match rng.below(8) {
                    0 | 1 => vec![0, rng.below(3)],
                    2 => { next += 1; vec![2, if rng.chance(1, 4) { 0 } else { next + 100 }] }
                    _ => { next += 1; vec![1, rng.below(3), rng.range(0, 8) as u64, next] }
                }).collect();
                run_docs(&format!("d{shard}x{k}"), 0, &calls, &args[3], &mut out);
            }
            _ => {
                let big = rng.chance(1, 3);
                run_threads(&format!("t{shard}x{k}"), rng.range(2, 6) as usize, if big { 6 } else { rng.range(5, 40) as usize }, big, &args[3], &mut out);
            }
        }
    }
}
