//! C01/C02/C03 harness: type-directed generator of ST core programs (BOOL + 8 integer kinds;
//! assignment, IF/ELSIF, CASE, FOR, WHILE, REPEAT, EXIT, CONTINUE), run through the real
//! parser + HIR gate + lowering + interpreter; all variables (with their runtime type tags) are
//! dumped after every cycle.
//!   c01 <n> <out>                 generate
//!   c01 --replay <in> <out>       re-run case lines
//! Line:  <id> : <program tokens> : <cycle inputs> : <observations>
//!   program = nv {kind} ns {stmt}     kind 0..7 = SINT INT DINT LINT USINT UINT UDINT ULINT, 8 = BOOL
//!   expr = 0 u kind val | 1 x | 2 op e | 3 op l r        stmt: see fn enc_stmt
//!   cycles  = nc { nset {x val} }
//!   ids starting with f: programs with FUNCTION_BLOCK calls.  program = nv {kind} nfb {fb} ninst {fb index} ns {stmt}
//!             fb = en eno nin {kind} nout {kind} nloc {kind} ns {stmt over the block's variables [EN] inputs outputs [ENO] locals}
//!             stmt 9 = call: inst has_en [expr] nin {expr} nout {0 | main variable + 1} (0 | ENO target + 1); observations list the
//!             program's variables and then every instance's variables (the flat store of Model/StCalls.v)
//!   ids starting with a: programs with one-dimensional integer arrays.  program = nv {kind} narr {kind lo n} ns {stmt}
//!             expr 4 = element read: arr index-kind index-expr;  stmt 10 = element write: arr index-kind index-expr value-expr;
//!             observations list the program's variables and then every array's elements (the flat store of Model/StCore.v EIdx)
//!   obs     = per cycle: status [nv {kind val}]   status 0 ok, 1 div0, 2 mod0, 3 overflow, 4 for-step-0,
//!             5 type mismatch, 6 cond-not-bool, 7 case selector, 8 control flow, 9 undefined var, 10 panic, 11 other, 12 index out of bounds
//!             (a case ends at its first faulting cycle); status 20 = did not compile
use std::io::Write;
use trust_runtime::error::RuntimeError;
use trust_runtime::harness::TestHarness;
use trust_runtime::value::Value;
use vh::Rng;

const KNAMES: [&str; 9] = ["SINT", "INT", "DINT", "LINT", "USINT", "UINT", "UDINT", "ULINT", "BOOL"];
fn kmin(k: usize) -> i128 { match k { 0 => -128, 1 => -32768, 2 => -(1 << 31), 3 => -(1i128 << 63), _ => 0 } }
fn kmax(k: usize) -> i128 { match k { 0 => 127, 1 => 32767, 2 => (1 << 31) - 1, 3 => (1i128 << 63) - 1, 4 => 255, 5 => 65535, 6 => (1i128 << 32) - 1, 7 => (1i128 << 64) - 1, _ => 1 } }
fn signed(k: usize) -> bool { k < 4 }

#[derive(Clone, Debug)]
enum Expr { Lit(bool, usize, i128), Var(usize), Un(usize, Box<Expr>), Bin(usize, Box<Expr>, Box<Expr>), Idx(usize, usize, Box<Expr>) }
#[derive(Clone, Debug)]
enum Label { Single(i128), Range(i128, i128) }
#[derive(Clone, Debug)]
enum Stmt {
    Assign(usize, Expr),
    AssignIdx(usize, usize, Expr, Expr),
    If(Expr, Vec<Stmt>, Vec<(Expr, Vec<Stmt>)>, Vec<Stmt>),
    Case(Expr, Vec<(Vec<Label>, Vec<Stmt>)>, Vec<Stmt>),
    For(usize, Expr, Expr, Expr, Vec<Stmt>),
    While(Expr, Vec<Stmt>),
    Repeat(Vec<Stmt>, Expr),
    Exit, Continue, Return,
    Call { inst: usize, en: Option<Expr>, ins: Vec<Expr>, outs: Vec<Option<usize>>, eno: Option<usize> },
}
#[derive(Clone, Debug, Default)]
struct FbDef { en: bool, eno: bool, kin: Vec<usize>, kout: Vec<usize>, kloc: Vec<usize>, body: Vec<Stmt> }
impl FbDef {
    fn kinds(&self) -> Vec<usize> { let mut k = vec![]; if self.en { k.push(8); } k.extend(&self.kin); k.extend(&self.kout); if self.eno { k.push(8); } k.extend(&self.kloc); k }
    fn names(&self) -> Vec<String> {
        let mut n = vec![]; if self.en { n.push("EN".to_string()); }
        n.extend((0..self.kin.len()).map(|i| format!("i{i}"))); n.extend((0..self.kout.len()).map(|i| format!("q{i}")));
        if self.eno { n.push("ENO".to_string()); } n.extend((0..self.kloc.len()).map(|i| format!("l{i}"))); n
    }
}
#[derive(Clone, Debug, Default)]
struct Ext { fbs: Vec<FbDef>, insts: Vec<usize>, /// (element kind, lower bound, length)
             arrays: Vec<(usize, i128, usize)> }
thread_local! { static NAMES: std::cell::RefCell<Vec<String>> = std::cell::RefCell::new(Vec::new()); }
fn vname(x: usize) -> String { NAMES.with(|n| n.borrow().get(x).cloned()).unwrap_or_else(|| format!("v{x}")) }
const OPS: [&str; 14] = ["+", "-", "*", "/", "MOD", "=", "<>", "<", "<=", ">", ">=", "AND", "OR", "XOR"];

fn pr_expr(e: &Expr) -> String {
    match e {
        Expr::Lit(_, 8, v) => if *v != 0 { "TRUE".into() } else { "FALSE".into() },
        Expr::Lit(true, _, v) => if *v < 0 { format!("({v})") } else { format!("{v}") },
        Expr::Lit(false, k, v) => format!("{}#{v}", KNAMES[*k]),
        Expr::Var(x) => vname(*x),
        Expr::Un(0, e) => format!("(-{})", pr_expr(e)),
        Expr::Un(_, e) => format!("(NOT {})", pr_expr(e)),
        Expr::Bin(op, l, r) => format!("({} {} {})", pr_expr(l), OPS[*op], pr_expr(r)),
        Expr::Idx(a, _, i) => format!("a{a}[{}]", pr_expr(i)),
    }
}
fn pr_block(b: &[Stmt], ind: usize, out: &mut String) { for s in b { pr_stmt(s, ind, out); } }
fn pr_stmt(s: &Stmt, ind: usize, out: &mut String) {
    let pad = "  ".repeat(ind);
    match s {
        Stmt::Assign(x, e) => out.push_str(&format!("{pad}{} := {};\n", vname(*x), pr_expr(e))),
        Stmt::AssignIdx(a, _, i, e) => out.push_str(&format!("{pad}a{a}[{}] := {};\n", pr_expr(i), pr_expr(e))),
        Stmt::If(c, t, elifs, el) => {
            out.push_str(&format!("{pad}IF {} THEN\n", pr_expr(c)));
            pr_block(t, ind + 1, out);
            for (c2, b) in elifs { out.push_str(&format!("{pad}ELSIF {} THEN\n", pr_expr(c2))); pr_block(b, ind + 1, out); }
            if !el.is_empty() { out.push_str(&format!("{pad}ELSE\n")); pr_block(el, ind + 1, out); }
            out.push_str(&format!("{pad}END_IF;\n"));
        }
        Stmt::Case(sel, brs, el) => {
            out.push_str(&format!("{pad}CASE {} OF\n", pr_expr(sel)));
            for (labels, b) in brs {
                let ls: Vec<String> = labels.iter().map(|l| match l { Label::Single(v) => format!("{v}"), Label::Range(a, b) => format!("{a}..{b}") }).collect();
                out.push_str(&format!("{pad}  {}:\n", ls.join(", ")));
                pr_block(b, ind + 2, out);
            }
            if !el.is_empty() { out.push_str(&format!("{pad}ELSE\n")); pr_block(el, ind + 1, out); }
            out.push_str(&format!("{pad}END_CASE;\n"));
        }
        Stmt::For(x, a, b, st, body) => {
            out.push_str(&format!("{pad}FOR {} := {} TO {} BY {} DO\n", vname(*x), pr_expr(a), pr_expr(b), pr_expr(st)));
            pr_block(body, ind + 1, out);
            out.push_str(&format!("{pad}END_FOR;\n"));
        }
        Stmt::While(c, body) => { out.push_str(&format!("{pad}WHILE {} DO\n", pr_expr(c))); pr_block(body, ind + 1, out); out.push_str(&format!("{pad}END_WHILE;\n")); }
        Stmt::Repeat(body, c) => { out.push_str(&format!("{pad}REPEAT\n")); pr_block(body, ind + 1, out); out.push_str(&format!("{pad}UNTIL {}\n{pad}END_REPEAT;\n", pr_expr(c))); }
        Stmt::Exit => out.push_str(&format!("{pad}EXIT;\n")),
        Stmt::Continue => out.push_str(&format!("{pad}CONTINUE;\n")),
        Stmt::Return => out.push_str(&format!("{pad}RETURN;\n")),
        Stmt::Call { inst, en, ins, outs, eno } => {
            let mut a: Vec<String> = vec![];
            if let Some(e) = en { a.push(format!("EN := {}", pr_expr(e))); }
            for (i, e) in ins.iter().enumerate() { a.push(format!("i{i} := {}", pr_expr(e))); }
            for (i, t) in outs.iter().enumerate() { if let Some(x) = t { a.push(format!("q{i} => {}", vname(*x))); } }
            if let Some(x) = eno { a.push(format!("ENO => {}", vname(*x))); }
            out.push_str(&format!("{pad}f{inst}({});\n", a.join(", ")));
        }
    }
}
fn source(kinds: &[usize], body: &[Stmt], ext: &Ext) -> String {
    let mut s = String::new();
    for (j, fb) in ext.fbs.iter().enumerate() {
        s += &format!("FUNCTION_BLOCK Fb{j}\nVAR_INPUT\n");
        if fb.en { s += "  EN : BOOL;\n"; }
        for (i, k) in fb.kin.iter().enumerate() { s += &format!("  i{i} : {};\n", KNAMES[*k]); }
        s += "END_VAR\nVAR_OUTPUT\n";
        for (i, k) in fb.kout.iter().enumerate() { s += &format!("  q{i} : {};\n", KNAMES[*k]); }
        if fb.eno { s += "  ENO : BOOL;\n"; }
        s += "END_VAR\nVAR\n";
        for (i, k) in fb.kloc.iter().enumerate() { s += &format!("  l{i} : {};\n", KNAMES[*k]); }
        s += "END_VAR\n";
        NAMES.with(|n| *n.borrow_mut() = fb.names());
        pr_block(&fb.body, 0, &mut s);
        s += "END_FUNCTION_BLOCK\n";
    }
    NAMES.with(|n| n.borrow_mut().clear());
    s += "PROGRAM Main\nVAR\n";
    for (i, k) in kinds.iter().enumerate() { s += &format!("  v{i} : {};\n", KNAMES[*k]); }
    for (j, f) in ext.insts.iter().enumerate() { s += &format!("  f{j} : Fb{f};\n"); }
    for (j, (k, lo, n)) in ext.arrays.iter().enumerate() { s += &format!("  a{j} : ARRAY[{}..{}] OF {};\n", lo, lo + *n as i128 - 1, KNAMES[*k]); }
    s += "END_VAR\n";
    pr_block(body, 0, &mut s);
    s += "END_PROGRAM\n";
    s
}

fn enc_expr(e: &Expr, o: &mut Vec<String>) {
    match e {
        Expr::Lit(u, k, v) => { o.push("0".into()); o.push((*u as u8).to_string()); o.push(k.to_string()); o.push(v.to_string()); }
        Expr::Var(x) => { o.push("1".into()); o.push(x.to_string()); }
        Expr::Un(op, e) => { o.push("2".into()); o.push(op.to_string()); enc_expr(e, o); }
        Expr::Bin(op, l, r) => { o.push("3".into()); o.push(op.to_string()); enc_expr(l, o); enc_expr(r, o); }
        Expr::Idx(a, ki, i) => { o.push("4".into()); o.push(a.to_string()); o.push(ki.to_string()); enc_expr(i, o); }
    }
}
fn enc_block(b: &[Stmt], o: &mut Vec<String>) { o.push(b.len().to_string()); for s in b { enc_stmt(s, o); } }
fn enc_stmt(s: &Stmt, o: &mut Vec<String>) {
    match s {
        Stmt::Assign(x, e) => { o.push("0".into()); o.push(x.to_string()); enc_expr(e, o); }
        Stmt::AssignIdx(a, ki, i, e) => { o.push("10".into()); o.push(a.to_string()); o.push(ki.to_string()); enc_expr(i, o); enc_expr(e, o); }
        Stmt::If(c, t, elifs, el) => { o.push("1".into()); enc_expr(c, o); enc_block(t, o); o.push(elifs.len().to_string()); for (c2, b) in elifs { enc_expr(c2, o); enc_block(b, o); } enc_block(el, o); }
        Stmt::Case(sel, brs, el) => {
            o.push("2".into()); enc_expr(sel, o); o.push(brs.len().to_string());
            for (ls, b) in brs {
                o.push(ls.len().to_string());
                for l in ls { match l { Label::Single(v) => { o.push("0".into()); o.push(v.to_string()); } Label::Range(a, b) => { o.push("1".into()); o.push(a.to_string()); o.push(b.to_string()); } } }
                enc_block(b, o);
            }
            enc_block(el, o);
        }
        Stmt::For(x, a, b, st, body) => { o.push("3".into()); o.push(x.to_string()); enc_expr(a, o); enc_expr(b, o); enc_expr(st, o); enc_block(body, o); }
        Stmt::While(c, body) => { o.push("4".into()); enc_expr(c, o); enc_block(body, o); }
        Stmt::Repeat(body, c) => { o.push("5".into()); enc_block(body, o); enc_expr(c, o); }
        Stmt::Exit => o.push("6".into()),
        Stmt::Continue => o.push("7".into()),
        Stmt::Return => o.push("8".into()),
        Stmt::Call { inst, en, ins, outs, eno } => {
            o.push("9".into()); o.push(inst.to_string());
            match en { Some(e) => { o.push("1".into()); enc_expr(e, o); } None => o.push("0".into()) }
            o.push(ins.len().to_string()); for e in ins { enc_expr(e, o); }
            o.push(outs.len().to_string()); for t in outs { o.push(t.map(|x| x + 1).unwrap_or(0).to_string()); }
            o.push(eno.map(|x| x + 1).unwrap_or(0).to_string());
        }
    }
}

struct Dec<'a> { t: Vec<&'a str>, p: usize }
impl<'a> Dec<'a> {
    fn n(&mut self) -> i128 { let v = self.t[self.p].parse().unwrap(); self.p += 1; v }
    fn expr(&mut self) -> Expr {
        match self.n() {
            0 => { let u = self.n() != 0; let k = self.n() as usize; Expr::Lit(u, k, self.n()) }
            1 => Expr::Var(self.n() as usize),
            2 => { let op = self.n() as usize; Expr::Un(op, Box::new(self.expr())) }
            3 => { let op = self.n() as usize; let l = self.expr(); let r = self.expr(); Expr::Bin(op, Box::new(l), Box::new(r)) }
            _ => { let a = self.n() as usize; let ki = self.n() as usize; Expr::Idx(a, ki, Box::new(self.expr())) }
        }
    }
    fn block(&mut self) -> Vec<Stmt> { let n = self.n(); (0..n).map(|_| self.stmt()).collect() }
    fn stmt(&mut self) -> Stmt {
        match self.n() {
            0 => { let x = self.n() as usize; Stmt::Assign(x, self.expr()) }
            1 => { let c = self.expr(); let t = self.block(); let ne = self.n(); let elifs = (0..ne).map(|_| { let c2 = self.expr(); (c2, self.block()) }).collect(); Stmt::If(c, t, elifs, self.block()) }
            2 => {
                let sel = self.expr(); let nb = self.n();
                let brs = (0..nb).map(|_| { let nl = self.n(); let ls = (0..nl).map(|_| if self.n() == 0 { Label::Single(self.n()) } else { let a = self.n(); Label::Range(a, self.n()) }).collect(); (ls, self.block()) }).collect();
                Stmt::Case(sel, brs, self.block())
            }
            3 => { let x = self.n() as usize; let a = self.expr(); let b = self.expr(); let st = self.expr(); Stmt::For(x, a, b, st, self.block()) }
            4 => { let c = self.expr(); Stmt::While(c, self.block()) }
            5 => { let b = self.block(); Stmt::Repeat(b, self.expr()) }
            6 => Stmt::Exit, 7 => Stmt::Continue, 8 => Stmt::Return,
            10 => { let a = self.n() as usize; let ki = self.n() as usize; let i = self.expr(); Stmt::AssignIdx(a, ki, i, self.expr()) }
            _ => {
                let inst = self.n() as usize;
                let en = if self.n() != 0 { Some(self.expr()) } else { None };
                let nin = self.n(); let ins = (0..nin).map(|_| self.expr()).collect();
                let nout = self.n(); let outs = (0..nout).map(|_| { let t = self.n() as usize; if t == 0 { None } else { Some(t - 1) } }).collect();
                let t = self.n() as usize;
                Stmt::Call { inst, en, ins, outs, eno: if t == 0 { None } else { Some(t - 1) } }
            }
        }
    }
    fn ext(&mut self) -> Ext {
        let nfb = self.n();
        let fbs = (0..nfb).map(|_| {
            let en = self.n() != 0; let eno = self.n() != 0;
            let nin = self.n(); let kin = (0..nin).map(|_| self.n() as usize).collect();
            let nout = self.n(); let kout = (0..nout).map(|_| self.n() as usize).collect();
            let nloc = self.n(); let kloc = (0..nloc).map(|_| self.n() as usize).collect();
            FbDef { en, eno, kin, kout, kloc, body: self.block() }
        }).collect();
        let ni = self.n();
        Ext { fbs, insts: (0..ni).map(|_| self.n() as usize).collect(), arrays: vec![] }
    }
    fn arrays(&mut self) -> Ext {
        let na = self.n();
        Ext { arrays: (0..na).map(|_| { let k = self.n() as usize; let lo = self.n(); (k, lo, self.n() as usize) }).collect(), ..Default::default() }
    }
}

// ---------------------------------------------------------------- generator
struct Gen<'a> { rng: &'a mut Rng, kinds: Vec<usize>, counters: Vec<usize>, loop_vars: Vec<usize>, wild: bool, strict: bool,
               /// variables that are never assigned (a block's inputs); RETURN is not generated (function-block bodies); callable instances
               readonly: Vec<usize>, no_return: bool, callable: Vec<(usize, FbDef)>,
               /// variables that are neither read nor written by generated code (EN / ENO inside a block: the parser does not take them as names)
               hidden: Vec<usize>,
               /// arrays (element kind, lower bound, length) the generated code may index
               arrays: Vec<(usize, i128, usize)> }
impl<'a> Gen<'a> {
    /// an index for array a: (index kind, expression) — mostly inside the bounds, sometimes a variable or an arbitrary expression
    fn index(&mut self, a: usize) -> (usize, Expr) {
        let (_, lo, n) = self.arrays[a];
        let hi = lo + n as i128 - 1;
        let mut kis: Vec<usize> = self.kinds.iter().copied().filter(|k| *k < 7).collect();
        kis.push(2);
        let ki = *self.rng.pick(&kis);
        let c = self.rng.below(10);
        let vars = self.vars_of(ki);
        // the compiler folds constant indices and rejects one outside the bounds: out-of-range indices come from variables only
        if c < 3 && !vars.is_empty() { return (ki, Expr::Var(*self.rng.pick(&vars))); }
        if c < 5 && !vars.is_empty() {
            let x = Expr::Var(*self.rng.pick(&vars));
            let d = Expr::Lit(false, ki, self.rng.range(0, 2) as i128);
            return (ki, Expr::Bin(self.rng.below(2) as usize, Box::new(x), Box::new(d)));
        }
        // literal indices are never negative (the checker's constant folder reads DINT#-2 as 2 and rejects it)
        let l0 = lo.max(0);
        let v = match self.rng.below(4) { 0 => l0, 1 => hi, _ => l0 + self.rng.below((hi - l0 + 1) as u64) as i128 };
        if v < kmin(ki) || v > kmax(ki) { let k2 = if v < 0 { 2 } else { ki }; return (k2, Expr::Lit(false, k2, v)); }
        if !self.strict && v >= 0 && self.rng.chance(1, 2) { return (2, Expr::Lit(true, 2, v)); }
        (ki, Expr::Lit(false, ki, v))
    }
    fn vars_of(&self, k: usize) -> Vec<usize> { (0..self.kinds.len()).filter(|i| self.kinds[*i] == k && !self.counters.contains(i) && !self.loop_vars.contains(i) && !self.hidden.contains(i)).collect() }
    fn boundary(&mut self, k: usize) -> i128 {
        let (lo, hi) = (kmin(k), kmax(k));
        match self.rng.below(16) { 0 => lo, 1 => hi, 2 => hi - 1, 3 => lo + 1, 4 => 0, 5 | 6 => 1, 7 => 2, 8 | 9 => if lo < 0 { -1 } else { 1 }, _ => (self.rng.range(-20, 20) as i128).clamp(lo, hi) }
    }
    fn int_expr(&mut self, k: usize, depth: u32, allow_pure: bool) -> Expr {
        let vars = self.vars_of(k);
        let leaf = depth == 0 || self.rng.chance(2, 5);
        let arrs: Vec<usize> = (0..self.arrays.len()).filter(|a| self.arrays[*a].0 == k).collect();
        if !arrs.is_empty() && self.rng.chance(1, 4) { let a = *self.rng.pick(&arrs); let (ki, i) = self.index(a); return Expr::Idx(a, ki, Box::new(i)); }
        if leaf {
            let c = self.rng.below(10);
            if c < 5 && !vars.is_empty() { return Expr::Var(*self.rng.pick(&vars)); }
            if c < 7 || !allow_pure || self.strict {
                if !allow_pure && !vars.is_empty() && self.rng.chance(1, 2) { return Expr::Var(*self.rng.pick(&vars)); }
                let v = self.boundary(k);
                if v < -(i64::MAX as i128) { return Expr::Bin(1, Box::new(Expr::Lit(false, k, v + 1)), Box::new(Expr::Lit(false, k, 1))); }
                return Expr::Lit(false, k, v.min(i64::MAX as i128));
            }
            // untyped literal: fits DINT and the kind
            let v = self.boundary(k).clamp(0, kmax(2)).clamp(0, kmax(k));
            return Expr::Lit(true, 2, v);
        }
        if signed(k) && self.rng.chance(1, 8) { return Expr::Un(0, Box::new(self.int_expr(k, depth - 1, true))); }
        let op = self.rng.below(5) as usize;
        let l = self.int_expr(k, depth - 1, true);
        // unsigned kinds: not both operands pure untyped literals
        let need_nonpure = !signed(k) && pure(&l) && !self.wild;
        let r = self.int_expr(k, depth - 1, !need_nonpure);
        Expr::Bin(op, Box::new(l), Box::new(r))
    }
    fn bool_expr(&mut self, depth: u32) -> Expr {
        let vars = self.vars_of(8);
        if depth == 0 || self.rng.chance(1, 4) {
            if !vars.is_empty() && self.rng.chance(2, 3) { return Expr::Var(*self.rng.pick(&vars)); }
            return Expr::Lit(false, 8, self.rng.below(2) as i128);
        }
        match self.rng.below(6) {
            0 => Expr::Un(1, Box::new(self.bool_expr(depth - 1))),
            1 | 2 => { let op = 11 + self.rng.below(3) as usize; let l = self.bool_expr(depth - 1); let r = self.bool_expr(depth - 1); Expr::Bin(op, Box::new(l), Box::new(r)) }
            _ => {
                let k = self.rng.below(8) as usize;
                let op = 5 + self.rng.below(6) as usize;
                let l = self.int_expr(k, depth - 1, true);
                let need_nonpure = !signed(k) && pure(&l);
                let r = self.int_expr(k, depth - 1, !need_nonpure);
                Expr::Bin(op, Box::new(l), Box::new(r))
            }
        }
    }
    fn block(&mut self, depth: u32, in_loop: bool, n: u64) -> Vec<Stmt> {
        let cnt = self.rng.below(n) + 1;
        (0..cnt).map(|_| self.stmt(depth, in_loop)).collect()
    }
    /// a call of one of the callable instances with named arguments: EN from a boolean expression without arithmetic, inputs from
    /// variables / typed literals of the input's kind, outputs and ENO bound to assignable variables of the same kind (or left unbound)
    fn call(&mut self) -> Stmt {
        let (inst, fb) = self.rng.pick(&self.callable).clone();
        let en = if fb.en && self.rng.chance(5, 6) { Some(self.bool_expr(1)) } else { None };
        let ins = fb.kin.iter().map(|k| {
            let vars = self.vars_of(*k);
            if !vars.is_empty() && self.rng.chance(2, 3) { Expr::Var(*self.rng.pick(&vars)) }
            else if *k == 8 { Expr::Lit(false, 8, self.rng.below(2) as i128) }
            else { let v = self.boundary(*k); Expr::Lit(false, *k, v.clamp(-(i64::MAX as i128), i64::MAX as i128)) }
        }).collect();
        let target = |g: &mut Self, k: usize| -> Option<usize> {
            let vars: Vec<usize> = g.vars_of(k).into_iter().filter(|x| !g.readonly.contains(x)).collect();
            if vars.is_empty() || g.rng.chance(1, 4) { None } else { Some(*g.rng.pick(&vars)) }
        };
        let outs = fb.kout.iter().map(|k| target(self, *k)).collect();
        let eno = if fb.eno { target(self, 8) } else { None };
        Stmt::Call { inst, en, ins, outs, eno }
    }
    fn stmt(&mut self, depth: u32, in_loop: bool) -> Stmt {
        if !self.callable.is_empty() && self.rng.chance(1, 4) { return self.call(); }
        if !self.arrays.is_empty() && self.rng.chance(1, 4) {
            let a = self.rng.below(self.arrays.len() as u64) as usize;
            let (ki, i) = self.index(a);
            let k = self.arrays[a].0;
            return Stmt::AssignIdx(a, ki, i, self.int_expr(k, 2, true));
        }
        let c = if depth == 0 { self.rng.below(5) } else { self.rng.below(14) };
        match c {
            0..=4 => {
                let cands: Vec<usize> = (0..self.kinds.len()).filter(|i| !self.counters.contains(i) && !self.loop_vars.contains(i) && !self.readonly.contains(i)).collect();
                if cands.is_empty() { return Stmt::If(Expr::Lit(false, 8, 1), vec![], vec![], vec![]); }
                let x = *self.rng.pick(&cands);
                let k = self.kinds[x];
                let e = if k == 8 { self.bool_expr(2) } else { self.int_expr(k, 2, true) };
                Stmt::Assign(x, e)
            }
            5 | 6 => {
                let c = self.bool_expr(2); let t = self.block(depth - 1, in_loop, 3);
                let ne = self.rng.below(3);
                let elifs = (0..ne).map(|_| { let c2 = self.bool_expr(1); (c2, self.block(depth - 1, in_loop, 2)) }).collect();
                let el = if self.rng.chance(1, 2) { self.block(depth - 1, in_loop, 2) } else { vec![] };
                Stmt::If(c, t, elifs, el)
            }
            7 => {
                let k = self.rng.below(8) as usize;
                let sel = self.int_expr(k, 1, true);
                let nb = self.rng.range(1, 3);
                let mut next: i128 = if signed(k) { self.rng.range(-3, 1) as i128 } else { 0 };
                let brs = (0..nb).map(|_| {
                    let nl = self.rng.range(1, 2);
                    let ls = (0..nl).map(|_| {
                        let a = next + self.rng.range(0, 2) as i128;
                        if self.rng.chance(1, 3) { let b = a + self.rng.range(0, 3) as i128; next = b + 1; Label::Range(a, b) } else { next = a + 1; Label::Single(a) }
                    }).collect();
                    (ls, self.block(depth - 1, in_loop, 2))
                }).collect();
                let el = if self.rng.chance(1, 2) { self.block(depth - 1, in_loop, 2) } else { vec![] };
                Stmt::Case(sel, brs, el)
            }
            8 | 9 => {
                // FOR over a dedicated control variable with small literal bounds
                let cands: Vec<usize> = (0..self.kinds.len()).filter(|i| self.kinds[*i] < 7 && !self.counters.contains(i) && !self.loop_vars.contains(i) && !self.readonly.contains(i)).collect();
                if cands.is_empty() { return self.stmt(0, in_loop); }
                let x = *self.rng.pick(&cands);
                let k = self.kinds[x];
                let lit = |v: i128, typed: bool| if typed { Expr::Lit(false, k, v) } else { Expr::Lit(true, 2, v) };
                let mut typed = self.rng.chance(1, 2) || self.strict;
                let (lo, hi) = (kmin(k), kmax(k));
                let (a, b, st) = match self.rng.below(8) {
                    0 => (hi - 2, hi, 1),           // runs into the type maximum
                    1 if signed(k) => (lo + 2, lo, -1),
                    2 if signed(k) => (5, 1, -2),
                    3 => (0, 3, 0),                 // step zero
                    4 => (3, 1, 1),                 // empty range
                    _ => (self.rng.range(0, 3) as i128, self.rng.range(2, 7) as i128, self.rng.range(1, 3) as i128),
                };
                let fit = |v: i128| v.clamp(lo.max(kmin(2)), hi.min(kmax(2)));
                if fit(a) < 0 || fit(b) < 0 || st < 0 { typed = true; }
                self.loop_vars.push(x);
                let body = self.block(depth - 1, true, 3);
                self.loop_vars.pop();
                Stmt::For(x, lit(fit(a), typed), lit(fit(b), typed), lit(if st < 0 && !signed(k) { 1 } else { st }, typed), body)
            }
            10 | 11 => {
                // WHILE / REPEAT bounded by a dedicated DINT counter incremented first in the body
                let Some(cx) = (0..self.kinds.len()).find(|i| self.kinds[*i] == 2 && !self.counters.contains(i) && !self.loop_vars.contains(i) && !self.readonly.contains(i)) else { return self.stmt(0, in_loop); };
                self.counters.push(cx);
                let strict = self.strict;
                let dl = move |v: i128| if strict { Expr::Lit(false, 2, v) } else { Expr::Lit(true, 2, v) };
                let mut body = vec![Stmt::Assign(cx, Expr::Bin(0, Box::new(Expr::Var(cx)), Box::new(dl(1))))];
                body.extend(self.block(depth - 1, true, 3));
                self.counters.pop();
                let bound = self.rng.range(0, 5) as i128;
                let extra = self.bool_expr(1);
                if c == 10 {
                    let cond = Expr::Bin(11, Box::new(Expr::Bin(7, Box::new(Expr::Var(cx)), Box::new(dl(bound)))), Box::new(extra));
                    Stmt::If(Expr::Lit(false, 8, 1), vec![Stmt::Assign(cx, dl(0)), Stmt::While(cond, body)], vec![], vec![])
                } else {
                    let cond = Expr::Bin(12, Box::new(Expr::Bin(10, Box::new(Expr::Var(cx)), Box::new(dl(bound)))), Box::new(extra));
                    Stmt::If(Expr::Lit(false, 8, 1), vec![Stmt::Assign(cx, dl(0)), Stmt::Repeat(body, cond)], vec![], vec![])
                }
            }
            12 => if !self.no_return && self.rng.chance(1, 6) { Stmt::Return } else if in_loop { if self.rng.chance(1, 2) { Stmt::Exit } else { Stmt::Continue } } else { self.stmt(0, in_loop) },
            _ => self.stmt(depth - 1, in_loop),
        }
    }
}
fn pure(e: &Expr) -> bool { match e { Expr::Idx(..) => false, Expr::Lit(u, _, _) => *u, Expr::Un(_, e) => pure(e), Expr::Bin(_, l, r) => pure(l) && pure(r), _ => false } }

// ---------------------------------------------------------------- run
fn to_value(k: usize, v: i128) -> Value {
    match k { 0 => Value::SInt(v as i8), 1 => Value::Int(v as i16), 2 => Value::DInt(v as i32), 3 => Value::LInt(v as i64), 4 => Value::USInt(v as u8), 5 => Value::UInt(v as u16), 6 => Value::UDInt(v as u32), 7 => Value::ULInt(v as u64), _ => Value::Bool(v != 0) }
}
fn dump(v: Option<&Value>) -> String {
    match v {
        Some(Value::SInt(x)) => format!("0 {x}"), Some(Value::Int(x)) => format!("1 {x}"), Some(Value::DInt(x)) => format!("2 {x}"), Some(Value::LInt(x)) => format!("3 {x}"),
        Some(Value::USInt(x)) => format!("4 {x}"), Some(Value::UInt(x)) => format!("5 {x}"), Some(Value::UDInt(x)) => format!("6 {x}"), Some(Value::ULInt(x)) => format!("7 {x}"),
        Some(Value::Bool(b)) => format!("8 {}", *b as u8),
        other => format!("99 {}", format!("{other:?}").replace(' ', "_")),
    }
}
fn fault_code(e: &RuntimeError) -> u8 {
    match e {
        RuntimeError::DivisionByZero => 1, RuntimeError::ModuloByZero => 2, RuntimeError::Overflow => 3, RuntimeError::ForStepZero => 4,
        RuntimeError::TypeMismatch => 5, RuntimeError::ConditionNotBool => 6, RuntimeError::CaseSelectorType => 7,
        RuntimeError::InvalidControlFlow => 8, RuntimeError::UndefinedVariable(_) => 9, RuntimeError::IndexOutOfBounds { .. } => 12, _ => 11,
    }
}
fn run_inner(kinds: &[usize], body: &[Stmt], cycles: &[Vec<(usize, i128)>], ext: &Ext) -> String {
    let src = source(kinds, body, ext);
    let mut h = match TestHarness::from_source(&src) { Ok(h) => h, Err(e) => return format!(" 20 {}", format!("{e:?}").replace(' ', "_").replace(':', ";")) };
    let pid = match h.runtime().storage().get_global("Main") { Some(Value::Instance(id)) => *id, _ => return " 20 no-instance".into() };
    let mut out = String::new();
    for sets in cycles {
        for (x, v) in sets { h.runtime_mut().storage_mut().set_instance_var(pid, format!("v{x}"), to_value(kinds[*x], *v)); }
        let r = std::panic::catch_unwind(std::panic::AssertUnwindSafe(|| h.cycle()));
        match r {
            Err(_) => { out += " 10"; break; }
            Ok(res) => {
                if let Some(e) = res.errors.first() { out += &format!(" {}", fault_code(e)); break; }
                out += " 0";
                for i in 0..kinds.len() { out += &format!(" {}", dump(h.runtime().storage().get_instance_var(pid, &format!("v{i}")))); }
                // the instances' variables, in the order of the flat store
                for (j, f) in ext.insts.iter().enumerate() {
                    let iid = match h.runtime().storage().get_instance_var(pid, &format!("f{j}")) { Some(Value::Instance(id)) => Some(*id), _ => None };
                    for name in ext.fbs[*f].names() { out += &format!(" {}", match iid { Some(id) => dump(h.runtime().storage().get_instance_var(id, &name)), None => "99 no-instance".into() }); }
                }
                // the arrays' elements, in the order of the flat store
                for j in 0..ext.arrays.len() {
                    match h.runtime().storage().get_instance_var(pid, &format!("a{j}")) {
                        Some(Value::Array(arr)) => for e in arr.elements.iter() { out += &format!(" {}", dump(Some(e))); },
                        _ => out += " 99 no-array",
                    }
                }
                // no call frame may be left behind
                if !h.runtime().storage().frames().is_empty() { out += " FRAMES-LEFT"; }
            }
        }
    }
    out
}

/// runs one case on its own thread; a case that does not finish within the limit is reported as outcome 30 and the
/// process stops after flushing (the stuck thread cannot be cancelled)
static TIMED_OUT: std::sync::atomic::AtomicBool = std::sync::atomic::AtomicBool::new(false);
fn run(kinds: &[usize], body: &[Stmt], cycles: &[Vec<(usize, i128)>], ext: &Ext) -> String {
    let (tx, rx) = std::sync::mpsc::channel();
    let (k2, b2, c2, e2) = (kinds.to_vec(), body.to_vec(), cycles.to_vec(), ext.clone());
    std::thread::Builder::new().stack_size(64 << 20).spawn(move || { let _ = tx.send(run_inner(&k2, &b2, &c2, &e2)); }).expect("spawn");
    let limit = std::env::var("VERIF_CASE_TIMEOUT_S").ok().and_then(|s| s.parse().ok()).unwrap_or(20u64);
    match rx.recv_timeout(std::time::Duration::from_secs(limit)) {
        Ok(s) => s,
        Err(_) => { TIMED_OUT.store(true, std::sync::atomic::Ordering::SeqCst); " 30".to_string() }
    }
}

fn fmt_line(id: &str, kinds: &[usize], body: &[Stmt], cycles: &[Vec<(usize, i128)>], obs: &str, ext: &Ext) -> String {
    let mut o: Vec<String> = vec![kinds.len().to_string()];
    for k in kinds { o.push(k.to_string()); }
    if id.starts_with('f') {
        o.push(ext.fbs.len().to_string());
        for fb in &ext.fbs {
            o.push((fb.en as u8).to_string()); o.push((fb.eno as u8).to_string());
            for ks in [&fb.kin, &fb.kout, &fb.kloc] { o.push(ks.len().to_string()); for k in ks { o.push(k.to_string()); } }
            enc_block(&fb.body, &mut o);
        }
        o.push(ext.insts.len().to_string()); for i in &ext.insts { o.push(i.to_string()); }
    }
    if id.starts_with('a') {
        o.push(ext.arrays.len().to_string());
        for (k, lo, n) in &ext.arrays { o.push(k.to_string()); o.push(lo.to_string()); o.push(n.to_string()); }
    }
    enc_block(body, &mut o);
    let mut c: Vec<String> = vec![cycles.len().to_string()];
    for sets in cycles { c.push(sets.len().to_string()); for (x, v) in sets { c.push(x.to_string()); c.push(v.to_string()); } }
    format!("{id} : {} : {} :{obs}", o.join(" "), c.join(" "))
}

fn main() {
    std::panic::set_hook(Box::new(|info| { if std::env::var("VERIF_SHOW_SRC").is_ok() { eprintln!("PANIC: {info}"); } }));
    let args: Vec<String> = std::env::args().collect();
    if args.get(1).map(|s| s.as_str()) == Some("--replay") {
        let text = std::fs::read_to_string(&args[2]).expect("read");
        let mut out = std::io::BufWriter::new(std::fs::File::create(&args[3]).expect("open"));
        for line in text.lines() {
            let parts: Vec<&str> = line.split(':').collect();
            if parts.len() < 3 { continue; }
            let mut d = Dec { t: parts[1].split_whitespace().collect(), p: 0 };
            let nv = d.n() as usize;
            let kinds: Vec<usize> = (0..nv).map(|_| d.n() as usize).collect();
            let ext = if parts[0].trim().starts_with('f') { d.ext() } else if parts[0].trim().starts_with('a') { d.arrays() } else { Ext::default() };
            let body = d.block();
            let mut c = Dec { t: parts[2].split_whitespace().collect(), p: 0 };
            let nc = c.n();
            let cycles: Vec<Vec<(usize, i128)>> = (0..nc).map(|_| { let ns = c.n(); (0..ns).map(|_| (c.n() as usize, c.n())).collect() }).collect();
            if std::env::var("VERIF_SHOW_SRC").is_ok() { eprintln!("{}", source(&kinds, &body, &ext)); }
            let obs = run(&kinds, &body, &cycles, &ext);
            writeln!(out, "{}", fmt_line(parts[0].trim(), &kinds, &body, &cycles, &obs, &ext)).unwrap();
            if TIMED_OUT.load(std::sync::atomic::Ordering::SeqCst) { break; }
        }
        out.flush().unwrap();
        if TIMED_OUT.load(std::sync::atomic::Ordering::SeqCst) { std::process::exit(0); }
        return;
    }
    let count: usize = args.get(1).and_then(|s| s.parse().ok()).unwrap_or(100);
    let mut out = std::io::BufWriter::new(std::fs::File::create(&args[2]).expect("open output"));
    let mut rng = Rng::new(vh::seed_from_env());
    for id in 0..count {
        // w-cases leave the strict discipline on purpose (unsigned CASE selectors, RETURN in the program body)
        let wild = rng.chance(1, 12);
        let strict = !wild && rng.chance(1, 2);
        let nv = rng.range(3, 8) as usize;
        let pool: Vec<usize> = (0..3).map(|_| rng.below(9) as usize).collect();
        let mut kinds: Vec<usize> = (0..nv).map(|_| *rng.pick(&pool)).collect();
        kinds.push(2); kinds.push(8); // always one DINT (loop counter) and one BOOL
        // f-cases: function blocks (EN / ENO, inputs, outputs, locals) and calls with named arguments; typed literals only
        let with_fb = !wild && rng.chance(1, 4);
        let strict = strict || with_fb;
        let mut ext = Ext::default();
        if with_fb {
            kinds.push(8);
            for _ in 0..rng.range(1, 2) {
                let en = rng.chance(2, 3);
                let mut fb = FbDef { en, eno: rng.chance(1, 2), ..Default::default() };
                fb.kin = (0..rng.range(1, 2)).map(|_| *rng.pick(&pool)).collect();
                fb.kout = (0..rng.range(1, 2)).map(|_| *rng.pick(&pool)).collect();
                fb.kloc = (0..rng.range(0, 2)).map(|_| *rng.pick(&pool)).collect();
                fb.kloc.push(2);
                let fk = fb.kinds();
                let nro = fb.en as usize + fb.kin.len();
                let mut hidden: Vec<usize> = vec![]; if fb.en { hidden.push(0); } if fb.eno { hidden.push(nro + fb.kout.len()); }
                let mut g = Gen { rng: &mut rng, kinds: fk, counters: vec![], loop_vars: vec![], wild: false, strict: true, readonly: (0..nro).chain(hidden.iter().copied()).collect(), no_return: true, callable: vec![], hidden, arrays: vec![] };
                fb.body = g.block(2, false, 4);
                ext.fbs.push(fb);
            }
            for _ in 0..rng.range(1, 3) { let f = rng.below(ext.fbs.len() as u64) as usize; ext.insts.push(f); }
        }
        let callable: Vec<(usize, FbDef)> = ext.insts.iter().enumerate().map(|(j, f)| (j, ext.fbs[*f].clone())).collect();
        // a-cases: one-dimensional integer arrays (bounds around zero, 1-5 elements) read and written through index expressions
        let with_arr = !wild && !with_fb && rng.chance(1, 3);
        if with_arr {
            let ints: Vec<usize> = pool.iter().copied().filter(|k| *k < 8).collect();
            for _ in 0..rng.range(1, 2) {
                let k = if ints.is_empty() { 2 } else { *rng.pick(&ints) };
                let lo = rng.range(-3, 3) as i128; ext.arrays.push((k, lo, rng.range((1 - lo).max(1) as i64, 5) as usize));
            }
        }
        let body = { let mut g = Gen { rng: &mut rng, kinds: kinds.clone(), counters: vec![], loop_vars: vec![], wild, strict, readonly: vec![], no_return: false, callable, hidden: vec![], arrays: ext.arrays.clone() }; g.block(3, false, 5) };
        let nc = rng.range(1, 4);
        let cycles: Vec<Vec<(usize, i128)>> = (0..nc).map(|_| {
            let ns = rng.below(kinds.len() as u64 + 1);
            (0..ns).map(|_| { let x = rng.below(kinds.len() as u64) as usize; let k = kinds[x];
                let v = match rng.below(6) { 0 => kmin(k), 1 => kmax(k), 2 => 0, _ => (rng.range(-30, 30) as i128).clamp(kmin(k), kmax(k)) };
                (x, v) }).collect()
        }).collect();
        let obs = run(&kinds, &body, &cycles, &ext);
        writeln!(out, "{}", fmt_line(&format!("{}{id}", if with_fb { "f" } else if with_arr { "a" } else if wild { "w" } else if strict { "s" } else { "c" }), &kinds, &body, &cycles, &obs, &ext)).unwrap();
        if TIMED_OUT.load(std::sync::atomic::Ordering::SeqCst) { break; }
    }
    out.flush().unwrap();
    if TIMED_OUT.load(std::sync::atomic::Ordering::SeqCst) { std::process::exit(0); }
}
