//! C11 section-content tie: dump of the real decoder's result in the tree text of coq/Model/StbcSections.v.
//!   c11dump <cases> <payloads-out> <expected-out> [mutations-per-section] [synthetic modules]
//! <cases>: lines `<id> : <hex container>` (as written by `c11 gen`).
//! payload line  (input of the OCaml driver):  <caseid>.<k> <minor> <section id> <payload hex | ->
//! expected line:                              <caseid>.<k> <tree text> <RT1|RT0>     or   <caseid>.<k> ERR
//!   RT1 = the Rust encoder reproduces the payload bytes from the decoded value, RT0 = it does not.
//! Sources of sections:
//!   (a) every section of every container that BytecodeModule::decode accepts: tree from module.sections[k].data,
//!       payload = bytes[offset..offset+length] read from the container's own section table;   id <case>.<k>
//!   (b) the same payloads, mutated (truncated / byte flipped / u32 overwritten / other minor), wrapped alone in a fresh
//!       container without CRC and decoded by the real decoder (tree or ERR);                        id <case>.<k>m<j>
//!   (c) sections of containers the decoder rejects but whose section table can be read: wrapped alone as in (b); id <case>.<k>w
//!   (e) synthetic modules (random contents for every section kind, built in Rust, written by the real encoder): id y<j>.<k>…
//!   (d) for decodable containers: the module re-encoded by the real encoder with minor := 0, decoded again;  id <case>.<k>z
use std::io::{BufRead, Write};
use trust_runtime::bytecode::*;

fn hex(b: &[u8]) -> String { if b.is_empty() { "-".into() } else { b.iter().map(|x| format!("{x:02x}")).collect() } }
fn unhex(s: &str) -> Vec<u8> { (0..s.len() / 2).map(|i| u8::from_str_radix(&s[2 * i..2 * i + 2], 16).unwrap_or(0)).collect() }
fn n<T: Into<u64>>(v: T) -> String { format!("N{}", v.into()) }
fn ni(v: i64) -> String { format!("N{}", v as u64) }
fn no(v: Option<u32>) -> String { format!("N{}", v.unwrap_or(u32::MAX)) }
fn bt(b: &[u8]) -> String { format!("B{}", hex(b)) }
fn l(items: Vec<String>) -> String { if items.is_empty() { "L( )".into() } else { format!("L( {} )", items.join(" ")) } }

fn type_entry(e: &TypeEntry) -> String {
    let head = l(vec![n(e.kind as u8), no(e.name_idx)]);
    let pairs = |fs: &Vec<Field>| l(fs.iter().map(|f| l(vec![n(f.name_idx), n(f.type_id)])).collect());
    let body = match &e.data {
        TypeData::Primitive { prim_id, max_length } => l(vec![n(*prim_id), n(*max_length)]),
        TypeData::Array { elem_type_id, dims } => l(vec![n(*elem_type_id), l(dims.iter().map(|(a, b)| l(vec![ni(*a), ni(*b)])).collect())]),
        TypeData::Struct { fields } | TypeData::Union { fields } => l(vec![pairs(fields)]),
        TypeData::Enum { base_type_id, variants } => l(vec![n(*base_type_id), l(variants.iter().map(|v| l(vec![n(v.name_idx), ni(v.value)])).collect())]),
        TypeData::Alias { target_type_id } | TypeData::Reference { target_type_id } => l(vec![n(*target_type_id)]),
        TypeData::Subrange { base_type_id, lower, upper } => l(vec![n(*base_type_id), ni(*lower), ni(*upper)]),
        TypeData::Pou { pou_id } => l(vec![n(*pou_id)]),
        TypeData::Interface { methods } => l(vec![l(methods.iter().map(|m| l(vec![n(m.name_idx), n(m.slot)])).collect())]),
    };
    l(vec![head, body])
}

fn tree(minor: u16, d: &SectionData) -> String {
    match d {
        SectionData::StringTable(t) | SectionData::DebugStringTable(t) => l(t.entries.iter().map(|s| bt(s.as_bytes())).collect()),
        SectionData::TypeTable(t) => {
            let es = l(t.entries.iter().map(type_entry).collect());
            if minor >= 1 { l(vec![l(t.offsets.iter().map(|o| n(*o)).collect()), es]) } else { es }
        }
        SectionData::ConstPool(p) => l(p.entries.iter().map(|e| l(vec![n(e.type_id), bt(&e.payload)])).collect()),
        SectionData::RefTable(t) => l(t.entries.iter().map(|e| {
            let segs = e.segments.iter().map(|s| match s {
                RefSegment::Index(ix) => l(vec![n(0u8), l(vec![l(ix.iter().map(|i| ni(*i)).collect())])]),
                RefSegment::Field { name_idx } => l(vec![n(1u8), l(vec![n(*name_idx)])]),
            }).collect();
            l(vec![n(e.location as u8), n(e.owner_id), n(e.offset), l(segs)])
        }).collect()),
        SectionData::PouIndex(p) => l(p.entries.iter().map(|e| {
            let params = e.params.iter().map(|p| {
                let mut v = vec![n(p.name_idx), n(p.type_id), n(p.direction)];
                if minor >= 1 { v.push(no(p.default_const_idx)); }
                l(v)
            }).collect();
            let head = l(vec![n(e.id), n(e.name_idx), n(e.kind as u8), n(e.code_offset), n(e.code_length), n(e.local_ref_start), n(e.local_ref_count),
                              no(e.return_type_id), no(e.owner_pou_id), l(params)]);
            let tail = match &e.class_meta {
                None => l(vec![]),
                Some(m) => l(vec![no(m.parent_pou_id),
                                  l(m.interfaces.iter().map(|i| l(vec![n(i.interface_type_id), l(i.vtable_slots.iter().map(|s| n(*s)).collect())])).collect()),
                                  l(m.methods.iter().map(|m| l(vec![n(m.name_idx), n(m.pou_id), n(m.vtable_slot), n(m.access), n(m.flags)])).collect())]),
            };
            l(vec![head, tail])
        }).collect()),
        SectionData::PouBodies(b) | SectionData::Raw(b) => bt(b),
        SectionData::ResourceMeta(m) => l(m.resources.iter().map(|r| {
            let tasks = r.tasks.iter().map(|t| l(vec![n(t.name_idx), n(t.priority), ni(t.interval_nanos), no(t.single_name_idx),
                                                      l(t.program_name_idx.iter().map(|i| n(*i)).collect()), l(t.fb_ref_idx.iter().map(|i| n(*i)).collect())])).collect();
            l(vec![n(r.name_idx), n(r.inputs_size), n(r.outputs_size), n(r.memory_size), l(tasks)])
        }).collect()),
        SectionData::IoMap(m) => l(m.bindings.iter().map(|b| l(vec![n(b.address_str_idx), n(b.ref_idx), no(b.type_id)])).collect()),
        SectionData::DebugMap(m) => l(m.entries.iter().map(|e| l(vec![n(e.pou_id), n(e.code_offset), n(e.file_idx), n(e.line), n(e.column), n(e.kind)])).collect()),
        SectionData::VarMeta(m) => l(m.entries.iter().map(|e| l(vec![n(e.name_idx), n(e.type_id), n(e.ref_idx), n(e.retain), no(e.init_const_idx)])).collect()),
        SectionData::RetainInit(m) => l(m.entries.iter().map(|e| l(vec![n(e.ref_idx), n(e.const_idx)])).collect()),
    }
}

fn le16(b: &[u8], o: usize) -> usize { u16::from_le_bytes([b[o], b[o + 1]]) as usize }
fn le32(b: &[u8], o: usize) -> usize { u32::from_le_bytes([b[o], b[o + 1], b[o + 2], b[o + 3]]) as usize }
/// (id, payload) of every section table entry that lies inside the file; None when the table itself cannot be read
fn table(b: &[u8]) -> Option<Vec<(u16, Vec<u8>)>> {
    if b.len() < 24 || &b[0..4] != b"STBC" { return None; }
    let count = le16(b, 14);
    let off = le32(b, 16);
    if off.checked_add(count * 12)? > b.len() { return None; }
    let mut v = Vec::new();
    for k in 0..count {
        let e = off + 12 * k;
        let (id, o, len) = (le16(b, e) as u16, le32(b, e + 4), le32(b, e + 8));
        if o.checked_add(len)? > b.len() { return None; }
        v.push((id, b[o..o + len].to_vec()));
    }
    Some(v)
}
/// one section alone in a container without checksum
fn wrap(minor: u16, id: u16, payload: &[u8]) -> Vec<u8> {
    let mut b = Vec::new();
    b.extend_from_slice(b"STBC");
    b.extend_from_slice(&1u16.to_le_bytes());
    b.extend_from_slice(&minor.to_le_bytes());
    b.extend_from_slice(&0u32.to_le_bytes());
    b.extend_from_slice(&24u16.to_le_bytes());
    b.extend_from_slice(&1u16.to_le_bytes());
    b.extend_from_slice(&24u32.to_le_bytes());
    b.extend_from_slice(&0u32.to_le_bytes());
    b.extend_from_slice(&id.to_le_bytes());
    b.extend_from_slice(&0u16.to_le_bytes());
    b.extend_from_slice(&36u32.to_le_bytes());
    b.extend_from_slice(&(payload.len() as u32).to_le_bytes());
    b.extend_from_slice(payload);
    b
}
/// RT flag: does the real encoder reproduce the payload from the decoded value?
fn rt(minor: u16, id: u16, data: &SectionData, payload: &[u8]) -> &'static str {
    let m = BytecodeModule { version: BytecodeVersion::new(1, minor), flags: 0, sections: vec![Section { id, flags: 0, data: data.clone() }] };
    match m.encode() {
        Ok(bytes) => match table(&bytes) { Some(t) if t.len() == 1 && t[0].1 == payload => "RT1", _ => "RT0" },
        Err(_) => "RT0",
    }
}
struct Out { pay: std::io::BufWriter<std::fs::File>, exp: std::io::BufWriter<std::fs::File>, n_ok: usize, n_err: usize }
impl Out {
    fn emit(&mut self, name: &str, minor: u16, id: u16, payload: &[u8], data: Option<&SectionData>) {
        writeln!(self.pay, "{name} {minor} {id} {}", hex(payload)).unwrap();
        match data {
            Some(d) => { self.n_ok += 1; writeln!(self.exp, "{name} {} {}", tree(minor, d), rt(minor, id, d, payload)).unwrap() }
            None => { self.n_err += 1; writeln!(self.exp, "{name} ERR").unwrap() }
        }
    }
    /// decode the payload alone with the real decoder
    fn wrapped(&mut self, name: &str, minor: u16, id: u16, payload: &[u8]) {
        let r = std::panic::catch_unwind(|| BytecodeModule::decode(&wrap(minor, id, payload)));
        match r {
            Ok(Ok(m)) if m.sections.len() == 1 => self.emit(name, minor, id, payload, Some(&m.sections[0].data)),
            Ok(_) => self.emit(name, minor, id, payload, None),
            Err(_) => { writeln!(self.pay, "{name} {minor} {id} {}", hex(payload)).unwrap(); writeln!(self.exp, "{name} PANIC").unwrap(); }
        }
    }
}
struct Rng(u64);
impl Rng {
    fn next(&mut self) -> u64 { self.0 = self.0.wrapping_add(0x9E37_79B9_7F4A_7C15); let mut z = self.0; z = (z ^ (z >> 30)).wrapping_mul(0xBF58_476D_1CE4_E5B9); z = (z ^ (z >> 27)).wrapping_mul(0x94D0_49BB_1331_11EB); z ^ (z >> 31) }
    fn below(&mut self, n: usize) -> usize { (self.next() % n.max(1) as u64) as usize }
}
fn mutate(rng: &mut Rng, p: &[u8]) -> Vec<u8> {
    let mut q = p.to_vec();
    match rng.below(7) {
        0 => { let k = rng.below(q.len() + 1); q.truncate(k); }
        1 => { if !q.is_empty() { let k = rng.below(q.len()); q[k] ^= 1 << rng.below(8); } }
        2 => { if !q.is_empty() { let k = rng.below(q.len()); q[k] = rng.next() as u8; } }
        3 => { if q.len() >= 4 { let k = 4 * rng.below(q.len() / 4); let v: u32 = [0u32, 1, 2, 0xFFFF_FFFF, 0x7FFF_FFFF, q.len() as u32, (q.len() / 4) as u32][rng.below(7)]; q[k..k + 4].copy_from_slice(&v.to_le_bytes()); } }
        4 => { for _ in 0..rng.below(9) { q.push(rng.next() as u8); } }
        5 => { if q.len() >= 4 { let k = 4 * rng.below(q.len() / 4); let v = (le32(&q, k) as u32).wrapping_add([1u32, 0xFFFF_FFFF, 4, 0xFFFF_FFFC][rng.below(4)]); q[k..k + 4].copy_from_slice(&v.to_le_bytes()); } }
        _ => { if !q.is_empty() { let k = rng.below(q.len()); q.remove(k); } }
    }
    q
}

/// (e) synthetic modules: every section kind with random contents (interfaces, both segment kinds, every type kind,
/// negative i64, non-ASCII strings), written by the real encoder
fn synth(rng: &mut Rng, minor: u16) -> Vec<u8> {
    let r32 = |rng: &mut Rng| -> u32 { match rng.below(5) { 0 => 0, 1 => u32::MAX, 2 => rng.next() as u32, _ => rng.below(40) as u32 } };
    let ro = |rng: &mut Rng| -> Option<u32> { if rng.below(3) == 0 { None } else { Some(rng.below(1000) as u32) } };
    let r64 = |rng: &mut Rng| -> i64 { match rng.below(5) { 0 => -1, 1 => i64::MIN, 2 => rng.next() as i64, 3 => i64::MAX, _ => rng.below(100) as i64 - 50 } };
    let strs = |rng: &mut Rng| -> StringTable {
        let pool = ["", "a", "ab", "abc", "abcd", "h\u{e9}llo", "\u{65e5}\u{672c}", "\u{1F600}x", "Main", "\u{7ff}", "\u{ffff}", "\u{10ffff}"];
        StringTable { entries: (0..rng.below(7)).map(|_| smol_str::SmolStr::new(pool[rng.below(pool.len())])).collect() }
    };
    let fields = |rng: &mut Rng| -> Vec<Field> { (0..rng.below(4)).map(|_| Field { name_idx: r32(rng), type_id: r32(rng) }).collect() };
    let mut m = BytecodeModule::new(BytecodeVersion::new(1, minor));
    let mut push = |id: u16, data: SectionData| m.sections.push(Section { id, flags: 0, data });
    push(1, SectionData::StringTable(strs(rng)));
    let types: Vec<TypeEntry> = (0..rng.below(14)).map(|_| {
        let k = rng.below(11) as u8;
        let (kind, data) = match k {
            0 => (TypeKind::Primitive, TypeData::Primitive { prim_id: rng.next() as u16, max_length: rng.next() as u16 }),
            1 => (TypeKind::Array, TypeData::Array { elem_type_id: r32(rng), dims: (0..rng.below(4)).map(|_| (r64(rng), r64(rng))).collect() }),
            2 => (TypeKind::Struct, TypeData::Struct { fields: fields(rng) }),
            3 => (TypeKind::Enum, TypeData::Enum { base_type_id: r32(rng), variants: (0..rng.below(4)).map(|_| EnumVariant { name_idx: r32(rng), value: r64(rng) }).collect() }),
            4 => (TypeKind::Alias, TypeData::Alias { target_type_id: r32(rng) }),
            5 => (TypeKind::Subrange, TypeData::Subrange { base_type_id: r32(rng), lower: r64(rng), upper: r64(rng) }),
            6 => (TypeKind::Reference, TypeData::Reference { target_type_id: r32(rng) }),
            7 => (TypeKind::Union, TypeData::Union { fields: fields(rng) }),
            8 => (TypeKind::FunctionBlock, TypeData::Pou { pou_id: r32(rng) }),
            9 => (TypeKind::Class, TypeData::Pou { pou_id: r32(rng) }),
            _ => (TypeKind::Interface, TypeData::Interface { methods: (0..rng.below(4)).map(|_| InterfaceMethod { name_idx: r32(rng), slot: r32(rng) }).collect() }),
        };
        TypeEntry { kind, name_idx: ro(rng), data }
    }).collect();
    push(2, SectionData::TypeTable(TypeTable { offsets: Vec::new(), entries: types }));
    push(3, SectionData::ConstPool(ConstPool { entries: (0..rng.below(6)).map(|_| ConstEntry { type_id: r32(rng), payload: (0..rng.below(11)).map(|_| rng.next() as u8).collect() }).collect() }));
    push(4, SectionData::RefTable(RefTable { entries: (0..rng.below(6)).map(|_| RefEntry {
        location: [RefLocation::Global, RefLocation::Local, RefLocation::Instance, RefLocation::Io, RefLocation::Retain][rng.below(5)], owner_id: r32(rng), offset: r32(rng),
        segments: (0..rng.below(4)).map(|_| if rng.below(2) == 0 { RefSegment::Index((0..rng.below(4)).map(|_| r64(rng)).collect()) } else { RefSegment::Field { name_idx: r32(rng) } }).collect(),
    }).collect() }));
    push(5, SectionData::PouIndex(PouIndex { entries: (0..rng.below(6)).map(|_| {
        let kind = [PouKind::Program, PouKind::FunctionBlock, PouKind::Function, PouKind::Class, PouKind::Method][rng.below(5)];
        let class_meta = if matches!(kind, PouKind::FunctionBlock | PouKind::Class) { Some(PouClassMeta {
            parent_pou_id: ro(rng),
            interfaces: (0..rng.below(3)).map(|_| InterfaceImpl { interface_type_id: r32(rng), vtable_slots: (0..rng.below(4)).map(|_| r32(rng)).collect() }).collect(),
            methods: (0..rng.below(3)).map(|_| MethodEntry { name_idx: r32(rng), pou_id: r32(rng), vtable_slot: r32(rng), access: rng.next() as u8, flags: rng.next() as u8 }).collect(),
        }) } else { None };
        PouEntry { id: r32(rng), name_idx: r32(rng), kind, code_offset: r32(rng), code_length: r32(rng), local_ref_start: r32(rng), local_ref_count: r32(rng),
                   return_type_id: ro(rng), owner_pou_id: ro(rng),
                   params: (0..rng.below(4)).map(|_| ParamEntry { name_idx: r32(rng), type_id: r32(rng), direction: rng.next() as u8, default_const_idx: if minor >= 1 { ro(rng) } else { None } }).collect(),
                   class_meta }
    }).collect() }));
    push(6, SectionData::PouBodies((0..rng.below(20)).map(|_| rng.next() as u8).collect()));
    push(7, SectionData::ResourceMeta(ResourceMeta { resources: (0..rng.below(3)).map(|_| ResourceEntry { name_idx: r32(rng), inputs_size: r32(rng), outputs_size: r32(rng), memory_size: r32(rng),
        tasks: (0..rng.below(3)).map(|_| TaskEntry { name_idx: r32(rng), priority: r32(rng), interval_nanos: r64(rng), single_name_idx: ro(rng),
            program_name_idx: (0..rng.below(4)).map(|_| r32(rng)).collect(), fb_ref_idx: (0..rng.below(4)).map(|_| r32(rng)).collect() }).collect() }).collect() }));
    push(8, SectionData::IoMap(IoMap { bindings: (0..rng.below(5)).map(|_| IoBinding { address_str_idx: r32(rng), ref_idx: r32(rng), type_id: ro(rng) }).collect() }));
    push(9, SectionData::DebugMap(DebugMap { entries: (0..rng.below(5)).map(|_| DebugEntry { pou_id: r32(rng), code_offset: r32(rng), file_idx: r32(rng), line: r32(rng), column: r32(rng), kind: rng.next() as u8 }).collect() }));
    push(10, SectionData::DebugStringTable(strs(rng)));
    push(11, SectionData::VarMeta(VarMeta { entries: (0..rng.below(5)).map(|_| VarMetaEntry { name_idx: r32(rng), type_id: r32(rng), ref_idx: r32(rng), retain: rng.next() as u8, init_const_idx: ro(rng) }).collect() }));
    push(12, SectionData::RetainInit(RetainInit { entries: (0..rng.below(5)).map(|_| RetainInitEntry { ref_idx: r32(rng), const_idx: r32(rng) }).collect() }));
    push(0x40 + rng.below(5) as u16, SectionData::Raw((0..rng.below(9)).map(|_| rng.next() as u8).collect()));
    m.encode().unwrap()
}

fn main() {
    let a: Vec<String> = std::env::args().collect();
    let muts: usize = a.get(4).and_then(|s| s.parse().ok()).unwrap_or(0);
    std::panic::set_hook(Box::new(|_| {}));
    let mut out = Out { pay: std::io::BufWriter::new(std::fs::File::create(&a[2]).unwrap()), exp: std::io::BufWriter::new(std::fs::File::create(&a[3]).unwrap()), n_ok: 0, n_err: 0 };
    let mut rng = Rng(std::env::var("VERIF_SEED").ok().and_then(|s| s.parse::<i64>().ok()).unwrap_or(1) as u64);
    let (mut n_dec, mut n_rej, mut n_sec) = (0usize, 0usize, 0usize);
    let nsynth: usize = a.get(5).and_then(|s| s.parse().ok()).unwrap_or(0);
    let mut cases: Vec<(String, Vec<u8>)> = Vec::new();
    for line in std::io::BufReader::new(std::fs::File::open(&a[1]).unwrap()).lines() {
        let line = line.unwrap();
        let Some((cid, hx)) = line.split_once(" : ") else { continue };
        cases.push((cid.trim().to_string(), unhex(hx.trim())));
    }
    for j in 0..nsynth { let minor = if j % 4 == 3 { 0 } else { 1 }; let b = synth(&mut rng, minor); cases.push((format!("y{j}"), b)); }
    for (cid, bytes) in cases {
        let cid = cid.as_str();
        let dec = std::panic::catch_unwind(|| BytecodeModule::decode(&bytes));
        let tab = table(&bytes);
        match (dec, tab) {
            (Ok(Ok(m)), Some(tab)) => {
                n_dec += 1;
                assert_eq!(m.sections.len(), tab.len());
                let minor = m.version.minor;
                for (k, (s, (id, payload))) in m.sections.iter().zip(tab.iter()).enumerate() {
                    assert_eq!(s.id, *id);
                    n_sec += 1;
                    out.emit(&format!("{cid}.{k}"), minor, *id, payload, Some(&s.data));
                    for j in 0..muts {
                        let q = mutate(&mut rng, payload);
                        let mn = if rng.below(6) == 0 { 1 - minor.min(1) } else { minor };
                        let sid = if rng.below(12) == 0 { [1u16, 2, 3, 4, 5, 6, 7, 8, 9, 10, 11, 12, 13, 0][rng.below(14)] } else { *id };
                        out.wrapped(&format!("{cid}.{k}m{j}"), mn, sid, &q);
                    }
                }
                // (d) the same module written by the real encoder as a minor-0 container
                let mut m0 = m.clone();
                m0.version = BytecodeVersion::new(1, 0);
                m0.flags = 0;
                if let Ok(b0) = m0.encode() {
                    if let (Ok(md), Some(t0)) = (BytecodeModule::decode(&b0), table(&b0)) {
                        for (k, (s, (id, payload))) in md.sections.iter().zip(t0.iter()).enumerate() {
                            out.emit(&format!("{cid}.{k}z"), 0, *id, payload, Some(&s.data));
                        }
                    }
                }
            }
            (_, Some(tab)) => {
                n_rej += 1;
                let minor = le16(&bytes, 6) as u16;
                for (k, (id, payload)) in tab.iter().enumerate() { out.wrapped(&format!("{cid}.{k}w"), minor, *id, payload); }
            }
            _ => { n_rej += 1; }
        }
    }
    out.pay.flush().unwrap();
    out.exp.flush().unwrap();
    eprintln!("c11dump: containers decoded {n_dec}, rejected {n_rej}; sections of decoded containers {n_sec}; lines with tree {}, with ERR {}", out.n_ok, out.n_err);
}
