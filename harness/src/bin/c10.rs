//! C10 harness: retain-file codec and save protocol through the public FileRetainStore API.
//!   c10 gen <n> <out> <workdir>     generated snapshots: store -> file bytes (E lines), load (D lines),
//!                                   plus hostile byte strings (mutated/truncated/random) through load
//!   c10 load <file>                 print the decode result of a file (OK <tokens> | ERR)
//!   c10 store <tokens-file> <path>  store the snapshot given as tokens to <path> (used under strace)
//! Snapshot tokens:  n { str value }   str = len bytes..
//!   value = 0 tag bits | 1 tag str | 2 nd {lo hi} ne {value} | 3 str nf {str value} | 4 str str num | 5
use std::io::Write;
use std::path::{Path, PathBuf};
use indexmap::IndexMap;
use smol_str::SmolStr;
use trust_runtime::retain::{FileRetainStore, RetainStore};
use trust_runtime::value::{
    ArrayValue, DateTimeValue, DateValue, Duration, EnumValue, LDateTimeValue, LDateValue, LTimeOfDayValue, StructValue,
    TimeOfDayValue, Value,
};
use trust_runtime::RetainSnapshot;
use vh::Rng;

fn scalar(tag: u64, bits: u64) -> Value {
    match tag {
        1 => Value::Bool(bits != 0),
        2 => Value::SInt(bits as u8 as i8),
        3 => Value::Int(bits as u16 as i16),
        4 => Value::DInt(bits as u32 as i32),
        5 => Value::LInt(bits as i64),
        6 => Value::USInt(bits as u8),
        7 => Value::UInt(bits as u16),
        8 => Value::UDInt(bits as u32),
        9 => Value::ULInt(bits),
        10 => Value::Real(f32::from_bits(bits as u32)),
        11 => Value::LReal(f64::from_bits(bits)),
        12 => Value::Byte(bits as u8),
        13 => Value::Word(bits as u16),
        14 => Value::DWord(bits as u32),
        15 => Value::LWord(bits),
        16 => Value::Time(Duration::from_nanos(bits as i64)),
        17 => Value::LTime(Duration::from_nanos(bits as i64)),
        18 => Value::Date(DateValue::new(bits as i64)),
        19 => Value::LDate(LDateValue::new(bits as i64)),
        20 => Value::Tod(TimeOfDayValue::new(bits as i64)),
        21 => Value::LTod(LTimeOfDayValue::new(bits as i64)),
        22 => Value::Dt(DateTimeValue::new(bits as i64)),
        23 => Value::Ldt(LDateTimeValue::new(bits as i64)),
        26 => Value::Char(bits as u8),
        27 => Value::WChar(bits as u16),
        _ => Value::Null,
    }
}
fn width(tag: u64) -> u32 {
    match tag { 1 | 2 | 6 | 12 | 26 => 1, 3 | 7 | 13 | 27 => 2, 4 | 8 | 10 | 14 => 4, _ => 8 }
}

fn put_str(out: &mut Vec<String>, s: &str) {
    out.push(s.len().to_string());
    for b in s.as_bytes() { out.push(b.to_string()); }
}
fn dump_value(out: &mut Vec<String>, v: &Value) {
    let mut sc = |tag: u64, bits: u64| { out.push("0".into()); out.push(tag.to_string()); out.push(bits.to_string()); };
    match v {
        Value::Bool(b) => sc(1, *b as u64),
        Value::SInt(x) => sc(2, *x as u8 as u64),
        Value::Int(x) => sc(3, *x as u16 as u64),
        Value::DInt(x) => sc(4, *x as u32 as u64),
        Value::LInt(x) => sc(5, *x as u64),
        Value::USInt(x) => sc(6, *x as u64),
        Value::UInt(x) => sc(7, *x as u64),
        Value::UDInt(x) => sc(8, *x as u64),
        Value::ULInt(x) => sc(9, *x),
        Value::Real(x) => sc(10, x.to_bits() as u64),
        Value::LReal(x) => sc(11, x.to_bits()),
        Value::Byte(x) => sc(12, *x as u64),
        Value::Word(x) => sc(13, *x as u64),
        Value::DWord(x) => sc(14, *x as u64),
        Value::LWord(x) => sc(15, *x),
        Value::Time(d) => sc(16, d.as_nanos() as u64),
        Value::LTime(d) => sc(17, d.as_nanos() as u64),
        Value::Date(x) => sc(18, x.ticks() as u64),
        Value::LDate(x) => sc(19, x.nanos() as u64),
        Value::Tod(x) => sc(20, x.ticks() as u64),
        Value::LTod(x) => sc(21, x.nanos() as u64),
        Value::Dt(x) => sc(22, x.ticks() as u64),
        Value::Ldt(x) => sc(23, x.nanos() as u64),
        Value::Char(x) => sc(26, *x as u64),
        Value::WChar(x) => sc(27, *x as u64),
        Value::String(s) => { out.push("1".into()); out.push("24".into()); put_str(out, s.as_str()); }
        Value::WString(s) => { out.push("1".into()); out.push("25".into()); put_str(out, s); }
        Value::Array(a) => {
            out.push("2".into());
            out.push(a.dimensions.len().to_string());
            for (lo, hi) in &a.dimensions { out.push((*lo as u64).to_string()); out.push((*hi as u64).to_string()); }
            out.push(a.elements.len().to_string());
            for e in &a.elements { dump_value(out, e); }
        }
        Value::Struct(s) => {
            out.push("3".into());
            put_str(out, s.type_name.as_str());
            out.push(s.fields.len().to_string());
            for (n, f) in &s.fields { put_str(out, n.as_str()); dump_value(out, f); }
        }
        Value::Enum(e) => {
            out.push("4".into());
            put_str(out, e.type_name.as_str());
            put_str(out, e.variant_name.as_str());
            out.push((e.numeric_value as u64).to_string());
        }
        Value::Null => out.push("5".into()),
        Value::Reference(_) | Value::Instance(_) => out.push("9".into()),
    }
}
fn dump_snapshot(s: &RetainSnapshot) -> String {
    let mut out = vec![s.values().len().to_string()];
    for (n, v) in s.values() { put_str(&mut out, n.as_str()); dump_value(&mut out, v); }
    out.join(" ")
}

struct Tok<'a> { t: Vec<&'a str>, p: usize }
impl<'a> Tok<'a> {
    fn n(&mut self) -> u64 { let v = self.t[self.p].parse().unwrap(); self.p += 1; v }
    fn s(&mut self) -> String { let l = self.n() as usize; let b: Vec<u8> = (0..l).map(|_| self.n() as u8).collect(); String::from_utf8(b).unwrap() }
    fn value(&mut self) -> Value {
        match self.n() {
            0 => { let tag = self.n(); let bits = self.n(); scalar(tag, bits) }
            1 => { let tag = self.n(); let s = self.s(); if tag == 24 { Value::String(SmolStr::new(s)) } else { Value::WString(s) } }
            2 => {
                let nd = self.n();
                let dimensions = (0..nd).map(|_| (self.n() as i64, self.n() as i64)).collect();
                let ne = self.n();
                let elements = (0..ne).map(|_| self.value()).collect();
                Value::Array(ArrayValue { elements, dimensions })
            }
            3 => {
                let type_name = SmolStr::new(self.s());
                let nf = self.n();
                let mut fields = IndexMap::new();
                for _ in 0..nf { let n = SmolStr::new(self.s()); let v = self.value(); fields.insert(n, v); }
                Value::Struct(StructValue { type_name, fields })
            }
            4 => { let type_name = SmolStr::new(self.s()); let variant_name = SmolStr::new(self.s()); Value::Enum(EnumValue { type_name, variant_name, numeric_value: self.n() as i64 }) }
            _ => Value::Null,
        }
    }
    fn snapshot(&mut self) -> RetainSnapshot {
        let mut s = RetainSnapshot::default();
        for _ in 0..self.n() { let n = self.s(); let v = self.value(); s.insert(n, v); }
        s
    }
}

fn gen_name(rng: &mut Rng) -> String {
    let pool = ["g", "Counter", "x1", "é", "日本", "😀", "a_b", "", "Ω_long_name_with_more_than_twenty_three_bytes"];
    let base = *rng.pick(&pool);
    if rng.chance(1, 2) { format!("{base}{}", rng.below(50)) } else { base.to_string() }
}
fn gen_scalar(rng: &mut Rng) -> Value {
    let tags = [1u64, 2, 3, 4, 5, 6, 7, 8, 9, 10, 11, 12, 13, 14, 15, 16, 17, 18, 19, 20, 21, 22, 23, 26, 27];
    let tag = *rng.pick(&tags);
    let w = width(tag) * 8;
    let raw = match rng.below(6) { 0 => 0, 1 => u64::MAX, 2 => 1u64 << (w - 1), 3 => (1u64 << (w - 1)).wrapping_sub(1), _ => rng.next() };
    let bits = if w == 64 { raw } else { raw & ((1u64 << w) - 1) };
    let bits = if tag == 1 { bits & 1 } else { bits };
    scalar(tag, bits)
}
fn gen_value(rng: &mut Rng, depth: u32) -> Value {
    let k = if depth == 0 { rng.below(4) } else { rng.below(9) };
    match k {
        0..=2 => gen_scalar(rng),
        3 => if rng.chance(1, 2) { Value::String(SmolStr::new(gen_name(rng))) } else { Value::WString(gen_name(rng)) },
        4 | 5 => {
            let n = rng.below(5) as usize;
            let nd = rng.below(3) as usize;
            Value::Array(ArrayValue {
                elements: (0..n).map(|_| gen_value(rng, depth - 1)).collect(),
                dimensions: (0..nd).map(|_| (rng.range(-5, 5), if rng.chance(1, 5) { i64::MAX } else { rng.range(0, 20) })).collect(),
            })
        }
        6 => {
            let mut fields = IndexMap::new();
            for _ in 0..rng.below(4) { fields.insert(SmolStr::new(gen_name(rng)), gen_value(rng, depth - 1)); }
            Value::Struct(StructValue { type_name: SmolStr::new(gen_name(rng)), fields })
        }
        7 => Value::Enum(EnumValue { type_name: SmolStr::new(gen_name(rng)), variant_name: SmolStr::new(gen_name(rng)), numeric_value: rng.next() as i64 }),
        _ => Value::Null,
    }
}

fn load_dump(path: &Path) -> String {
    let store = FileRetainStore::new(path);
    match std::panic::catch_unwind(|| store.load()) {
        Ok(Ok(s)) => format!("OK {}", dump_snapshot(&s)),
        Ok(Err(_)) => "ERR".to_string(),
        Err(_) => "PANIC".to_string(),
    }
}
fn bytes_str(b: &[u8]) -> String { b.iter().map(|x| x.to_string()).collect::<Vec<_>>().join(" ") }

fn main() {
    let args: Vec<String> = std::env::args().collect();
    match args[1].as_str() {
        "load" => { println!("{}", load_dump(Path::new(&args[2]))); }
        "store" => {
            let text = std::fs::read_to_string(&args[2]).expect("tokens");
            let mut t = Tok { t: text.split_whitespace().collect(), p: 0 };
            let s = t.snapshot();
            FileRetainStore::new(&args[3]).store(&s).expect("store");
        }
        "gen" => {
            let n: usize = args[2].parse().unwrap();
            let mut out = std::io::BufWriter::new(std::fs::File::create(&args[3]).expect("out"));
            let dir = PathBuf::from(&args[4]);
            std::fs::create_dir_all(&dir).ok();
            let path = dir.join(format!("retain-{}.bin", std::process::id()));
            let mut rng = Rng::new(vh::seed_from_env());
            let mut last_valid: Vec<u8> = Vec::new();
            for k in 0..n {
                if rng.chance(2, 5) || last_valid.is_empty() {
                    let mut s = RetainSnapshot::default();
                    for _ in 0..rng.below(5) { s.insert(gen_name(&mut rng), gen_value(&mut rng, 3)); }
                    let _ = std::fs::remove_file(&path);
                    FileRetainStore::new(&path).store(&s).expect("store");
                    let bytes = std::fs::read(&path).expect("read back");
                    writeln!(out, "e{k} E : {} : {}", dump_snapshot(&s), bytes_str(&bytes)).unwrap();
                    writeln!(out, "d{k} D : {} : {}", bytes_str(&bytes), load_dump(&path)).unwrap();
                    // store twice over an existing file: the second store must fully replace it
                    last_valid = bytes;
                } else {
                    // hostile: mutate / truncate / extend a valid file, or random bytes
                    let mut b = last_valid.clone();
                    match rng.below(7) {
                        0 => { let l = rng.below(b.len() as u64 + 1) as usize; b.truncate(l); }
                        1 => { for _ in 0..rng.range(1, 4) { if !b.is_empty() { let i = rng.below(b.len() as u64) as usize; b[i] = rng.below(256) as u8; } } }
                        2 => { if b.len() > 10 { let i = rng.range(6, b.len() as i64 - 4) as usize; b[i..i + 4].copy_from_slice(&[0xff, 0xff, 0xff, 0xff]); } }
                        3 => { b = (0..rng.below(40)).map(|_| rng.below(256) as u8).collect(); }
                        4 => { // deep nesting of arrays
                            let depth = rng.range(60, 70) as usize;
                            b = b"STRN".to_vec(); b.extend_from_slice(&[1, 0, 1, 0, 0, 0, 1, 0, 0, 0, b'g']);
                            for _ in 0..depth { b.extend_from_slice(&[28, 1, 0, 0, 0, 0, 0, 0, 0]); }
                            b.push(31);
                        }
                        5 => { b.extend((0..rng.below(6)).map(|_| rng.below(256) as u8)); }
                        _ => { if b.len() > 12 { let i = rng.range(10, b.len() as i64 - 1) as usize; b[i] = *rng.pick(&[24u8, 25, 28, 29, 30, 31, 0, 32, 255]); } }
                    }
                    std::fs::write(&path, &b).expect("write hostile");
                    writeln!(out, "h{k} D : {} : {}", bytes_str(&b), load_dump(&path)).unwrap();
                }
                out.flush().unwrap();
            }
            let _ = std::fs::remove_file(&path);
        }
        _ => eprintln!("usage"),
    }
}
