//! C01 feature sweep: accepted programs over language features OUTSIDE the Coq model (arrays, structs, FUNCTION / method /
//! positional FB calls, standard function blocks and functions, references, strings, enums, REAL), judged by the property's own
//! oracle only: every cycle ends Ok or with a value-dependent fault; no panic, no static-class fault, no call frame left behind.
//!   stsweep <n> <out> [<srcdir>]   generate n programs from VERIF_SEED; line  <id> : <modules> : <outcome per cycle>
//!                                  the source of every program whose outcome contains S… / PANIC / FRAMES / HANG is written to <srcdir>/<id>.st
//!   stsweep --run <file.st>        run one source file, print its outcome line
//!   after every completed cycle the stored type tag of the program's scalar variables is compared with their declaration: T:<var>=<tag> (C03)
//! outcome tokens: ok#<digest of all globals and instance variables after the cycle> | V:<fault> (value-dependent) | S:<fault> (static-class) | PANIC | FRAMES | HANG | REJECT:<message head>
use std::io::Write;
use trust_runtime::error::RuntimeError;
use trust_runtime::harness::TestHarness;
use trust_runtime::value::Duration;
use vh::Rng;

fn class(e: &RuntimeError) -> String {
    use RuntimeError::*;
    let name = format!("{e:?}");
    let head: String = name.chars().take_while(|c| c.is_alphanumeric()).collect();
    match e {
        DivisionByZero | ModuloByZero | Overflow | IndexOutOfBounds { .. } | NullReference | ForStepZero | DateTimeRange(_) | AssertionFailed(_) | ResourceFaulted => format!("V:{head}"),
        _ => format!("S:{head}"),
    }
}

struct Prog { types: String, pous: String, vars: String, blocks: String, body: String, mods: Vec<&'static str> }

fn dlit(v: i64) -> String { format!("DINT#{v}") }
fn ilit(v: i64) -> String { format!("INT#{v}") }

/// an index expression for bounds lo..hi: mostly inside, sometimes running out
fn index(rng: &mut Rng, lo: i64, hi: i64) -> String {
    match rng.below(16) {
        0 => dlit(lo), 1 => dlit(hi), 2..=7 => format!("(cyc MOD {}) + {}", dlit(hi - lo + 1), dlit(lo)),
        8 => "i".into(), 9 => format!("(cyc MOD {}) + {}", dlit(hi - lo + 3), dlit(lo - 1)),
        10 => format!("LIMIT({}, i, {})", dlit(lo), dlit(hi)),
        _ => dlit(rng.range(lo, hi)),
    }
}
fn dexpr(rng: &mut Rng) -> String {
    match rng.below(9) {
        0 => "cyc".into(), 1 => "i".into(), 2 => dlit(rng.range(-5, 20)), 3 => format!("i + {}", dlit(rng.range(0, 9))), 4 => format!("cyc * {}", dlit(rng.range(1, 4))),
        5 => format!("i - cyc"), 6 => format!("(i MOD {})", dlit(rng.range(1, 5))), 7 => format!("(cyc / {})", dlit(rng.range(1, 3))), _ => "i2".into(),
    }
}
fn bexpr(rng: &mut Rng) -> String {
    match rng.below(7) { 0 => "b".into(), 1 => "NOT b".into(), 2 => format!("i > {}", dlit(rng.range(0, 5))), 3 => "(cyc MOD DINT#2) = DINT#0".into(), 4 => "b2".into(), 5 => "b AND b2".into(), _ => "TRUE".into() }
}

fn m_arrays(rng: &mut Rng, p: &mut Prog) {
    p.mods.push("arrays");
    let lo = rng.range(-2, 2); let hi = lo + rng.range(1, 5);
    p.vars += &format!("  a1 : ARRAY[{lo}..{hi}] OF DINT;\n  a2 : ARRAY[0..2, 1..3] OF INT;\n  a3 : ARRAY[0..3] OF BOOL;\n");
    for _ in 0..rng.range(2, 6) {
        let s = match rng.below(8) {
            0 => format!("a1[{}] := {};\n", index(rng, lo, hi), dexpr(rng)),
            1 => format!("i := a1[{}];\n", index(rng, lo, hi)),
            2 => format!("FOR i2 := {} TO {} DO\n  a1[i2] := a1[i2] + i2;\nEND_FOR;\n", dlit(lo), dlit(hi)),
            3 => format!("a2[{}, {}] := j;\n", index(rng, 0, 2), index(rng, 1, 3)),
            4 => format!("j := a2[{}, DINT#2] + INT#1;\n", index(rng, 0, 2)),
            5 => format!("a3[{}] := {};\n", index(rng, 0, 3), bexpr(rng)),
            6 => format!("IF a3[{}] THEN\n  i := i + DINT#1;\nEND_IF;\n", index(rng, 0, 3)),
            _ => format!("a1[{}] := a1[{}] + a1[{}];\n", index(rng, lo, hi), index(rng, lo, hi), index(rng, lo, hi)),
        };
        p.body += &s;
    }
}
fn m_structs(rng: &mut Rng, p: &mut Prog) {
    p.mods.push("structs");
    p.types += "TYPE\n  R1 : STRUCT\n    f : DINT;\n    g : BOOL;\n    h : ARRAY[0..2] OF INT;\n  END_STRUCT;\n  R2 : STRUCT\n    r : R1;\n    n : INT;\n  END_STRUCT;\nEND_TYPE\n";
    p.vars += "  s1 : R1;\n  s2 : R2;\n  sa : ARRAY[0..1] OF R1;\n";
    for _ in 0..rng.range(2, 6) {
        let s = match rng.below(9) {
            0 => format!("s1.f := {};\n", dexpr(rng)),
            1 => "s2.r := s1;\n".to_string(),
            2 => format!("s2.n := s1.h[{}] + j;\n", index(rng, 0, 2)),
            3 => format!("s1.g := {};\nsa[{}] := s1;\n", bexpr(rng), index(rng, 0, 1)),
            4 => format!("i := sa[{}].f + s2.r.f;\n", index(rng, 0, 1)),
            5 => format!("sa[{}] := s2.r;\n", index(rng, 0, 1)),
            6 => "s2.n := s2.n + INT#1;\n".to_string(),
            7 => format!("j := s1.h[{}];\n", index(rng, 0, 2)),
            _ => "b := s1.g OR s2.r.g;\n".to_string(),
        };
        p.body += &s;
    }
}
fn m_functions(rng: &mut Rng, p: &mut Prog) {
    p.mods.push("functions");
    p.pous += "FUNCTION Add3 : DINT\nVAR_INPUT\n  a : DINT;\n  b : DINT;\n  c : DINT := DINT#7;\nEND_VAR\nAdd3 := a + b + c;\nEND_FUNCTION\n";
    p.pous += "FUNCTION Bump : DINT\nVAR_IN_OUT\n  x : DINT;\nEND_VAR\nVAR_INPUT\n  d : DINT;\nEND_VAR\nx := x + d;\nBump := x;\nEND_FUNCTION\n";
    p.pous += "FUNCTION Scan : DINT\nVAR_INPUT\n  n : DINT;\nEND_VAR\nVAR_OUTPUT\n  hit : BOOL;\nEND_VAR\nVAR\n  k : DINT;\n  acc : DINT;\nEND_VAR\nFOR k := DINT#0 TO n DO\n  IF k > DINT#4 THEN\n    hit := TRUE;\n    EXIT;\n  END_IF;\n  IF k = DINT#3 THEN\n    CONTINUE;\n  END_IF;\n  acc := acc + Add3(k, DINT#1, DINT#0);\nEND_FOR;\nIF acc > DINT#100 THEN\n  Scan := DINT#100;\n  RETURN Scan;\nEND_IF;\nScan := acc;\nEND_FUNCTION\n";
    p.pous += "FUNCTION Quot : DINT\nVAR_INPUT\n  a : DINT;\n  b : DINT;\nEND_VAR\nQuot := a / b;\nEND_FUNCTION\n";
    // parameters declared outputs / in-outs FIRST and of other types than the input: positional (non-formal) calls must bind in declaration order
    p.pous += "FUNCTION Mix2 : DINT\nVAR_OUTPUT\n  o : INT;\nEND_VAR\nVAR_INPUT\n  a : DINT;\nEND_VAR\no := INT#5;\nMix2 := a + DINT#1;\nEND_FUNCTION\n";
    p.pous += "FUNCTION Mix : DINT\nVAR_OUTPUT\n  o : INT;\nEND_VAR\nVAR_IN_OUT\n  io : BOOL;\nEND_VAR\nVAR_INPUT\n  a : DINT;\nEND_VAR\no := INT#5;\nio := NOT io;\nMix := a + DINT#1;\nEND_FUNCTION\n";
    for _ in 0..rng.range(2, 6) {
        let s = match rng.below(14) {
            11 => format!("i2 := Bump(i, {});\n", dlit(rng.range(1, 3))),
            12 => format!("i := Mix(j, b2, {});\n", dexpr(rng)),
            13 => "i := Mix2(j, i2);\n".to_string(),
            0 => format!("i := Add3({}, {}, {});\n", dexpr(rng), dexpr(rng), dexpr(rng)),
            1 => format!("i := Add3(a := {}, b := {});\n", dexpr(rng), dexpr(rng)),
            2 => format!("i := Add3(c := {}, a := {}, b := {});\n", dexpr(rng), dexpr(rng), dexpr(rng)),
            3 => format!("i2 := Bump(x := i, d := {});\n", dexpr(rng)),
            4 => format!("i2 := Bump(d := {}, x := i);\n", dlit(rng.range(1, 3))),
            5 => format!("i := Scan(n := {}, hit => b2);\n", dexpr(rng)),
            6 => format!("i := Scan({}, b2);\n", dlit(rng.range(0, 9))),
            7 => format!("i := Quot({}, {});\n", dexpr(rng), dexpr(rng)),
            8 => format!("i := Add3(Quot({}, i), Add3(i, i2, DINT#1), Scan(DINT#2, b2));\n", dexpr(rng)),
            9 => format!("i := Add3(c := Bump(x := i2, d := DINT#1), a := Bump(x := i2, d := DINT#2), b := Bump(x := i2, d := DINT#3));\ni := SUB(IN1 := Bump(x := i2, d := DINT#1), IN2 := Bump(x := i2, d := DINT#1));\n"),
            _ => format!("IF Add3(i, i2, DINT#0) > {} THEN\n  i := DINT#0;\nEND_IF;\n", dlit(rng.range(0, 50))),
        };
        p.body += &s;
    }
}
fn m_fbs(rng: &mut Rng, p: &mut Prog) {
    p.mods.push("fbs");
    p.pous += "FUNCTION_BLOCK Inner\nVAR_INPUT\n  x : DINT;\nEND_VAR\nVAR_OUTPUT\n  y : DINT;\nEND_VAR\nVAR\n  acc : DINT;\nEND_VAR\nacc := acc + x;\ny := acc;\nEND_FUNCTION_BLOCK\n";
    p.pous += "FUNCTION_BLOCK Outer\nVAR_INPUT\n  x : DINT;\n  en2 : BOOL;\nEND_VAR\nVAR_OUTPUT\n  q : DINT;\n  ok : BOOL;\nEND_VAR\nVAR\n  inner : Inner;\n  cnt : DINT;\nEND_VAR\nMETHOD PUBLIC Inc : DINT\nVAR_INPUT\n  d : DINT;\nEND_VAR\ncnt := cnt + d;\nInc := cnt;\nEND_METHOD\nMETHOD PUBLIC Reset : BOOL\ncnt := DINT#0;\nReset := TRUE;\nEND_METHOD\nIF en2 THEN\n  inner(x := x);\n  q := inner.y + cnt;\n  ok := TRUE;\nELSE\n  ok := FALSE;\nEND_IF;\nEND_FUNCTION_BLOCK\n";
    p.vars += "  o1 : Outer;\n  o2 : Outer;\n  n1 : Inner;\n";
    for _ in 0..rng.range(2, 6) {
        let s = match rng.below(10) {
            0 => format!("o1(x := {}, en2 := {});\n", dexpr(rng), bexpr(rng)),
            1 => format!("o2(x := {}, en2 := {}, q => i2, ok => b2);\n", dexpr(rng), bexpr(rng)),
            2 => "i := o1.q + o2.q;\n".to_string(),
            3 => format!("i := o1.Inc(d := {});\n", dexpr(rng)),
            4 => format!("i := o2.Inc({});\n", dlit(rng.range(1, 4))),
            5 => "b2 := o1.Reset();\n".to_string(),
            6 => format!("n1(x := {});\n", dexpr(rng)),
            7 => format!("n1({}, i2);\ni := n1.y;\n", dexpr(rng)),
            8 => format!("o1({}, {}, i2, b2);\n", dexpr(rng), bexpr(rng)),
            _ => "IF o1.ok AND NOT o2.ok THEN\n  i := o1.Inc(d := DINT#1) + o2.Inc(d := DINT#2);\nEND_IF;\n".to_string(),
        };
        p.body += &s;
    }
}
fn m_stdfbs(rng: &mut Rng, p: &mut Prog) {
    p.mods.push("stdfbs");
    p.vars += "  ton1 : TON;\n  tof1 : TOF;\n  tp1 : TP;\n  ctu1 : CTU;\n  ctd1 : CTD;\n  rt1 : R_TRIG;\n  ft1 : F_TRIG;\n  sr1 : SR;\n  rs1 : RS;\n  et : TIME;\n";
    for _ in 0..rng.range(2, 6) {
        let s = match rng.below(10) {
            0 => format!("ton1(IN := {}, PT := T#{}ms);\nb2 := ton1.Q;\n", bexpr(rng), rng.range(0, 30)),
            1 => format!("tof1(IN := {}, PT := T#{}ms);\nb2 := tof1.Q;\net := tof1.ET;\n", bexpr(rng), rng.range(0, 30)),
            2 => format!("tp1(IN := {}, PT := T#{}ms);\nb2 := tp1.Q;\n", bexpr(rng), rng.range(0, 30)),
            3 => format!("ctu1(CU := {}, R := {}, PV := {});\nb2 := ctu1.Q;\n", bexpr(rng), bexpr(rng), ilit(rng.range(0, 4))),
            4 => format!("ctd1(CD := {}, LD := {}, PV := {});\nb2 := ctd1.Q;\n", bexpr(rng), bexpr(rng), ilit(rng.range(0, 4))),
            5 => format!("rt1(CLK := {});\nIF rt1.Q THEN\n  i := i + DINT#1;\nEND_IF;\n", bexpr(rng)),
            6 => format!("ft1(CLK := {});\nb2 := ft1.Q;\n", bexpr(rng)),
            7 => format!("sr1(S1 := {}, R := {});\nb2 := sr1.Q1;\n", bexpr(rng), bexpr(rng)),
            8 => format!("rs1(S := {}, R1 := {});\nb2 := rs1.Q1;\n", bexpr(rng), bexpr(rng)),
            _ => format!("ton1(IN := ton1.Q = FALSE, PT := T#{}ms, Q => b2, ET => et);\n", rng.range(1, 9)),
        };
        p.body += &s;
    }
}
fn m_stdfuns(rng: &mut Rng, p: &mut Prog) {
    p.mods.push("stdfuns");
    p.vars += "  w : DWORD;\n  r : REAL;\n  lr : LREAL;\n  u : UINT;\n";
    for _ in 0..rng.range(2, 7) {
        let s = match rng.below(16) {
            0 => format!("i := ABS({});\n", dexpr(rng)),
            1 => format!("i := MIN({}, {});\n", dexpr(rng), dexpr(rng)),
            2 => format!("i := MAX({}, {}, {});\n", dexpr(rng), dexpr(rng), dexpr(rng)),
            3 => format!("i := LIMIT({}, {}, {});\n", dlit(rng.range(-3, 3)), dexpr(rng), dlit(rng.range(0, 9))),
            4 => format!("i := SEL({}, {}, {});\n", bexpr(rng), dexpr(rng), dexpr(rng)),
            5 => format!("i := MUX({}, {}, {}, {});\n", index(rng, 0, 2), dexpr(rng), dexpr(rng), dexpr(rng)),
            6 => format!("w := SHL(w, {});\nw := SHR(w, {});\n", rng.range(0, 33), rng.range(0, 9)),
            7 => format!("w := ROL(w, {});\nw := ROR(w, {});\n", rng.range(0, 40), rng.range(0, 40)),
            8 => format!("j := DINT_TO_INT({});\n", dexpr(rng)),
            9 => "i := INT_TO_DINT(j) + BOOL_TO_DINT(b);\n".to_string(),
            10 => format!("r := DINT_TO_REAL({}) / REAL#{}.5;\n", dexpr(rng), rng.range(0, 3)),
            11 => "i := REAL_TO_DINT(r * REAL#1000.0);\n".to_string(),
            12 => "lr := SQRT(REAL_TO_LREAL(r)) + LREAL#0.5;\n".to_string(),
            13 => format!("u := DINT_TO_UINT({});\n", dexpr(rng)),
            14 => "i := TRUNC(r);\n".to_string(),
            _ => format!("b2 := w <> DWORD#16#{:X};\nw := DWORD#16#{:X};\n", rng.range(1, 255), rng.range(1, 65535)),
        };
        p.body += &s;
    }
}
fn m_refs(rng: &mut Rng, p: &mut Prog) {
    p.mods.push("refs");
    p.vars += "  pd : REF_TO DINT;\n  pa : REF_TO DINT;\n  ra : ARRAY[0..2] OF DINT;\n";
    for _ in 0..rng.range(2, 5) {
        let s = match rng.below(12) {
            0 | 1 => "pd := REF(i);\n".to_string(),
            2 => "IF pd <> NULL THEN\n  pd^ := pd^ + DINT#1;\nEND_IF;\n".to_string(),
            3 | 4 => format!("pa := REF(ra[{}]);\n", index(rng, 0, 2)),
            5 => format!("IF pa <> NULL THEN\n  pa^ := {};\nEND_IF;\n", dexpr(rng)),
            6 => "pd := NULL;\n".to_string(),
            7 => "IF pd <> NULL THEN\n  i2 := pd^;\nEND_IF;\n".to_string(),
            8 => "i2 := pa^ + pd^;\n".to_string(),
            9 => "IF pa = NULL THEN\n  pa := REF(i2);\nEND_IF;\n".to_string(),
            10 => "pd^ := DINT#3;\n".to_string(),
            _ => "pd := pa;\n".to_string(),
        };
        p.body += &s;
    }
}
fn m_strings(rng: &mut Rng, p: &mut Prog) {
    p.mods.push("strings");
    p.vars += "  s : STRING;\n  t : STRING := 'seed';\n  ws : WSTRING;\n  n : INT;\n";
    for _ in 0..rng.range(2, 6) {
        let s = match rng.below(10) {
            0 => "s := CONCAT(s, 'ab');\n".to_string(),
            1 => "n := LEN(s);\n".to_string(),
            2 => format!("s := LEFT(s, {});\n", ilit(rng.range(0, 5))),
            3 => format!("t := MID(s, {}, {});\n", ilit(rng.range(0, 3)), ilit(rng.range(0, 4))),
            4 => "b2 := s = t;\n".to_string(),
            5 => format!("s := INSERT(s, t, {});\n", ilit(rng.range(0, 4))),
            6 => "n := FIND(s, 'b');\n".to_string(),
            7 => format!("s := DELETE(s, {}, {});\n", ilit(rng.range(0, 3)), ilit(rng.range(0, 3))),
            8 => "ws := \"w\";\n".to_string(),
            _ => format!("s := RIGHT(t, n - {});\n", ilit(rng.range(0, 3))),
        };
        p.body += &s;
    }
}
fn m_enums(rng: &mut Rng, p: &mut Prog) {
    p.mods.push("enums");
    p.types += "TYPE\n  Color : (Red, Green, Blue);\n  Small : INT(0..10);\nEND_TYPE\n";
    p.vars += "  c : Color;\n  sm : Small;\n";
    for _ in 0..rng.range(1, 4) {
        let s = match rng.below(5) {
            0 => "CASE c OF\n  Color#Red:\n    c := Color#Green;\n  Color#Green:\n    c := Color#Blue;\nELSE\n  c := Color#Red;\nEND_CASE;\n".to_string(),
            1 => "IF c = Color#Blue THEN\n  i := i + DINT#1;\nEND_IF;\n".to_string(),
            2 => format!("sm := sm + INT#{};\n", rng.range(1, 4)),
            3 => format!("CASE i OF\n  0, 1:\n    j := INT#1;\n  2..5:\n    j := INT#2;\nELSE\n  j := INT#{};\nEND_CASE;\n", rng.range(3, 9)),
            _ => "c := Color#Green;\n".to_string(),
        };
        p.body += &s;
    }
}

fn m_time(rng: &mut Rng, p: &mut Prog) {
    p.mods.push("time");
    p.vars += "  tm : TIME;\n  tm2 : TIME := T#1s;\n  dd : DATE := D#2024-01-31;\n  td : TOD := TOD#23:59:58;\n  dt1 : DT := DT#2024-12-31-23:59:59;\n  lt : LTIME;\n";
    for _ in 0..rng.range(2, 6) {
        let s = match rng.below(12) {
            0 => format!("tm := ADD_TIME(tm, T#{}ms);\n", rng.range(0, 5000)),
            1 => "tm2 := SUB_TIME(tm2, tm);\n".to_string(),
            2 => format!("tm := MUL_TIME(tm2, {});\n", dlit(rng.range(0, 5))),
            3 => format!("tm := DIV_TIME(tm2, {});\n", dlit(rng.range(0, 3))),
            4 => "b2 := tm > tm2;\n".to_string(),
            5 => "dt1 := SUB_DT_TIME(dt1, T#400d);\n".to_string(),
            6 => "tm := SUB_DT_DT(dt1, DT#2024-01-01-00:00:00);\n".to_string(),
            7 => "td := ADD_TOD_TIME(td, tm);\n".to_string(),
            8 => "dt1 := ADD_DT_TIME(dt1, tm2);\n".to_string(),
            9 => "tm := SUB_TOD_TOD(td, TOD#01:00:00);\n".to_string(),
            10 => "lt := LTIME#5us;\n".to_string(),
            _ => "dt1 := CONCAT_DATE_TOD(dd, td);\n".to_string(),
        };
        p.body += &s;
    }
}
fn m_classes(rng: &mut Rng, p: &mut Prog) {
    p.mods.push("classes");
    p.pous += "CLASS Motor\nVAR\n  speed_value : DINT := 0;\n  running : BOOL := FALSE;\nEND_VAR\nMETHOD PUBLIC Start : BOOL\nVAR_INPUT\n  speed : DINT;\nEND_VAR\nspeed_value := speed;\nrunning := TRUE;\nStart := running;\nEND_METHOD\nMETHOD PUBLIC Stop : BOOL\nrunning := FALSE;\nStop := running;\nEND_METHOD\nMETHOD PUBLIC Ratio : DINT\nVAR_INPUT\n  d : DINT;\nEND_VAR\nRatio := speed_value / d;\nEND_METHOD\nPUBLIC PROPERTY Speed : DINT\nGET\n  Speed := speed_value;\nEND_GET\nSET\n  speed_value := Speed;\nEND_SET\nEND_PROPERTY\nEND_CLASS\n";
    p.vars += "  m1 : Motor;\n  m2 : Motor;\n";
    for _ in 0..rng.range(2, 6) {
        let s = match rng.below(8) {
            0 => format!("b2 := m1.Start(speed := {});\n", dexpr(rng)),
            1 => "b2 := m1.Stop();\n".to_string(),
            2 => "b2 := m2.Stop() OR m1.Stop();\n".to_string(),
            3 => format!("b2 := m2.Start({});\n", dexpr(rng)),
            4 => format!("i := m2.Ratio(d := {});\n", dexpr(rng)),
            5 => format!("i := m1.Ratio({}) + m2.Ratio(d := DINT#1);\n", dlit(rng.range(0, 3))),
            6 => "IF m1.Start(speed := i2) THEN\n  i2 := m1.Ratio(d := DINT#2);\nEND_IF;\n".to_string(),
            _ => "m2 := m1;\n".to_string(),
        };
        p.body += &s;
    }
}
fn m_fbarrays(rng: &mut Rng, p: &mut Prog) {
    p.mods.push("inout");
    p.pous += "FUNCTION_BLOCK Acc\nVAR_INPUT\n  x : DINT;\nEND_VAR\nVAR_IN_OUT\n  total : DINT;\nEND_VAR\nVAR_OUTPUT\n  y : DINT;\nEND_VAR\nVAR_TEMP\n  tmp : DINT;\nEND_VAR\nVAR\n  sum : DINT;\nEND_VAR\ntmp := x * DINT#2;\nsum := sum + tmp;\ntotal := total + DINT#1;\ny := sum;\nEND_FUNCTION_BLOCK\n";
    p.vars += "  fa0 : Acc;\n  fa1 : Acc;\n  single : Acc;\n  tot : DINT;\n";
    for _ in 0..rng.range(2, 5) {
        let s = match rng.below(6) {
            0 => format!("fa{}(x := {}, total := tot);\n", rng.below(2), dexpr(rng)),
            1 => format!("i := fa{}.y;\n", rng.below(2)),
            2 => format!("single(x := {}, total := tot, y => i2);\n", dexpr(rng)),
            3 => "FOR i2 := DINT#0 TO DINT#2 DO\n  fa0(x := i2, total := tot);\n  fa1(x := fa0.y, total := i);\nEND_FOR;\n".to_string(),
            4 => "i := single.y + tot;\n".to_string(),
            _ => format!("single(x := fa{}.y, total := i);\n", rng.below(2)),
        };
        p.body += &s;
    }
}

fn m_inherit(rng: &mut Rng, p: &mut Prog) {
    p.mods.push("inherit");
    p.pous += "FUNCTION_BLOCK Base\nVAR PUBLIC\n  cnt : DINT;\nEND_VAR\nMETHOD PUBLIC Advance : DINT\nVAR_INPUT\n  d : DINT;\nEND_VAR\ncnt := cnt + d;\nAdvance := cnt;\nEND_METHOD\nMETHOD PUBLIC Fetch : DINT\nFetch := cnt;\nEND_METHOD\nEND_FUNCTION_BLOCK\n";
    p.pous += "FUNCTION_BLOCK Derived EXTENDS Base\nVAR PUBLIC\n  extra : DINT;\nEND_VAR\nMETHOD PUBLIC OVERRIDE Advance : DINT\nVAR_INPUT\n  d : DINT;\nEND_VAR\nextra := extra + DINT#1;\nAdvance := SUPER.Advance(d := d * DINT#2);\nEND_METHOD\nMETHOD PUBLIC Both : DINT\nBoth := THIS.Fetch() + extra;\nEND_METHOD\nEND_FUNCTION_BLOCK\n";
    p.pous += "FUNCTION_BLOCK Third EXTENDS Derived\nMETHOD PUBLIC OVERRIDE Fetch : DINT\nFetch := SUPER.Fetch() - extra;\nEND_METHOD\nEND_FUNCTION_BLOCK\n";
    p.vars += "  bs : Base;\n  dv : Derived;\n  th : Third;\n";
    for _ in 0..rng.range(2, 6) {
        let s = match rng.below(10) {
            0 => format!("i := bs.Advance(d := {});\n", dexpr(rng)),
            1 => format!("i := dv.Advance(d := {});\n", dexpr(rng)),
            2 => "i := dv.Both();\n".to_string(),
            3 => "i := dv.Fetch() + bs.Fetch();\n".to_string(),
            4 => format!("i := th.Advance({});\n", dlit(rng.range(0, 4))),
            5 => "i2 := th.Fetch() + th.Both();\n".to_string(),
            6 => "i2 := dv.cnt + dv.extra + th.cnt;\n".to_string(),
            7 => format!("dv.extra := {};\n", dexpr(rng)),
            8 => "bs(); dv(); th();\n".to_string(),
            _ => format!("IF th.Advance(d := {}) > dv.Both() THEN\n  i := bs.Fetch();\nEND_IF;\n", dexpr(rng)),
        };
        p.body += &s;
    }
}
fn m_convert(rng: &mut Rng, p: &mut Prog) {
    p.mods.push("convert");
    p.vars += "  wd : WORD;\n  bt : BYTE;\n  ud : UDINT;\n  li : LINT;\n  si : SINT;\n  rr : REAL;\n";
    for _ in 0..rng.range(2, 7) {
        let s = match rng.below(12) {
            0 => "wd := INT_TO_WORD(j);\n".to_string(),
            1 => "j := WORD_TO_INT(wd);\n".to_string(),
            2 => format!("bt := DINT_TO_BYTE({});\n", dexpr(rng)),
            3 => format!("ud := DINT_TO_UDINT({});\n", dexpr(rng)),
            4 => "li := DINT_TO_LINT(i) * LINT#4294967296;\n".to_string(),
            5 => "i := LINT_TO_DINT(li);\n".to_string(),
            6 => format!("si := DINT_TO_SINT({});\n", dexpr(rng)),
            7 => "rr := LINT_TO_REAL(li) + DINT_TO_REAL(i);\n".to_string(),
            8 => "i := REAL_TO_DINT(rr);\n".to_string(),
            9 => "j := SINT_TO_INT(si) + BYTE_TO_INT(bt);\n".to_string(),
            10 => "li := UDINT_TO_LINT(ud) - DINT_TO_LINT(i2);\n".to_string(),
            _ => "ud := LINT_TO_UDINT(li);\n".to_string(),
        };
        p.body += &s;
    }
}

fn m_retain_io(rng: &mut Rng, p: &mut Prog) {
    // direct-address bindings next to RETAIN / PERSISTENT variables of other types, declared in varying order: the run loop sets
    // %IW0 / %IX4.0 before every cycle and restarts the runtime (warm or cold) in the middle
    p.mods.push("retainio");
    let mut decls = vec!["  lvl AT %IW0 : INT;\n", "  ratio : REAL := REAL#1.5;\n", "  outw AT %QW2 : INT;\n", "  sw AT %IX4.0 : BOOL;\n", "  wide : LINT;\n"];
    for i in (1..decls.len()).rev() { let j = rng.below(i as u64 + 1) as usize; decls.swap(i, j); }
    p.vars += &decls.concat();
    let q = if rng.chance(1, 2) { "RETAIN" } else { "PERSISTENT" };
    let mut kept = vec!["  total : DINT;\n", "  keep : BOOL;\n", "  hours : UINT;\n"];
    for i in (1..kept.len()).rev() { let j = rng.below(i as u64 + 1) as usize; kept.swap(i, j); }
    p.blocks += &format!("VAR {q}\n{}END_VAR\n", kept.concat());
    if rng.chance(1, 2) { p.blocks += "VAR\n  late : SINT;\n  late2 AT %QB6 : BYTE;\nEND_VAR\n"; }
    for _ in 0..rng.range(2, 5) {
        let s = match rng.below(8) {
            0 => "IF lvl > INT#2000 THEN\n  total := total + DINT#1;\nEND_IF;\n".to_string(),
            1 => "outw := lvl;\n".to_string(),
            2 => "ratio := ratio + REAL#0.5;\n".to_string(),
            3 => "keep := sw OR keep;\n".to_string(),
            4 => "hours := hours + UINT#1;\n".to_string(),
            5 => "wide := wide + INT_TO_LINT(lvl);\n".to_string(),
            6 => "total := total + INT_TO_DINT(lvl);\n".to_string(),
            _ => "IF sw THEN\n  outw := outw + INT#1;\nEND_IF;\n".to_string(),
        };
        p.body += &s;
    }
}

fn gen(rng: &mut Rng) -> Prog {
    let mut p = Prog { types: String::new(), pous: String::new(), vars: String::new(), blocks: String::new(), body: String::new(), mods: vec![] };
    p.vars += "  cyc : DINT;\n  i : DINT;\n  i2 : DINT;\n  j : INT;\n  b : BOOL;\n  b2 : BOOL;\n";
    p.body += "cyc := cyc + DINT#1;\nb := NOT b;\n";
    let mods: [fn(&mut Rng, &mut Prog); 15] = [m_arrays, m_structs, m_functions, m_fbs, m_stdfbs, m_stdfuns, m_refs, m_strings, m_enums, m_time, m_classes, m_fbarrays, m_inherit, m_convert, m_retain_io];
    let k = rng.range(1, 3);
    let mut chosen: Vec<usize> = vec![];
    while chosen.len() < k as usize { let m = rng.below(mods.len() as u64) as usize; if !chosen.contains(&m) { chosen.push(m); } }
    for m in chosen { mods[m](rng, &mut p); }
    p
}
fn source(p: &Prog) -> String { format!("{}{}PROGRAM Main\nVAR\n{}END_VAR\n{}{}END_PROGRAM\n", p.types, p.pous, p.vars, p.blocks, p.body) }

/// declared tag of the scalar variables the modules declare in Main (name, Debug prefix of the stored value)
const TAGS: &[(&str, &str)] = &[("cyc", "DInt("), ("i", "DInt("), ("i2", "DInt("), ("j", "Int("), ("b", "Bool("), ("b2", "Bool("), ("w", "DWord("), ("r", "Real("), ("lr", "LReal("),
    ("u", "UInt("), ("s", "String("), ("t", "String("), ("ws", "WString("), ("n", "Int("), ("c", "Enum("), ("sm", "Int("), ("tm", "Time("), ("tm2", "Time("), ("dd", "Date("),
    ("td", "Tod("), ("dt1", "Dt("), ("lt", "LTime("), ("tot", "DInt("), ("et", "Time("), ("wd", "Word("), ("bt", "Byte("), ("ud", "UDInt("), ("li", "LInt("), ("si", "SInt("), ("rr", "Real("),
    ("lvl", "Int("), ("ratio", "Real("), ("outw", "Int("), ("sw", "Bool("), ("wide", "LInt("), ("total", "DInt("), ("keep", "Bool("), ("hours", "UInt("), ("late", "SInt("), ("late2", "Byte(")];
fn run_src(src: &str, cycles: usize) -> String {
    let mut h = match TestHarness::from_source(src) {
        Ok(h) => h,
        Err(e) => return format!("REJECT:{}", format!("{e:?}").chars().filter(|c| !c.is_control()).take(160).collect::<String>().replace(' ', "_").replace(':', ";")),
    };
    let mut out = vec![];
    let io = src.contains("AT %IW0");
    // a restart in the middle of the run (cycle index derived from the text so that the choice is reproducible per program)
    let restart_at = if io { Some(2 + src.len() % 3) } else { None };
    for c in 0..cycles {
        if io {
            let _ = h.set_direct_input("%IW0", trust_runtime::value::Value::Word(if c % 2 == 0 { 2500 } else { 1234 }));
            let _ = h.set_direct_input("%IX4.0", trust_runtime::value::Value::Bool(c % 3 == 1));
        }
        if restart_at == Some(c) {
            let mode = if src.len() % 2 == 0 { trust_runtime::RestartMode::Warm } else { trust_runtime::RestartMode::Cold };
            if let Err(e) = h.restart(mode) { out.push(format!("S:Restart{}", format!("{e:?}").chars().take_while(|ch| ch.is_alphanumeric()).collect::<String>())); break; }
            out.push("restart".to_string());
        }
        h.advance_time(Duration::from_millis(7));
        let r = std::panic::catch_unwind(std::panic::AssertUnwindSafe(|| h.cycle()));
        match r {
            Err(_) => { out.push("PANIC".to_string()); break; }
            Ok(res) => {
                if let Some(e) = res.errors.first() { out.push(class(e)); break; }
                if !h.runtime().storage().frames().is_empty() { out.push("FRAMES".to_string()); break; }
                // stored tags of the program's scalar variables
                if let Some(trust_runtime::value::Value::Instance(pid)) = h.runtime().storage().get_global("Main").cloned() {
                    let mut wrong = None;
                    for (name, tag) in TAGS {
                        if let Some(v) = h.runtime().storage().get_instance_var(pid, name) {
                            let d = format!("{v:?}");
                            if !d.starts_with(tag) { wrong = Some(format!("T:{name}={}", d.chars().take_while(|c| c.is_alphanumeric()).collect::<String>())); break; }
                        }
                    }
                    if let Some(w) = wrong { out.push(w); break; }
                }
                // digest of the whole storage (registries are IndexMaps: their iteration order is part of the observable state)
                let st = h.runtime().storage();
                let mut hsh: u64 = 0xcbf29ce484222325;
                let mut feed = |t: &str| for b in t.bytes() { hsh ^= b as u64; hsh = hsh.wrapping_mul(0x100000001b3); };
                for (k, v) in st.globals().iter() { feed(&format!("{k}={v:?};")); }
                for (id, inst) in st.instances().iter() { feed(&format!("#{id:?}:{}", inst.type_name)); for (k, v) in inst.variables.iter() { feed(&format!("{k}={v:?},")); } }
                out.push(format!("ok#{:08x}", hsh as u32));
            }
        }
    }
    out.join(" ")
}
fn run_guarded(src: String, cycles: usize) -> String {
    let (tx, rx) = std::sync::mpsc::channel();
    std::thread::Builder::new().stack_size(64 << 20).spawn(move || { let _ = tx.send(run_src(&src, cycles)); }).expect("spawn");
    match rx.recv_timeout(std::time::Duration::from_secs(20)) { Ok(s) => s, Err(_) => "HANG".to_string() }
}

fn main() {
    std::panic::set_hook(Box::new(|_| {}));
    let args: Vec<String> = std::env::args().collect();
    if args.get(1).map(|s| s.as_str()) == Some("--run") {
        let src = std::fs::read_to_string(&args[2]).expect("read");
        println!("{}", run_guarded(src, 6));
        return;
    }
    let n: usize = args[1].parse().unwrap();
    let mut out = std::io::BufWriter::new(std::fs::File::create(&args[2]).expect("out"));
    let srcdir = args.get(3).cloned();
    if let Some(d) = &srcdir { let _ = std::fs::remove_dir_all(d); std::fs::create_dir_all(d).ok(); }
    let mut rng = Rng::new(vh::seed_from_env());
    for id in 0..n {
        let p = gen(&mut rng);
        let src = source(&p);
        let o = run_guarded(src.clone(), 6);
        writeln!(out, "x{id} : {} : {o}", p.mods.join(",")).unwrap();
        let bad = o.split(' ').any(|t| t.starts_with("S:") || t == "PANIC" || t == "FRAMES" || t == "HANG" || t.starts_with("REJECT"));
        if bad || std::env::var("VERIF_KEEP_ALL_SRC").is_ok() { if let Some(d) = &srcdir { let _ = std::fs::write(format!("{d}/x{id}.st"), &src); } }
        if o == "HANG" { break; }
    }
    out.flush().unwrap();
}
