//! C13 harness: histories of file additions, edits, removals, re-additions and queries on one trust_hir::Database; after every
//! query and at the end the answers are compared with a brand-new Database loaded with the same contents.
//!   c13 <n> <out>
//! Line:  <id> : ops (0 f t | 1 f | 2 f)… : contents (f t)… | mismatches not_idempotent panics queries
//!   t = 10 * slot + variant: text variant of file slot f (variant 0 = empty text)
use std::io::Write;
use trust_hir::db::{FileId, SemanticDatabase, SourceDatabase};
use trust_hir::Database;
use vh::Rng;

fn variants(slot: usize) -> Vec<String> {
    match slot {
        0 => vec![String::new(),
                  "TYPE Speed : INT; END_TYPE\nFUNCTION Clamp : INT\nVAR_INPUT v : INT; hi : INT; END_VAR\nIF v > hi THEN Clamp := hi; ELSE Clamp := v; END_IF\nEND_FUNCTION\n".into(),
                  "TYPE Speed : DINT; END_TYPE\nFUNCTION Clamp : DINT\nVAR_INPUT v : DINT; hi : DINT; END_VAR\nClamp := v;\nEND_FUNCTION\n".into(),
                  "TYPE Speed : INT; END_TYPE\nFUNCTION Clamp2 : INT\nVAR_INPUT v : INT; END_VAR\nClamp2 := v;\nEND_FUNCTION\n".into(),
                  "TYPE Speed : INT END_TYPE\nFUNCTION Clamp : INT\nVAR_INPUT v : INT hi : INT; END_VAR\nClamp := ;\n".into()],
        1 => vec![String::new(),
                  "FUNCTION_BLOCK Motor\nVAR_INPUT target : Speed; END_VAR\nVAR_OUTPUT actual : Speed; END_VAR\nactual := Clamp(target, 100);\nEND_FUNCTION_BLOCK\n".into(),
                  "FUNCTION_BLOCK Motor\nVAR_INPUT target : Speed; enable : BOOL; END_VAR\nVAR_OUTPUT actual : Speed; END_VAR\nIF enable THEN actual := Clamp(target, 50); END_IF\nEND_FUNCTION_BLOCK\n".into(),
                  "FUNCTION_BLOCK Motor\nVAR_INPUT target : Undefined; END_VAR\nactual := target + TRUE;\nEND_FUNCTION_BLOCK\n".into()],
        2 => vec![String::new(),
                  "PROGRAM Main\nVAR m : Motor; s : Speed; total : DINT; END_VAR\nm(target := s);\ns := m.actual;\ntotal := total + INT_TO_DINT(Clamp(s, 10));\nEND_PROGRAM\n".into(),
                  "PROGRAM Main\nVAR m : Motor; s : Speed; END_VAR\nm(target := s, enable := TRUE);\ns := m.actual + 1;\nEND_PROGRAM\n".into(),
                  "PROGRAM Main\nVAR x : INT; END_VAR\nx := Missing(x);\ny := 2;\nEND_PROGRAM\n".into(),
                  // same length as the previous variant, different diagnostics
                  "PROGRAM Main\nVAR x : INT; END_VAR\nx := Clamp(x,9);\ny := 2;\nEND_PROGRAM\n".into()],
        _ => vec![String::new(),
                  "CONFIGURATION Conf\nVAR_GLOBAL gCount : INT; END_VAR\nTASK T (INTERVAL := T#10ms, PRIORITY := 1);\nPROGRAM P1 WITH T : Main;\nEND_CONFIGURATION\n".into(),
                  "PROGRAM Aux\nVAR_EXTERNAL gCount : INT; END_VAR\nVAR s : Speed; END_VAR\ngCount := gCount + Clamp(s, 3);\nEND_PROGRAM\n".into(),
                  "PROGRAM Main\nVAR dup : BOOL; END_VAR\ndup := NOT dup;\nEND_PROGRAM\n".into()],
    }
}

/// everything observable about one file, as text
fn answers(db: &Database, f: u32) -> String {
    let id = FileId(f);
    let mut d: Vec<String> = db.diagnostics(id).iter().map(|x| format!("{:?}|{:?}|{:?}|{}", x.code, x.severity, x.range, x.message)).collect();
    d.sort();
    let mut s: Vec<String> = db.file_symbols(id).iter().map(|x| format!("{}:{:?}:{:?}", x.name, x.kind, x.range)).collect();
    s.sort();
    let an = db.analyze(id);
    let mut a: Vec<String> = an.symbols.iter().map(|x| format!("{}:{:?}", x.name, x.kind)).collect();
    a.sort();
    let mut ad: Vec<String> = an.diagnostics.iter().map(|x| format!("{:?}|{:?}|{}", x.code, x.range, x.message)).collect();
    ad.sort();
    let types: Vec<String> = (0..24).map(|e| format!("{:?}", db.type_of(id, e))).collect();
    let exprs: Vec<String> = (0..12).map(|o| format!("{:?}", db.expr_id_at_offset(id, o * 17))).collect();
    format!("D{:?} S{:?} A{:?} AD{:?} T{:?} E{:?} R{:?}", d, s, a, ad, types, exprs, db.resolve_name(id, "Clamp").is_some())
}
fn fresh(contents: &std::collections::BTreeMap<u32, usize>, texts: &[Vec<String>]) -> Database {
    let mut db = Database::new();
    for (f, t) in contents { db.set_source_text(FileId(*f), texts[*f as usize][*t % 10].clone()); }
    db
}

fn main() {
    std::panic::set_hook(Box::new(|_| {}));
    let args: Vec<String> = std::env::args().collect();
    let count: usize = args[1].parse().unwrap();
    let mut out = std::io::BufWriter::new(std::fs::File::create(&args[2]).expect("open output"));
    let mut rng = Rng::new(vh::seed_from_env());
    let texts: Vec<Vec<String>> = (0..4).map(variants).collect();
    for k in 0..count {
        let nslots = rng.range(1, 4) as u32;
        let mut db = Database::new();
        let mut contents = std::collections::BTreeMap::new();
        let (mut mism, mut nonidem, mut panics, mut queries) = (0, 0, 0, 0);
        let mut ops = String::new();
        let mut first_bad = String::new();
        for _ in 0..rng.range(2, 16) {
            let f = rng.below(nslots as u64) as u32;
            match rng.below(10) {
                0..=4 => { let v = rng.below(texts[f as usize].len() as u64) as usize; let t = 10 * f as usize + v; ops += &format!(" 0 {f} {t}"); db.set_source_text(FileId(f), texts[f as usize][v].clone()); contents.insert(f, t); }
                5 => { ops += &format!(" 1 {f}"); db.remove_source_text(FileId(f)); contents.remove(&f); }
                _ => {
                    ops += &format!(" 2 {f}"); queries += 1;
                    let r = std::panic::catch_unwind(std::panic::AssertUnwindSafe(|| { let a = answers(&db, f); let b = answers(&db, f); (a, b) }));
                    match r {
                        Err(_) => panics += 1,
                        Ok((a, b)) => {
                            if a != b { nonidem += 1; }
                            let fr = fresh(&contents, &texts);
                            let expect = std::panic::catch_unwind(std::panic::AssertUnwindSafe(|| answers(&fr, f))).unwrap_or_default();
                            if a != expect { mism += 1; if first_bad.is_empty() { first_bad = format!("file {f}: incremental {} / fresh {}", &a[..a.len().min(300)], &expect[..expect.len().min(300)]); } }
                        }
                    }
                }
            }
        }
        // final sweep over every slot, including files that are not (or no longer) present
        let fr = fresh(&contents, &texts);
        for f in 0..4u32 {
            queries += 1;
            let r = std::panic::catch_unwind(std::panic::AssertUnwindSafe(|| (answers(&db, f), answers(&fr, f))));
            match r { Err(_) => panics += 1, Ok((a, b)) => if a != b { mism += 1; if first_bad.is_empty() { first_bad = format!("file {f}: incremental {} / fresh {}", &a[..a.len().min(300)], &b[..b.len().min(300)]); } } }
        }
        // the database's own view of the contents
        let mut ids: Vec<u32> = db.file_ids().iter().map(|x| x.0).collect(); ids.sort();
        let mut cont = String::new();
        for f in ids { let text = db.source_text(FileId(f)); let v = texts[f as usize].iter().position(|t| *t == *text).map(|v| 10 * f as usize + v).unwrap_or(999); cont += &format!(" {f} {v}"); }
        if !first_bad.is_empty() && std::env::var("VERIF_SHOW_SRC").is_ok() { eprintln!("c{k}: {first_bad}"); }
        writeln!(out, "c{k} :{ops} :{cont} | {mism} {nonidem} {panics} {queries}").unwrap();
    }
}
