//! C11 harness: STBC containers through decode / encode / validate / metadata / apply_bytecode_bytes.
//!   c11 gen <n> <cases>              write n case lines `<id> : <hex bytes>` (emitted containers, structure-aware mutations, random bytes)
//!   c11 run <cases> <out>            run every case in child processes under an address-space limit (ulimit -v 3000000);
//!                                    a child that dies marks the case it was working on as ABORT and a new child continues
//!   c11 child <cases> <out> <start>  (internal)
//! Result line:  <id> : <hex bytes> : crc dec nsec (id flags)* reenc valid meta apply nstr (len bytes*)*
//!   crc   = crc32 of bytes[table_off..] when the header can be read and table_off <= len, else 0
//!   dec   = 0 Ok | 1 InvalidMagic 2 UnexpectedEof 3 InvalidHeader 4 SectionAlignment 5 InvalidSectionTable 6 InvalidChecksum
//!           7 UnsupportedVersion 8 SectionOutOfBounds 9 SectionOverlap 10 InvalidSection 11 other | 20 PANIC | 21 ABORT (child died)
//!   reenc = 1 when decode(encode(m)) = m and (for emitted containers, id e…) encode(m) = bytes; 0 otherwise; 3 n/a
//!   valid / meta / apply = 0 Ok 1 Err 2 PANIC 3 n/a      nstr = strings of the first string table (0 when none / not decoded)
use std::io::{BufRead, Write};
use trust_runtime::bytecode::{BytecodeError, BytecodeModule, SectionData};
use trust_runtime::harness::{bytecode_bytes_from_source, TestHarness};
use vh::Rng;

fn hex(b: &[u8]) -> String { b.iter().map(|x| format!("{x:02x}")).collect() }
fn unhex(s: &str) -> Vec<u8> { (0..s.len() / 2).map(|i| u8::from_str_radix(&s[2 * i..2 * i + 2], 16).unwrap_or(0)).collect() }

fn programs() -> Vec<String> {
    let mut v = Vec::new();
    v.push("PROGRAM Main\nVAR\n a : INT := 1;\n b : BOOL;\nEND_VAR\na := a + 1;\nb := a > 3;\nEND_PROGRAM\n".to_string());
    v.push("TYPE\n Color : (Red, Green, Blue);\n Pt : STRUCT\n  x : DINT;\n  y : DINT;\n END_STRUCT;\nEND_TYPE\nFUNCTION_BLOCK Cnt\nVAR_INPUT\n up : BOOL;\nEND_VAR\nVAR_OUTPUT\n n : DINT;\nEND_VAR\nIF up THEN\n n := n + 1;\nEND_IF;\nEND_FUNCTION_BLOCK\nFUNCTION Twice : DINT\nVAR_INPUT\n v : DINT;\nEND_VAR\nTwice := v * 2;\nEND_FUNCTION\nPROGRAM Main\nVAR\n c : Cnt;\n p : Pt;\n arr : ARRAY[0..3] OF INT;\n col : Color;\n s : STRING := 'héllo';\n i : DINT;\nEND_VAR\nc(up := TRUE);\np.x := Twice(c.n);\nFOR i := 0 TO 3 DO\n arr[i] := DINT_TO_INT(i);\nEND_FOR;\nCASE i OF\n 1: i := 2;\n 3..5: i := 0;\nELSE\n i := 1;\nEND_CASE;\nEND_PROGRAM\n".to_string());
    v.push("CONFIGURATION C\nVAR_GLOBAL RETAIN\n keep : DINT := 5;\nEND_VAR\nVAR_GLOBAL\n g : INT;\nEND_VAR\nRESOURCE R ON PLC\nTASK Fast (INTERVAL := T#10ms, PRIORITY := 1);\nTASK Slow (INTERVAL := T#100ms, PRIORITY := 5);\nPROGRAM P1 WITH Fast : Main;\nPROGRAM P2 WITH Slow : Aux;\nEND_RESOURCE\nEND_CONFIGURATION\nPROGRAM Main\nVAR_EXTERNAL\n keep : DINT;\n g : INT;\nEND_VAR\nVAR\n q AT %QW0 : INT;\n inp AT %IX1.2 : BOOL;\nEND_VAR\nkeep := keep + 1;\nIF inp THEN\n q := g;\nEND_IF;\nEND_PROGRAM\nPROGRAM Aux\nVAR\n t : TON;\n w : WORD := 16#00FF;\nEND_VAR\nt(IN := TRUE, PT := T#1s);\nw := w;\nEND_PROGRAM\n".to_string());
    v.push("INTERFACE IShape\nMETHOD Area : DINT\nEND_METHOD\nEND_INTERFACE\nCLASS Sq IMPLEMENTS IShape\nVAR\n side : DINT := 2;\nEND_VAR\nMETHOD PUBLIC Area : DINT\nArea := side * side;\nEND_METHOD\nEND_CLASS\nPROGRAM Main\nVAR\n s : Sq;\n a : DINT;\n r : REAL := 1.5;\n l : LREAL;\n t : TIME := T#5s;\nEND_VAR\na := s.Area();\nl := REAL_TO_LREAL(r) * 2.0;\nWHILE a > 0 DO\n a := a - 1;\nEND_WHILE;\nREPEAT\n a := a + 1;\nUNTIL a >= 3\nEND_REPEAT;\nEND_PROGRAM\n".to_string());
    v
}

/// random well-typed programs: DINT / BOOL variables, an array, a struct, an FB instance, a function; every statement kind,
/// conditions and right-hand sides that index arrays with variables, read fields and FB outputs, call the function
fn gen_program(rng: &mut Rng) -> String {
    fn iexpr(rng: &mut Rng, d: u32) -> String {
        if d == 0 || rng.chance(2, 5) {
            return match rng.below(9) { 0 => "a".into(), 1 => "b".into(), 2 => "i".into(), 3 => format!("{}", rng.range(0, 9)), 4 => "arr[i]".into(), 5 => format!("arr[{}]", rng.range(0, 7)),
                                        6 => "pt.x".into(), 7 => "cnt.n".into(), _ => "arr[(i + 1) MOD 8]".into() };
        }
        match rng.below(6) { 0 => format!("({} + {})", iexpr(rng, d - 1), iexpr(rng, d - 1)), 1 => format!("({} - {})", iexpr(rng, d - 1), iexpr(rng, d - 1)),
                             2 => format!("({} * 2)", iexpr(rng, d - 1)), 3 => format!("Twice({})", iexpr(rng, d - 1)), 4 => format!("(-{})", iexpr(rng, d - 1)), _ => format!("({} MOD 7)", iexpr(rng, d - 1)) }
    }
    fn bexpr(rng: &mut Rng, d: u32) -> String {
        if d == 0 || rng.chance(1, 3) {
            return match rng.below(6) { 0 => "f".into(), 1 => "TRUE".into(), 2 => format!("{} > {}", iexpr(rng, 1), iexpr(rng, 1)), 3 => format!("arr[i] > {}", rng.range(0, 5)),
                                        4 => format!("{} = {}", iexpr(rng, 1), iexpr(rng, 1)), _ => format!("pt.y <= {}", iexpr(rng, 1)) };
        }
        match rng.below(4) { 0 => format!("({} AND {})", bexpr(rng, d - 1), bexpr(rng, d - 1)), 1 => format!("({} OR {})", bexpr(rng, d - 1), bexpr(rng, d - 1)), 2 => format!("NOT ({})", bexpr(rng, d - 1)), _ => format!("({} XOR f)", bexpr(rng, d - 1)) }
    }
    fn block(rng: &mut Rng, d: u32, in_loop: bool, ind: usize) -> String {
        let mut s = String::new();
        let pad = " ".repeat(ind);
        for _ in 0..rng.range(1, 3) {
            match if d == 0 { rng.below(5) } else { rng.below(13) } {
                0 => s += &format!("{pad}a := {};\n", iexpr(rng, 2)),
                1 => s += &format!("{pad}arr[i] := {};\n", iexpr(rng, 2)),
                2 => s += &format!("{pad}pt.x := {};\n", iexpr(rng, 1)),
                3 => s += &format!("{pad}f := {};\n", bexpr(rng, 2)),
                4 => s += &format!("{pad}cnt(up := {});\n{pad}b := cnt.n;\n", bexpr(rng, 1)),
                5 | 6 => { s += &format!("{pad}IF {} THEN\n{}", bexpr(rng, 2), block(rng, d - 1, in_loop, ind + 2)); if rng.chance(1, 2) { s += &format!("{pad}ELSIF {} THEN\n{}", bexpr(rng, 1), block(rng, d - 1, in_loop, ind + 2)); } if rng.chance(1, 2) { s += &format!("{pad}ELSE\n{}", block(rng, d - 1, in_loop, ind + 2)); } s += &format!("{pad}END_IF;\n"); }
                7 => s += &format!("{pad}CASE {} OF\n{pad} 0: a := 1;\n{pad} 1, 2: b := 2;\n{pad} 3..5:\n{}{pad}ELSE\n{}{pad}END_CASE;\n", iexpr(rng, 1), block(rng, d - 1, in_loop, ind + 2), block(rng, d - 1, in_loop, ind + 2)),
                8 => s += &format!("{pad}FOR i := 0 TO {} DO\n{}{pad}END_FOR;\n", rng.range(0, 7), block(rng, d - 1, true, ind + 2)),
                9 => s += &format!("{pad}k := 0;\n{pad}WHILE k < 3 AND {} DO\n{pad}  k := k + 1;\n{}{pad}END_WHILE;\n", bexpr(rng, 1), block(rng, d - 1, true, ind + 2)),
                10 => s += &format!("{pad}k := 0;\n{pad}REPEAT\n{pad}  k := k + 1;\n{}{pad}UNTIL k >= 3 OR {}\n{pad}END_REPEAT;\n", block(rng, d - 1, true, ind + 2), bexpr(rng, 1)),
                11 => if in_loop { s += &format!("{pad}IF {} THEN\n{pad}  {};\n{pad}END_IF;\n", bexpr(rng, 1), if rng.chance(1, 2) { "EXIT" } else { "CONTINUE" }); } else { s += &format!("{pad}b := {};\n", iexpr(rng, 2)); },
                _ => s += &format!("{pad}s := CONCAT(s, 'x');\n{pad}b := LEN(s);\n"),
            }
        }
        s
    }
    let body = block(rng, 3, false, 2);
    let fb_body = block(rng, 2, false, 2);
    format!("TYPE Pt : STRUCT\n  x : DINT;\n  y : DINT;\nEND_STRUCT\nEND_TYPE\nFUNCTION Twice : DINT\nVAR_INPUT v : DINT; END_VAR\nTwice := v * 2;\nEND_FUNCTION\nFUNCTION_BLOCK Cnt\nVAR_INPUT up : BOOL; END_VAR\nVAR_OUTPUT n : DINT; END_VAR\nIF up THEN\n  n := n + 1;\nEND_IF;\nEND_FUNCTION_BLOCK\n\
FUNCTION_BLOCK Worker\nVAR\n  a, b, i, k : DINT;\n  f : BOOL;\n  arr : ARRAY[0..7] OF DINT;\n  pt : Pt;\n  cnt : Cnt;\n  s : STRING;\nEND_VAR\n{fb_body}END_FUNCTION_BLOCK\n\
PROGRAM Main\nVAR\n  a, b, i, k : DINT;\n  f : BOOL;\n  arr : ARRAY[0..7] OF DINT;\n  pt : Pt;\n  cnt : Cnt;\n  w : Worker;\n  s : STRING;\nEND_VAR\nw();\n{body}END_PROGRAM\n")
}

fn le32(b: &[u8], o: usize) -> u32 { u32::from_le_bytes([b[o], b[o + 1], b[o + 2], b[o + 3]]) }
fn put32(b: &mut [u8], o: usize, v: u32) { b[o..o + 4].copy_from_slice(&v.to_le_bytes()); }
fn fix_crc(b: &mut Vec<u8>) {
    if b.len() >= 24 { let off = le32(b, 16) as usize; if off <= b.len() && le32(b, 8) & 1 != 0 { let c = crc32fast::hash(&b[off..]); put32(b, 20, c); } }
}

fn mutate(rng: &mut Rng, base: &[u8]) -> Vec<u8> {
    let mut b = base.to_vec();
    let nsec = if b.len() >= 24 { u16::from_le_bytes([b[14], b[15]]) as usize } else { 0 };
    let interesting = |rng: &mut Rng, old: u32, len: usize| -> u32 {
        match rng.below(12) { 0 => 0, 1 => 1, 2 => u32::MAX, 3 => 0x7FFF_FFFF, 4 => old.wrapping_add(1), 5 => old.wrapping_sub(1), 6 => len as u32, 7 => 0x8000_0000, 8 => old.wrapping_add(4), 9 => old ^ 0x100, 10 => 0xFFFF, _ => rng.next() as u32 }
    };
    let n = rng.range(1, 3);
    for _ in 0..n {
        match rng.below(10) {
            0 => { // header field
                let o = *rng.pick(&[0usize, 4, 6, 8, 12, 14, 16, 20]);
                if o + 4 <= b.len() { let old = le32(&b, o); let v = interesting(rng, old, b.len()); if o == 4 || o == 6 || o == 12 || o == 14 { b[o..o + 2].copy_from_slice(&(v as u16).to_le_bytes()); } else { put32(&mut b, o, v); } }
            }
            1 | 2 => { // section table entry field
                if nsec > 0 { let e = 24 + 12 * rng.below(nsec as u64) as usize; let f = *rng.pick(&[0usize, 2, 4, 8]);
                    if e + 12 <= b.len() { if f < 4 { let v = interesting(rng, 0, b.len()) as u16; b[e + f..e + f + 2].copy_from_slice(&v.to_le_bytes()); } else { let old = le32(&b, e + f); let v = interesting(rng, old, b.len()); put32(&mut b, e + f, v); } } }
            }
            3..=7 => { // a u32 inside a section payload (counts, indices, offsets, lengths)
                if nsec > 0 { let e = 24 + 12 * rng.below(nsec as u64) as usize;
                    if e + 12 <= b.len() { let off = le32(&b, e + 4) as usize; let len = le32(&b, e + 8) as usize;
                        if len >= 4 && off + len <= b.len() { let words = len / 4; let w = if rng.chance(1, 3) { 0 } else { rng.below(words as u64) as usize }; let o = off + 4 * w; let old = le32(&b, o); let v = interesting(rng, old, len); put32(&mut b, o, v); } } }
            }
            8 => { let cut = rng.below(b.len() as u64 + 1) as usize; b.truncate(cut); }
            _ => { if !b.is_empty() { let i = rng.below(b.len() as u64) as usize; b[i] ^= 1 << rng.below(8); } }
        }
    }
    if rng.chance(3, 4) { fix_crc(&mut b); } else if b.len() >= 12 && rng.chance(1, 2) { let f = le32(&b, 8) & !1; put32(&mut b, 8, f); }
    b
}

fn err_code(e: &BytecodeError) -> u8 {
    match e {
        BytecodeError::InvalidMagic => 1, BytecodeError::UnexpectedEof => 2, BytecodeError::InvalidHeader(_) => 3, BytecodeError::SectionAlignment => 4,
        BytecodeError::InvalidSectionTable(_) => 5, BytecodeError::InvalidChecksum { .. } => 6, BytecodeError::UnsupportedVersion { .. } => 7,
        BytecodeError::SectionOutOfBounds => 8, BytecodeError::SectionOverlap => 9, BytecodeError::InvalidSection(_) => 10, _ => 11,
    }
}

fn eval_case(id: &str, bytes: &[u8]) -> String {
    let crc = if bytes.len() >= 24 { let off = le32(bytes, 16) as usize; if off <= bytes.len() { crc32fast::hash(&bytes[off..]) } else { 0 } } else { 0 };
    let dec = std::panic::catch_unwind(|| BytecodeModule::decode(bytes));
    let mut s = format!("{crc}");
    match dec {
        Err(_) => s += " 20 0 3 3 3 3 0",
        Ok(Err(e)) => s += &format!(" {} 0 3 3 3 3 0", err_code(&e)),
        Ok(Ok(m)) => {
            s += &format!(" 0 {}", m.sections.len());
            for sec in &m.sections { s += &format!(" {} {}", sec.id, sec.flags); }
            let reenc = std::panic::catch_unwind(|| match m.encode() {
                Ok(b2) => { let again = BytecodeModule::decode(&b2); let same = matches!(&again, Ok(m2) if *m2 == m); (same && (!id.starts_with('e') || b2 == bytes)) as u8 }
                Err(_) => 0,
            }).unwrap_or(2);
            s += &format!(" {reenc}");
            if std::env::var("VERIF_SHOW_PANIC").is_ok() { eprintln!("decoded+reencoded"); }
            let tv = std::time::Instant::now();
            let valid = std::panic::catch_unwind(|| m.validate().is_ok()).map(|ok| if ok { 0 } else { 1 }).unwrap_or(2);
            s += &format!(" {valid}");
            if std::env::var("VERIF_SHOW_PANIC").is_ok() { eprintln!("validate took {:?}", tv.elapsed()); }
            if valid == 0 {
                let meta = std::panic::catch_unwind(|| m.metadata().is_ok()).map(|ok| if ok { 0 } else { 1 }).unwrap_or(2);
                let apply = std::panic::catch_unwind(|| {
                    let mut h = TestHarness::from_source("PROGRAM Main\nEND_PROGRAM\nPROGRAM Aux\nEND_PROGRAM\n").expect("host program");
                    h.runtime_mut().apply_bytecode_bytes(bytes, None).is_ok()
                }).map(|ok| if ok { 0 } else { 1 }).unwrap_or(2);
                s += &format!(" {meta} {apply}");
            } else { s += " 3 3"; }
            let strs: Option<&Vec<_>> = m.sections.iter().find_map(|sec| match &sec.data { SectionData::StringTable(t) => Some(&t.entries), _ => None });
            match strs {
                Some(entries) if entries.len() <= 200 => { s += &format!(" {}", entries.len()); for e in entries { s += &format!(" {}", e.len()); for c in e.as_bytes() { s += &format!(" {c}"); } } }
                _ => s += " 0",
            }
        }
    }
    s
}

fn main() {
    if std::env::var("VERIF_SHOW_PANIC").is_err() { std::panic::set_hook(Box::new(|_| {})); }
    let args: Vec<String> = std::env::args().collect();
    match args[1].as_str() {
        "gen" => {
            let count: usize = args[2].parse().unwrap();
            let mut out = std::io::BufWriter::new(std::fs::File::create(&args[3]).expect("open"));
            let mut rng = Rng::new(vh::seed_from_env());
            let bases: Vec<Vec<u8>> = programs().iter().map(|p| bytecode_bytes_from_source(p).unwrap_or_else(|e| panic!("compile: {e:?}"))).collect();
            for (i, b) in bases.iter().enumerate() { writeln!(out, "e{i} : {}", hex(b)).unwrap(); }
            // "every container the compiler emits validates": random well-typed programs; a compile failure is reported as case x…
            for i in 0..(count / 6).max(8) {
                let src = gen_program(&mut rng);
                match bytecode_bytes_from_source(&src) {
                    Ok(b) => writeln!(out, "e{} : {}", 100 + i, hex(&b)).unwrap(),
                    Err(e) => { if std::env::var("VERIF_SHOW_PANIC").is_ok() { eprintln!("{src}\n{e:?}"); } writeln!(out, "x{} : {}", 100 + i, hex(src.as_bytes())).unwrap() }
                }
            }
            // the same modules with the CRC flag cleared and with an older minor version are also emitted-equivalent inputs for decode
            for k in 0..count {
                let base = rng.pick(&bases).clone();
                if rng.chance(1, 12) {
                    let n = rng.below(200) as usize; let mut r: Vec<u8> = (0..n).map(|_| rng.next() as u8).collect();
                    if rng.chance(1, 2) && r.len() >= 4 { r[..4].copy_from_slice(b"STBC"); }
                    writeln!(out, "r{k} : {}", hex(&r)).unwrap();
                } else {
                    writeln!(out, "m{k} : {}", hex(&mutate(&mut rng, &base))).unwrap();
                }
            }
        }
        "run" => {
            let total = std::fs::read_to_string(&args[2]).expect("read").lines().count();
            let _ = std::fs::remove_file(&args[3]);
            let mut start = 0usize;
            let exe = std::env::current_exe().unwrap();
            while start < total {
                let status = std::process::Command::new("sh").arg("-c")
                    .arg(format!("ulimit -v 3000000; exec '{}' child '{}' '{}' {}", exe.display(), args[2], args[3], start)).status().expect("spawn child");
                let done = std::fs::read_to_string(&args[3]).unwrap_or_default();
                let lines: Vec<&str> = done.lines().collect();
                let finished = lines.iter().filter(|l| !l.starts_with("BEGIN ")).count();
                if status.success() && finished >= total { break; }
                // the child died while working on the case announced last
                let cases = std::fs::read_to_string(&args[2]).unwrap();
                let pending = lines.last().filter(|l| l.starts_with("BEGIN ")).map(|l| l[6..].trim().parse::<usize>().unwrap_or(finished)).unwrap_or(finished);
                let case = cases.lines().nth(pending).unwrap_or("");
                let mut f = std::fs::OpenOptions::new().append(true).open(&args[3]).unwrap();
                let crc = 0;
                writeln!(f, "{} : {crc} 21 0 3 3 3 3 0 | 0", case).unwrap();
                start = pending + 1;
                if !status.success() && start >= total { break; }
            }
            // drop the BEGIN markers
            let text = std::fs::read_to_string(&args[3]).unwrap_or_default();
            let kept: Vec<&str> = text.lines().filter(|l| !l.starts_with("BEGIN ")).collect();
            std::fs::write(&args[3], kept.join("\n") + "\n").unwrap();
        }
        "child" => {
            let start: usize = args[4].parse().unwrap();
            let f = std::fs::File::open(&args[2]).expect("open cases");
            let mut out = std::fs::OpenOptions::new().create(true).append(true).open(&args[3]).expect("open out");
            for (k, line) in std::io::BufReader::new(f).lines().enumerate() {
                if k < start { continue; }
                let line = line.unwrap();
                let Some((id, hx)) = line.split_once(" : ") else { continue };
                writeln!(out, "BEGIN {k}").unwrap(); out.flush().unwrap();
                let bytes = unhex(hx.trim());
                let t0 = std::time::Instant::now();
                if id.trim().starts_with('x') { writeln!(out, "{} : {} : 0 22 0 3 3 3 3 0 | 0", id.trim(), hx.trim()).unwrap(); out.flush().unwrap(); continue; }
                let r = eval_case(id.trim(), &bytes);
                writeln!(out, "{} : {} : {r} | {}", id.trim(), hx.trim(), t0.elapsed().as_millis()).unwrap(); out.flush().unwrap();
            }
        }
        _ => eprintln!("usage: c11 gen|run|child …"),
    }
}
