//! Shared helpers for the verification harness binaries (one binary per property).
//! Every random choice derives from one SplitMix64 state seeded from VERIF_SEED.

pub struct Rng(pub u64);

impl Rng {
    pub fn new(seed: u64) -> Self {
        Rng(seed ^ 0x9E37_79B9_7F4A_7C15)
    }
    pub fn next(&mut self) -> u64 {
        self.0 = self.0.wrapping_add(0x9E37_79B9_7F4A_7C15);
        let mut z = self.0;
        z = (z ^ (z >> 30)).wrapping_mul(0xBF58_476D_1CE4_E5B9);
        z = (z ^ (z >> 27)).wrapping_mul(0x94D0_49BB_1331_11EB);
        z ^ (z >> 31)
    }
    /// uniform in 0..n (n>0)
    pub fn below(&mut self, n: u64) -> u64 {
        self.next() % n
    }
    pub fn range(&mut self, lo: i64, hi: i64) -> i64 {
        // inclusive
        let span = (hi as i128 - lo as i128 + 1) as u128;
        (lo as i128 + (self.next() as u128 % span) as i128) as i64
    }
    pub fn chance(&mut self, num: u64, den: u64) -> bool {
        self.below(den) < num
    }
    pub fn pick<'a, T>(&mut self, xs: &'a [T]) -> &'a T {
        &xs[self.below(xs.len() as u64) as usize]
    }
    pub fn fork(&mut self) -> Rng {
        Rng(self.next())
    }
}

pub fn seed_from_env() -> u64 {
    std::env::var("VERIF_SEED")
        .ok()
        .and_then(|s| s.trim().parse::<i64>().ok())
        .map(|v| v as u64)
        .unwrap_or(1)
}

pub fn b(x: bool) -> u8 {
    x as u8
}
