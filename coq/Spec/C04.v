(* C04 — the IEC 61131-3 definitions of the standard function blocks on a SAMPLED trace,
   written from the property text and IEC 61131-3 (Tables 43-46), not from the code.
   Attribution rule (property text): the time between two calls of an instance belongs
   to the input value seen at the later call.  A trace is given most-recent-call FIRST
   (the reversed prefix), so every definition is a function of "the history so far". *)
From Coq Require Import ZArith List Bool.
Import ListNotations.
Open Scope Z_scope.

Definition pnorm (pt : Z) : Z := Z.max 0 pt.   (* a negative preset behaves as T#0s *)

(* --- timers, constant preset p, history h = [(IN_n,dt_n); (IN_n-1,dt_n-1); ...] --- *)

(* accumulated time of the maximal run of consecutive IN=TRUE calls ending now *)
Fixpoint on_time (h : list (bool * Z)) : Z :=
  match h with (true, d) :: h' => d + on_time h' | _ => 0 end.

Definition ton_spec (p : Z) (h : list (bool * Z)) : bool * Z :=
  match h with
  | (true, _) :: _ => (pnorm p <=? on_time h, Z.min (on_time h) (pnorm p))
  | _ => (false, 0)
  end.

(* accumulated time of the maximal run of consecutive IN=FALSE calls ending now *)
Fixpoint off_time (h : list (bool * Z)) : Z :=
  match h with (false, d) :: h' => d + off_time h' | _ => 0 end.
(* was IN ever TRUE before that run? *)
Fixpoint seen_true (h : list (bool * Z)) : bool :=
  match h with (false, _) :: h' => seen_true h' | (true, _) :: _ => true | [] => false end.

Definition tof_spec (p : Z) (h : list (bool * Z)) : bool * Z :=
  match h with
  | (true, _) :: _ => (true, 0)
  | (false, _) :: h' =>
      if seen_true h then
        if off_time h <? pnorm p then (true, off_time h)
        else (false, if off_time h' <? pnorm p then pnorm p else 0)
      else (false, 0)
  | [] => (false, 0)
  end.

(* TP: a non-retriggerable pulse automaton. [None] = idle, [Some a] = pulse running with
   accumulated time a. A rising edge is honoured only while idle. Oldest call first. *)
Definition tp_auto_step (p : Z) (st : option Z * bool) (x : bool * Z) : (option Z * bool) * (bool * Z) :=
  let '(run, prev) := st in
  let '(i, d) := x in
  let run1 := match run with
              | Some a => Some a
              | None => if i && negb prev then Some 0 else None
              end in
  match run1 with
  | Some a => if pnorm p <=? a + d then ((None, i), (false, 0)) else ((Some (a + d), i), (true, a + d))
  | None => ((None, i), (false, 0))
  end.
Fixpoint tp_auto (p : Z) (st : option Z * bool) (tr : list (bool * Z)) : list (bool * Z) :=
  match tr with
  | [] => []
  | x :: tr' => let '(st', o) := tp_auto_step p st x in o :: tp_auto p st' tr'
  end.

(* --- counters; history most recent first, elements (count_input, reset_or_load, PV) --- *)
Definition prev_in (h : list (bool * bool * Z)) : bool :=
  match h with (c, _, _) :: _ => c | [] => false end.
(* rising edges of the count input since the last reset/load (unbounded count) *)
Fixpoint edges_since (h : list (bool * bool * Z)) : Z :=
  match h with
  | [] => 0
  | (c, true, _) :: _ => 0
  | (c, false, _) :: h' => (if c && negb (prev_in h') then 1 else 0) + edges_since h'
  end.
(* the value loaded by the last load (CTD), 0 if never loaded *)
Fixpoint last_load (h : list (bool * bool * Z)) : Z :=
  match h with
  | [] => 0
  | (_, true, pv) :: _ => pv
  | (_, false, _) :: h' => last_load h'
  end.
Definition cur_pv (h : list (bool * bool * Z)) : Z :=
  match h with (_, _, pv) :: _ => pv | [] => 0 end.

(* CTU: CV = number of rising edges since the last reset, saturated at the type maximum *)
Definition ctu_spec (hi : Z) (h : list (bool * bool * Z)) : bool * Z :=
  let cv := Z.min hi (edges_since h) in (cur_pv h <=? cv, cv).
(* CTD: CV = loaded value minus rising edges since the load, saturated at the type minimum *)
Definition ctd_spec (lo : Z) (h : list (bool * bool * Z)) : bool * Z :=
  let cv := Z.max lo (last_load h - edges_since h) in (cv <=? 0, cv).

(* --- edge detectors, history most recent first --- *)
Definition rtrig_spec (h : list bool) : bool :=
  match h with c :: p :: _ => c && negb p | [c] => c | [] => false end.
(* F_TRIG: M is initially 0, i.e. CLK counts as TRUE before the first call (IEC Table 44) *)
Definition ftrig_spec (h : list bool) : bool :=
  match h with c :: p :: _ => negb c && p | [c] => negb c | [] => false end.
Fixpoint count_true (l : list bool) : nat :=
  match l with [] => 0 | true :: l' => S (count_true l') | false :: l' => count_true l' end.
(* number of FALSE->TRUE transitions of a sampled signal whose value before the first call is [p0] *)
Fixpoint rising_edges (p0 : bool) (l : list bool) : nat :=
  match l with [] => 0 | c :: l' => (if c && negb p0 then 1 else 0) + rising_edges c l' end.
Fixpoint falling_edges (p0 : bool) (l : list bool) : nat :=
  match l with [] => 0 | c :: l' => (if negb c && p0 then 1 else 0) + falling_edges c l' end.

(* --- bistables: IEC Table 43 bodies --- *)
Definition sr_spec (q s1 r : bool) : bool := s1 || (negb r && q).   (* Q1 := S1 OR (NOT R AND Q1) *)
Definition rs_spec (q s r1 : bool) : bool := negb r1 && (s || q).   (* Q1 := NOT R1 AND (S OR Q1) *)

(* prefixes of a trace, as reversed histories, oldest prefix first *)
Fixpoint hists {A} (acc : list A) (tr : list A) : list (list A) :=
  match tr with [] => [] | x :: tr' => (x :: acc) :: hists (x :: acc) tr' end.

(* CTUD as IEC 61131-3 Table 45 words it: CU and CD are R_EDGE inputs, so "CU" / "CD" below are the rising edges of the sampled
   inputs; reset wins over load; simultaneous edges cancel; the count saturates at the limits of CV's type *)
Fixpoint ctud_spec_run (lo hi cv : Z) (pcu pcd : bool) (tr : list (bool * bool * bool * bool * Z)) : list (bool * bool * Z) :=
  match tr with
  | [] => []
  | (cu, cd, r, ld, pv) :: tr' =>
      let up := cu && negb pcu in
      let down := cd && negb pcd in
      let cv' := if r then 0 else if ld then pv else
                 match up, down with
                 | true, true => cv
                 | true, false => if cv <? hi then cv + 1 else cv
                 | false, true => if lo <? cv then cv - 1 else cv
                 | false, false => cv
                 end in
      (pv <=? cv', cv' <=? 0, cv') :: ctud_spec_run lo hi cv' cu cd tr'
  end.
