(* C20 judge: the consequences of the theorems of Properties/C20.v that can be read off one run of
   real resource threads (the schedule itself is not observable). *)
From Coq Require Import List Bool Arith NArith.
From TP Require Import Model.Resource.
Import ListNotations.

Record robs := {
  o_state : nat;          (* 0 Boot 1 Ready 2 Running 3 Paused 4 Faulted 5 Stopped, read after join *)
  o_joined : bool;        (* join() returned within the limit after stop() *)
  o_saves : N;          (* store() calls on the resource's retain store *)
  o_mine : option N;    (* its private cycle counter read while everything was paused; None for a resource that had faulted *)
  o_bad : N;            (* cycles in which it saw x <> y *)
  o_gated : bool        (* the start gate was never opened: the resource was stopped while waiting at it *)
}.
Record obs := {
  b_x : N; b_y : N;                       (* the shared pair while every live resource was paused *)
  b_x_end : N;                              (* x after all threads were joined *)
  b_fault_limit : N;                        (* cycles the faulting resource executes (0 = no resource faults) *)
  b_windows : list (N * N);               (* private counter read twice while its resource reported Paused *)
  b_res : list robs
}.
Definition sum_mine (l : list robs) : N := fold_right (fun r acc => match o_mine r with Some m => (m + acc)%N | None => acc end) 0%N l.
Definition faulted (l : list robs) : nat := length (filter (fun r => match o_mine r with None => negb (o_gated r) | Some _ => false end) l).
Definition res_ok (r : robs) : bool :=
  o_joined r && N.eqb (o_bad r) 0 &&
  if o_gated r then Nat.eqb (o_state r) 5 && N.eqb (o_saves r) 0    (* stopped at the gate: terminated, Stopped, no cycle ran, nothing to save *)
  else
  match o_mine r with
  | Some _ => Nat.eqb (o_state r) 5 && N.eqb (o_saves r) 1       (* stopped: saved once *)
  | None => Nat.eqb (o_state r) 4 && N.eqb (o_saves r) 0         (* faulted: the loop ended before *)
  end.
Definition judge (o : obs) : bool :=
  N.eqb (b_x o) (b_y o)                                                                       (* invariant_preserved: x = y *)
  && N.eqb (b_x o) (sum_mine (b_res o) + (if Nat.eqb (faulted (b_res o)) 0 then 0 else b_fault_limit o))%N   (* counter_no_lost_update *)
  && forallb (fun w => N.eqb (fst w) (snd w)) (b_windows o)                                    (* paused_runs_no_cycle *)
  && forallb res_ok (b_res o)                                                                  (* stop_terminates, saved once, fault is local *)
  && N.eqb (b_x_end o) (b_x o)                                                                 (* nothing runs after stop *)
  && Nat.leb (faulted (b_res o)) (if N.eqb (b_fault_limit o) 0 then 0 else 1).
