(* C19 judge: what the property demands of one observed file-API call, and the model's prediction
   of the parts of the answer that are decided before the file system is touched. *)
From Coq Require Import List Bool Arith NArith Ascii String.
From TP Require Import Model.WebIde.
Import ListNotations.

Fixpoint n_of_string (s : string) : name :=
  match s with EmptyString => [] | String a r => N_of_ascii a :: n_of_string r end.
(* the tree the harness builds for every case (before the first call): / outer / proj is the project root *)
Definition P (l : list string) : list name := map n_of_string l.
Definition demo_root : list name := P ["outer"; "proj"]%string.
Definition demo_fs : fs :=
  [ (P ["outer"], NDir); (P ["outer"; "secret.st"], NFile); (P ["outer"; "other"], NDir); (P ["outer"; "other"; "deep.st"], NFile);
    (P ["outer"; "proj"], NDir); (P ["outer"; "proj"; "main.st"], NFile); (P ["outer"; "proj"; "notes.txt"], NFile);
    (P ["outer"; "proj"; "sub"], NDir); (P ["outer"; "proj"; "sub"; "a.st"], NFile);
    (P ["outer"; "proj"; "sub"; "inner"], NDir); (P ["outer"; "proj"; "sub"; "inner"; "b.st"], NFile);
    (P ["outer"; "proj"; ".hidden"], NDir); (P ["outer"; "proj"; ".hidden"; "h.st"], NFile); (P ["outer"; "proj"; ".env"], NFile);
    (P ["outer"; "proj"; "linkfile.st"], NLink (P ["outer"; "secret.st"]));
    (P ["outer"; "proj"; "linkdir"], NLink (P ["outer"; "other"]));
    (P ["outer"; "proj"; "inlink.st"], NLink (P ["outer"; "proj"; "sub"; "a.st"]));
    (P ["outer"; "proj"; "dangling.st"], NLink (P ["outer"; "nonexistent.st"])) ]%string.

(* operations: 0 open 1 apply 2 create file 3 create directory 4 delete 5 rename 6 list tree 7 list sources 8 search *)
Definition mutating (op : nat) : bool := match op with 1 | 2 | 3 | 4 | 5 => true | _ => false end.
Definition has_path (op : nat) : bool := Nat.leb op 5.
Definition session_of (kind : nat) : option session :=
  match kind with 0 => Some {| s_role := Editor; s_expired := false |} | 1 => Some {| s_role := Viewer; s_expired := false |} | _ => None end.
(* error classes of the implementation: 0 ok 1 InvalidInput 2 Forbidden 3 NotFound 4 Conflict 5 Unauthorized 6 TooLarge 7 Internal 8 other *)
Definition nclass (r : res (list name)) : nat := match r with Ok _ => 0 | Err Invalid => 1 | Err Forbidden => 2 end.
(* the class the model predicts when it is decided before the file system is consulted; 9 = not predicted *)
Definition predicted_class (we : bool) (op : nat) (p p2 : list chr) : nat :=
  if mutating op && negb we then 2
  else if has_path op then
    match normalize p with
    | Err e => nclass (Err e)
    | Ok _ => if Nat.eqb op 5 then match normalize p2 with Err e => nclass (Err e) | Ok _ => 9 end else 9
    end
  else 9.
Definition predicted_path (op : nat) (p p2 : list chr) : list chr :=
  match normalize (if Nat.eqb op 5 then p2 else p) with Ok parts => join parts | Err _ => [] end.
Fixpoint chars_eqb (a b : list chr) : bool :=
  match a, b with [], [] => true | x :: a', y :: b' => N.eqb x y && chars_eqb a' b' | _, _ => false end.

(* the verdict: confinement is unconditional; permission; normalisation; for the first call of a
   case (tree = demo_fs) a path whose resolution leaves the project must be refused *)
Definition judge (we : bool) (sk op : nat) (first : bool) (p p2 : list chr)
                 (cls : nat) (changed_out changed_hidden changed_in leak : bool) (npath : list chr) : bool :=
  negb changed_out && negb changed_hidden && negb leak
  && (if mutating op then match may_mutate we (session_of sk) with GOk => true | _ => negb (Nat.eqb cls 0) && negb changed_in end
      else match session_of sk with None => negb (Nat.eqb cls 0) | Some _ => negb changed_in end)
  && (let pc := predicted_class we op p p2 in if Nat.eqb pc 9 then true else Nat.eqb cls pc)
  && (if has_path op && Nat.eqb cls 0 then chars_eqb npath (predicted_path op p p2) else true)
  && (if first && has_path op then
        match normalize p with
        | Ok parts => match resolve {| r_full_check := true |} 64 demo_fs demo_root parts with Err _ => negb (Nat.eqb cls 0) | Ok _ => true end
        | Err _ => true
        end
      else true).

(* sequential document histories: the API is called by one thread, so each call is read + commit *)
Inductive dcall := DOpen (s : nat) | DApply (s expected : nat) (c : content) | DExternal (c : content).
Definition dcall_ops (d : dcall) : list wop :=
  match d with DOpen s => [WRead s; WOpenCommit s] | DApply s e c => [WRead s; WCommit s e c] | DExternal c => [WExternal c] end.
Fixpoint drun (st : wstate) (ds : list dcall) : list wout :=
  match ds with
  | [] => []
  | d :: ds' => let '(st', outs) := wrun st (dcall_ops d) in last outs ONone :: drun st' ds'
  end.
