(* Executable judges: decide, for an OBSERVED implementation trace, whether it meets the
   C04 specification (Spec/C04.v). Extracted and run on the outputs of the real code, so
   a violation is recognised independently of the faithful model. *)
From Coq Require Import ZArith List Bool.
From TP Require Import Spec.C04.
Import ListNotations.
Open Scope Z_scope.

Definition eqb_bz (a b : bool * Z) : bool := Bool.eqb (fst a) (fst b) && (snd a =? snd b).
Fixpoint eqb_list {A} (eqb : A -> A -> bool) (l1 l2 : list A) : bool :=
  match l1, l2 with
  | [], [] => true
  | x :: l1', y :: l2' => eqb x y && eqb_list eqb l1' l2'
  | _, _ => false
  end.

(* calls are (IN, PT, dt) with dt already derived from the clock *)
Definition all_same_pt (tr : list (bool * Z * Z)) : option Z :=
  match tr with
  | [] => None
  | (_, p, _) :: tr' => if forallb (fun x => snd (fst x) =? p) tr' then Some p else None
  end.
Definition strip (tr : list (bool * Z * Z)) : list (bool * Z) := map (fun x => (fst (fst x), snd x)) tr.

(* ET within [0, max 0 PT] on every call — required of every timer for any preset sequence *)
Fixpoint et_bounded (tr : list (bool * Z * Z)) (outs : list (bool * Z)) : bool :=
  match tr, outs with
  | [], [] => true
  | (_, pt, _) :: tr', (_, et) :: outs' => (0 <=? et) && (et <=? pnorm pt) && et_bounded tr' outs'
  | _, _ => false
  end.

Definition judge_ton (tr : list (bool * Z * Z)) (outs : list (bool * Z)) : bool :=
  et_bounded tr outs &&
  match all_same_pt tr with
  | Some p => eqb_list eqb_bz outs (map (ton_spec p) (hists [] (strip tr)))
  | None => true
  end.
Definition judge_tof (tr : list (bool * Z * Z)) (outs : list (bool * Z)) : bool :=
  et_bounded tr outs &&
  match all_same_pt tr with
  | Some p => eqb_list eqb_bz outs (map (tof_spec p) (hists [] (strip tr)))
  | None => true
  end.
Definition judge_tp (tr : list (bool * Z * Z)) (outs : list (bool * Z)) : bool :=
  et_bounded tr outs &&
  match all_same_pt tr with
  | Some p => eqb_list eqb_bz outs (tp_auto p (None, false) (strip tr))
  | None => true
  end.

Fixpoint cv_in_range (lo hi : Z) (outs : list (bool * Z)) : bool :=
  match outs with [] => true | (_, cv) :: o' => (lo <=? cv) && (cv <=? hi) && cv_in_range lo hi o' end.
Definition pvs_ok (lo hi : Z) (tr : list (bool * bool * Z)) : bool :=
  forallb (fun x => (lo <=? snd x) && (snd x <=? hi)) tr.

(* init = preloaded CV; the closed forms are about a counter that starts at 0 *)
Definition judge_ctu (lo hi init : Z) (tr : list (bool * bool * Z)) (outs : list (bool * Z)) : bool :=
  cv_in_range lo hi outs &&
  (if init =? 0 then eqb_list eqb_bz outs (map (ctu_spec hi) (hists [] tr)) else true).
Definition judge_ctd (lo hi init : Z) (tr : list (bool * bool * Z)) (outs : list (bool * Z)) : bool :=
  cv_in_range lo hi outs &&
  (if (init =? 0) && pvs_ok lo hi tr then eqb_list eqb_bz outs (map (ctd_spec lo) (hists [] tr)) else true).
Definition eqb_bbz (a b : bool * bool * Z) : bool :=
  Bool.eqb (fst (fst a)) (fst (fst b)) && Bool.eqb (snd (fst a)) (snd (fst b)) && (snd a =? snd b).
Definition judge_ctud (lo hi init : Z) (tr : list (bool * bool * bool * bool * Z)) (outs : list (bool * bool * Z)) : bool :=
  forallb (fun o => (lo <=? snd o) && (snd o <=? hi)) outs &&
  (if init =? 0 then eqb_list eqb_bbz outs (ctud_spec_run lo hi 0 false false tr) else true).

Definition judge_rtrig (tr : list bool) (outs : list bool) : bool :=
  eqb_list Bool.eqb outs (map rtrig_spec (hists [] tr)).
Definition judge_ftrig (tr : list bool) (outs : list bool) : bool :=
  eqb_list Bool.eqb outs (map ftrig_spec (hists [] tr)).
Fixpoint bistable_spec (f : bool -> bool -> bool -> bool) (q : bool) (tr : list (bool * bool)) : list bool :=
  match tr with [] => [] | (a, b) :: tr' => let q' := f q a b in q' :: bistable_spec f q' tr' end.
Definition judge_sr (tr : list (bool * bool)) (outs : list bool) : bool :=
  eqb_list Bool.eqb outs (bistable_spec sr_spec false tr).
Definition judge_rs (tr : list (bool * bool)) (outs : list bool) : bool :=
  eqb_list Bool.eqb outs (bistable_spec rs_spec false tr).
