(* C11 judge: the frame-level prediction of the model and what the property demands of one observed
   decode / encode / validate / metadata / apply run. *)
From Coq Require Import List Bool Arith NArith.
From TP Require Import Model.Stbc Model.StbcEnc.
Import ListNotations.
Open Scope N_scope.

Definition err_code (e : ferr) : N :=
  match e with InvalidMagic => 1 | UnexpectedEof => 2 | InvalidHeader => 3 | SectionAlignment => 4 | InvalidSectionTable => 5
             | InvalidChecksum => 6 | UnsupportedVersion => 7 | SectionOutOfBounds => 8 | SectionOverlap => 9 end.
Definition predicted (crc : N) (bs : list N) : N := match dec_frame (fun _ => crc) bs with Ok _ => 0 | Err e => err_code e end.
Fixpoint ids_match (es : list entry) (obs : list (N * N)) : bool :=
  match es, obs with
  | [], [] => true
  | e :: es', (i, f) :: obs' => N.eqb (e_id e) i && N.eqb (e_flags e) f && ids_match es' obs'
  | _, _ => false
  end.
Fixpoint bytes_eqb (a b : list N) : bool := match a, b with [], [] => true | x :: a', y :: b' => N.eqb x y && bytes_eqb a' b' | _, _ => false end.
Fixpoint strs_eqb (a b : list (list N)) : bool := match a, b with [], [] => true | x :: a', y :: b' => bytes_eqb x y && strs_eqb a' b' | _, _ => false end.
Definition first_strtab (bs : list N) (f : frame) : option (list (list N)) :=
  match find (fun e => N.eqb (e_id e) 1) (f_entries f) with
  | Some e => st_entries (dec_strtab true (slice bs (e_off e) (e_len e)))
  | None => None
  end.
(* a container written by the real encoder is laid out as Model/StbcEnc.v lays it out *)
Definition sects_of (bs : list N) (f : frame) : list sect :=
  map (fun e => {| s_id := e_id e; s_flags := e_flags e; s_data := slice bs (e_off e) (e_len e) |}) (f_entries f).
Definition entry_eqb (a b : entry) : bool := N.eqb (e_id a) (e_id b) && N.eqb (e_flags a) (e_flags b) && N.eqb (e_off a) (e_off b) && N.eqb (e_len a) (e_len b).
Fixpoint entries_eqb (a b : list entry) : bool := match a, b with [], [] => true | x :: a', y :: b' => entry_eqb x y && entries_eqb a' b' | _, _ => false end.
Definition encoder_layout_ok (bs : list N) (f : frame) : bool :=
  entries_eqb (f_entries f) (layout (first_offset (N.of_nat (length (f_entries f)))) (sects_of bs f)).
(* dec: 0 Ok, 1..9 frame errors, 10/11 section-level errors, 20 panic, 21 abort; reenc/valid/meta/apply: 0 ok 1 err 2 panic 3 n/a *)
Definition judge (emitted : bool) (crc : N) (bs : list N) (dec : N) (secs : list (N * N)) (reenc valid meta apply : N)
                 (have_strs : bool) (strs : list (list N)) : bool :=
  negb (N.eqb dec 20) && negb (N.eqb dec 21)
  && negb (N.eqb reenc 2) && negb (N.eqb valid 2) && negb (N.eqb meta 2) && negb (N.eqb apply 2)
  && match dec_frame (fun _ => crc) bs with
     | Err e => N.eqb dec (err_code e)
     | Ok f =>
         (N.eqb dec 0 || N.eqb dec 2 || N.eqb dec 10 || N.eqb dec 11)
         && (if N.eqb dec 0 then
               ids_match (f_entries f) secs && N.eqb reenc 1
               && (if have_strs && N.leb 1 (f_minor f) then match first_strtab bs f with Some l => strs_eqb l strs | None => false end else true)
             else true)
     end
  && (if emitted then N.eqb dec 0 && N.eqb reenc 1 && N.eqb valid 0 && N.eqb meta 0
                      && match dec_frame (fun _ => crc) bs with Ok f => encoder_layout_ok bs f | Err _ => false end
      else true).
