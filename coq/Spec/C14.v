(* C14 — the editor's side, from the LSP specification: a position is (line, UTF-16 code unit
   column) in the editor's own buffer; a column beyond the end of a line means the end of the
   line; the editor never sends a position inside a surrogate pair or on a missing line. *)
From Coq Require Import ZArith List Bool.
From TP Require Import Model.LspText.
Import ListNotations.
Open Scope Z_scope.

(* c UTF-16 units into the current line; None = inside a surrogate pair (never sent) *)
Fixpoint take16 (text : list Z) (c : Z) (idx : nat) : option nat :=
  match text with
  | [] => Some idx
  | ch :: r =>
      if c <=? 0 then Some idx
      else if ch =? 10 then Some idx
      else if c <? u16len ch then None
      else take16 r (c - u16len ch) (S idx)
  end.
(* skip to the start of the next line; None = there is no next line *)
Fixpoint drop_line (text : list Z) (idx : nat) : option (list Z * nat) :=
  match text with
  | [] => None
  | ch :: r => if ch =? 10 then Some (r, S idx) else drop_line r (S idx)
  end.
Fixpoint eresolve_from (text : list Z) (l : nat) (c : Z) (idx : nat) : option nat :=
  match l with
  | O => take16 text c idx
  | S l' => match drop_line text idx with Some (rest, idx') => eresolve_from rest l' c idx' | None => None end
  end.
Definition eresolve (text : list Z) (l : nat) (c : Z) : option nat := eresolve_from text l c 0.

Definition editor_apply (text : list Z) (ch : change) : option (list Z) :=
  match ch_range ch with
  | None => Some (ch_text ch)
  | Some (sl, sc, el, ec) =>
      match eresolve text sl sc, eresolve text el ec with
      | Some s, Some e => if Nat.ltb e s then None else Some (firstn s text ++ ch_text ch ++ skipn e text)
      | _, _ => None
      end
  end.
Fixpoint editor_changes (text : list Z) (chs : list change) : option (list Z) :=
  match chs with
  | [] => Some text
  | ch :: chs' => match editor_apply text ch with Some t => editor_changes t chs' | None => None end
  end.
(* the editor's buffer after a list of notifications; None = the history contains a position
   no editor sends *)
Fixpoint editor_run (text : list Z) (notes : list (list change)) : option (list (list Z)) :=
  match notes with
  | [] => Some []
  | n :: notes' =>
      match editor_changes text n with
      | Some t => match editor_run t notes' with Some ts => Some (t :: ts) | None => None end
      | None => None
      end
  end.
