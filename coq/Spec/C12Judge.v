(* C12 judge: one parsed input, as observed through the verif hook, against the model. *)
From Coq Require Import List Bool Arith NArith.
From TP Require Import Model.LexSink.
Import ListNotations.

Fixpoint bytes_eqb (a b : list nat) : bool := match a, b with [], [] => true | x :: a', y :: b' => Nat.eqb x y && bytes_eqb a' b' | _, _ => false end.
Definition tok_eqb (a b : tok) : bool := Nat.eqb (t_kind a) (t_kind b) && Bool.eqb (t_trivia a) (t_trivia b) && bytes_eqb (t_text a) (t_text b).
Fixpoint toks_eqb (a b : list tok) : bool := match a, b with [], [] => true | x :: a', y :: b' => tok_eqb x y && toks_eqb a' b' | _, _ => false end.
(* ranges (start, end) tile [0, len) *)
Fixpoint tiles (pos : N) (rs : list (N * N)) (len : N) : bool :=
  match rs with
  | [] => N.eqb pos len
  | (s, e) :: rs' => N.eqb s pos && N.ltb s e && tiles e rs' len
  end.
(* pre-order encoding of a tree: node = [0; kind; #children], leaf = [1; kind; length] *)
Fixpoint encode (t : tree) : list nat :=
  match t with
  | Leaf k x => [1; k; length x]
  | Node k cs => 0 :: k :: length cs :: (fix go (l : list tree) := match l with [] => [] | c :: r => encode c ++ go r end) cs
  end.
Record observation := {
  ob_len : N;                                   (* length of the input in bytes *)
  ob_kinds : nat * nat * nat;                     (* IntLiteral, Dot, DotDot *)
  ob_raw : list tok; ob_raw_ranges : list (N * N);
  ob_toks : list tok; ob_ranges : list (N * N);
  ob_events : list event;
  ob_tree : list nat;                             (* encoding of the tree the implementation built *)
  ob_errors : list (N * N);
  ob_pure : bool; ob_shape : nat                  (* shape: 1 same after trivia insertion, 0 different, 2 not applicable *)
}.
Definition judge (o : observation) : bool :=
  let '(ki, kd, kdd) := ob_kinds o in
  tiles 0%N (ob_raw_ranges o) (ob_len o) && tiles 0%N (ob_ranges o) (ob_len o)
  && toks_eqb (adapt ki kd kdd (length (ob_raw o)) (ob_raw o)) (ob_toks o)
  && (let s := sink_run (ob_toks o) (ob_events o) in
      negb (s_panic s) && Nat.eqb (s_cursor s) (length (ob_toks o))
      && match s_stack s, s_roots s with
         | [], [t] => bytes_eqb (encode t) (ob_tree o)
         | _, _ => false
         end)
  && forallb (fun r => N.leb (fst r) (snd r) && N.leb (snd r) (ob_len o)) (ob_errors o)
  && ob_pure o && negb (Nat.eqb (ob_shape o) 0).
