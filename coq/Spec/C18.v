(* C18 — hand-written, reviewed oracle: which request types only READ. Everything else —
   including any type the dispatcher gains later — is treated as able to change runtime state,
   I/O, configuration, program or pairing data and must require more than the viewer role.
   [debug.stops] is NOT read-only: it drains the debugger's stop-notification queue. *)
From Coq Require Import String List Bool.
Import ListNotations.
Open Scope string_scope.

Definition readonly_kinds : list string :=
  [ "status"; "health"; "tasks.stats"; "events.tail"; "events"; "faults"; "config.get";
    "io.list"; "io.read"; "hmi.schema.get"; "hmi.values.get"; "hmi.trends.get"; "hmi.alarms.get";
    "hmi.descriptor.get"; "historian.query"; "historian.alerts";
    "debug.state"; "debug.stack"; "debug.scopes"; "debug.variables"; "debug.breakpoint_locations";
    "breakpoints.list"; "var.forced" ].

(* debug-class requests: must be refused while debugging is disabled *)
Definition debug_class_kinds : list string :=
  [ "pause"; "resume"; "step_in"; "step_over"; "step_out";
    "breakpoints.set"; "breakpoints.clear"; "breakpoints.clear_all"; "breakpoints.clear_id"; "breakpoints.list";
    "eval"; "set"; "var.force"; "var.unforce"; "var.forced";
    "debug.state"; "debug.stops"; "debug.stack"; "debug.scopes"; "debug.variables"; "debug.evaluate";
    "debug.breakpoint_locations" ].

(* configuration keys whose change is reserved to the admin role (control.rs doc: the auth tokens, the control mode and the web auth mode) *)
Definition admin_only_config_keys : list string := [ "control.auth_token"; "mesh.auth_token"; "control.mode"; "web.auth" ].

Definition viewer_rank : nat := 0.
