(* Executable judge for C09 on an OBSERVED history: written from the property text only
   (qualifier table, cold = fresh, bindings connected, power cycle = warm). *)
From Coq Require Import ZArith List Bool.
From TP Require Import Model.Restart.
Import ListNotations.
Open Scope Z_scope.

(* one observation: globals, per-program variables, published word per binding, time, faulted *)
Record obs := { o_g : list Z; o_p : list (list Z); o_out : list Z; o_time : Z; o_faulted : bool }.

Fixpoint eqb_zs (a b : list Z) : bool :=
  match a, b with [], [] => true | x :: a', y :: b' => (x =? y) && eqb_zs a' b' | _, _ => false end.
Fixpoint eqb_zss (a b : list (list Z)) : bool :=
  match a, b with [], [] => true | x :: a', y :: b' => eqb_zs x y && eqb_zss a' b' | _, _ => false end.

(* expected values after a warm restart / power cycle: retained keep, others initial *)
Fixpoint expect_warm (ms : list vmeta) (prev : list Z) : list Z :=
  match ms, prev with
  | m :: ms', v :: prev' => (if m_retain m then v else m_init m) :: expect_warm ms' prev'
  | _, _ => []
  end.

Definition judge_op (c : cfg) (prev : obs) (kind : nat) (cur : obs) : bool :=
  match kind with
  | 0%nat => (* cycle: a faulted runtime executes nothing; otherwise every bound variable is published *)
      if o_faulted prev then eqb_zs (o_g cur) (o_g prev) && eqb_zss (o_p cur) (o_p prev) && o_faulted cur
      else eqb_zs (o_out cur) (map (fun b => nth (snd b) (nth (fst b) (o_p cur) []) 0) (c_bindings c))
  | 3%nat => (* cold restart *)
      eqb_zs (o_g cur) (map m_init (c_globals c)) && eqb_zss (o_p cur) (map (map m_init) (c_progs c)) &&
      (o_time cur =? 0) && negb (o_faulted cur)
  | 4%nat => (* warm restart *)
      eqb_zs (o_g cur) (expect_warm (c_globals c) (o_g prev)) &&
      eqb_zss (o_p cur) (map (fun mp => expect_warm (fst mp) (snd mp)) (combine (c_progs c) (o_p prev))) &&
      (o_time cur =? 0) && negb (o_faulted cur)
  | 5%nat => (* power cycle: the same variables as a warm restart survive *)
      eqb_zs (o_g cur) (expect_warm (c_globals c) (o_g prev)) &&
      eqb_zss (o_p cur) (map (fun mp => expect_warm (fst mp) (snd mp)) (combine (c_progs c) (o_p prev))) &&
      negb (o_faulted cur)
  | _ => true
  end.
Fixpoint judge_trace (c : cfg) (prev : obs) (l : list (nat * obs)) : bool :=
  match l with [] => true | (k, o) :: l' => judge_op c prev k o && judge_trace c o l' end.
Definition judge (c : cfg) (l : list (nat * obs)) : bool :=
  judge_trace c {| o_g := map m_init (c_globals c); o_p := map (map m_init) (c_progs c);
                   o_out := map (fun _ => 0) (c_bindings c); o_time := 0; o_faulted := false |} l.
