(* C06 — the IEC 61131-3 task model, as stated in the property text (declarative). *)
From Coq Require Import ZArith List Bool.
Import ListNotations.
Open Scope Z_scope.

(* event-driven: rising edge of SINGLE between the previous cycle and this one *)
Definition event_due (prev_single cur_single : bool) : Prop := prev_single = false /\ cur_single = true.
(* periodic: INTERVAL>0, SINGLE false, at least INTERVAL elapsed since the last periodic activation *)
Definition periodic_due (interval last_activation now : Z) (cur_single : bool) : Prop :=
  0 < interval /\ cur_single = false /\ interval <= now - last_activation.
(* whole intervals missed beyond the one being served *)
Definition missed (interval last_activation now : Z) : Z := Z.max 0 ((now - last_activation) / interval - 1).

(* execution order: ascending (priority, due time, declaration index) *)
Definition key_lt (prio : nat -> Z) (a b : nat * Z) : Prop :=
  prio (fst a) < prio (fst b) \/
  (prio (fst a) = prio (fst b) /\ (snd a < snd b \/ (snd a = snd b /\ (fst a < fst b)%nat))).
Definition key_le (prio : nat -> Z) (a b : nat * Z) : Prop := key_lt prio a b \/ a = b \/
  (prio (fst a) = prio (fst b) /\ snd a = snd b /\ fst a = fst b).
