(* C17 trace judge: replays the events recorded by the debugger's own trace (written under the
   state mutex, so in the order of the atomic segments) through Model/Debug.v and reports the
   first event on which the code did something the model does not do. *)
From Coq Require Import List Bool Arith.
From TP Require Import Model.Debug.
Import ListNotations.

Record hook_ev := {
  h_depth : nat; h_loc : bool; h_cur : option nat;
  h_mode : mode; h_tgt : option nat; h_pend : option reason; h_nsteps : nat;      (* as logged at hook.entry *)
  h_bp : nat;                                                                      (* 0 checked/no match, 1 matched, 2 not checked *)
  h_step : option (bool * kind * nat * bool);                                      (* check?(else arm), kind, target_depth, should_pause *)
  h_stops : list reason; h_end : nat                                               (* 0 exit running, 1 exit paused non-target, 2 wait *)
}.
Record wake_ev := { w_mode : mode; w_stops : list reason; w_end : nat }.
Record act_ev := { a_act : action; a_out : outcome; a_before : mode; a_after : mode }.
Inductive event := EHook (h : hook_ev) | EWake (w : wake_ev) | EAct (a : act_ev).

Definition mode_eqb a b := match a, b with Running, Running | Paused, Paused => true | _, _ => false end.
Definition reason_eqb a b := match a, b with RPause, RPause | RStep, RStep | RBreakpoint, RBreakpoint | REntry, REntry => true | _, _ => false end.
Definition kind_eqb a b := match a, b with KInto, KInto | KOver, KOver | KOut, KOut => true | _, _ => false end.
Definition outcome_eqb a b := match a, b with Applied, Applied | Ignored, Ignored => true | _, _ => false end.
Definition optr_eqb a b := match a, b with Some x, Some y => reason_eqb x y | None, None => true | _, _ => false end.
Fixpoint reasons_eqb (a b : list reason) : bool :=
  match a, b with [] , [] => true | x :: a', y :: b' => reason_eqb x y && reasons_eqb a' b' | _, _ => false end.

(* reasons of the stops emitted between two states, oldest first *)
Definition new_stops (s s' : dstate) : list reason :=
  rev (map sp_reason (firstn (length (d_stops s') - length (d_stops s)) (d_stops s'))).
Definition end_matches (s' : dstate) (e : nat) : bool :=
  match e with
  | 0 => negb (d_waiting s') && mode_eqb (d_mode s') Running
  | 1 => negb (d_waiting s') && mode_eqb (d_mode s') Paused && negb (is_target s')
  | _ => d_waiting s' && mode_eqb (d_mode s') Paused && is_target s'
  end.
(* what the model says the hook does with the step entry *)
Definition predicted_step (s : dstate) (depth : nat) (hasloc : bool) : option (bool * kind * nat * bool) :=
  let s0 := enter_hook s depth in
  let s1 := consume_pending s0 depth in
  match (if is_target s0 then d_mode s1 else Running), hasloc with
  | Running, true =>
      match (if is_target s0 then d_step s1 else None) with
      | Some st => if step_key_ok s1 st then
                     Some (st_started st, st_kind st, st_depth st, if st_started st then should_stop st depth else false)
                   else None
      | None => None
      end
  | _, _ => None
  end.
Definition step_eqb (a b : option (bool * kind * nat * bool)) : bool :=
  match a, b with
  | None, None => true
  | Some (c1, k1, d1, p1), Some (c2, k2, d2, p2) => Bool.eqb c1 c2 && kind_eqb k1 k2 && Nat.eqb d1 d2 && Bool.eqb p1 p2
  | _, _ => false
  end.
(* the breakpoint list is consulted exactly when the statement has a location, the effective mode is Running and no step stopped *)
Definition predicted_bp_checked (s : dstate) (depth : nat) (hasloc : bool) : bool :=
  let s0 := enter_hook s depth in
  let s1 := consume_pending s0 depth in
  match (if is_target s0 then d_mode s1 else Running), hasloc with
  | Running, true => match predicted_step s depth hasloc with Some (_, _, _, true) => false | _ => true end
  | _, _ => false
  end.

Definition judge_event (s : dstate) (e : event) : option dstate :=
  match e with
  | EHook h =>
      if d_waiting s then None else
      let s := if opt_eqb (d_current s) (h_cur h) then s else step s (LSetThread (h_cur h)) in
      if mode_eqb (d_mode s) (h_mode h) && opt_eqb (d_target s) (h_tgt h) && optr_eqb (d_pending s) (h_pend h)
         && Nat.eqb (match d_step s with Some _ => 1 | None => 0 end) (h_nsteps h)
         && step_eqb (predicted_step s (h_depth h) (h_loc h)) (h_step h)
         && Bool.eqb (predicted_bp_checked s (h_depth h) (h_loc h)) (negb (Nat.eqb (h_bp h) 2)) then
        let s' := hook s (h_depth h) (Nat.eqb (h_bp h) 1) (h_loc h) in
        if reasons_eqb (new_stops s s') (h_stops h) && end_matches s' (h_end h) then Some s' else None
      else None
  | EWake w =>
      if d_waiting s && mode_eqb (d_mode s) (w_mode w) then
        let s' := step s (LWake (d_last_depth s)) in
        if reasons_eqb (new_stops s s') (w_stops w) && end_matches s' (w_end w) then Some s' else None
      else None
  | EAct a =>
      let '(s', o) := apply_action s (a_act a) in
      if mode_eqb (d_mode s) (a_before a) && outcome_eqb o (a_out a) && mode_eqb (d_mode s') (a_after a) then Some s' else None
  end.
(* set_current_thread is not traced: the switch to the thread seen at the next hook entry happens
   somewhere between the previous hook segment and that entry, i.e. before or after any of the
   control actions in between.  The judge therefore follows the SET of model states that explain
   the trace so far (subset construction), and rejects when the set becomes empty. *)
Fixpoint next_cur (es : list event) : option (option nat) :=
  match es with [] => None | EHook h :: _ => Some (h_cur h) | EWake _ :: _ => None | EAct _ :: es' => next_cur es' end.
Definition optk_eqb (a b : option (kind * nat)) : bool :=
  match a, b with Some (k1, n1), Some (k2, n2) => kind_eqb k1 k2 && Nat.eqb n1 n2 | None, None => true | _, _ => false end.
Definition stop_eqb (a b : stop) : bool :=
  reason_eqb (sp_reason a) (sp_reason b) && Nat.eqb (sp_depth a) (sp_depth b) && opt_eqb (sp_thread a) (sp_thread b) && optk_eqb (sp_step a) (sp_step b).
Fixpoint list_eqb {A} (f : A -> A -> bool) (a b : list A) : bool :=
  match a, b with [], [] => true | x :: a', y :: b' => f x y && list_eqb f a' b' | _, _ => false end.
Definition stepst_eqb (a b : option step_state) : bool :=
  match a, b with
  | Some x, Some y => Nat.eqb (st_key x) (st_key y) && kind_eqb (st_kind x) (st_kind y) && Nat.eqb (st_depth x) (st_depth y)
                      && Bool.eqb (st_started x) (st_started y) && Nat.eqb (st_origin x) (st_origin y)
  | None, None => true | _, _ => false end.
Definition dstate_eqb (a b : dstate) : bool :=
  mode_eqb (d_mode a) (d_mode b) && optr_eqb (d_pending a) (d_pending b) && stepst_eqb (d_step a) (d_step b)
  && opt_eqb (d_target a) (d_target b) && opt_eqb (d_current a) (d_current b) && Nat.eqb (d_last_depth a) (d_last_depth b)
  && list_eqb (fun x y => Nat.eqb (fst x) (fst y) && Nat.eqb (snd x) (snd y)) (d_last_depths a) (d_last_depths b)
  && list_eqb stop_eqb (d_stops a) (d_stops b) && Bool.eqb (d_waiting a) (d_waiting b)
  && Nat.eqb (g_emitted a) (g_emitted b) && Bool.eqb (g_notified a) (g_notified b) && Nat.eqb (g_mark a) (g_mark b).
Fixpoint insert_state (s : dstate) (l : list dstate) : list dstate :=
  match l with [] => [s] | x :: l' => if dstate_eqb s x then l else x :: insert_state s l' end.
Definition switch_variants (ss : list dstate) (nc : option (option nat)) : list dstate :=
  match nc with
  | None => ss
  | Some c => fold_left (fun acc s => if negb (d_waiting s) && negb (opt_eqb (d_current s) c)
                                      then insert_state (step s (LSetThread c)) acc else acc) ss ss
  end.
Definition judge_set (ss : list dstate) (e : event) (rest : list event) : list dstate :=
  let ss0 := match e with EAct _ => switch_variants ss (next_cur (e :: rest)) | _ => ss end in
  fold_left (fun acc s => match judge_event s e with Some s' => insert_state s' acc | None => acc end) ss0 [].
(* index of the first event no model state explains, or None when the whole trace is a run of the model *)
Fixpoint judge_from (ss : list dstate) (i : nat) (es : list event) : option nat * list dstate :=
  match es with
  | [] => (None, ss)
  | e :: es' => match judge_set ss e es' with [] => (Some i, ss) | ss' => judge_from ss' (S i) es' end
  end.
Definition judge (es : list event) : option nat := fst (judge_from [d_init] 0 es).
(* statistics for the evidence file *)
Definition judge_stops (es : list event) : nat := match snd (judge_from [d_init] 0 es) with s :: _ => length (d_stops s) | [] => 0 end.
Definition judge_width (es : list event) : nat := length (snd (judge_from [d_init] 0 es)).
