(* Executable judges for C07 (process image) and C08 (fault latch / safe state): decide the
   properties on an OBSERVED implementation trace (result, driver call log, fault flag,
   images, variables after every operation), using only the address algebra of Model/Io.v
   and the configuration — not the cycle model. *)
From Coq Require Import ZArith List Bool.
From TP Require Import Model.Io Model.Cycle.
Import ListNotations.
Open Scope Z_scope.

Definition obs := (option result * list logent * rt)%type.

Fixpoint eqb_zl (a b : list Z) : bool :=
  match a, b with [], [] => true | x :: a', y :: b' => (x =? y) && eqb_zl a' b' | _, _ => false end.
Definition eqb_images (a b : images) : bool :=
  eqb_zl (im_in a) (im_in b) && eqb_zl (im_out a) (im_out b) && eqb_zl (im_mem a) (im_mem b).
Definition eqb_area (a b : area) : bool :=
  match a, b with AIn, AIn | AOut, AOut | AMem, AMem => true | _, _ => false end.

Definition spans_overlap (a b : addr) : bool :=
  let sa := a_byte a in let ea := (a_byte a + nbytes (a_size a))%nat in
  let sb := a_byte b in let eb := (a_byte b + nbytes (a_size b))%nat in
  Nat.ltb sa eb && Nat.ltb sb ea.

(* expected driver log of a good cycle: every driver read once, then every driver written once
   with the final output image *)
Fixpoint eqb_log (a b : list logent) : bool :=
  match a, b with
  | [], [] => true
  | LRd x :: a', LRd y :: b' => Nat.eqb x y && eqb_log a' b'
  | LWr x i :: a', LWr y j :: b' => Nat.eqb x y && eqb_zl i j && eqb_log a' b'
  | _, _ => false
  end.
Definition good_log (nd : nat) (out : image) : list logent :=
  map LRd (seq 0 nd) ++ map (fun d => LWr d out) (seq 0 nd).

Definition assigned (p : list stmt) (v : nat) : bool :=
  existsb (fun s => match s with SCopy d _ => Nat.eqb d v | _ => false end) p.
Definition bound_twice (bs : list binding) (v : nat) : bool :=
  Nat.ltb 1 (length (filter (fun b => Nat.eqb (b_var b) v) bs)).

(* inputs latched: an input-bound variable the program does not assign holds the decoded bytes *)
Definition latched_ok (c : cfg) (st : rt) : bool :=
  forallb (fun b =>
    match b_area b with
    | AIn => assigned (c_prog c) (b_var b) || bound_twice (c_bindings c) (b_var b) ||
             (get_var (r_vars st) (b_var b) =? from_io (b_ty b) (io_read (b_addr b) (im_in (r_im st))))
    | _ => true
    end) (c_bindings c).
(* outputs published: an output-bound variable not overlapped by a LATER output binding is encoded in the image *)
Fixpoint published_ok (bs : list binding) (st : rt) : bool :=
  match bs with
  | [] => true
  | b :: bs' =>
      (match b_area b with
       | AOut =>
           existsb (fun b' => eqb_area (b_area b') AOut && spans_overlap (b_addr b) (b_addr b')) bs' ||
           (io_read (b_addr b) (im_out (r_im st)) =? to_io (b_ty b) (get_var (r_vars st) (b_var b)))
       | _ => true
       end) && published_ok bs' st
  end.

Definition safe_wanted (c : cfg) (o : op) : bool :=
  match o with
  | OCycle _ | OSimFault _ => fault_policy_safe (c_policy c)
  | OWatchdog _ => watchdog_safe (c_wd c)
  | OSet _ _ => false
  end.
(* safe values present: each well-typed entry not overlapped by a later entry reads back *)
Fixpoint safe_present (s : list (area * addr * Z)) (im : images) : bool :=
  match s with
  | [] => true
  | (a, ad, v) :: s' =>
      ((v <? 0) || existsb (fun e => let '(a', ad', v') := e in eqb_area a a' && (0 <=? v') && spans_overlap ad ad') s' ||
       (io_read ad (im_get a im) =? v)) && safe_present s' im
  end.
(* every driver received the final output image (the last write of each driver carries it) *)
Definition delivered (nd : nat) (log : list logent) (out : image) : bool :=
  forallb (fun d =>
    match filter (fun e => match e with LWr x _ => Nat.eqb x d | _ => false end) (rev log) with
    | LWr _ img :: _ => eqb_zl img out
    | _ => false
    end) (seq 0 nd).

Definition all_w1 (ds : list dscript) : bool := forallb ds_write1 ds.

(* C07 on one observed operation, given the previously observed state *)
Definition judge07_op (c : cfg) (nd : nat) (prev : rt) (o : op) (ob : obs) : bool :=
  let '(res, log, st) := ob in
  match o, res with
  | OCycle _, Some ROk =>
      eqb_log log (good_log nd (im_out (r_im st))) && latched_ok c st && published_ok (c_bindings c) st
  | OCycle ds, Some RErr =>
      (* faulted before the publish phase could fail: no program-computed outputs *)
      if all_w1 ds then
        eqb_zl (im_out (r_im st)) (im_out (r_im prev)) ||
        (* safe values (all of them, or a prefix of the entries: that is C08's concern) on top of
           the previous image are not program-computed either *)
        (fault_policy_safe (c_policy c) &&
         (eqb_zl (im_out (r_im st)) (im_out (fst (safe_apply false (c_safe c) (r_im prev)))) ||
          eqb_zl (im_out (r_im st)) (im_out (fst (safe_apply true (c_safe c) (r_im prev))))))
      else true
  | _, _ => true
  end.

(* C08 on one observed operation *)
Definition judge08_op (c : cfg) (nd : nat) (prev : rt) (o : op) (ob : obs) : bool :=
  let '(res, log, st) := ob in
  match o with
  | OSet _ _ => true
  | OCycle _ =>
      if r_faulted prev then
        (* refused: no driver call, nothing changes *)
        match res with Some RFaulted => true | _ => false end &&
        match log with [] => true | _ => false end &&
        r_faulted st && eqb_images (r_im st) (r_im prev) && eqb_zl (r_vars st) (r_vars prev)
      else
        match res with
        | Some ROk => negb (r_faulted st)
        | Some RErr => r_faulted st &&
            (if safe_wanted c o then safe_present (c_safe c) (r_im st) && delivered nd log (im_out (r_im st)) else true)
        | _ => false
        end
  | OWatchdog _ | OSimFault _ =>
      r_faulted st &&
      (if safe_wanted c o then safe_present (c_safe c) (r_im st) && delivered nd log (im_out (r_im st)) else true)
  end.

Fixpoint judge_trace (j : cfg -> nat -> rt -> op -> obs -> bool) (c : cfg) (nd : nat) (prev : rt)
  (ops : list op) (obsl : list obs) : bool :=
  match ops, obsl with
  | [], [] => true
  | o :: ops', ob :: obsl' => j c nd prev o ob && judge_trace j c nd (snd ob) ops' obsl'
  | _, _ => false
  end.
Definition judge07 := judge_trace judge07_op.
Definition judge08 := judge_trace judge08_op.
