(* Executable judge for C18 on OBSERVED replies of the real control endpoint. Uses only the
   property text and the hand-written oracle lists of Spec/C18.v (not the translated tables). *)
From Coq Require Import String List Bool Arith.
From TP Require Import Spec.C18.
Import ListNotations.
Open Scope string_scope.

Definition smem (k : string) (l : list string) : bool := existsb (String.eqb k) l.

(* cred: 0 none 1 wrong 2 admin token 3/4/5 pairing token viewer/operator/engineer 6 revoked 7 expired *)
Definition spec_role (token_set : bool) (cred : nat) : option nat :=
  match cred with
  | 3 => Some 0 | 4 => Some 1 | 5 => Some 2
  | 2 => Some 3
  | _ => if token_set then None else Some 3
  end.
Definition spec_role_fix (token_set : bool) (cred : nat) : option nat :=
  (* without a configured token the admin-token string is just an unknown string: Admin by design *)
  match cred with
  | 3 => Some 0 | 4 => Some 1 | 5 => Some 2
  | _ => if token_set then (if Nat.eqb cred 2 then Some 3 else None) else Some 3
  end.

(* class: 0 unauthorized 1 forbidden 2 debug-disabled 3 unsupported 4 dispatched 5 invalid 9 no reply *)
Definition judge_request (kind : string) (cred : nat) (token_set debug_on has_params : bool) (key : string)
  (class need : nat) (changed has_result admin_changed : bool) : bool :=
  let admin_key := smem key admin_only_config_keys in
  let executed := Nat.eqb class 4 || changed in
  (* the endpoint always answers *)
  negb (Nat.eqb class 9) &&
  (* a rejected request changes nothing *)
  (Nat.eqb class 4 || negb changed) &&
  (* with a token configured, an invalid credential gets a bare "unauthorized" *)
  (match spec_role_fix token_set cred with
   | None => Nat.eqb class 0 && negb changed && negb has_result
   | Some r =>
       (* executed => the role is sufficient: state-changing types need more than viewer,
          admin-only configuration keys need admin *)
       (negb executed ||
        ((smem kind readonly_kinds || Nat.ltb viewer_rank r) &&
         (negb (String.eqb kind "config.set" && admin_key) || Nat.eqb r 3))) &&
       (* whatever was asked and however it was spelled: admin-only state changes only for the admin role *)
       (negb admin_changed || Nat.eqb r 3)
   end) &&
  (negb admin_changed || changed) &&
  (* debug-class requests are refused while debugging is disabled *)
  (debug_on || negb (smem kind debug_class_kinds) || negb executed).

(* garbled input: an error reply (or nothing for an empty line), no effect, endpoint still alive *)
Definition judge_garbled (class : nat) (changed has_result alive : bool) : bool :=
  Nat.eqb class 5 && negb changed && negb has_result && alive.
