(* C15 correspondence: the indentation the model computes for a document, from the formatter's own view of each line
   (skip flag + kinds of the line's tokens, reported by the harness from the real lexer) and the kind sets and the clamp
   that the translator read from the source *)
From Coq Require Import List Bool ZArith NArith.
From TP Require Import Model.FmtIndent gen.C15Kinds.
Import ListNotations.
Definition doc_classes (lines : list (bool * list N)) : list lclass :=
  map (fun l => classify dedent_kinds end_kinds start_kinds (fst l) (snd l)) lines.
Definition doc_indents (aligned_style : bool) (lines : list (bool * list N)) : list (option Z) :=
  indents {| aligned := aligned_style; clamp := clamp_after_in_source |} 0 (doc_classes lines).
