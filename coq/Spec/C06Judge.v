(* Executable judge for C06: recomputes, from the property text, what a cycle must execute
   and compares with an OBSERVED program sequence / overrun counters. Written independently
   of Model/Sched.v (own bookkeeping, selection of the minimum instead of insertion sort). *)
From Coq Require Import ZArith List Bool.
Import ListNotations.
Open Scope Z_scope.

Record jtask := { j_interval : Z; j_single : option nat; j_prio : Z; j_progs : list nat }.
Record jstate := { j_prev_single : bool; j_last_act : Z; j_overruns : Z }.

Definition jsingle (singles : list bool) (t : jtask) : bool :=
  match j_single t with Some k => nth k singles false | None => false end.

(* due time of a task in this cycle, if it is due *)
Definition jdue (now : Z) (sv : bool) (t : jtask) (st : jstate) : option Z :=
  if negb (j_prev_single st) && sv then Some now
  else if (0 <? j_interval t) && negb sv && (j_interval t <=? now - j_last_act st)
       then Some (j_last_act st + j_interval t) else None.
Definition jnext (now : Z) (sv : bool) (t : jtask) (st : jstate) : jstate :=
  if (0 <? j_interval t) && negb sv && (j_interval t <=? now - j_last_act st)
  then {| j_prev_single := sv; j_last_act := now;
          j_overruns := j_overruns st + Z.max 0 ((now - j_last_act st) / j_interval t - 1) |}
  else {| j_prev_single := sv; j_last_act := j_last_act st; j_overruns := j_overruns st |}.

(* (prio, due, idx) strictly smaller *)
Definition jlt (a b : Z * Z * nat) : bool :=
  let '(pa, da, ia) := a in let '(pb, db, ib) := b in
  (pa <? pb) || ((pa =? pb) && ((da <? db) || ((da =? db) && Nat.ltb ia ib))).
Fixpoint jmin (x : Z * Z * nat) (l : list (Z * Z * nat)) : Z * Z * nat :=
  match l with [] => x | y :: l' => if jlt y x then jmin y l' else jmin x l' end.
Fixpoint jremove (x : Z * Z * nat) (l : list (Z * Z * nat)) : list (Z * Z * nat) :=
  match l with
  | [] => []
  | y :: l' => let '(_, _, ix) := x in let '(_, _, iy) := y in if Nat.eqb ix iy then l' else y :: jremove x l'
  end.
Fixpoint jselsort (fuel : nat) (l : list (Z * Z * nat)) : list (Z * Z * nat) :=
  match fuel, l with
  | S f, x :: l' => let m := jmin x l' in m :: jselsort f (jremove m l)
  | _, _ => []
  end.

Fixpoint jdues (k : nat) (now : Z) (singles : list bool) (ts : list jtask) (sts : list jstate) : list (Z * Z * nat) :=
  match ts, sts with
  | t :: ts', st :: sts' =>
      match jdue now (jsingle singles t) t st with
      | Some d => (j_prio t, d, k) :: jdues (S k) now singles ts' sts'
      | None => jdues (S k) now singles ts' sts'
      end
  | _, _ => []
  end.
Fixpoint jnexts (now : Z) (singles : list bool) (ts : list jtask) (sts : list jstate) : list jstate :=
  match ts, sts with
  | t :: ts', st :: sts' => jnext now (jsingle singles t) t st :: jnexts now singles ts' sts'
  | _, _ => []
  end.
Definition jbackground (ts : list jtask) (nprog : nat) : list nat :=
  filter (fun p => negb (existsb (fun t => existsb (Nat.eqb p) (j_progs t)) ts)) (seq 0 nprog).
Definition jtask0 : jtask := {| j_interval := 0; j_single := None; j_prio := 0; j_progs := [] |}.

Fixpoint eqb_nats (a b : list nat) : bool :=
  match a, b with [], [] => true | x :: a', y :: b' => Nat.eqb x y && eqb_nats a' b' | _, _ => false end.
Fixpoint eqb_zs (a b : list Z) : bool :=
  match a, b with [], [] => true | x :: a', y :: b' => (x =? y) && eqb_zs a' b' | _, _ => false end.

(* observed: per cycle (program sequence, overrun counters) *)
Fixpoint judge_run (ts : list jtask) (nprog : nat) (sts : list jstate)
  (tl : list (Z * list bool)) (obs : list (list nat * list Z)) : bool :=
  match tl, obs with
  | [], [] => true
  | (now, singles) :: tl', (progs, ovs) :: obs' =>
      let due := jdues 0 now singles ts sts in
      let order := jselsort (length due) due in
      let expect := flat_map (fun e => j_progs (nth (snd e) ts jtask0)) order ++ jbackground ts nprog in
      let sts' := jnexts now singles ts sts in
      eqb_nats progs expect && eqb_zs ovs (map j_overruns sts') && judge_run ts nprog sts' tl' obs'
  | _, _ => false
  end.
Definition judge (ts : list jtask) (nprog : nat) (singles0 : list bool)
  (tl : list (Z * list bool)) (obs : list (list nat * list Z)) : bool :=
  judge_run ts nprog
    (map (fun t => {| j_prev_single := jsingle singles0 t; j_last_act := 0; j_overruns := 0 |}) ts) tl obs.
