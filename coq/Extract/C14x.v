From Coq Require Import ZArith List Bool Extraction ExtrOcamlBasic.
From TP Require Import Model.LspText Spec.C14.
Extraction Language OCaml.
Definition code_counts_utf16 : bool := true.   (* which variant the code is; decided by correspondence *)
Definition srv_run := run_notes code_counts_utf16.
Definition srv_p2i := position_to_index code_counts_utf16.
Definition srv_i2p := index_to_position code_counts_utf16.
Extraction "../.cache/ml/c14_model.ml" srv_run srv_p2i srv_i2p editor_run utf8_len u8len Z.add Z.mul Z.opp Z.div_eucl Z.ltb Z.leb.
