From Coq Require Import NArith List Bool Extraction ExtrOcamlBasic.
From TP Require Import Model.RetainCodec Model.CrashFs.
Extraction Language OCaml.
Extraction "../.cache/ml/c10_model.ml" enc_snapshot dec_snapshot crash_prefixes save_atomic apply_ops N.add N.mul N.div_eucl N.of_nat.
