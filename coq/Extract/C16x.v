From Coq Require Import List Bool Arith Extraction ExtrOcamlBasic.
From TP Require Import Model.Rename.
Extraction Language OCaml.
Extraction "../.cache/ml/c16_model.ml" rename bindings.
