From Coq Require Import ZArith List Bool Extraction ExtrOcamlBasic.
From TP Require Import Model.Io Model.Cycle Spec.C07Judge.
Extraction Language OCaml.
Definition init_rt (li lo lm nv : nat) : rt :=
  {| r_faulted := false;
     r_im := {| im_in := repeat 0%Z li; im_out := repeat 0%Z lo; im_mem := repeat 0%Z lm |};
     r_vars := repeat 0%Z nv |}.
Extraction "../.cache/ml/c07_model.ml" run_ops init_rt judge07 judge08 Z.add Z.mul Z.opp Z.div_eucl.
