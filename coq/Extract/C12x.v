From Coq Require Import List Bool Arith Extraction ExtrOcamlBasic.
From TP Require Import Model.LexSink Spec.C12Judge.
Extraction Language OCaml.
(* positions and kinds are small naturals: map nat to OCaml int for speed (ExtrOcamlNatInt is NOT used; the driver converts) *)
Extraction "../.cache/ml/c12_model.ml" judge.
