From Coq Require Import List Bool Arith NArith Extraction ExtrOcamlBasic.
From TP Require Import Model.WebIde Model.WebIdeDocs Spec.C19Judge.
Extraction Language OCaml.
Extraction "../.cache/ml/c19_model.ml" judge predicted_class predicted_path drun w_init N.of_nat mrun.
