(* Extraction of the section-content model for the executable tie with the Rust decoder (ocaml/c11f_main.ml). *)
From Coq Require Import Extraction ExtrOcamlBasic.
From TP Require Import Model.Stbc Model.StbcFmt Model.StbcSections.
Extraction Language OCaml.
Extraction "../.cache/ml/c11f_model.ml" dec_section enc_section.
