From Coq Require Import List Bool Arith Extraction ExtrOcamlBasic.
From TP Require Import Model.Debug Spec.C17Judge.
Extraction Language OCaml.
Extraction "../.cache/ml/c17_model.ml" judge judge_stops judge_width.
