From Coq Require Import List Bool Arith Extraction ExtrOcamlBasic.
From TP Require Import Model.HirDb.
Extraction Language OCaml.
Extraction "../.cache/ml/c13_model.ml" run view spec.
