From Coq Require Import ZArith List Bool Extraction ExtrOcamlBasic.
From TP Require Import Model.Sched Spec.C06Judge.
Extraction Language OCaml.
Definition run_config (ts : list task) (nprog : nat) (singles0 : list bool) (tl : list (Z * list bool)) :=
  run_cycles ts nprog (map (reg_state 0 singles0) ts) tl.
Extraction "../.cache/ml/c06_model.ml" run_config judge Z.add Z.mul Z.opp Z.div_eucl.
