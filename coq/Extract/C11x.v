From Coq Require Import List Bool Arith NArith Extraction ExtrOcamlBasic.
From TP Require Import Model.Stbc Spec.C11Judge.
Extraction Language OCaml.
Extraction "../.cache/ml/c11_model.ml" judge predicted.
