From Coq Require Import List Bool Arith Extraction ExtrOcamlBasic.
From TP Require Import Model.FmtEdit Spec.C15Judge.
Extraction Language OCaml.
Extraction "../.cache/ml/c15_model.ml" range_edit doc_indents.
