(* Extraction for the C04 correspondence check. ExtrOcamlBasic only: Z, positive, nat stay
   the extracted Coq datatypes. *)
From Coq Require Import ZArith List Bool Extraction ExtrOcamlBasic.
From TP Require Import Model.Fb Spec.C04 Spec.C04Judge.
Extraction Language OCaml.

(* Which TP the code implements: [tp_exec code_tp_retriggers]. Decided by correspondence. *)
Definition code_tp_retriggers : bool := false.
Definition run_ton_now := run_now ton_exec ton_init None.
Definition run_tof_now := run_now tof_exec tof_init None.
Definition run_tp_now := run_now (tp_exec code_tp_retriggers) tp_init None.
Definition run_ton_pure := run_dt ton_core ton_init.
Definition run_tof_pure := run_dt tof_core tof_init.
Definition run_tp_pure := run_dt (tp_core code_tp_retriggers) tp_init.
Definition dts_of := to_dts None.
Definition run_ctu hi init := run (ctu_stepI hi) {| ctu_cv := init; ctu_prev := false |}.
Definition run_ctd lo init := run (ctd_stepI lo) {| ctd_cv := init; ctd_prev := false |}.
Definition run_ctud lo hi init := run (ctud_stepI lo hi) {| ctud_cv := init; ctud_pcu := false; ctud_pcd := false |}.
Definition run_rtrig := run rtrig_step false.
Definition run_ftrig := run ftrig_step false.
Definition run_sr := run sr_stepI false.
Definition run_rs := run rs_stepI false.
Extraction "../.cache/ml/c04_model.ml"
  run_ton_now run_tof_now run_tp_now run_ton_pure run_tof_pure run_tp_pure dts_of
  run_ctu run_ctd run_ctud run_rtrig run_ftrig run_sr run_rs
  judge_ton judge_tof judge_tp judge_ctu judge_ctd judge_ctud judge_rtrig judge_ftrig judge_sr judge_rs
  Z.add Z.mul Z.opp Z.div_eucl Z.eqb Z.ltb.
