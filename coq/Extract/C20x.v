From Coq Require Import List Bool Arith Extraction ExtrOcamlBasic.
From TP Require Import Model.Resource Spec.C20Judge.
Extraction Language OCaml.
Extraction "../.cache/ml/c20_model.ml" judge.
