From Coq Require Import ZArith List Bool Extraction ExtrOcamlBasic.
From TP Require Import Model.Restart Model.RestartTasks Spec.C09Judge.
Import ListNotations.
Extraction Language OCaml.
(* the generated programs: program p adds 1 to every global and p+1+i to its variable i *)
Definition gen_body (p : nat) (g : list Z) (v : list Z) : list Z * list Z :=
  (map (fun x => (x + 1)%Z) g,
   (fix go (i : nat) (l : list Z) := match l with [] => [] | x :: r => (x + Z.of_nat (p + 1 + i))%Z :: go (S i) r end) 0%nat v).
Definition step_gen := step gen_body.
Extraction "../.cache/ml/c09_model.ml" step_gen fresh inst_vars judge ev_step ev_fresh per_step per_fresh Z.add Z.mul Z.opp Z.div_eucl.
