From Coq Require Import String List Bool Arith Extraction ExtrOcamlBasic.
From TP Require Import gen.C18Tables Model.Control Spec.C18 Spec.C18Judge.
Extraction Language OCaml.
Extraction "../.cache/ml/c18_model.ml" handle dispatch_kinds judge_request judge_garbled gate_admin_key admin_effect.
