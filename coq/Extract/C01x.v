From Coq Require Import ZArith List Bool Extraction ExtrOcamlBasic.
From TP Require Import Model.StCore Model.StTyping Model.StRef Model.StCalls.
Extraction Language OCaml.
(* which variant the code is (decided by correspondence) *)
Definition code_opts : opts :=
  {| o_neg_checked := true; o_for_checked := true; o_coerce_write := false; o_case_unsigned := true; o_return_ok := true |}.
Definition run_cycle (fuel : nat) (s : store) (body : list stmt) : res store := run_program code_opts fuel s body.
Extraction "../.cache/ml/c01_model.ml" run_cycle run_ref tprogram store_ok upd inline_call fb_size Z.add Z.mul Z.opp Z.div_eucl.
