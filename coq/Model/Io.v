(* Model of the process-image algebra of crates/trust-runtime/src/io.rs:
   IoInterface::read / write for X/B/W/D/L addresses (little-endian, bit n of byte b),
   ensure_len (zero extension on write past the end, 0 on read past the end), and the
   two's-complement reinterpretation of coerce_from_io / coerce_to_io.
   An image is a list of bytes (Z in [0,256)). *)
From Coq Require Import ZArith List Bool.
Import ListNotations.
Open Scope Z_scope.

Definition image := list Z.
Definition get (img : image) (i : nat) : Z := nth i img 0.

(* buffer[i] = b after ensure_len(buffer, i) *)
Fixpoint set_byte (img : image) (i : nat) (b : Z) : image :=
  match i, img with
  | O, [] => [b]
  | O, _ :: r => b :: r
  | S i', [] => 0 :: set_byte [] i' b
  | S i', x :: r => x :: set_byte r i' b
  end.

(* n-byte little-endian store/load at byte a *)
Fixpoint wr_le (n : nat) (a : nat) (v : Z) (img : image) : image :=
  match n with O => img | S n' => wr_le n' (S a) (v / 256) (set_byte img a (v mod 256)) end.
Fixpoint rd_le (n : nat) (a : nat) (img : image) : Z :=
  match n with O => 0 | S n' => get img a + 256 * rd_le n' (S a) img end.

Definition wr_bit (a : nat) (bit : Z) (flag : bool) (img : image) : image :=
  set_byte img a (if flag then Z.setbit (get img a) bit else Z.clearbit (get img a) bit).
Definition rd_bit (a : nat) (bit : Z) (img : image) : bool := Z.testbit (get img a) bit.

Inductive iosize := SzX | SzB | SzW | SzD | SzL.
Definition nbytes (s : iosize) : nat :=
  match s with SzX => 1 | SzB => 1 | SzW => 2 | SzD => 4 | SzL => 8 end%nat.

Record addr := { a_size : iosize; a_byte : nat; a_bit : Z }.

(* value on the wire: Bool for X, unsigned integer of the width otherwise *)
Definition io_read (ad : addr) (img : image) : Z :=
  match a_size ad with
  | SzX => if rd_bit (a_byte ad) (a_bit ad) img then 1 else 0
  | s => rd_le (nbytes s) (a_byte ad) img
  end.
Definition io_write (ad : addr) (v : Z) (img : image) : image :=
  match a_size ad with
  | SzX => wr_bit (a_byte ad) (a_bit ad) (negb (v =? 0)) img
  | s => wr_le (nbytes s) (a_byte ad) v img
  end.

(* signed reinterpretation (word as i16 etc.) and back *)
Definition to_signed (bits : Z) (u : Z) : Z := if u <? 2 ^ (bits - 1) then u else u - 2 ^ bits.
Definition to_unsigned (bits : Z) (s : Z) : Z := s mod 2 ^ bits.

(* span of bytes an address touches *)
Definition in_span (ad : addr) (i : nat) : bool :=
  (Nat.leb (a_byte ad) i) && (Nat.ltb i (a_byte ad + nbytes (a_size ad))).
