(* Model of the STBC container frame and of its count-prefixed tables
   (crates/trust-runtime/src/bytecode/{decode,encode,reader}.rs):
     dec_frame      BytecodeModule::decode up to and including validate_section_entries
     enc_strtab / dec_strtab   the string table codec (minor >= 1: entries padded to 4 bytes),
                    with the capacity the decoder requests from the allocator
   Bytes are N (< 256); all bound checks are done in N before anything is converted to nat.
   The CRC-32 function is a parameter. *)
From Coq Require Import List Bool Arith NArith Lia.
Import ListNotations.
Open Scope N_scope.

Definition le16 (b0 b1 : N) : N := b0 + 256 * b1.
Definition le32 (b0 b1 b2 b3 : N) : N := b0 + 256 * b1 + 65536 * b2 + 16777216 * b3.
Definition enc32 (n : N) : list N := [n mod 256; (n / 256) mod 256; (n / 65536) mod 256; (n / 16777216) mod 256].
Definition enc16 (n : N) : list N := [n mod 256; (n / 256) mod 256].
Definition blen (bs : list N) : N := N.of_nat (length bs).
Definition byte_at (bs : list N) (i : N) : N := nth (N.to_nat i) bs 0.
Definition u16_at (bs : list N) (i : N) : N := le16 (byte_at bs i) (byte_at bs (i + 1)).
Definition u32_at (bs : list N) (i : N) : N := le32 (byte_at bs i) (byte_at bs (i + 1)) (byte_at bs (i + 2)) (byte_at bs (i + 3)).
Definition slice (bs : list N) (off len : N) : list N := firstn (N.to_nat len) (skipn (N.to_nat off) bs).

Inductive ferr := InvalidMagic | UnexpectedEof | InvalidHeader | SectionAlignment | InvalidSectionTable | InvalidChecksum
                | UnsupportedVersion | SectionOutOfBounds | SectionOverlap.
Inductive result (A : Type) := Ok (a : A) | Err (e : ferr).
Arguments Ok {A}. Arguments Err {A}.
Record entry := { e_id : N; e_flags : N; e_off : N; e_len : N }.
Record frame := { f_major : N; f_minor : N; f_flags : N; f_entries : list entry }.

(* stable insertion sort by offset (slice::sort_by_key is stable) *)
Fixpoint insert (x : entry) (l : list entry) : list entry :=
  match l with
  | [] => [x]
  | y :: l' => if N.leb (e_off x) (e_off y) then x :: l else y :: insert x l'
  end.
Fixpoint sort_entries (l : list entry) : list entry :=
  match l with [] => [] | x :: l' => insert x (sort_entries l') end.
(* elements are inserted from the right and go in front of equal keys, so equal keys keep their original order *)
Fixpoint validate_sorted (file_len : N) (last_end : N) (l : list entry) : result unit :=
  match l with
  | [] => Ok tt
  | e :: l' =>
      if negb (N.eqb (e_off e mod 4) 0) then Err SectionAlignment
      else if N.ltb file_len (e_off e + e_len e) then Err SectionOutOfBounds
      else if N.ltb (e_off e) last_end then Err SectionOverlap
      else validate_sorted file_len (e_off e + e_len e) l'
  end.
Definition validate_entries (file_len : N) (l : list entry) : result unit := validate_sorted file_len 0 (sort_entries l).

Fixpoint read_entries (bs : list N) (pos : N) (n : nat) : list entry :=
  match n with
  | O => []
  | S n' => {| e_id := u16_at bs pos; e_flags := u16_at bs (pos + 2); e_off := u32_at bs (pos + 4); e_len := u32_at bs (pos + 8) |}
            :: read_entries bs (pos + 12) n'
  end.

Section Frame.
  Variable crc : list N -> N.
  Definition dec_frame (bs : list N) : result frame :=
    let len := blen bs in
    if N.ltb len 4 then Err UnexpectedEof
    else if negb (N.eqb (byte_at bs 0) 83 && N.eqb (byte_at bs 1) 84 && N.eqb (byte_at bs 2) 66 && N.eqb (byte_at bs 3) 67) then Err InvalidMagic
    else if N.ltb len 24 then Err UnexpectedEof
    else
      let major := u16_at bs 4 in let minor := u16_at bs 6 in let flags := u32_at bs 8 in
      let header_size := u16_at bs 12 in let count := u16_at bs 14 in let table_off := u32_at bs 16 in let checksum := u32_at bs 20 in
      if N.ltb header_size 24 then Err InvalidHeader
      else if N.ltb table_off 24 then Err InvalidHeader
      else if negb (N.eqb (table_off mod 4) 0) then Err SectionAlignment
      else
        let table_end := table_off + count * 12 in
        if N.ltb len table_end then Err InvalidSectionTable
        else if N.odd flags && negb (N.eqb (crc (skipn (N.to_nat table_off) bs)) checksum) then Err InvalidChecksum
        else if negb (N.eqb major 1) then Err UnsupportedVersion
        else
          let entries := read_entries bs table_off (N.to_nat count) in
          match validate_entries len entries with
          | Err e => Err e
          | Ok _ => Ok {| f_major := major; f_minor := minor; f_flags := flags; f_entries := entries |}
          end.
End Frame.

(* ---- string table (minor >= 1) ---- *)
Definition align4 (n : N) : N := ((n + 3) / 4) * 4.
Definition enc_str (s : list N) : list N :=
  let l := blen s in enc32 l ++ s ++ repeat 0 (N.to_nat (align4 (4 + l) - (4 + l))).
Definition enc_strtab (l : list (list N)) : list N := enc32 (N.of_nat (length l)) ++ concat (map enc_str l).
(* [fuel] bounds the number of entries by the input length: every entry consumes at least 4 bytes *)
Fixpoint dec_strs (fuel : nat) (count : N) (bs : list N) : option (list (list N)) :=
  if N.eqb count 0 then Some []
  else match fuel with
       | O => None
       | S fuel' =>
           if N.ltb (blen bs) 4 then None
           else let l := u32_at bs 0 in
                let padded := align4 (4 + l) in
                if N.ltb (blen bs) padded then None          (* read_bytes(len) or read_bytes(padding) hits the end *)
                else match dec_strs fuel' (count - 1) (skipn (N.to_nat padded) bs) with
                     | Some rest => Some (slice bs 4 l :: rest)
                     | None => None
                     end
       end.
Record strtab_result := { st_entries : option (list (list N)); st_capacity : N }.
(* [bounded] = the repaired decoder: Vec::with_capacity(count.min(reader.remaining())) *)
Definition dec_strtab (bounded : bool) (bs : list N) : strtab_result :=
  if N.ltb (blen bs) 4 then {| st_entries := None; st_capacity := 0 |}
  else let count := u32_at bs 0 in
       let remaining := blen bs - 4 in
       {| st_entries := dec_strs (length bs) count (skipn 4 bs);
          st_capacity := if bounded then N.min count remaining else count |}.
