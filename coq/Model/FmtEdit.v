(* Model of the line-based formatting edits of crates/trust-lsp/src/handlers/formatting.rs:
     format_lines_edit   the edit returned by range and on-type formatting: source lines
                         start..=end are replaced by the lines WITH THE SAME INDICES of the fully
                         formatted document
   A line is the list of its significant tokens (everything except white space; comments, pragmas
   and string literals included); a document is a list of lines.  The formatter itself is a
   parameter: any function from documents to documents. *)
From Coq Require Import List Bool Arith.
Import ListNotations.

Section Fmt.
  Variable token : Type.
  Definition line := list token.
  Definition doc := list line.
  Definition toks (d : doc) : list token := concat d.
  (* lines start..=end of d *)
  Definition sub (d : doc) (s e : nat) : doc := firstn (S e - s) (skipn s d).
  (* format_lines_edit + applying the edit: None when the line numbers do not exist in the source or in the formatted text *)
  Definition range_edit (src fmt : doc) (s e : nat) : option doc :=
    if Nat.leb s e && Nat.ltb e (length src) && Nat.ltb e (length fmt)
    then Some (firstn s src ++ sub fmt s e ++ skipn (S e) src)
    else None.
End Fmt.
