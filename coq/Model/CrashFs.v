(* A crash model for the retain-file save protocol (FileRetainStore::write_bytes).
   The file system is a map path-id -> contents; a crash preserves a PREFIX of the issued
   system calls, and a trailing write may be cut at any byte (stated assumption: no reordering
   of the syscalls by the kernel; fsync precedes the rename in the protocol). *)
From Coq Require Import NArith List Bool Arith.
Import ListNotations.

Inductive fsop := Creat (p : nat) | Write (p : nat) (bs : list N) | Fsync (p : nat) | Rename (a b : nat).
Definition fs := nat -> option (list N).
Definition fs_set (f : fs) (p : nat) (v : option (list N)) : fs := fun q => if Nat.eqb q p then v else f q.

Definition apply_op (f : fs) (o : fsop) : fs :=
  match o with
  | Creat p => fs_set f p (Some [])
  | Write p bs => match f p with Some old => fs_set f p (Some (old ++ bs)) | None => f end
  | Fsync _ => f
  | Rename a b => match f a with Some c => fs_set (fs_set f b (Some c)) a None | None => f end
  end.
Definition apply_ops (f : fs) (ops : list fsop) : fs := fold_left apply_op ops f.

(* all op lists a crash can leave behind: every prefix; a trailing Write cut at any length *)
Fixpoint cuts (p : nat) (bs : list N) (k : nat) : list fsop :=
  match k with O => [Write p []] | S k' => Write p (firstn (S k') bs) :: cuts p bs k' end.
Fixpoint crash_prefixes (ops : list fsop) : list (list fsop) :=
  match ops with
  | [] => [[]]
  | o :: ops' =>
      [] :: (match o with
             | Write p bs => map (fun w => [w]) (cuts p bs (length bs))
             | _ => []
             end) ++ map (cons o) (crash_prefixes ops')
  end.

(* the two save protocols: [tmp] is the sibling temporary file *)
Definition save_atomic (target tmp : nat) (bytes : list N) : list fsop :=
  [Creat tmp; Write tmp bytes; Fsync tmp; Rename tmp target].
Definition save_in_place (target : nat) (bytes : list N) : list fsop :=
  [Creat target; Write target bytes].
