(* Model of the analysis database's double bookkeeping (crates/trust-hir/src/db/queries/database.rs,
   salsa_backend.rs): the map of source texts kept by Database itself, the salsa input cells per
   file, the project input (the file list handed to every project-wide query) and the two
   revision counters.  Analysis is a parameter: salsa's contract is that a tracked query is a
   function of the current values of the inputs it reads, so an answer is F (view, file). *)
From Coq Require Import List Bool Arith.
Import ListNotations.

Definition file := nat.
Definition text := nat.
Definition table := list (file * text).           (* kept sorted by file id, one entry per file *)
Fixpoint put (f : file) (t : text) (l : table) : table :=
  match l with
  | [] => [(f, t)]
  | (g, u) :: r => if Nat.ltb f g then (f, t) :: l else if Nat.eqb f g then (f, t) :: r else (g, u) :: put f t r
  end.
Fixpoint del (f : file) (l : table) : table :=
  match l with [] => [] | (g, u) :: r => if Nat.eqb f g then r else (g, u) :: del f r end.
Fixpoint get (f : file) (l : table) : option text :=
  match l with [] => None | (g, u) :: r => if Nat.eqb f g then Some u else get f r end.
Definition keys (l : table) : list file := map fst l.

Record db := {
  d_src : table;                 (* Database::sources *)
  d_cells : table;               (* SalsaState::sources: file -> input cell (its current text) *)
  d_proj : option (list file);   (* SalsaState::project_inputs: the files of the project input *)
  d_rev : nat; d_synced : nat
}.
Definition empty : db := {| d_src := []; d_cells := []; d_proj := None; d_rev := 0; d_synced := 0 |}.
Definition has (f : file) (l : table) : bool := match get f l with Some _ => true | None => false end.
Definition opt_eqb (a : option text) (t : text) : bool := match a with Some u => Nat.eqb u t | None => false end.

(* set_source_text *)
Definition set_text (s : db) (f : file) (t : text) : db :=
  if opt_eqb (get f (d_src s)) t then s
  else
    let cells := put f t (d_cells s) in
    let changed := negb (has f (d_cells s)) || match d_proj s with None => true | Some _ => false end in
    {| d_src := put f t (d_src s); d_cells := cells;
       d_proj := if changed then Some (keys cells) else d_proj s;
       d_rev := S (d_rev s); d_synced := S (d_rev s) |}.
(* remove_source_text *)
Definition remove_text (s : db) (f : file) : db :=
  if negb (has f (d_src s)) then s
  else let cells := del f (d_cells s) in
       {| d_src := del f (d_src s); d_cells := cells; d_proj := Some (keys cells); d_rev := S (d_rev s); d_synced := S (d_rev s) |}.
(* with_synced_salsa_state: prepare_salsa_project when the revisions differ *)
Definition synced (s : db) : db :=
  if Nat.eqb (d_synced s) (d_rev s) then s
  else {| d_src := d_src s; d_cells := d_src s; d_proj := Some (keys (d_src s)); d_rev := d_rev s; d_synced := d_rev s |}.
(* what a project-wide query sees: the files of the project input with the current texts of their cells *)
Definition view (s : db) : table :=
  match d_proj (synced s) with
  | Some fs => flat_map (fun f => match get f (d_cells (synced s)) with Some t => [(f, t)] | None => [] end) fs
  | None => []
  end.
Inductive op := OSet (f : file) (t : text) | ORemove (f : file) | OQuery (f : file).
Definition step (s : db) (o : op) : db :=
  match o with OSet f t => set_text s f t | ORemove f => remove_text s f | OQuery _ => synced s end.
Definition run (ops : list op) : db := fold_left step ops empty.
(* the specification: the file contents after the history, as a plain map *)
Definition spec_step (m : table) (o : op) : table :=
  match o with OSet f t => put f t m | ORemove f => del f m | OQuery _ => m end.
Definition spec (ops : list op) : table := fold_left spec_step ops [].
