(* The container encoder (crates/trust-runtime/src/bytecode/encode.rs, BytecodeModule::encode), frame level:
   header, section table right after the header, payloads in order, each padded to a multiple of 4.
   (The CRC flag is not set by this model: with the flag the checksum is patched into bytes 20..24.) *)
From Coq Require Import List Bool Arith NArith Lia.
From TP Require Import Model.Stbc.
Import ListNotations.
Open Scope N_scope.

Record sect := { s_id : N; s_flags : N; s_data : list N }.
Definition pad_to4 (n : N) : list N := repeat 0 (N.to_nat (align4 n - n)).
Definition enc_entry (id fl off len : N) : list N := enc16 id ++ enc16 fl ++ enc32 off ++ enc32 len.
Fixpoint layout (off : N) (ss : list sect) : list entry :=
  match ss with
  | [] => []
  | s :: r => {| e_id := s_id s; e_flags := s_flags s; e_off := off; e_len := blen (s_data s) |} :: layout (align4 (off + blen (s_data s))) r
  end.
Definition enc_table (es : list entry) : list N := flat_map (fun e => enc_entry (e_id e) (e_flags e) (e_off e) (e_len e)) es.
Definition enc_payloads (ss : list sect) : list N := flat_map (fun s => s_data s ++ pad_to4 (blen (s_data s))) ss.
Definition header (major minor flags count : N) : list N :=
  [83; 84; 66; 67] ++ enc16 major ++ enc16 minor ++ enc32 flags ++ enc16 24 ++ enc16 count ++ enc32 24 ++ enc32 0.
Definition first_offset (n : N) : N := align4 (24 + 12 * n).
Definition enc_frame (major minor flags : N) (ss : list sect) : list N :=
  let n := N.of_nat (length ss) in
  header major minor flags n ++ enc_table (layout (first_offset n) ss) ++ pad_to4 (24 + 12 * n) ++ enc_payloads ss.
