(* Model of the indentation pass of format_document (crates/trust-lsp/src/handlers/formatting.rs, the loop over lines):
     a line that lies in a block comment / multi-line token, or is blank, is copied and leaves the level alone;
     any other line is classified by its significant tokens -
        d  its first token is a dedent token        (is_dedent_token)
        e  its first token is an END_* keyword      (is_end_keyword)
        s  some token on it opens a block           (line_has_indent_start)
     - and is written at `current_indent`, which is the running level, minus one (not below zero) when the line
     starts with a dedent token and the style does not keep END keywords indented; the END keyword of the
     `indented` style is written at the body's level and takes the level down afterwards.
   The running level is an i32 in the code: Z here (no reachable run comes near 2^31 lines).  `clamp` says whether the
   level is kept at zero when the `dedent_after` decrement would take it below (the repaired code) or not (the code as
   found: saturating_sub on an i32 saturates at -2^31, so it is a plain decrement).  The three token-kind sets are
   generated from the source (gen/C15Kinds.v). *)
From Coq Require Import List Bool ZArith NArith.
Import ListNotations.
Local Open Scope Z_scope.

Inductive lclass := LSkip | LNorm (d e s : bool).
Record icfg := { aligned : bool; clamp : bool }.

(* (indentation the line is written with, level after the line) *)
Definition istep (c : icfg) (lvl : Z) (l : lclass) : option Z * Z :=
  match l with
  | LSkip => (None, lvl)
  | LNorm d e s =>
    let should := d && (aligned c || negb e) in
    let cur := if should then Z.max (lvl - 1) 0 else lvl in
    let after := d && negb should in
    let l1 := if s then cur + 1 else cur in
    let l2 := if after then (if clamp c then Z.max (l1 - 1) 0 else l1 - 1) else l1 in
    (Some cur, l2)
  end.

Fixpoint indents (c : icfg) (lvl : Z) (ls : list lclass) : list (option Z) :=
  match ls with [] => [] | l :: r => fst (istep c lvl l) :: indents c (snd (istep c lvl l)) r end.
Fixpoint final (c : icfg) (lvl : Z) (ls : list lclass) : Z :=
  match ls with [] => lvl | l :: r => final c (snd (istep c lvl l)) r end.

(* the argument of `indent_unit.repeat(current_indent as usize)` is a count: never negative *)
Definition all_nonneg (o : list (option Z)) : bool := forallb (fun x => match x with Some z => 0 <=? z | None => true end) o.

(* classification of a line from the kinds of its significant tokens *)
Section Classify.
  Variables dedent endk start : list N.
  Definition memN (k : N) (l : list N) : bool := existsb (N.eqb k) l.
  Definition classify (skip : bool) (kinds : list N) : lclass :=
    if skip then LSkip else
    match kinds with
    | [] => LNorm false false false
    | k :: _ => LNorm (memN k dedent) (memN k endk) (existsb (fun k => memN k start) kinds)
    end.
End Classify.

(* block structure: a plain line, or  opener  body  (separator body)*  closer  *)
Inductive balanced : list lclass -> Prop :=
| bal_nil : balanced []
| bal_skip r : balanced r -> balanced (LSkip :: r)
| bal_plain r : balanced r -> balanced (LNorm false false false :: r)
| bal_block body r : balanced_body body -> balanced r -> balanced (LNorm false false true :: body ++ LNorm true true false :: r)
with balanced_body : list lclass -> Prop :=
| bb_one b : balanced b -> balanced_body b
| bb_sep b rest : balanced b -> balanced_body rest -> balanced_body (b ++ LNorm true false true :: rest).
