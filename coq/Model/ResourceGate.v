(* The start gate of a resource thread: crates/trust-runtime/src/scheduler.rs StartGate::{open, wait_open} and the prologue of
   run_resource_loop.  A gated thread sits in a Condvar wait; it re-evaluates "gate open? stop requested?" whenever it wakes up.
   A wake-up happens when somebody notified the Condvar, or - because the code waits with a 50 ms time-out - spontaneously.
   [timed] and [stop_notifies] describe the variant of the code: the code as it is waits with a time-out and stop() does not
   notify the gate. *)
From Coq Require Import Bool Arith.

Inductive gphase := GWait | GEntered | GStopped.
Record gcfg := { timed : bool; stop_notifies : bool }.
Record gst := { g_phase : gphase; g_open : bool; g_stop : bool; g_notified : bool; g_cycles : nat; g_saves : nat }.
Definition ginit : gst := {| g_phase := GWait; g_open := false; g_stop := false; g_notified := false; g_cycles := 0; g_saves := 0 |}.

Inductive glabel := GOpen | GStop | GWake.
(* a wake-up of the waiting thread is possible *)
Definition wake_enabled (c : gcfg) (s : gst) : bool :=
  match g_phase s with GWait => timed c || g_notified s | _ => false end.
Definition gstep (c : gcfg) (s : gst) (l : glabel) : gst :=
  match l with
  | GOpen => {| g_phase := g_phase s; g_open := true; g_stop := g_stop s; g_notified := true; g_cycles := g_cycles s; g_saves := g_saves s |}
  | GStop => {| g_phase := g_phase s; g_open := g_open s; g_stop := true; g_notified := g_notified s || stop_notifies c;
                g_cycles := g_cycles s; g_saves := g_saves s |}
  | GWake =>
      if wake_enabled c s then
        (* wait_open: `while !*guard { if stop { return false } wait }` - the gate is tested first *)
        if g_open s then {| g_phase := GEntered; g_open := true; g_stop := g_stop s; g_notified := false; g_cycles := g_cycles s; g_saves := g_saves s |}
        else if g_stop s then {| g_phase := GStopped; g_open := false; g_stop := true; g_notified := false; g_cycles := g_cycles s; g_saves := g_saves s |}
        else {| g_phase := GWait; g_open := false; g_stop := false; g_notified := false; g_cycles := g_cycles s; g_saves := g_saves s |}
      else s
  end.
Definition grun (c : gcfg) (s : gst) (ls : list glabel) : gst := List.fold_left (gstep c) ls s.
(* the thread can make no further move although it has been asked to stop (or the gate is open): a wedge *)
Definition wedged (c : gcfg) (s : gst) : bool :=
  match g_phase s with GWait => (g_stop s || g_open s) && negb (wake_enabled c s) | _ => false end.
Definition code_cfg : gcfg := {| timed := true; stop_notifies := false |}.
