(* Model of one scan cycle with I/O drivers, process-image latch/publish, fault latch and
   safe state: crates/trust-runtime/src/runtime/{cycle.rs (execute_cycle, read_cycle_inputs,
   write_cycle_outputs), core.rs (apply_fault, watchdog_timeout, simulation_fault),
   faults.rs, io_subsystem.rs (apply_safe_state)}, io.rs (read_inputs/write_outputs/IoSafeState),
   watchdog.rs (FaultDecision). Program execution is a small statement list over an integer
   variable store (copies and a fault-injection statement): enough to place a fault at any
   statement index; the full evaluator is the subject of C01-C03. *)
From Coq Require Import ZArith List Bool.
From TP Require Import Model.Io.
Import ListNotations.
Open Scope Z_scope.

Inductive area := AIn | AOut | AMem.
Inductive vty := TBool | TByte | TSInt | TUSInt | TWord | TInt | TUInt
               | TDWord | TDInt | TUDInt | TLWord | TLInt | TULInt.
Definition ty_bits (t : vty) : Z :=
  match t with
  | TBool => 1 | TByte | TSInt | TUSInt => 8 | TWord | TInt | TUInt => 16
  | TDWord | TDInt | TUDInt => 32 | TLWord | TLInt | TULInt => 64
  end.
Definition ty_signed (t : vty) : bool :=
  match t with TSInt | TInt | TDInt | TLInt => true | _ => false end.
Definition ty_size (t : vty) : iosize :=
  match t with
  | TBool => SzX | TByte | TSInt | TUSInt => SzB | TWord | TInt | TUInt => SzW
  | TDWord | TDInt | TUDInt => SzD | TLWord | TLInt | TULInt => SzL
  end.
Definition from_io (t : vty) (u : Z) : Z := if ty_signed t then to_signed (ty_bits t) u else u.
Definition to_io (t : vty) (v : Z) : Z := if ty_signed t then to_unsigned (ty_bits t) v else v.

Record binding := { b_area : area; b_addr : addr; b_ty : vty; b_var : nat }.

Record images := { im_in : image; im_out : image; im_mem : image }.
Definition im_get (a : area) (im : images) : image :=
  match a with AIn => im_in im | AOut => im_out im | AMem => im_mem im end.
Definition im_set (a : area) (im : images) (x : image) : images :=
  match a with
  | AIn => {| im_in := x; im_out := im_out im; im_mem := im_mem im |}
  | AOut => {| im_in := im_in im; im_out := x; im_mem := im_mem im |}
  | AMem => {| im_in := im_in im; im_out := im_out im; im_mem := x |}
  end.

Definition vars := list Z.
Fixpoint set_var (vs : vars) (i : nat) (v : Z) : vars :=
  match i, vs with
  | O, _ :: r => v :: r
  | S i', x :: r => x :: set_var r i' v
  | _, [] => []
  end.
Definition get_var (vs : vars) (i : nat) : Z := nth i vs 0.

(* IoInterface::read_inputs: Input and Memory bindings, in declaration order *)
Fixpoint latch (bs : list binding) (im : images) (vs : vars) : vars :=
  match bs with
  | [] => vs
  | b :: bs' =>
      match b_area b with
      | AOut => latch bs' im vs
      | a => latch bs' im (set_var vs (b_var b) (from_io (b_ty b) (io_read (b_addr b) (im_get a im))))
      end
  end.
(* IoInterface::write_outputs: Output and Memory bindings, in declaration order *)
Fixpoint publish (bs : list binding) (vs : vars) (im : images) : images :=
  match bs with
  | [] => im
  | b :: bs' =>
      match b_area b with
      | AIn => publish bs' vs im
      | a => publish bs' vs (im_set a im (io_write (b_addr b) (to_io (b_ty b) (get_var vs (b_var b))) (im_get a im)))
      end
  end.

(* program: copies and a fault-injection statement (IF trig THEN x := 1/0) *)
Inductive stmt := SCopy (dst src : nat) | SFaultIf (trig : nat).
Fixpoint exec (p : list stmt) (vs : vars) : vars * bool (* true = faulted *) :=
  match p with
  | [] => (vs, false)
  | SCopy d s :: p' => exec p' (set_var vs d (get_var vs s))
  | SFaultIf t :: p' => if get_var vs t =? 0 then exec p' vs else (vs, true)
  end.

(* drivers: scripted behaviour for the calls of one cycle *)
Record dscript := { ds_read : option (list (nat * Z));   (* None = read_inputs fails *)
                    ds_write1 : bool; ds_write2 : bool }. (* result of the 1st / 2nd write call *)
Fixpoint patch (img : image) (ps : list (nat * Z)) : image :=
  match ps with
  | [] => img
  | (i, b) :: ps' => patch (if Nat.ltb i (length img) then set_byte img i b else img) ps'
  end.

Inductive policy := PHalt | PSafeHalt | PRestart.
(* FaultDecision::from_fault_policy / from_watchdog : apply_safe_state *)
Definition fault_policy_safe (p : policy) : bool := match p with PSafeHalt => true | _ => false end.
Definition watchdog_safe (p : policy) : bool := match p with PRestart => false | _ => true end.

Inductive logent := LRd (d : nat) | LWr (d : nat) (out : image).

Record rt := { r_faulted : bool; r_im : images; r_vars : vars }.
Record cfg := { c_bindings : list binding; c_prog : list stmt;
                c_safe : list (area * addr * Z);        (* IoSafeState.outputs *)
                c_policy : policy; c_wd : policy;
                c_stop_on_error : bool }.                 (* see apply_safe_state below *)

(* IoSafeState::apply — [stop]: abort at the first failing entry (a failing entry = a value
   that does not fit the address size; modelled as v < 0) *)
Fixpoint safe_apply (stop : bool) (s : list (area * addr * Z)) (im : images) : images * bool (* ok *) :=
  match s with
  | [] => (im, true)
  | (a, ad, v) :: s' =>
      if v <? 0 then (if stop then (im, false) else let '(im', _) := safe_apply stop s' im in (im', false))
      else let '(im', ok) := safe_apply stop s' (im_set a im (io_write ad v (im_get a im))) in (im', ok)
  end.
(* the driver loop of apply_safe_state; [second] selects which scripted write result applies *)
Fixpoint safe_deliver (stop : bool) (k : nat) (ds : list dscript) (wrote : list bool) (out : image) : list logent :=
  match ds, wrote with
  | d :: ds', w :: wrote' =>
      let ok := if w then ds_write2 d else ds_write1 d in
      LWr k out :: (if negb ok && stop then [] else safe_deliver stop (S k) ds' wrote' out)
  | _, _ => []
  end.
(* Runtime::apply_fault *)
Definition apply_fault (c : cfg) (safe : bool) (ds : list dscript) (wrote : list bool) (st : rt) : rt * list logent :=
  if safe then
    let '(im', ok) := safe_apply (c_stop_on_error c) (c_safe c) (r_im st) in
    let log := if negb ok && c_stop_on_error c then [] else safe_deliver (c_stop_on_error c) 0 ds wrote (im_out im') in
    ({| r_faulted := true; r_im := im'; r_vars := r_vars st |}, log)
  else ({| r_faulted := true; r_im := r_im st; r_vars := r_vars st |}, []).

(* read phase: each driver once, in order; stops at the first failure *)
Fixpoint read_phase (k : nat) (ds : list dscript) (inp : image) : image * list logent * bool (* ok *) :=
  match ds with
  | [] => (inp, [], true)
  | d :: ds' =>
      match ds_read d with
      | None => (inp, [LRd k], false)
      | Some ps =>
          let '(inp', log, ok) := read_phase (S k) ds' (patch inp ps) in (inp', LRd k :: log, ok)
      end
  end.
(* write phase: each driver once, in order; stops at the first failure; returns who was called *)
Fixpoint write_phase (k : nat) (ds : list dscript) (out : image) : list logent * list bool * bool :=
  match ds with
  | [] => ([], [], true)
  | d :: ds' =>
      if ds_write1 d then
        let '(log, wrote, ok) := write_phase (S k) ds' out in (LWr k out :: log, true :: wrote, ok)
      else ([LWr k out], true :: map (fun _ => false) ds', false)
  end.

Inductive result := ROk | RFaulted (* ResourceFaulted: refused *) | RErr (* this cycle faulted *).

Definition cycle (c : cfg) (ds : list dscript) (st : rt) : result * rt * list logent :=
  if r_faulted st then (RFaulted, st, [])
  else
    let none := map (fun _ => false) ds in
    let safe := fault_policy_safe (c_policy c) in
    let '(inp, rlog, rok) := read_phase 0 ds (im_in (r_im st)) in
    let im1 := im_set AIn (r_im st) inp in
    if negb rok then
      let '(st', flog) := apply_fault c safe ds none {| r_faulted := false; r_im := im1; r_vars := r_vars st |} in
      (RErr, st', rlog ++ flog)
    else
      let vs1 := latch (c_bindings c) im1 (r_vars st) in
      let '(vs2, pfault) := exec (c_prog c) vs1 in
      if pfault then
        let '(st', flog) := apply_fault c safe ds none {| r_faulted := false; r_im := im1; r_vars := vs2 |} in
        (RErr, st', rlog ++ flog)
      else
        let im2 := publish (c_bindings c) vs2 im1 in
        let '(wlog, wrote, wok) := write_phase 0 ds (im_out im2) in
        if negb wok then
          let '(st', flog) := apply_fault c safe ds wrote {| r_faulted := false; r_im := im2; r_vars := vs2 |} in
          (RErr, st', rlog ++ wlog ++ flog)
        else (ROk, {| r_faulted := false; r_im := im2; r_vars := vs2 |}, rlog ++ wlog).

(* externally injected faults *)
Definition watchdog_timeout (c : cfg) (ds : list dscript) (st : rt) : rt * list logent :=
  apply_fault c (watchdog_safe (c_wd c)) ds (map (fun _ => false) ds) st.
Definition simulation_fault (c : cfg) (ds : list dscript) (st : rt) : rt * list logent :=
  apply_fault c (fault_policy_safe (c_policy c)) ds (map (fun _ => false) ds) st.

Inductive op := OCycle (ds : list dscript) | OWatchdog (ds : list dscript) | OSimFault (ds : list dscript)
              | OSet (i : nat) (v : Z).   (* external write of a variable between cycles *)
Definition step (c : cfg) (st : rt) (o : op) : rt * (option result * list logent) :=
  match o with
  | OCycle ds => let '(r, st', log) := cycle c ds st in (st', (Some r, log))
  | OWatchdog ds => let '(st', log) := watchdog_timeout c ds st in (st', (None, log))
  | OSimFault ds => let '(st', log) := simulation_fault c ds st in (st', (None, log))
  | OSet i v => ({| r_faulted := r_faulted st; r_im := r_im st; r_vars := set_var (r_vars st) i v |}, (None, []))
  end.
Fixpoint run_ops (c : cfg) (st : rt) (ops : list op) : list (option result * list logent * rt) :=
  match ops with
  | [] => []
  | o :: ops' => let '(st', (r, log)) := step c st o in (r, log, st') :: run_ops c st' ops'
  end.
