(* R: an independent, statically typed reference semantics of the ST core, written from
   IEC 61131-3 and docs/specs/05-expressions.md, 06-statements.md (not from the interpreter):
   integer arithmetic is exact in the operand type and faults on overflow, division truncates
   toward zero, AND/OR short-circuit, assignment converts to the declared type with a range check,
   FOR tests its bound before each iteration. The operand type of an expression is the declared
   type of its variables / typed literals; an expression of untyped literals only is DINT.
   The statement layer re-uses the control-flow combinators of Model/StCore.v with R's evaluator. *)
From Coq Require Import ZArith List Bool.
From TP Require Import Model.StCore Model.StTyping.
Import ListNotations.
Open Scope Z_scope.

Fixpoint infer_kind (G : env) (e : expr) : option ikind :=
  match e with
  | ELit false (VInt k _) => Some k
  | ELit _ _ => None
  | EVar x => var_kind G x
  | EUn _ e1 => infer_kind G e1
  | EBin _ l r => match infer_kind G l with Some k => Some k | None => infer_kind G r end
  | EIdx b _ _ _ _ => var_kind G b
  end.
Definition kind_or_dint (o : option ikind) : ikind := match o with Some k => k | None => KDInt end.

Definition check (k : ikind) (z : Z) : res Z := if in_range k z then Ok z else Fault FOverflow.

(* integer expression in the operand type k *)
Fixpoint reval (s : store) (k : ikind) (e : expr) : res Z :=
  match e with
  | ELit _ (VInt _ z) => check k z
  | ELit _ (VBool _) => Fault FTypeMismatch
  | EVar x => v <- rd s x ;; match v with VInt _ z => Ok z | VBool _ => Fault FTypeMismatch end
  | EUn UNeg e1 => z <- reval s k e1 ;; check k (- z)
  | EUn UNot _ => Fault FTypeMismatch
  | EBin op l r =>
      a <- reval s k l ;; b <- reval s k r ;;
      match op with
      | BAdd => check k (a + b)
      | BSub => check k (a - b)
      | BMul => check k (a * b)
      | BDiv => if b =? 0 then Fault FDivZero else check k (Z.quot a b)
      | BMod => if b =? 0 then Fault FModZero else check k (Z.rem a b)
      | _ => Fault FTypeMismatch
      end
  (* the index is evaluated in its declared kind; a value outside the declared bounds is an error (IEC 61131-3 2.4.1.2 /
     docs/specs: IndexOutOfBounds), otherwise the element is read *)
  | EIdx b lo n ki i =>
      z <- reval s ki i ;;
      if (z <? lo) || (lo + Z.of_nat n - 1 <? z) then Fault FIndexOOB
      else v <- rd s (b + Z.to_nat (z - lo))%nat ;; match v with VInt _ z' => Ok z' | VBool _ => Fault FTypeMismatch end
  end.

Fixpoint rbool (G : env) (s : store) (e : expr) : res bool :=
  match e with
  | ELit _ (VBool b) => Ok b
  | ELit _ _ => Fault FTypeMismatch
  | EVar x => v <- rd s x ;; match v with VBool b => Ok b | _ => Fault FTypeMismatch end
  | EUn UNot e1 => b <- rbool G s e1 ;; Ok (negb b)
  | EUn UNeg _ => Fault FTypeMismatch
  | EBin BAnd l r => a <- rbool G s l ;; if a then rbool G s r else Ok false
  | EBin BOr l r => a <- rbool G s l ;; if a then Ok true else rbool G s r
  | EBin BXor l r => a <- rbool G s l ;; b <- rbool G s r ;; Ok (xorb a b)
  | EBin op l r =>
      if is_cmp op then
        let k := kind_or_dint (infer_kind G (EBin op l r)) in
        a <- reval s k l ;; b <- reval s k r ;; Ok (cmp_op op a b)
      else Fault FTypeMismatch
  | EIdx _ _ _ _ _ => Fault FTypeMismatch
  end.

Definition is_bool_expr (G : env) (e : expr) : bool :=
  match e with
  | ELit _ (VBool _) => true
  | EVar x => ty_is_bool (nth_error G x)
  | EUn UNot _ => true
  | EBin op _ _ => is_logic op || is_cmp op
  | _ => false
  end.

Definition ev_ref (G : env) (s : store) (e : expr) : res value :=
  if is_bool_expr G e then b <- rbool G s e ;; Ok (VBool b)
  else let k := kind_or_dint (infer_kind G e) in z <- reval s k e ;; Ok (VInt k z).

Definition o_ref : opts :=
  {| o_neg_checked := true; o_for_checked := true; o_coerce_write := true; o_case_unsigned := true; o_return_ok := true |}.
Definition run_ref (G : env) (fuel : nat) (s : store) (body : list stmt) : res store :=
  run_program_with o_ref (ev_ref G) fuel s body.
