(* Model of rename over a two-level scope structure (crates/trust-ide/src/rename.rs, references.rs,
   trust-hir symbols/table.rs): project-level declarations (POUs, functions, types, globals) and,
   per POU, local declarations and the identifier uses in its body.  Names are normalised
   (case-insensitive) identifiers.  [r_full] = the repaired conflict check; the code before the
   repair looked at the declaring scope only. *)
From Coq Require Import List Bool Arith.
Import ListNotations.

Definition name := nat.
Record pou := { p_locals : list name; p_uses : list name }.
Record prog := { g_decls : list name; g_pous : list pou }.

Fixpoint index_of (n : name) (l : list name) : option nat :=
  match l with [] => None | x :: r => if Nat.eqb n x then Some 0 else option_map S (index_of n r) end.
Definition mem (n : name) (l : list name) : bool := match index_of n l with Some _ => true | None => false end.
(* what an identifier use in POU body p denotes: position of the declaration, independent of its spelling *)
Inductive binding := BLocal (k : nat) | BGlobal (k : nat) | BUnbound.
Definition resolve (g : list name) (p : pou) (n : name) : binding :=
  match index_of n (p_locals p) with
  | Some k => BLocal k
  | None => match index_of n g with Some k => BGlobal k | None => BUnbound end
  end.
Definition bindings (P : prog) : list (list binding) := map (fun p => map (resolve (g_decls P) p) (p_uses p)) (g_pous P).

Definition subst (x y : name) (l : list name) : list name := map (fun n => if Nat.eqb n x then y else n) l.
Inductive target := TLocal (i : nat) (x : name) | TGlobal (x : name).
Record ropts := { r_full : bool }.
(* the conflict check.  Full: the new name must not be visible from the declaring scope, and at no
   reference that is rewritten may it already denote something *)
Definition uses_global (p : pou) (x : name) : bool := mem x (p_uses p) && negb (mem x (p_locals p)).
Definition conflict (o : ropts) (P : prog) (t : target) (y : name) : bool :=
  match t with
  | TLocal i x =>
      match nth_error (g_pous P) i with
      | None => true
      | Some p => mem y (p_locals p) || (r_full o && mem y (g_decls P))
      end
  | TGlobal x =>
      mem y (g_decls P) ||
      (r_full o && existsb (fun p => uses_global p x && mem y (p_locals p)) (g_pous P))
  end.
(* an error-free project: every identifier use denotes a declaration *)
Definition no_unbound (P : prog) : Prop :=
  forall p n, In p (g_pous P) -> In n (p_uses p) -> mem n (p_locals p) = true \/ mem n (g_decls P) = true.
Fixpoint map_nth {A} (f : A -> A) (l : list A) (i : nat) : list A :=
  match l, i with [], _ => [] | x :: r, O => f x :: r | x :: r, S i' => x :: map_nth f r i' end.
Definition apply_rename (P : prog) (t : target) (y : name) : prog :=
  match t with
  | TLocal i x =>
      {| g_decls := g_decls P;
         g_pous := map_nth (fun p => if mem x (p_locals p) then {| p_locals := subst x y (p_locals p); p_uses := subst x y (p_uses p) |} else p) (g_pous P) i |}
  | TGlobal x =>
      {| g_decls := subst x y (g_decls P);
         (* uses that denote the global: the POU has no local of that name *)
         g_pous := map (fun p => if mem x (p_locals p) then p else {| p_locals := p_locals p; p_uses := subst x y (p_uses p) |}) (g_pous P) |}
  end.
Definition rename (o : ropts) (P : prog) (t : target) (y : name) : option prog :=
  if conflict o P t y then None else Some (apply_rename P t y).
