(* T: a strict static discipline for the ST core (a SUBSET of what the HIR checker accepts;
   the correspondence check confirms "T p => the real compiler accepts p").
   Operands of an operator have the same declared type; an untyped integer literal adapts to
   the type required by its context when its value fits. *)
From Coq Require Import ZArith List Bool.
From TP Require Import Model.StCore.
Import ListNotations.
Open Scope Z_scope.

Inductive ty := TBool | TInt (k : ikind).
Definition env := list ty.
Definition ty_is_int (t : option ty) (k : ikind) : bool :=
  match t with Some (TInt k') => ik_eqb k k' | _ => false end.
Definition ty_is_bool (t : option ty) : bool := match t with Some TBool => true | _ => false end.

(* consists of untyped literals only *)
Fixpoint pure_lit (e : expr) : bool :=
  match e with
  | ELit true _ => true
  | EUn _ e1 => pure_lit e1
  | EBin _ l r => pure_lit l && pure_lit r
  | _ => false
  end.
(* the n slots from b on are declared with the integer kind k (the elements of one array) *)
Definition arr_ok (G : list ty) (b n : nat) (k : ikind) : bool :=
  Nat.ltb 0 n && forallb (fun j => match nth_error G (b + j) with Some (TInt k') => ik_eqb k k' | _ => false end) (seq 0 n).
Fixpoint has_var (e : expr) : bool :=
  match e with
  | ELit _ _ => false
  | EVar _ => true
  | EUn _ e1 => has_var e1
  | EBin _ l r => has_var l || has_var r
  | EIdx _ _ _ _ _ => true
  end.
(* the checker folds constant indices (eval_const_int_expr) and rejects one outside the bounds: T accepts a literal index only
   inside the bounds, and no other variable-free index *)
Definition idx_static_ok (lo : Z) (n : nat) (i : expr) : bool :=
  match i with
  | ELit _ (VInt _ z) => (lo <=? z) && (z <=? lo + Z.of_nat n - 1)
  | _ => has_var i
  end.
Definition is_arith (op : binop) : bool := match op with BAdd | BSub | BMul | BDiv | BMod => true | _ => false end.

(* integer expression of kind k. [strict] = no untyped literals: every literal carries its type, so
   every operand of an operator has exactly the declared kind at run time *)
Fixpoint tint (strict : bool) (G : env) (k : ikind) (e : expr) : bool :=
  match e with
  | ELit true (VInt KDInt z) => negb strict && in_range KDInt z && in_range k z
  | ELit false (VInt k' z) => ik_eqb k k' && in_range k z
  | ELit _ _ => false
  | EVar x => ty_is_int (nth_error G x) k
  | EUn UNeg e1 => is_signed k && tint strict G k e1
  | EUn UNot _ => false
  | EBin op l r =>
      is_arith op && tint strict G k l && tint strict G k r &&
      (is_signed k || negb (pure_lit l && pure_lit r))
  (* the index has a declared integer kind other than ULINT (index_to_i64 wraps a ULINT above i64::MAX) *)
  | EIdx b lo n ki i => arr_ok G b n k && negb (ik_eqb ki KULInt) && idx_static_ok lo n i && tint strict G ki i
  end.
(* the kinds an expression may be checked against *)
Definition kinds : list ikind := [KSInt; KInt; KDInt; KLInt; KUSInt; KUInt; KUDInt; KULInt].
(* boolean expression *)
Fixpoint tbool (strict : bool) (G : env) (e : expr) : bool :=
  match e with
  | ELit false (VBool _) => true
  | ELit _ _ => false
  | EVar x => ty_is_bool (nth_error G x)
  | EUn UNot e1 => tbool strict G e1
  | EUn UNeg _ => false
  | EBin op l r =>
      if is_logic op then tbool strict G l && tbool strict G r
      else if is_cmp op then
        existsb (fun k => tint strict G k l && tint strict G k r && (is_signed k || negb (pure_lit l && pure_lit r))) kinds
      else false
  | EIdx _ _ _ _ _ => false
  end.

Definition var_kind (G : env) (x : nat) : option ikind :=
  match nth_error G x with Some (TInt k) => Some k | _ => None end.

Fixpoint tstmt (strict : bool) (G : env) (in_loop : bool) (st : stmt) {struct st} : bool :=
  let tblock := fix tblock (il : bool) (b : list stmt) : bool :=
    match b with [] => true | s1 :: b' => tstmt strict G il s1 && tblock il b' end in
  match st with
  | SAssign x e =>
      match nth_error G x with
      | Some TBool => tbool strict G e
      | Some (TInt k) => tint strict G k e
      | None => false
      end
  | SAssignIdx b lo n ki i e =>
      match var_kind G b with
      | Some k => arr_ok G b n k && negb (ik_eqb ki KULInt) && idx_static_ok lo n i && tint strict G ki i && tint strict G k e
      | None => false
      end
  | SIf c t elifs el =>
      tbool strict G c && tblock in_loop t &&
      (fix te (l : list (expr * list stmt)) : bool :=
         match l with [] => true | (c', b) :: l' => tbool strict G c' && tblock in_loop b && te l' end) elifs &&
      tblock in_loop el
  | SCase sel branches el =>
      existsb (fun k => tint strict G k sel) kinds &&
      (fix tb (l : list (list label * list stmt)) : bool :=
         match l with [] => true | (_, b) :: l' => tblock in_loop b && tb l' end) branches &&
      tblock in_loop el
  | SFor x start stop step body =>
      match var_kind G x with
      | Some k =>
          tint strict G k start && tint strict G k stop && tint strict G k step &&
          (* an unsigned control variable cannot step downwards; bounds of ULINT loops stay below 2^63 *)
          negb (ik_eqb k KULInt) &&
          tblock true body
      | None => false
      end
  | SWhile c body => tbool strict G c && tblock true body
  | SRepeat body c => tblock true body && tbool strict G c
  | SExit | SContinue => in_loop
  | SReturn => true
  end.
Fixpoint tblock (strict : bool) (G : env) (il : bool) (b : list stmt) : bool :=
  match b with [] => true | s1 :: b' => tstmt strict G il s1 && tblock strict G il b' end.
Definition tprogram (strict : bool) (G : env) (body : list stmt) : bool := tblock strict G false body.

(* the store agrees with the declarations: every slot holds its declared kind, in range *)
Definition slot_ok (t : ty) (v : value) : bool :=
  match t, v with
  | TBool, VBool _ => true
  | TInt k, VInt k' z => ik_eqb k k' && in_range k z
  | _, _ => false
  end.
Fixpoint store_ok (G : env) (s : store) : bool :=
  match G, s with
  | [], [] => true
  | t :: G', v :: s' => slot_ok t v && store_ok G' s'
  | _, _ => false
  end.
