(* The contents of every STBC section, transcribed field by field from
   crates/trust-runtime/src/bytecode/decode.rs (decode_section_data, decode_string_table, decode_type_table,
   decode_type_entry) into the calculus of Model/StbcFmt.v.  Section ids and the enum validity tables are those of
   format.rs (SectionId::from_raw, TypeKind::from_raw, PouKind::from_raw + is_class_like, RefLocation::from_raw).

   TREE SHAPES (the contract of harness/src/bin/c11dump.rs).  Nu32 etc. = TN of the field; an Option<u32> is the raw
   number (None = 4294967295); an i64 is its raw u64 value (two's complement); B = TB (the bytes); L( .. ) = TL.
   Fields the decoder drops (_flags, _reserved, padding) do not appear.

   id  section            tree
   --  -----------------  ---------------------------------------------------------------------------------------
    1  StringTable        L( B<utf8 bytes> ... )                 (minor >= 1: entries padded so that 4+len is a multiple of 4)
   10  DebugStringTable   same
    2  TypeTable minor 0  L( <type entry> ... )
    2  TypeTable minor>=1 L( L( N<offset> ... ) L( <type entry> ... ) )      (TypeTable.offsets, TypeTable.entries)
         <type entry> = L( L( N<kind> N<name_idx> ) <body> ), <body> by kind:
            0 Primitive       L( N<prim_id u16> N<max_length u16> )
            1 Array           L( N<elem_type_id> L( L( N<lower i64> N<upper i64> ) ... ) )
            2 Struct, 7 Union L( L( L( N<name_idx> N<type_id> ) ... ) )
            3 Enum            L( N<base_type_id> L( L( N<name_idx> N<value i64> ) ... ) )
            4 Alias, 6 Reference   L( N<target_type_id> )
            5 Subrange        L( N<base_type_id> N<lower i64> N<upper i64> )
            8 FunctionBlock, 9 Class   L( N<pou_id> )
           10 Interface       L( L( L( N<name_idx> N<slot> ) ... ) )
    3  ConstPool          L( L( N<type_id> B<payload> ) ... )
    4  RefTable           L( L( N<location u8> N<owner_id> N<offset> L( <segment> ... ) ) ... )
         <segment> = L( N0 L( L( N<index i64> ... ) ) )   RefSegment::Index
                   | L( N1 L( N<name_idx> ) )             RefSegment::Field
    5  PouIndex           L( <pou> ... ),  <pou> = L( <head> <tail> )
         <head> = L( N<id> N<name_idx> N<kind u8> N<code_offset> N<code_length> N<local_ref_start> N<local_ref_count>
                     N<return_type_id opt> N<owner_pou_id opt> L( <param> ... ) )
         <param> = L( N<name_idx> N<type_id> N<direction u8> N<default_const_idx opt> )     (last field only when minor >= 1)
         <tail> = L( )                                                    kind not class-like (class_meta = None)
                | L( N<parent_pou_id opt> L( <iface> ... ) L( <method> ... ) )   kind FunctionBlock(1) / Class(3)
         <iface> = L( N<interface_type_id> L( N<vtable slot> ... ) )
         <method> = L( N<name_idx> N<pou_id> N<vtable_slot> N<access u8> N<flags u8> )
    6  PouBodies          B<payload>
    7  ResourceMeta       L( L( N<name_idx> N<inputs_size> N<outputs_size> N<memory_size> L( <task> ... ) ) ... )
         <task> = L( N<name_idx> N<priority> N<interval_nanos i64> N<single_name_idx opt> L( N<program name idx> ... ) L( N<fb ref idx> ... ) )
    8  IoMap              L( L( N<address_str_idx> N<ref_idx> N<type_id opt> ) ... )
    9  DebugMap           L( L( N<pou_id> N<code_offset> N<file_idx> N<line> N<column> N<kind u8> ) ... )
   11  VarMeta            L( L( N<name_idx> N<type_id> N<ref_idx> N<retain u8> N<init_const_idx opt> ) ... )
   12  RetainInit         L( L( N<ref_idx> N<const_idx> ) ... )
   other ids              B<payload>                               (SectionData::Raw)

   Bytes after the last element of a section are ignored by the decoder (no "remaining == 0" check) except inside the
   type table of minor >= 1, where every entry must fill its slot exactly.  Model only, no proofs. *)
From Coq Require Import List Bool Arith NArith Lia.
From TP Require Import Model.Stbc Model.StbcFmt.
Import ListNotations.
Open Scope N_scope.

(* std::str::from_utf8: well-formed UTF-8 (no overlong forms, no surrogates, at most U+10FFFF) *)
Definition inr (lo hi b : N) : bool := (lo <=? b) && (b <=? hi).
Definition cont (b : N) : bool := inr 128 191 b.
Fixpoint utf8_ok (bs : list N) : bool :=
  match bs with
  | [] => true
  | b0 :: r =>
      if b0 <? 128 then utf8_ok r
      else if inr 194 223 b0 then match r with b1 :: r1 => cont b1 && utf8_ok r1 | _ => false end
      else if inr 224 239 b0 then
        match r with
        | b1 :: b2 :: r2 => (if b0 =? 224 then inr 160 191 b1 else if b0 =? 237 then inr 128 159 b1 else cont b1) && cont b2 && utf8_ok r2
        | _ => false
        end
      else if inr 240 244 b0 then
        match r with
        | b1 :: b2 :: b3 :: r3 => (if b0 =? 240 then inr 144 191 b1 else if b0 =? 244 then inr 128 143 b1 else cont b1) && cont b2 && cont b3 && utf8_ok r3
        | _ => false
        end
      else false
  end.
Definition any_bytes (_ : list N) : bool := true.
Definition ge1 (minor : N) : bool := 1 <=? minor.

(* ---- enum validity tables (format.rs) ---- *)
Definition type_kind_valid (k : N) : bool := k <=? 10.      (* TypeKind::from_raw: 0..=10 *)
Definition pou_kind_valid (k : N) : bool := k <=? 4.        (* PouKind::from_raw: 0..=4 *)
Definition class_like (k : N) : bool := (k =? 1) || (k =? 3).   (* PouKind::is_class_like: FunctionBlock | Class *)
Definition ref_location_valid (k : N) : bool := k <=? 4.    (* RefLocation::from_raw: 0..=4 *)
Definition segment_kind_valid (k : N) : bool := k <=? 1.    (* match kind { 0 => Index, 1 => Field, _ => Err } *)

(* ---- descriptors ---- *)
Definition string_table (minor : N) : fmt := FRep (FBytes (ge1 minor) utf8_ok).
Definition pairs32 : fmt := FRep (FRec [FU32; FU32]).
Definition type_body (k : N) : fmt :=
  if k =? 0 then FRec [FU16; FU16]                                   (* prim_id, max_length *)
  else if k =? 1 then FRec [FU32; FRep (FRec [FU64; FU64])]          (* elem_type_id, dims (lower, upper) *)
  else if (k =? 2) || (k =? 7) then FRec [pairs32]                   (* fields (name_idx, type_id) *)
  else if k =? 3 then FRec [FU32; FRep (FRec [FU32; FU64])]          (* base_type_id, variants (name_idx, value) *)
  else if (k =? 4) || (k =? 6) then FRec [FU32]                      (* target_type_id *)
  else if k =? 5 then FRec [FU32; FU64; FU64]                        (* base_type_id, lower, upper *)
  else if (k =? 8) || (k =? 9) then FRec [FU32]                      (* pou_id *)
  else FRec [pairs32].                                               (* 10: methods (name_idx, slot) *)
Definition type_kind_of (t : tree) : N := match t with TL (TN k :: _) => k | _ => 0 end.
(* kind u8, _flags u8, _reserved u16, name_idx u32, then the body chosen by kind *)
Definition type_entry : fmt := FBind (FRec [FEnum8 type_kind_valid; FSkip 3; FU32]) (fun t => type_body (type_kind_of t)).
Definition const_pool : fmt := FRep (FRec [FU32; FBytes false any_bytes]).      (* type_id, len + payload *)
(* kind u8, 3 reserved bytes, then Index: count + i64s | Field: name_idx *)
Definition ref_segment : fmt :=
  FBind (FEnum8 segment_kind_valid) (fun t => FRec [FSkip 3; match t with TN 0 => FRep FU64 | _ => FU32 end]).
(* location u8, _flags u8, _reserved u16, owner_id, offset, segments *)
Definition ref_entry : fmt := FRec [FEnum8 ref_location_valid; FSkip 3; FU32; FU32; FRep ref_segment].
Definition ref_table : fmt := FRep ref_entry.
(* name_idx, type_id, direction u8, _flags u8, _reserved u16, [minor >= 1: default_const_idx] *)
Definition param (minor : N) : fmt := FRec ([FU32; FU32; FU8; FSkip 3] ++ (if ge1 minor then [FU32] else [])).
(* parent_pou_id, interfaces (interface_type_id, vtable slots), methods (name_idx, pou_id, vtable_slot, access u8, flags u8, _reserved u16) *)
Definition class_meta : fmt :=
  FRec [FU32; FRep (FRec [FU32; FRep FU32]); FRep (FRec [FU32; FU32; FU32; FU8; FU8; FSkip 2])].
Definition pou_kind_of (t : tree) : N := match t with TL (_ :: _ :: TN k :: _) => k | _ => 0 end.
(* id, name_idx, kind u8, _flags u8, _reserved u16, code_offset, code_length, local_ref_start, local_ref_count,
   return_type_id, owner_pou_id, params; then the class meta when the kind is class-like *)
Definition pou_entry (minor : N) : fmt :=
  FBind (FRec [FU32; FU32; FEnum8 pou_kind_valid; FSkip 3; FU32; FU32; FU32; FU32; FU32; FU32; FRep (param minor)])
        (fun t => if class_like (pou_kind_of t) then class_meta else FRec []).
Definition pou_index (minor : N) : fmt := FRep (pou_entry minor).
(* name_idx, priority, interval_nanos i64, single_name_idx, program name indices, fb ref indices *)
Definition task_entry : fmt := FRec [FU32; FU32; FU64; FU32; FRep FU32; FRep FU32].
(* name_idx, inputs_size, outputs_size, memory_size, tasks *)
Definition resource_meta : fmt := FRep (FRec [FU32; FU32; FU32; FU32; FRep task_entry]).
Definition io_map : fmt := FRep (FRec [FU32; FU32; FU32]).                          (* address_str_idx, ref_idx, type_id *)
Definition debug_map : fmt := FRep (FRec [FU32; FU32; FU32; FU32; FU32; FU8; FSkip 3]).   (* pou_id, code_offset, file_idx, line, column, kind, 3 reserved *)
Definition var_meta : fmt := FRep (FRec [FU32; FU32; FU32; FU8; FSkip 3; FU32]).    (* name_idx, type_id, ref_idx, retain, _flags, _reserved, init_const_idx *)
Definition retain_init : fmt := FRep (FRec [FU32; FU32]).                           (* ref_idx, const_idx *)

(* the sections that are one format of the calculus; None: raw sections and the offset-indexed type table *)
Definition section_fmt (minor id : N) : option fmt :=
  if (id =? 1) || (id =? 10) then Some (string_table minor)
  else if id =? 2 then (if ge1 minor then None else Some (FRep type_entry))
  else if id =? 3 then Some const_pool
  else if id =? 4 then Some ref_table
  else if id =? 5 then Some (pou_index minor)
  else if id =? 7 then Some resource_meta
  else if id =? 8 then Some io_map
  else if id =? 9 then Some debug_map
  else if id =? 11 then Some var_meta
  else if id =? 12 then Some retain_init
  else None.

(* ---- the type table of minor >= 1: count, count offsets, then the entries located by the offsets ---- *)
Fixpoint tn_list (ts : list tree) : list N :=
  match ts with TN n :: r => n :: tn_list r | _ => [] end.
(* decode_type_table, the loop over the offsets; prev = the previous offset (0 before the first) *)
Fixpoint dec_tt_entries (payload : list N) (plen base prev : N) (offs : list N) : option (list tree) :=
  match offs with
  | [] => Some []
  | o :: offs' =>
      let next := match offs' with o' :: _ => o' | [] => plen end in
      if (o <? base) || (plen <? o) || (plen <? next) || (next <? o) then None      (* "type table offset out of bounds" *)
      else if o <? prev then None                                                    (* "type table offsets not sorted" *)
      else match dec type_entry (slice payload o (next - o)) with
           | Some (t, []) =>                                                         (* entry_reader.remaining() == 0 *)
               match dec_tt_entries payload plen base o offs' with Some ts => Some (t :: ts) | None => None end
           | _ => None
           end
  end.
Definition dec_type_table (payload : list N) : option tree :=
  match dec (FRep FU32) payload with                  (* count, then count offsets *)
  | Some (TL offs, rest) =>
      let plen := blen payload in
      let base := plen - blen rest in                 (* reader.pos() *)
      match dec_tt_entries payload plen base 0 (tn_list offs) with
      | Some es => Some (TL [TL offs; TL es])
      | None => None
      end
  | _ => None
  end.
Fixpoint enc_bufs (es : list tree) : option (list (list N)) :=
  match es with
  | [] => Some []
  | e :: r => match enc type_entry e, enc_bufs r with Some b, Some bs => Some (b :: bs) | _, _ => None end
  end.
(* compute_type_offsets (saturating_add not modelled: wf_type_table keeps the total below 2^32) *)
Fixpoint offsets_from (cursor : N) (bufs : list (list N)) : list N :=
  match bufs with [] => [] | b :: r => cursor :: offsets_from (cursor + blen b) r end.
(* encode_type_table: TypeTable.offsets is ignored, the offsets are recomputed *)
Definition enc_type_table (t : tree) : option (list N) :=
  match t with
  | TL [TL _; TL es] =>
      match enc_bufs es with
      | Some bufs => let cnt := N.of_nat (length es) in
                     Some (enc32 cnt ++ flat_map enc32 (offsets_from (4 + 4 * cnt) bufs) ++ concat bufs)
      | None => None
      end
  | _ => None
  end.
Definition wf_type_table (t : tree) : Prop :=
  match t with
  | TL [TL offs; TL es] =>
      Forall (wf type_entry) es /\
      exists bufs, enc_bufs es = Some bufs /\ offs = map TN (offsets_from (4 + 4 * N.of_nat (length es)) bufs) /\
                   4 + 4 * N.of_nat (length es) + blen (concat bufs) < 4294967296
  | _ => False
  end.
Fixpoint cap_tt_entries (payload : list N) (plen : N) (offs : list N) : N :=
  match offs with
  | [] => 0
  | o :: offs' => let next := match offs' with o' :: _ => o' | [] => plen end in
                  N.max (cap type_entry (slice payload o (next - o))) (cap_tt_entries payload plen offs')
  end.
Definition cap_type_table (payload : list N) : N :=
  N.max (cap (FRep FU32) payload)           (* the offsets vector; the entries vector asks for min(count, what remains after the offsets) <= that *)
        (match dec (FRep FU32) payload with
         | Some (TL offs, _) => cap_tt_entries payload (blen payload) (tn_list offs)
         | _ => 0
         end).

(* ---- entry points ---- *)
Definition dec_section (minor id : N) (payload : list N) : option tree :=
  match section_fmt minor id with
  | Some f => match dec f payload with Some (t, _) => Some t | None => None end     (* trailing bytes are ignored *)
  | None => if id =? 2 then dec_type_table payload else Some (TB payload)            (* PouBodies, SectionData::Raw *)
  end.
Definition enc_section (minor id : N) (t : tree) : option (list N) :=
  match section_fmt minor id with
  | Some f => enc f t
  | None => if id =? 2 then enc_type_table t else match t with TB bs => Some bs | _ => None end
  end.
Definition wf_section (minor id : N) (t : tree) : Prop :=
  match section_fmt minor id with
  | Some f => wf f t
  | None => if id =? 2 then wf_type_table t else exists bs, t = TB bs
  end.
Definition cap_section (minor id : N) (payload : list N) : N :=
  match section_fmt minor id with
  | Some f => cap f payload
  | None => if id =? 2 then cap_type_table payload else blen payload                 (* payload.to_vec() *)
  end.
