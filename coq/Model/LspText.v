(* Model of the language server's document text handling:
   crates/trust-lsp/src/handlers/lsp_utils.rs (position_to_offset, offset_to_line_col) and
   handlers/sync.rs (apply_content_changes, did_change dropping a notification that fails).
   A text is a list of Unicode scalar values; the server's byte offsets are the UTF-8 lengths
   of prefixes, so positions are modelled as character indices (always char boundaries).
   [u16 = true] counts UTF-16 code units per character (the repaired code); [u16 = false]
   counts one column per character and requires an exact column match (the code before the fix). *)
From Coq Require Import ZArith List Bool.
Import ListNotations.
Open Scope Z_scope.

Definition u16len (c : Z) : Z := if c <? 65536 then 1 else 2.
Definition u8len (c : Z) : Z := if c <? 128 then 1 else if c <? 2048 then 2 else if c <? 65536 then 3 else 4.
Definition utf8_len (t : list Z) : Z := fold_right (fun c acc => u8len c + acc) 0 t.
Definition width (u16 : bool) (c : Z) : Z := if u16 then u16len c else 1.
Definition hit (u16 : bool) (col tc : Z) : bool := if u16 then tc <=? col else col =? tc.

(* position_to_offset; returns the character index *)
Fixpoint p2o (u16 : bool) (text : list Z) (line : nat) (col : Z) (tl : nat) (tc : Z) (idx : nat) : option nat :=
  match text with
  | [] => if Nat.eqb line tl then Some idx else None
  | c :: r =>
      if Nat.eqb line tl && hit u16 col tc then Some idx
      else if c =? 10 then (if Nat.eqb line tl then Some idx else p2o u16 r (S line) 0 tl tc (S idx))
      else p2o u16 r line (col + width u16 c) tl tc (S idx)
  end.
Definition position_to_index (u16 : bool) (text : list Z) (l : nat) (c : Z) : option nat := p2o u16 text 0 0 l c 0.

(* offset_to_line_col for the character index k *)
Fixpoint o2p (u16 : bool) (text : list Z) (k : nat) (line : nat) (col : Z) : nat * Z :=
  match k, text with
  | O, _ => (line, col)
  | _, [] => (line, col)
  | S k', c :: r => if c =? 10 then o2p u16 r k' (S line) 0 else o2p u16 r k' line (col + width u16 c)
  end.
Definition index_to_position (u16 : bool) (text : list Z) (k : nat) : nat * Z := o2p u16 text k 0 0.

Record change := { ch_range : option (nat * Z * nat * Z); ch_text : list Z }.

Definition apply_change (u16 : bool) (text : list Z) (ch : change) : option (list Z) :=
  match ch_range ch with
  | None => Some (ch_text ch)
  | Some (sl, sc, el, ec) =>
      match position_to_index u16 text sl sc, position_to_index u16 text el ec with
      | Some s, Some e => if Nat.ltb e s then None else Some (firstn s text ++ ch_text ch ++ skipn e text)
      | _, _ => None
      end
  end.
Fixpoint apply_changes (u16 : bool) (text : list Z) (chs : list change) : option (list Z) :=
  match chs with
  | [] => Some text
  | ch :: chs' => match apply_change u16 text ch with Some t => apply_changes u16 t chs' | None => None end
  end.
(* did_change: a notification whose changes cannot be applied is dropped as a whole *)
Definition notify (u16 : bool) (text : list Z) (chs : list change) : bool * list Z :=
  match chs with
  | [] => (true, text)
  | _ => match apply_changes u16 text chs with Some t => (true, t) | None => (false, text) end
  end.
Fixpoint run_notes (u16 : bool) (text : list Z) (notes : list (list change)) : list (bool * list Z) :=
  match notes with
  | [] => []
  | n :: notes' => let '(ok, t) := notify u16 text n in (ok, t) :: run_notes u16 t notes'
  end.
