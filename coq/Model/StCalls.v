(* Function-block calls on top of the ST core (crates/trust-runtime/src/eval/mod.rs call_function_block, prepare_bindings,
   collect_outputs, write_output_values), for calls with named arguments.
   The variables of an instance live in the same flat store as the caller's, at [base ..]:
       [EN]  inputs  outputs  [ENO]  locals         (declaration order; EN and ENO only when the block declares them)
   and a call  inst(EN := en, i0 := e0, .., q0 => x0, .., ENO => xe)  is
       EN := en;                                      (evaluated in the caller; nothing else happens when it is FALSE,
       IF EN THEN                                      except that a bound ENO target receives FALSE)
         i0 := e0; ..;                                 (argument values are stored as they are)
         <body, on the instance's variables>           (frames / instance context of the code: name resolution inside the body
         x0 := q0; ..; xe := ENO                       sees the instance, after the call the caller sees its own variables again)
       ELSE xe := FALSE END_IF
   RETURN inside a body ends the call only; bodies with RETURN are outside this model (the inlined RETURN would end the caller). *)
From Coq Require Import ZArith List Bool Arith.
From TP Require Import Model.StCore.
Import ListNotations.

Fixpoint shift_expr (b : nat) (e : expr) : expr :=
  match e with
  | ELit u v => ELit u v
  | EVar x => EVar (b + x)
  | EUn op e1 => EUn op (shift_expr b e1)
  | EBin op l r => EBin op (shift_expr b l) (shift_expr b r)
  | EIdx b0 lo n ki i => EIdx (b + b0) lo n ki (shift_expr b i)
  end.
Fixpoint shift_stmt (b : nat) (st : stmt) {struct st} : stmt :=
  let sb := fix sb (l : list stmt) : list stmt := match l with [] => [] | s1 :: l' => shift_stmt b s1 :: sb l' end in
  match st with
  | SAssign x e => SAssign (b + x) (shift_expr b e)
  | SAssignIdx b0 lo n ki i e => SAssignIdx (b + b0) lo n ki (shift_expr b i) (shift_expr b e)
  | SIf c t elifs el =>
      SIf (shift_expr b c) (sb t)
          ((fix se (l : list (expr * list stmt)) : list (expr * list stmt) :=
              match l with [] => [] | (c', blk) :: l' => (shift_expr b c', sb blk) :: se l' end) elifs)
          (sb el)
  | SCase sel brs el =>
      SCase (shift_expr b sel)
            ((fix sc (l : list (list label * list stmt)) : list (list label * list stmt) :=
                match l with [] => [] | (ls, blk) :: l' => (ls, sb blk) :: sc l' end) brs)
            (sb el)
  | SFor x a1 a2 a3 body => SFor (b + x) (shift_expr b a1) (shift_expr b a2) (shift_expr b a3) (sb body)
  | SWhile c body => SWhile (shift_expr b c) (sb body)
  | SRepeat body c => SRepeat (sb body) (shift_expr b c)
  | SExit => SExit | SContinue => SContinue | SReturn => SReturn
  end.
Fixpoint shift_block (b : nat) (l : list stmt) : list stmt := match l with [] => [] | s1 :: l' => shift_stmt b s1 :: shift_block b l' end.

(* every variable the statement can write (assignment targets, FOR control variables) satisfies P *)
Fixpoint wr (P : nat -> bool) (st : stmt) {struct st} : bool :=
  let wb := fix wb (l : list stmt) : bool := match l with [] => true | s1 :: l' => wr P s1 && wb l' end in
  match st with
  | SAssign x _ => P x
  | SAssignIdx b0 _ n _ _ _ => forallb (fun j => P (b0 + j)%nat) (seq 0 n)
  | SIf _ t elifs el =>
      wb t && (fix we (l : list (expr * list stmt)) : bool := match l with [] => true | (_, blk) :: l' => wb blk && we l' end) elifs && wb el
  | SCase _ brs el =>
      (fix wc (l : list (list label * list stmt)) : bool := match l with [] => true | (_, blk) :: l' => wb blk && wc l' end) brs && wb el
  | SFor x _ _ _ body => P x && wb body
  | SWhile _ body => wb body
  | SRepeat body _ => wb body
  | SExit | SContinue | SReturn => true
  end.
Fixpoint wr_block (P : nat -> bool) (l : list stmt) : bool := match l with [] => true | s1 :: l' => wr P s1 && wr_block P l' end.

Record fbdef := { fb_en : bool; fb_nin : nat; fb_nout : nat; fb_eno : bool; fb_nloc : nat; fb_body : list stmt }.
Definition fb_size (f : fbdef) : nat := (if fb_en f then 1 else 0) + fb_nin f + fb_nout f + (if fb_eno f then 1 else 0) + fb_nloc f.
Definition off_in (f : fbdef) (base : nat) : nat := base + (if fb_en f then 1 else 0).
Definition off_out (f : fbdef) (base : nat) : nat := off_in f base + fb_nin f.
Definition off_eno (f : fbdef) (base : nat) : nat := off_out f base + fb_nout f.

Fixpoint assign_from (start : nat) (es : list expr) : list stmt :=
  match es with [] => [] | e :: es' => SAssign start e :: assign_from (S start) es' end.
Fixpoint copy_out (start : nat) (targets : list (option nat)) : list stmt :=
  match targets with
  | [] => []
  | Some x :: t' => SAssign x (EVar start) :: copy_out (S start) t'
  | None :: t' => copy_out (S start) t'
  end.
Definition etrue : expr := ELit false (VBool true).
Definition efalse : expr := ELit false (VBool false).
Definition seq (b : list stmt) : stmt := SIf etrue b [] [].

Definition inline_call (f : fbdef) (base : nat) (en : option expr) (ins : list expr) (outs : list (option nat)) (eno : option nat) : stmt :=
  let run := assign_from (off_in f base) ins ++ shift_block base (fb_body f) ++ copy_out (off_out f base) outs ++
             (if fb_eno f then match eno with Some x => [SAssign x (EVar (off_eno f base))] | None => [] end else []) in
  if fb_en f then
    seq [SAssign base (match en with Some e => e | None => etrue end);
         SIf (EVar base) run [] (if fb_eno f then match eno with Some x => [SAssign x efalse] | None => [] end else [])]
  else seq run.

(* the variables a call may write: the instance's own and the bound targets *)
Definition in_targets (x : nat) (outs : list (option nat)) (eno : option nat) : bool :=
  existsb (fun t => match t with Some y => Nat.eqb x y | None => false end) (eno :: outs).
Definition call_writes (f : fbdef) (base : nat) (outs : list (option nat)) (eno : option nat) (x : nat) : bool :=
  (Nat.leb base x && Nat.ltb x (base + fb_size f)) || in_targets x outs eno.
