(* Model of the task scheduler: crates/trust-runtime/src/runtime/cycle.rs
   (collect_ready_tasks, the sort in execute_cycle, execute_background_programs),
   task.rs (TaskConfig/TaskState) and runtime/core.rs::register_task.
   Clock values are i64 nanoseconds; saturating_sub/saturating_add are written out. *)
From Coq Require Import ZArith List Bool.
Import ListNotations.
Open Scope Z_scope.

Definition i64min : Z := - 2 ^ 63.
Definition i64max : Z := 2 ^ 63 - 1.
Definition u64max : Z := 2 ^ 64 - 1.
Definition sat (x : Z) : Z := Z.max i64min (Z.min i64max x).

Record task := { t_interval : Z; t_single : option nat; t_prio : Z; t_progs : list nat }.
Record tstate := { ts_last_single : bool; ts_last_run : Z; ts_overruns : Z }.

(* value of a task's SINGLE variable in the global store ([singles] = the BOOL globals) *)
Definition single_val (singles : list bool) (t : task) : bool :=
  match t_single t with Some k => nth k singles false | None => false end.

(* register_task at time [now0] *)
Definition reg_state (now0 : Z) (singles : list bool) (t : task) : tstate :=
  {| ts_last_single := single_val singles t; ts_last_run := now0; ts_overruns := 0 |}.

(* one iteration of the loop in collect_ready_tasks *)
Definition step_task (now : Z) (sv : bool) (t : task) (st : tstate) : tstate * option Z :=
  let event_due := negb (ts_last_single st) && sv in
  let iv := t_interval t in
  let elapsed := sat (now - ts_last_run st) in
  let periodic_due := (0 <? iv) && negb sv && (iv <=? elapsed) in
  if periodic_due then
    let intervals := elapsed / iv in
    let missed := if 1 <? intervals then intervals - 1 else 0 in
    let due_time := sat (ts_last_run st + iv) in
    let due_at := if event_due then (if now <=? due_time then now else due_time) else due_time in
    ({| ts_last_single := sv; ts_last_run := now;
        ts_overruns := Z.min u64max (ts_overruns st + missed) |}, Some due_at)
  else
    ({| ts_last_single := sv; ts_last_run := ts_last_run st; ts_overruns := ts_overruns st |},
     if event_due then Some now else None).

(* ready entry = (task index, due_at) *)
Fixpoint collect_from (k : nat) (now : Z) (singles : list bool) (ts : list task) (sts : list tstate)
  : list tstate * list (nat * Z) :=
  match ts, sts with
  | t :: ts', st :: sts' =>
      let '(st', due) := step_task now (single_val singles t) t st in
      let '(rest, ready) := collect_from (S k) now singles ts' sts' in
      (st' :: rest, match due with Some d => (k, d) :: ready | None => ready end)
  | _, _ => ([], [])
  end.
Definition collect := collect_from 0.

(* sort key (priority, due_at, index), lexicographic *)
Definition key_leb (ts : list task) (a b : nat * Z) : bool :=
  let pa := t_prio (nth (fst a) ts {| t_interval := 0; t_single := None; t_prio := 0; t_progs := [] |}) in
  let pb := t_prio (nth (fst b) ts {| t_interval := 0; t_single := None; t_prio := 0; t_progs := [] |}) in
  if pa <? pb then true else if pb <? pa then false
  else if snd a <? snd b then true else if snd b <? snd a then false
  else Nat.leb (fst a) (fst b).

Fixpoint insert (leb : nat * Z -> nat * Z -> bool) (x : nat * Z) (l : list (nat * Z)) :=
  match l with
  | [] => [x]
  | y :: l' => if leb x y then x :: l else y :: insert leb x l'
  end.
Fixpoint isort (leb : nat * Z -> nat * Z -> bool) (l : list (nat * Z)) :=
  match l with [] => [] | x :: l' => insert leb x (isort leb l') end.

(* programs named by no task, in registration order *)
Definition scheduled (ts : list task) (p : nat) : bool := existsb (fun t => existsb (Nat.eqb p) (t_progs t)) ts.
Definition background (ts : list task) (nprog : nat) : list nat := filter (fun p => negb (scheduled ts p)) (seq 0 nprog).

Definition dummy_task : task := {| t_interval := 0; t_single := None; t_prio := 0; t_progs := [] |}.

(* one scan cycle: new task states, executed task indices in order, executed program sequence *)
Definition cycle (ts : list task) (nprog : nat) (sts : list tstate) (now : Z) (singles : list bool)
  : list tstate * list nat * list nat :=
  let '(sts', ready) := collect now singles ts sts in
  let order := map fst (isort (key_leb ts) ready) in
  let progs := flat_map (fun i => t_progs (nth i ts dummy_task)) order ++ background ts nprog in
  (sts', order, progs).

(* a timeline: list of (now, singles) *)
Fixpoint run_cycles (ts : list task) (nprog : nat) (sts : list tstate) (tl : list (Z * list bool))
  : list (list nat * list nat * list Z) :=
  match tl with
  | [] => []
  | (now, singles) :: tl' =>
      let '(sts', order, progs) := cycle ts nprog sts now singles in
      (order, progs, map ts_overruns sts') :: run_cycles ts nprog sts' tl'
  end.
Fixpoint states_after (ts : list task) (nprog : nat) (sts : list tstate) (tl : list (Z * list bool)) : list tstate :=
  match tl with
  | [] => sts
  | (now, singles) :: tl' => states_after ts nprog (fst (fst (cycle ts nprog sts now singles))) tl'
  end.
