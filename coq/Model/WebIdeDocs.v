(* Several documents, directory / file renames and deletes: the document bookkeeping of
   crates/trust-runtime/src/web/ide.rs (open_source, apply_source, rename_entry, delete_entry) as
   called sequentially.  A path is (directory, file); renaming a directory moves exactly the
   entries of that directory and bumps their versions, everything else is untouched.  Directories exist on their
   own (md_dirs): deleting or moving the last file of a directory leaves the empty directory behind, and moving a file
   into a directory that does not exist creates it. *)
From Coq Require Import List Bool Arith.
From TP Require Import Model.WebIde.
Import ListNotations.

Definition key := (nat * nat)%type.
Definition key_eqb (a b : key) : bool := Nat.eqb (fst a) (fst b) && Nat.eqb (snd a) (snd b).
Fixpoint klookup {A} (l : list (key * A)) (k : key) : option A :=
  match l with [] => None | (k', v) :: l' => if key_eqb k k' then Some v else klookup l' k end.
Definition kremove {A} (l : list (key * A)) (k : key) : list (key * A) := filter (fun e => negb (key_eqb k (fst e))) l.
Definition kset {A} (l : list (key * A)) (k : key) (v : A) : list (key * A) := (k, v) :: kremove l k.
Record mstate := { md_disk : list (key * content); md_docs : list (key * doc); md_dirs : list nat }.
Definition dir_exists (s : mstate) (d : nat) : bool := existsb (Nat.eqb d) (md_dirs s).
Definition dremove (l : list nat) (d : nat) : list nat := filter (fun x => negb (Nat.eqb d x)) l.
Definition bump (d : doc) : doc := {| d_content := d_content d; d_version := S (d_version d) |}.
Definition move_dir {A} (f : A -> A) (l : list (key * A)) (d d' : nat) : list (key * A) :=
  map (fun e => if Nat.eqb (fst (fst e)) d then ((d', snd (fst e)), f (snd e)) else e) l.

Inductive mcall := MOpen (k : key) | MApply (k : key) (expected : nat) (c : content) | MExternal (k : key) (c : content)
                 | MRenameDir (d d' : nat) | MRenameFile (k k' : key) | MDelete (k : key) | MDeleteDir (d : nat).
Inductive mout := MVersion (v : nat) (c : content) | MConflict (v : nat) | MNotFound | MExists | MDone.
Definition mstep (s : mstate) (o : mcall) : mstate * mout :=
  match o with
  | MOpen k =>
      match klookup (md_disk s) k with
      | None => (s, MNotFound)
      | Some seen => let d := sync (klookup (md_docs s) k) seen in
                     ({| md_disk := md_disk s; md_docs := kset (md_docs s) k d; md_dirs := md_dirs s |}, MVersion (d_version d) seen)
      end
  | MApply k e c =>
      match klookup (md_disk s) k with
      | None => (s, MNotFound)
      | Some seen =>
          let d := sync (klookup (md_docs s) k) seen in
          if Nat.eqb (d_version d) e then
            ({| md_disk := kset (md_disk s) k c; md_docs := kset (md_docs s) k {| d_content := c; d_version := S (d_version d) |}; md_dirs := md_dirs s |}, MVersion (S (d_version d)) c)
          else ({| md_disk := md_disk s; md_docs := kset (md_docs s) k d; md_dirs := md_dirs s |}, MConflict (d_version d))
      end
  | MExternal k c => match klookup (md_disk s) k with None => (s, MNotFound) | Some _ => ({| md_disk := kset (md_disk s) k c; md_docs := md_docs s; md_dirs := md_dirs s |}, MDone) end
  | MRenameDir d d' =>
      if negb (dir_exists s d) then (s, MNotFound)
      else if dir_exists s d' then (s, MExists)
      else ({| md_disk := move_dir (fun c => c) (md_disk s) d d'; md_docs := move_dir bump (md_docs s) d d'; md_dirs := d' :: dremove (md_dirs s) d |}, MDone)
  | MRenameFile k k' =>
      match klookup (md_disk s) k, klookup (md_disk s) k' with
      | None, _ => (s, MNotFound)
      | Some _, Some _ => (s, MExists)
      | Some c, None =>
          ({| md_disk := kset (kremove (md_disk s) k) k' c;
              md_docs := match klookup (md_docs s) k with Some d => kset (kremove (md_docs s) k) k' (bump d) | None => md_docs s end;
              md_dirs := if dir_exists s (fst k') then md_dirs s else fst k' :: md_dirs s |}, MDone)
      end
  | MDelete k => match klookup (md_disk s) k with None => (s, MNotFound) | Some _ => ({| md_disk := kremove (md_disk s) k; md_docs := kremove (md_docs s) k; md_dirs := md_dirs s |}, MDone) end
  | MDeleteDir d =>
      if negb (dir_exists s d) then (s, MNotFound)
      else ({| md_disk := filter (fun e => negb (Nat.eqb (fst (fst e)) d)) (md_disk s); md_docs := filter (fun e => negb (Nat.eqb (fst (fst e)) d)) (md_docs s);
            md_dirs := dremove (md_dirs s) d |}, MDone)
  end.
Fixpoint mrun (s : mstate) (os : list mcall) : list mout :=
  match os with [] => [] | o :: os' => let '(s', out) := mstep s o in out :: mrun s' os' end.
