(* Event (SINGLE) task bookkeeping across restarts: crates/trust-runtime/src/task.rs (TaskState,
   last_single), runtime/cycle.rs collect_ready_tasks, runtime/restart.rs (task state is re-created).
   The event program only counts its activations in a non-retained global. *)
From Coq Require Import ZArith List Bool.
Import ListNotations.
Open Scope Z_scope.

Record ev := { e_trig : bool; e_latch : bool; e_count : Z }.
Definition ev_fresh : ev := {| e_trig := false; e_latch := false; e_count := 0 |}.
Inductive ev_op := ECycle | ESetTrig (v : bool) | ERestart | EOther.
(* [keep_latch] = a restart that rewinds the task state but forgets the edge latch (not the code) *)
Definition ev_step (keep_latch : bool) (faulted : bool) (s : ev) (o : ev_op) : ev :=
  match o with
  | ECycle => if faulted then s
              else {| e_trig := e_trig s; e_latch := e_trig s;
                      e_count := if e_trig s && negb (e_latch s) then e_count s + 1 else e_count s |}
  | ESetTrig v => {| e_trig := v; e_latch := e_latch s; e_count := e_count s |}
  | ERestart => {| e_trig := false; e_latch := if keep_latch then e_latch s else false; e_count := 0 |}   (* globals re-initialised, task state re-created *)
  | EOther => s
  end.
Definition ev_run (keep : bool) (s : ev) (ops : list ev_op) : ev := fold_left (ev_step keep false) ops s.

(* Periodic (INTERVAL) task bookkeeping: TaskState.last_run against the resource clock.  A cycle at clock value [now] runs the
   task when a whole interval has elapsed since last_run (elapsed may be negative when last_run lies in the future: the task
   then does not run); a restart re-creates the task state at the restarted clock, i.e. last_run = 0, and re-initialises the
   (non-retained) activation counter.  [keep_last] = a restart that rewinds the clock but keeps last_run (not the code). *)
Record per := { p_last : Z; p_count : Z }.
Definition per_fresh : per := {| p_last := 0; p_count := 0 |}.
Definition per_step (keep_last : bool) (interval : Z) (faulted : bool) (now : Z) (s : per) (o : ev_op) : per :=
  match o with
  | ECycle => if faulted then s
              else if (0 <? interval) && (interval <=? now - p_last s) then {| p_last := now; p_count := p_count s + 1 |} else s
  | ERestart => {| p_last := if keep_last then p_last s else 0; p_count := 0 |}
  | ESetTrig _ | EOther => s
  end.
(* a trace after the restart: (faulted before the operation, clock after it, operation) *)
Definition per_run (keep : bool) (interval : Z) (s : per) (tr : list (bool * Z * ev_op)) : per :=
  fold_left (fun s x => per_step keep interval (fst (fst x)) (snd (fst x)) s (snd x)) tr s.
