(* Model of resource threads sharing configuration globals: crates/trust-runtime/src/scheduler.rs
   (run_resource_loop_with_shared, SharedGlobals, ResourceHandle/ResourceControl).
   One loop iteration of a resource reads shared memory at three points only - the stop flag
   (SeqCst load), the command queue (try_recv until empty) and the with_lock block that does
   sync_into; execute_cycle; sync_from under the SharedGlobals mutex - so an iteration is one
   atomic label of the interleaving model; controller actions (send a command, set the stop flag)
   are the other labels.  The program of a resource is a parameter: a function of the shared
   store and the resource's private store that may fault (its partial effects are still written
   back, as sync_from_locked runs whatever execute_cycle returned). *)
From Coq Require Import List Bool Arith.
Import ListNotations.

Section Resource.
  Variable G L : Type.                                   (* shared globals, private state *)
  Variable prog : nat -> G -> L -> G * L * bool.         (* resource id -> cycle effect, fault? *)

  Inductive rstate := Boot | Ready | Running | Paused | Stopped | Faulted.
  Inductive cmd := CPause | CResume | COther.
  Record res := {
    r_state : rstate;           (* what ResourceHandle::state reports *)
    r_alive : bool;             (* the thread is still in its loop *)
    r_paused : bool;
    r_queue : list cmd;         (* command channel, oldest first *)
    r_stop : bool;              (* the AtomicBool *)
    r_cycles : nat;             (* ghost: cycles executed *)
    r_saves : nat;              (* ghost: save_retain_store calls made by the loop *)
    r_local : L
  }.
  Record sys := { s_shared : G; s_res : list res }.

  Definition drain (r : res) : bool * rstate :=
    fold_left (fun acc c => match c with CPause => (true, Paused) | CResume => (false, Running) | COther => acc end)
              (r_queue r) (r_paused r, r_state r).

  (* one loop iteration of resource [i] *)
  Definition iter_res (i : nat) (g : G) (r : res) : G * res :=
    if negb (r_alive r) then (g, r)
    else if r_stop r then
      (g, {| r_state := Stopped; r_alive := false; r_paused := r_paused r; r_queue := r_queue r; r_stop := true;
             r_cycles := r_cycles r; r_saves := S (r_saves r); r_local := r_local r |})
    else
      let '(p, st) := drain r in
      if p then
        (g, {| r_state := st; r_alive := true; r_paused := true; r_queue := []; r_stop := false;
               r_cycles := r_cycles r; r_saves := r_saves r; r_local := r_local r |})
      else
        let '(g', l', fault) := prog i g (r_local r) in
        if fault then
          (g', {| r_state := Faulted; r_alive := false; r_paused := false; r_queue := []; r_stop := false;
                  r_cycles := S (r_cycles r); r_saves := r_saves r; r_local := l' |})
        else
          (g', {| r_state := st; r_alive := true; r_paused := false; r_queue := []; r_stop := false;
                  r_cycles := S (r_cycles r); r_saves := r_saves r; r_local := l' |}).

  Fixpoint upd (l : list res) (i : nat) (r : res) : list res :=
    match l, i with
    | [], _ => []
    | _ :: l', 0 => r :: l'
    | x :: l', S i' => x :: upd l' i' r
    end.
  Inductive label := LIter (i : nat) | LSend (i : nat) (c : cmd) | LStop (i : nat).
  Definition step (s : sys) (l : label) : sys :=
    match l with
    | LIter i => match nth_error (s_res s) i with
                 | Some r => let '(g, r') := iter_res i (s_shared s) r in {| s_shared := g; s_res := upd (s_res s) i r' |}
                 | None => s
                 end
    | LSend i c => match nth_error (s_res s) i with
                   | Some r => {| s_shared := s_shared s;
                                  s_res := upd (s_res s) i {| r_state := r_state r; r_alive := r_alive r; r_paused := r_paused r; r_queue := r_queue r ++ [c];
                                                             r_stop := r_stop r; r_cycles := r_cycles r; r_saves := r_saves r; r_local := r_local r |} |}
                   | None => s
                   end
    | LStop i => match nth_error (s_res s) i with
                 | Some r => {| s_shared := s_shared s;
                                s_res := upd (s_res s) i {| r_state := r_state r; r_alive := r_alive r; r_paused := r_paused r; r_queue := r_queue r;
                                                           r_stop := true; r_cycles := r_cycles r; r_saves := r_saves r; r_local := r_local r |} |}
                 | None => s
                 end
    end.
  Definition run (s : sys) (ls : list label) : sys := fold_left step ls s.
  Definition fresh (l0 : L) : res :=
    {| r_state := Running; r_alive := true; r_paused := false; r_queue := []; r_stop := false; r_cycles := 0; r_saves := 0; r_local := l0 |}.
End Resource.
