(* The ST core: dynamic interpreter M, mirroring crates/trust-runtime/src/eval/{ops.rs, stmt.rs,
   expr/eval.rs, expr/access.rs}, numeric.rs and harness/lower/expr.rs (literal lowering), for
   BOOL and the eight integer kinds; assignment, IF, CASE, FOR, WHILE, REPEAT, EXIT, CONTINUE,
   RETURN. The runtime is dynamically typed: a value carries its kind.
   Flags select the code variant (decided by correspondence):
     [o_neg_checked]   unary minus reports Overflow instead of panicking on the minimum value
     [o_for_checked]   the FOR increment reports Overflow instead of panicking on i64 overflow
     [o_coerce_write]  an assignment converts the value to the kind the target already holds
     [o_case_unsigned] CASE dispatches on unsigned selectors too (else: CaseSelectorType)
     [o_return_ok]     RETURN in the PROGRAM body ends the program (else: InvalidControlFlow) *)
From Coq Require Import ZArith List Bool.
Import ListNotations.
Open Scope Z_scope.

Inductive ikind := KSInt | KInt | KDInt | KLInt | KUSInt | KUInt | KUDInt | KULInt.
Definition ik_eqb (a b : ikind) : bool :=
  match a, b with
  | KSInt, KSInt | KInt, KInt | KDInt, KDInt | KLInt, KLInt
  | KUSInt, KUSInt | KUInt, KUInt | KUDInt, KUDInt | KULInt, KULInt => true
  | _, _ => false
  end.
Definition rank (k : ikind) : Z :=
  match k with KSInt => 0 | KInt => 1 | KDInt => 2 | KLInt => 3 | KUSInt => 4 | KUInt => 5 | KUDInt => 6 | KULInt => 7 end.
Definition is_signed (k : ikind) : bool :=
  match k with KSInt | KInt | KDInt | KLInt => true | _ => false end.
Definition kbits (k : ikind) : Z :=
  match k with KSInt | KUSInt => 8 | KInt | KUInt => 16 | KDInt | KUDInt => 32 | KLInt | KULInt => 64 end.
Definition kmin (k : ikind) : Z := if is_signed k then - 2 ^ (kbits k - 1) else 0.
Definition kmax (k : ikind) : Z := if is_signed k then 2 ^ (kbits k - 1) - 1 else 2 ^ kbits k - 1.
Definition in_range (k : ikind) (z : Z) : bool := (kmin k <=? z) && (z <=? kmax k).
Definition wider (a b : ikind) : ikind := if rank b <=? rank a then a else b.

Inductive value := VBool (b : bool) | VInt (k : ikind) (z : Z).

Inductive fault :=
  (* value-dependent *)
  | FDivZero | FModZero | FOverflow | FForStepZero | FIndexOOB
  (* static-class: the checker should have excluded these *)
  | FTypeMismatch | FCondNotBool | FCaseSelector | FControlFlow | FUndefinedVar
  (* a Rust arithmetic panic (debug assertions) *)
  | FPanic.
Definition static_class (f : fault) : bool :=
  match f with FTypeMismatch | FCondNotBool | FCaseSelector | FControlFlow | FUndefinedVar | FPanic => true | _ => false end.

Inductive res (A : Type) := Ok (a : A) | Fault (f : fault) | OutOfFuel.
Arguments Ok {A} a. Arguments Fault {A} f. Arguments OutOfFuel {A}.
Definition bind {A B} (r : res A) (f : A -> res B) : res B :=
  match r with Ok a => f a | Fault e => Fault e | OutOfFuel => OutOfFuel end.
Notation "x <- r ;; k" := (bind r (fun x => k)) (at level 61, r at next level, right associativity).

Record opts := { o_neg_checked : bool; o_for_checked : bool; o_coerce_write : bool;
                 o_case_unsigned : bool; o_return_ok : bool }.

Inductive unop := UNeg | UNot.
Inductive binop := BAdd | BSub | BMul | BDiv | BMod | BEq | BNe | BLt | BLe | BGt | BGe | BAnd | BOr | BXor.
(* [ELit u v]: u = the source literal was untyped (lowered to DINT); the evaluator ignores u *)
(* [EIdx base lo n ki i]: element i of a one-dimensional integer array ARRAY[lo .. lo+n-1] whose elements occupy the
   store slots base .. base+n-1 (the code keeps them in one Value::Array; the flat layout is the model's);
   ki = the declared kind of the index expression (an annotation: the interpreter ignores it) *)
Inductive expr := ELit (u : bool) (v : value) | EVar (x : nat) | EUn (op : unop) (e : expr) | EBin (op : binop) (l r : expr)
                | EIdx (base : nat) (lo : Z) (n : nat) (ki : ikind) (i : expr).

Definition i64max : Z := 2 ^ 63 - 1.
(* numeric.rs *)
Definition to_i64 (k : ikind) (z : Z) : res Z :=
  match k with KULInt => if i64max <? z then Fault FOverflow else Ok z | _ => Ok z end.
Definition to_u64 (k : ikind) (z : Z) : res Z :=
  if is_signed k && (z <? 0) then Fault FTypeMismatch else Ok z.
Definition from_wide (k : ikind) (z : Z) : res value := if in_range k z then Ok (VInt k z) else Fault FOverflow.

(* ops.rs apply_unary *)
Definition apply_unary (o : opts) (op : unop) (v : value) : res value :=
  match op, v with
  | UNeg, VInt k z =>
      if is_signed k then
        (if z =? kmin k then (if o_neg_checked o then Fault FOverflow else Fault FPanic) else Ok (VInt k (- z)))
      else Fault FTypeMismatch
  | UNot, VBool b => Ok (VBool (negb b))
  | _, _ => Fault FTypeMismatch
  end.

Definition cmp_op (op : binop) (a b : Z) : bool :=
  match op with
  | BEq => a =? b | BNe => negb (a =? b) | BLt => a <? b | BLe => a <=? b | BGt => b <? a | BGe => b <=? a
  | _ => false
  end.
Definition is_cmp (op : binop) : bool := match op with BEq | BNe | BLt | BLe | BGt | BGe => true | _ => false end.
Definition is_logic (op : binop) : bool := match op with BAnd | BOr | BXor => true | _ => false end.

(* ops.rs apply_binary on the core *)
Definition apply_binary (op : binop) (l r : value) : res value :=
  if is_logic op then
    match l, r with
    | VBool a, VBool b => Ok (VBool (match op with BAnd => a && b | BOr => a || b | _ => xorb a b end))
    | _, _ => Fault FTypeMismatch
    end
  else
    match l, r with
    | VInt k1 a, VInt k2 b =>
        let t := wider k1 k2 in
        if is_signed t then
          a' <- to_i64 k1 a ;; b' <- to_i64 k2 b ;;
          if is_cmp op then Ok (VBool (cmp_op op a' b'))
          else match op with
               | BAdd => from_wide t (a' + b')
               | BSub => from_wide t (a' - b')
               | BMul => from_wide t (a' * b')
               | BDiv => if b' =? 0 then Fault FDivZero else from_wide t (Z.quot a' b')
               | BMod => if b' =? 0 then Fault FModZero else from_wide t (Z.rem a' b')
               | _ => Fault FTypeMismatch
               end
        else
          a' <- to_u64 k1 a ;; b' <- to_u64 k2 b ;;
          if is_cmp op then Ok (VBool (cmp_op op a' b'))
          else match op with
               | BAdd => from_wide t (a' + b')
               | BSub => if a' <? b' then Fault FOverflow else from_wide t (a' - b')
               | BMul => from_wide t (a' * b')
               | BDiv => if b' =? 0 then Fault FDivZero else from_wide t (a' / b')
               | BMod => if b' =? 0 then Fault FModZero else from_wide t (a' mod b')
               | _ => Fault FTypeMismatch
               end
    | VBool a, VBool b =>
        (* Eq/Ne compare the values; Lt..Ge order FALSE < TRUE; arithmetic is a type mismatch *)
        match op with
        | BEq => Ok (VBool (Bool.eqb a b)) | BNe => Ok (VBool (negb (Bool.eqb a b)))
        | BLt => Ok (VBool (negb a && b)) | BLe => Ok (VBool (negb a || b))
        | BGt => Ok (VBool (a && negb b)) | BGe => Ok (VBool (a || negb b))
        | _ => Fault FTypeMismatch
        end
    | _, _ =>
        match op with
        | BEq => Ok (VBool false) | BNe => Ok (VBool true)   (* numeric_eq: unequal variants *)
        | _ => Fault FTypeMismatch
        end
    end.

Definition store := list value.
Definition rd (s : store) (x : nat) : res value :=
  match nth_error s x with Some v => Ok v | None => Fault FUndefinedVar end.
Fixpoint upd (s : store) (x : nat) (v : value) : store :=
  match x, s with
  | O, _ :: r => v :: r
  | S x', y :: r => y :: upd r x' v
  | _, [] => []
  end.

(* numeric.rs coerce_numeric_like (the repaired assignment) *)
Definition coerce_like (template v : value) : res value :=
  match template, v with
  | VInt kt _, VInt kv z => if ik_eqb kt kv then Ok v else from_wide kt z
  | _, _ => Ok v
  end.
Definition write (o : opts) (s : store) (x : nat) (v : value) : res store :=
  t <- rd s x ;;
  v' <- (if o_coerce_write o then coerce_like t v else Ok v) ;;
  Ok (upd s x v').

(* stmt.rs int_value / expr/access.rs index_to_i64: `as i64` wraps a ULINT above i64::MAX *)
Definition int_value (v : value) : res Z :=
  match v with
  | VInt KULInt z => Ok (if i64max <? z then z - 2 ^ 64 else z)
  | VInt _ z => Ok z
  | VBool _ => Fault FTypeMismatch
  end.
(* expr/access.rs array_offset for one dimension: IndexOutOfBounds outside lo .. lo+n-1 *)
Definition idx_slot (base : nat) (lo : Z) (n : nat) (iv : value) : res nat :=
  z <- int_value iv ;;
  if (z <? lo) || (lo + Z.of_nat n - 1 <? z) then Fault FIndexOOB else Ok (base + Z.to_nat (z - lo))%nat.

(* expr/eval.rs, with the short-circuit AND / OR; Expr::Index = eval_indices + read_indices *)
Fixpoint eval (o : opts) (s : store) (e : expr) : res value :=
  match e with
  | ELit _ v => Ok v
  | EVar x => rd s x
  | EUn op e1 => v <- eval o s e1 ;; apply_unary o op v
  | EBin BAnd l r =>
      lv <- eval o s l ;;
      match lv with VBool false => Ok (VBool false) | _ => rv <- eval o s r ;; apply_binary BAnd lv rv end
  | EBin BOr l r =>
      lv <- eval o s l ;;
      match lv with VBool true => Ok (VBool true) | _ => rv <- eval o s r ;; apply_binary BOr lv rv end
  | EBin op l r => lv <- eval o s l ;; rv <- eval o s r ;; apply_binary op lv rv
  | EIdx b lo n _ i => iv <- eval o s i ;; x <- idx_slot b lo n iv ;; rd s x
  end.
Definition eval_bool (o : opts) (s : store) (e : expr) : res bool :=
  v <- eval o s e ;; match v with VBool b => Ok b | _ => Fault FCondNotBool end.

Inductive label := LSingle (v : Z) | LRange (lo hi : Z).
Inductive stmt :=
  | SAssign (x : nat) (e : expr)
  | SAssignIdx (base : nat) (lo : Z) (n : nat) (ki : ikind) (i : expr) (e : expr)   (* a[i] := e *)
  | SIf (c : expr) (t : list stmt) (elifs : list (expr * list stmt)) (el : list stmt)
  | SCase (sel : expr) (branches : list (list label * list stmt)) (el : list stmt)
  | SFor (x : nat) (start stop step : expr) (body : list stmt)
  | SWhile (c : expr) (body : list stmt)
  | SRepeat (body : list stmt) (c : expr)
  | SExit | SContinue | SReturn.

Inductive signal := GNormal | GExit | GContinue | GReturn.

Definition label_matches (l : label) (z : Z) : bool :=
  match l with LSingle v => v =? z | LRange lo hi => (lo <=? z) && (z <=? hi) end.

(* stmt.rs coerce_loop_value *)
Definition coerce_loop (template : value) (z : Z) : res value :=
  match template with
  | VInt k _ =>
      if is_signed k then from_wide k z
      else if z <? 0 then Fault FTypeMismatch else from_wide k z
  | VBool _ => Fault FTypeMismatch
  end.

Section Exec.
  Variable o : opts.
  (* the expression evaluator: [eval o] for the interpreter M, the typed reference evaluator for R *)
  Variable ev : store -> expr -> res value.
  Definition ev_bool (s : store) (e : expr) : res bool :=
    v <- ev s e ;; match v with VBool b => Ok b | _ => Fault FCondNotBool end.
  (* open recursion: [ex depth s st] executes a nested statement (with less fuel) *)
  Variable ex : nat -> store -> stmt -> res (store * signal).

  Fixpoint run_block (depth : nat) (s : store) (b : list stmt) : res (store * signal) :=
    match b with
    | [] => Ok (s, GNormal)
    | st1 :: b' =>
        r <- ex depth s st1 ;;
        match snd r with GNormal => run_block depth (fst r) b' | _ => Ok r end
    end.

  Fixpoint run_elifs (depth : nat) (s : store) (l : list (expr * list stmt)) (el : list stmt) : res (store * signal) :=
    match l with
    | [] => run_block depth s el
    | (c, blk) :: l' => b <- ev_bool s c ;; if b then run_block depth s blk else run_elifs depth s l' el
    end.
  Fixpoint run_case (depth : nat) (s : store) (z : Z) (l : list (list label * list stmt)) (el : list stmt) : res (store * signal) :=
    match l with
    | [] => run_block depth s el
    | (labels, blk) :: l' =>
        if existsb (fun lb => label_matches lb z) labels then run_block depth s blk else run_case depth s z l' el
    end.

  (* loops run on explicit fuel [n]; the body executes with loop_depth + 1 *)
  Fixpoint for_loop (n : nat) (depth : nat) (x : nat) (template : value) (ei pi : Z) (body : list stmt)
    (s : store) (cur : Z) : res (store * signal) :=
    match n with
    | O => OutOfFuel
    | S n' =>
        if ((0 <? pi) && (ei <? cur)) || ((pi <? 0) && (cur <? ei)) then Ok (s, GNormal)
        else
          r <- run_block (S depth) s body ;;
          match snd r with
          | GReturn => Ok r
          | GExit => Ok (fst r, GNormal)
          | _ =>
              let next := cur + pi in
              if (next <? - 2 ^ 63) || (i64max <? next)
              then (if o_for_checked o then Fault FOverflow else Fault FPanic)
              else c <- coerce_loop template next ;; for_loop n' depth x template ei pi body (upd (fst r) x c) next
          end
    end.
  Fixpoint while_loop (n : nat) (depth : nat) (c : expr) (body : list stmt) (s : store) : res (store * signal) :=
    match n with
    | O => OutOfFuel
    | S n' =>
        b <- ev_bool s c ;;
        if negb b then Ok (s, GNormal)
        else
          r <- run_block (S depth) s body ;;
          match snd r with
          | GReturn => Ok r
          | GExit => Ok (fst r, GNormal)
          | _ => while_loop n' depth c body (fst r)
          end
    end.
  Fixpoint repeat_loop (n : nat) (depth : nat) (body : list stmt) (c : expr) (s : store) : res (store * signal) :=
    match n with
    | O => OutOfFuel
    | S n' =>
        r <- run_block (S depth) s body ;;
        match snd r with
        | GReturn => Ok r
        | GExit => Ok (fst r, GNormal)
        | _ => b <- ev_bool (fst r) c ;; if b then Ok (fst r, GNormal) else repeat_loop n' depth body c (fst r)
        end
    end.

  (* one statement; [n] = fuel available to loops of this statement *)
  Definition step (n : nat) (depth : nat) (s : store) (st : stmt) : res (store * signal) :=
    match st with
    | SAssign x e => v <- ev s e ;; s' <- write o s x v ;; Ok (s', GNormal)
    (* Stmt::Assign evaluates the value first; write_lvalue then evaluates the index, checks the bounds and stores the
       value in the element as it is (write_indices) *)
    | SAssignIdx b lo n _ i e =>
        v <- ev s e ;; iv <- ev s i ;; x <- idx_slot b lo n iv ;; s' <- write o s x v ;; Ok (s', GNormal)
    | SIf c t elifs el =>
        b <- ev_bool s c ;; if b then run_block depth s t else run_elifs depth s elifs el
    | SCase sel branches el =>
        v <- ev s sel ;;
        match v with
        | VInt k z =>
            if is_signed k || o_case_unsigned o
            then (if i64max <? z then run_block depth s el else run_case depth s z branches el)
            else Fault FCaseSelector
        | VBool _ => Fault FCaseSelector
        end
    | SFor x start stop step body =>
        sv <- ev s start ;; evv <- ev s stop ;; pv <- ev s step ;;
        si <- int_value sv ;; ei <- int_value evv ;; pi <- int_value pv ;;
        if pi =? 0 then Fault FForStepZero else
        template <- rd s x ;;
        match template with
        | VInt k _ =>
            if negb (is_signed k) && (pi <? 0) then Fault FTypeMismatch else
            c0 <- coerce_loop template si ;;
            for_loop n depth x template ei pi body (upd s x c0) si
        | VBool _ => Fault FTypeMismatch
        end
    | SWhile c body => while_loop n depth c body s
    | SRepeat body c => repeat_loop n depth body c s
    | SExit => if Nat.eqb depth 0 then Fault FControlFlow else Ok (s, GExit)
    | SContinue => if Nat.eqb depth 0 then Fault FControlFlow else Ok (s, GContinue)
    | SReturn => Ok (s, GReturn)
    end.
End Exec.

Fixpoint exec_with (o : opts) (ev : store -> expr -> res value) (fuel : nat) (depth : nat) (s : store) (st : stmt)
  : res (store * signal) :=
  match fuel with
  | O => OutOfFuel
  | S f => step o ev (exec_with o ev f) f depth s st
  end.
(* Runtime::execute_program: anything but a normal completion of the body is InvalidControlFlow *)
Definition run_program_with (o : opts) (ev : store -> expr -> res value) (fuel : nat) (s : store) (body : list stmt) : res store :=
  r <- run_block (exec_with o ev fuel) 0 s body ;;
  match snd r with
  | GNormal => Ok (fst r)
  | GReturn => if o_return_ok o then Ok (fst r) else Fault FControlFlow
  | _ => Fault FControlFlow
  end.

(* M: the interpreter *)
Definition exec (o : opts) := exec_with o (eval o).
Definition exec_block (o : opts) (fuel : nat) := run_block (exec o fuel).
Definition run_program (o : opts) := run_program_with o (eval o).
