(* C05: the nondeterminism that exists in the code — the iteration order of randomly seeded std
   hash maps — modelled as an adversary: a map is an association list in an ORDER CHOSEN BY THE
   ADVERSARY (any permutation). Clients are programs over get / insert / contains / remove; an
   interner ("Vec of entries + index map") is the pattern the bytecode encoder uses. *)
From Coq Require Import List Bool Arith.
Import ListNotations.

Definition amap := list (nat * nat).   (* keys and values abstracted to naturals *)
Fixpoint lookup (m : amap) (k : nat) : option nat :=
  match m with [] => None | (k', v) :: m' => if Nat.eqb k k' then Some v else lookup m' k end.
Fixpoint remove_key (m : amap) (k : nat) : amap :=
  match m with [] => [] | (k', v) :: m' => if Nat.eqb k k' then remove_key m' k else (k', v) :: remove_key m' k end.
Definition insert (m : amap) (k v : nat) : amap := (k, v) :: remove_key m k.

Inductive op := Get (k : nat) | Insert (k v : nat) | Contains (k : nat) | Remove (k : nat).
Definition exec_op (m : amap) (o : op) : amap * option nat :=
  match o with
  | Get k => (m, lookup m k)
  | Insert k v => (insert m k v, lookup m k)
  | Contains k => (m, match lookup m k with Some _ => Some 1 | None => Some 0 end)
  | Remove k => (remove_key m k, lookup m k)
  end.
Fixpoint run_ops (m : amap) (ops : list op) : amap * list (option nat) :=
  match ops with
  | [] => (m, [])
  | o :: ops' => let '(m1, r) := exec_op m o in let '(m2, rs) := run_ops m1 ops' in (m2, r :: rs)
  end.

(* two representations the adversary may hand out for the same abstract map *)
Definition equiv (m1 m2 : amap) : Prop := forall k, lookup m1 k = lookup m2 k.

(* the interner: ids are positions in an ordered vector; the hash map is only consulted *)
Definition intern (st : list nat * amap) (s : nat) : (list nat * amap) * nat :=
  let '(vec, idx) := st in
  match lookup idx s with
  | Some i => (st, i)
  | None => ((vec ++ [s], insert idx s (length vec)), length vec)
  end.
Fixpoint intern_all (st : list nat * amap) (l : list nat) : (list nat * amap) * list nat :=
  match l with
  | [] => (st, [])
  | s :: l' => let '(st1, i) := intern st s in let '(st2, is) := intern_all st1 l' in (st2, i :: is)
  end.
(* what an order-exposing client sees *)
Definition iter_keys (m : amap) : list nat := map fst m.
