(* A small format-description calculus for the CONTENTS of the STBC sections
   (crates/trust-runtime/src/bytecode/{decode,encode,reader}.rs).

     tree   the decoded value: numbers, byte strings, lists
     fmt    format descriptions: fixed little-endian fields, a validated u8 enum, reserved bytes, length-prefixed
            (optionally 4-padded, optionally validated) byte strings, records, count-prefixed repetition and a dependent
            pair FBind (tagged unions, tails that depend on an earlier field)
     dec    the decoder (BytecodeReader discipline: every read is bounds-checked, the cursor only advances)
     enc    the encoder (reserved bytes and padding are written as zeros)
     cap    the largest capacity the decoder requests from the allocator (Vec::with_capacity(count.min(remaining)),
            and the length of a byte string it copies after the bounds check)
     wf     the tree is encodable in the format

   Bytes are N (< 256) in a list N. Model only, no proofs (Proofs/C11Fmt.v).

   REPETITION AND FUEL.  `FRep f` reads a u32 count and then decodes f count times (Rust: `for _ in 0..count`).
   The model iterates with fuel = number of bytes that remain after the count.  Every repeated element of every STBC
   section consumes at least one byte (min_size f >= 1, part of wf and checked statically for every descriptor in
   Proofs/C11Fmt.v: fmt_ok), so after `fuel` elements the input is exhausted and the next element fails with
   UnexpectedEof in Rust as well: running out of fuel and failing coincide.  (For an element format that can consume
   zero bytes the model would fail where Rust loops count times; no such format is used, and wf excludes them.) *)
From Coq Require Import List Bool Arith NArith Lia.
From TP Require Import Model.Stbc.
Import ListNotations.
Open Scope N_scope.

Inductive tree := TN (n : N) | TB (bs : list N) | TL (l : list tree).

Inductive fmt :=
| FU8 | FU16 | FU32 | FU64                       (* read_u8 / read_u16 / read_u32 / read_u64 (an i64 is its raw u64 value) *)
| FEnum8 (valid : N -> bool)                      (* a u8 that must satisfy valid (XKind::from_raw(..).ok_or(InvalidSection)) *)
| FSkip (n : N)                                   (* n reserved bytes: ignored by the decoder, zeros from the encoder; no tree inside FRec *)
| FBytes (pad : bool) (valid : list N -> bool)    (* u32 length + bytes (+ padding so that 4 + len is a multiple of 4 when pad) *)
| FRec (l : list fmt)                             (* fields in order -> TL (FSkip fields contribute nothing) *)
| FRep (f : fmt)                                  (* u32 count + count elements -> TL *)
| FBind (f : fmt) (k : tree -> fmt).              (* f, then the format chosen by its value -> TL [t; t'] *)

Definition le64 (b0 b1 b2 b3 b4 b5 b6 b7 : N) : N := le32 b0 b1 b2 b3 + 4294967296 * le32 b4 b5 b6 b7.
Definition enc64 (n : N) : list N := enc32 (n mod 4294967296) ++ enc32 (n / 4294967296).
Definition enc8 (n : N) : list N := [n mod 256].
Definition zeros (n : N) : list N := repeat 0 (N.to_nat n).
Definition all_zero (bs : list N) : bool := forallb (N.eqb 0) bs.
(* reader.read_bytes(n): None = UnexpectedEof.  The bound is checked in N before anything is converted to nat. *)
Definition take (n : N) (bs : list N) : option (list N * list N) :=
  if blen bs <? n then None else Some (firstn (N.to_nat n) bs, skipn (N.to_nat n) bs).
Definition pad_len (pad : bool) (len : N) : N := if pad then align4 (4 + len) - (4 + len) else 0.
Definition skip_of (f : fmt) : option N := match f with FSkip n => Some n | _ => None end.
Definition decoder := list N -> option (tree * list N).

(* lower bound of the number of bytes an encoding of the format occupies *)
Fixpoint min_size (f : fmt) : N :=
  match f with
  | FU8 => 1 | FU16 => 2 | FU32 => 4 | FU64 => 8
  | FEnum8 _ => 1
  | FSkip n => n
  | FBytes _ _ => 4
  | FRec l => fold_right (fun g a => min_size g + a) 0 l
  | FRep _ => 4
  | FBind g _ => min_size g
  end.

(* ---- decoder; strict = true additionally rejects non-zero reserved / padding bytes (the canonical inputs) ---- *)
Section Gen.
  Variable strict : bool.
  Definition dec_skip (n : N) (bs : list N) : option (list N) :=
    match take n bs with
    | Some (z, rest) => if strict && negb (all_zero z) then None else Some rest
    | None => None
    end.
  Definition dec_bytes (pad : bool) (valid : list N -> bool) (bs : list N) : option (tree * list N) :=
    match bs with
    | b0 :: b1 :: b2 :: b3 :: r =>
        let len := le32 b0 b1 b2 b3 in
        match take len r with
        | Some (s, r') => if valid s then match dec_skip (pad_len pad len) r' with Some r'' => Some (TB s, r'') | None => None end else None
        | None => None
        end
    | _ => None
    end.
  Section Seq.
    Variable d : fmt -> decoder.
    Fixpoint dec_seq (l : list fmt) (bs : list N) : option (list tree * list N) :=
      match l with
      | [] => Some ([], bs)
      | f :: l' =>
          match skip_of f with
          | Some n => match dec_skip n bs with Some rest => dec_seq l' rest | None => None end
          | None => match d f bs with
                    | Some (t, rest) => match dec_seq l' rest with Some (ts, rest') => Some (t :: ts, rest') | None => None end
                    | None => None
                    end
          end
      end.
  End Seq.
  Fixpoint dec_rep (d : decoder) (fuel : nat) (count : N) (bs : list N) : option (list tree * list N) :=
    if count =? 0 then Some ([], bs)
    else match fuel with
         | O => None
         | S fuel' => match d bs with
                      | Some (t, rest) => match dec_rep d fuel' (N.pred count) rest with Some (ts, rest') => Some (t :: ts, rest') | None => None end
                      | None => None
                      end
         end.
  Fixpoint decg (f : fmt) (bs : list N) {struct f} : option (tree * list N) :=
    match f with
    | FU8 => match bs with b :: r => Some (TN b, r) | _ => None end
    | FU16 => match bs with b0 :: b1 :: r => Some (TN (le16 b0 b1), r) | _ => None end
    | FU32 => match bs with b0 :: b1 :: b2 :: b3 :: r => Some (TN (le32 b0 b1 b2 b3), r) | _ => None end
    | FU64 => match bs with b0 :: b1 :: b2 :: b3 :: b4 :: b5 :: b6 :: b7 :: r => Some (TN (le64 b0 b1 b2 b3 b4 b5 b6 b7), r) | _ => None end
    | FEnum8 v => match bs with b :: r => if v b then Some (TN b, r) else None | _ => None end
    | FSkip n => match dec_skip n bs with Some r => Some (TL [], r) | None => None end
    | FBytes pad v => dec_bytes pad v bs
    | FRec l => match dec_seq decg l bs with Some (ts, r) => Some (TL ts, r) | None => None end
    | FRep g => match bs with
                | b0 :: b1 :: b2 :: b3 :: r =>
                    match dec_rep (decg g) (length r) (le32 b0 b1 b2 b3) r with Some (ts, r') => Some (TL ts, r') | None => None end
                | _ => None
                end
    | FBind g k => match decg g bs with
                   | Some (t, r) => match decg (k t) r with Some (t', r') => Some (TL [t; t'], r') | None => None end
                   | None => None
                   end
    end.
End Gen.
(* the decoder of decode.rs, and the canonical inputs *)
Definition dec : fmt -> list N -> option (tree * list N) := decg false.
Definition canonical (f : fmt) (bs : list N) : Prop := decg true f bs <> None.

(* ---- allocation ---- *)
Section CapSeq.
  Variable c : fmt -> list N -> N.
  Fixpoint cap_seq (l : list fmt) (bs : list N) : N :=
    match l with
    | [] => 0
    | f :: l' =>
        match skip_of f with
        | Some n => match dec_skip false n bs with Some rest => cap_seq l' rest | None => 0 end
        | None => N.max (c f bs) (match dec f bs with Some (_, rest) => cap_seq l' rest | None => 0 end)
        end
    end.
End CapSeq.
Fixpoint cap_rep (c : list N -> N) (d : decoder) (fuel : nat) (count : N) (bs : list N) : N :=
  if count =? 0 then 0
  else match fuel with
       | O => 0
       | S fuel' => N.max (c bs) (match d bs with Some (_, rest) => cap_rep c d fuel' (N.pred count) rest | None => 0 end)
       end.
Fixpoint cap (f : fmt) (bs : list N) {struct f} : N :=
  match f with
  | FBytes _ _ => match bs with
                  | b0 :: b1 :: b2 :: b3 :: r => let len := le32 b0 b1 b2 b3 in if blen r <? len then 0 else len     (* .to_vec() after the bounds check *)
                  | _ => 0
                  end
  | FRec l => cap_seq cap l bs
  | FRep g => match bs with
              | b0 :: b1 :: b2 :: b3 :: r =>
                  let count := le32 b0 b1 b2 b3 in
                  N.max (N.min count (blen r)) (cap_rep (cap g) (dec g) (length r) count r)     (* Vec::with_capacity(count.min(reader.remaining())) *)
              | _ => 0
              end
  | FBind g k => N.max (cap g bs) (match dec g bs with Some (t, r) => cap (k t) r | None => 0 end)
  | _ => 0
  end.

(* ---- encoder (None: the shape of the tree does not fit the format) ---- *)
Section EncSeq.
  Variable e : fmt -> tree -> option (list N).
  Fixpoint enc_seq (l : list fmt) (ts : list tree) : option (list N) :=
    match l with
    | [] => match ts with [] => Some [] | _ => None end
    | f :: l' =>
        match skip_of f with
        | Some n => match enc_seq l' ts with Some r => Some (zeros n ++ r) | None => None end
        | None => match ts with
                  | t :: ts' => match e f t, enc_seq l' ts' with Some a, Some r => Some (a ++ r) | _, _ => None end
                  | [] => None
                  end
        end
    end.
End EncSeq.
Fixpoint enc_all (e : tree -> option (list N)) (ts : list tree) : option (list N) :=
  match ts with
  | [] => Some []
  | t :: ts' => match e t, enc_all e ts' with Some a, Some r => Some (a ++ r) | _, _ => None end
  end.
Fixpoint enc (f : fmt) (t : tree) {struct f} : option (list N) :=
  match f with
  | FU8 => match t with TN n => Some (enc8 n) | _ => None end
  | FU16 => match t with TN n => Some (enc16 n) | _ => None end
  | FU32 => match t with TN n => Some (enc32 n) | _ => None end
  | FU64 => match t with TN n => Some (enc64 n) | _ => None end
  | FEnum8 _ => match t with TN n => Some (enc8 n) | _ => None end
  | FSkip n => match t with TL [] => Some (zeros n) | _ => None end
  | FBytes pad _ => match t with TB s => Some (enc32 (blen s) ++ s ++ zeros (pad_len pad (blen s))) | _ => None end
  | FRec l => match t with TL ts => enc_seq enc l ts | _ => None end
  | FRep g => match t with
              | TL ts => match enc_all (enc g) ts with Some r => Some (enc32 (N.of_nat (length ts)) ++ r) | None => None end
              | _ => None
              end
  | FBind g k => match t with
                 | TL [t1; t2] => match enc g t1, enc (k t1) t2 with Some a, Some b => Some (a ++ b) | _, _ => None end
                 | _ => None
                 end
  end.

(* ---- encodable trees ---- *)
Definition bytes_ok (bs : list N) : Prop := Forall (fun b => b < 256) bs.
Section WfSeq.
  Variable w : fmt -> tree -> Prop.
  Fixpoint wf_seq (l : list fmt) (ts : list tree) : Prop :=
    match l with
    | [] => ts = []
    | f :: l' =>
        match skip_of f with
        | Some _ => wf_seq l' ts
        | None => match ts with t :: ts' => w f t /\ wf_seq l' ts' | [] => False end
        end
    end.
End WfSeq.
Fixpoint wf (f : fmt) (t : tree) {struct f} : Prop :=
  match f with
  | FU8 => match t with TN n => n < 256 | _ => False end
  | FU16 => match t with TN n => n < 65536 | _ => False end
  | FU32 => match t with TN n => n < 4294967296 | _ => False end
  | FU64 => match t with TN n => n < 18446744073709551616 | _ => False end
  | FEnum8 v => match t with TN n => n < 256 /\ v n = true | _ => False end
  | FSkip _ => match t with TL [] => True | _ => False end
  | FBytes _ v => match t with TB s => blen s < 4294967296 /\ v s = true /\ bytes_ok s | _ => False end
  | FRec l => match t with TL ts => wf_seq wf l ts | _ => False end
  | FRep g => match t with TL ts => 1 <= min_size g /\ N.of_nat (length ts) < 4294967296 /\ Forall (wf g) ts | _ => False end
  | FBind g k => match t with TL [t1; t2] => wf g t1 /\ wf (k t1) t2 | _ => False end
  end.

(* static side condition of the calculus: every repeated element occupies at least one byte *)
Fixpoint fmt_ok (f : fmt) : Prop :=
  match f with
  | FRec l => fold_right (fun g a => fmt_ok g /\ a) True l
  | FRep g => 1 <= min_size g /\ fmt_ok g
  | FBind g k => fmt_ok g /\ forall t, fmt_ok (k t)
  | _ => True
  end.

(* the same as a boolean test (sound for wf: Proofs/C11Fmt.v wfb_sound) *)
Section WfbSeq.
  Variable w : fmt -> tree -> bool.
  Fixpoint wfb_seq (l : list fmt) (ts : list tree) : bool :=
    match l with
    | [] => match ts with [] => true | _ => false end
    | f :: l' =>
        match skip_of f with
        | Some _ => wfb_seq l' ts
        | None => match ts with t :: ts' => w f t && wfb_seq l' ts' | [] => false end
        end
    end.
End WfbSeq.
Fixpoint wfb (f : fmt) (t : tree) {struct f} : bool :=
  match f with
  | FU8 => match t with TN n => n <? 256 | _ => false end
  | FU16 => match t with TN n => n <? 65536 | _ => false end
  | FU32 => match t with TN n => n <? 4294967296 | _ => false end
  | FU64 => match t with TN n => n <? 18446744073709551616 | _ => false end
  | FEnum8 v => match t with TN n => (n <? 256) && v n | _ => false end
  | FSkip _ => match t with TL [] => true | _ => false end
  | FBytes _ v => match t with TB s => (blen s <? 4294967296) && v s && forallb (fun b => b <? 256) s | _ => false end
  | FRec l => match t with TL ts => wfb_seq wfb l ts | _ => false end
  | FRep g => match t with TL ts => (1 <=? min_size g) && (N.of_nat (length ts) <? 4294967296) && forallb (wfb g) ts | _ => false end
  | FBind g k => match t with TL [t1; t2] => wfb g t1 && wfb (k t1) t2 | _ => false end
  end.
