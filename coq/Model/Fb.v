(* Model of crates/trust-runtime/src/stdlib/fbs/{timers,counters,triggers,bistable}.rs.
   Executable, total Gallina functions over Z (nanoseconds, counter values) and bool.
   Two layers for timers: [*_core] transcribes the pure struct [Ton/Tof/Tp::step];
   [*_exec] is the path the runtime takes (exec_ton ...): the struct is REBUILT from the
   stored outputs Q/ET (ET is the clamped output) and hidden state, and the result written back. *)
From Coq Require Import ZArith List Bool.
Import ListNotations.
Open Scope Z_scope.

Definition norm (pt : Z) : Z := if pt <? 0 then 0 else pt.        (* normalize_duration *)
Definition clampt (et p : Z) : Z := if p <=? et then p else et.   (* output ET selection *)

(* ---- TON ---- *)
Record ton_st := { ton_et : Z; ton_q : bool }.
Definition ton_init := {| ton_et := 0; ton_q := false |}.
Definition ton_core (s : ton_st) (i : bool) (pt delta : Z) : ton_st * (bool * Z) :=
  let p := norm pt in
  let s' := if i then let e := ton_et s + delta in {| ton_et := e; ton_q := p <=? e |}
            else {| ton_et := 0; ton_q := false |} in
  (s', (ton_q s', clampt (ton_et s') p)).
Definition ton_exec (s : ton_st) (i : bool) (pt delta : Z) : ton_st * (bool * Z) :=
  let '(s', (q, eo)) := ton_core s i pt delta in ({| ton_et := eo; ton_q := q |}, (q, eo)).

(* ---- TOF ---- *)
Record tof_st := { tof_et : Z; tof_q : bool; tof_prev : bool; tof_timing : bool }.
Definition tof_init := {| tof_et := 0; tof_q := false; tof_prev := false; tof_timing := false |}.
Definition tof_core (s : tof_st) (i : bool) (pt delta : Z) : tof_st * (bool * Z) :=
  let p := norm pt in
  let s' :=
    if i then {| tof_et := 0; tof_q := true; tof_prev := i; tof_timing := false |}
    else
      let timing1 := if tof_prev s then true else tof_timing s in
      let et1 := if tof_prev s then 0 else tof_et s in
      if timing1 then
        let e := et1 + delta in
        if p <=? e then {| tof_et := e; tof_q := false; tof_prev := i; tof_timing := false |}
        else {| tof_et := e; tof_q := true; tof_prev := i; tof_timing := true |}
      else {| tof_et := 0; tof_q := false; tof_prev := i; tof_timing := false |} in
  (s', (tof_q s', clampt (tof_et s') p)).
Definition tof_exec (s : tof_st) (i : bool) (pt delta : Z) : tof_st * (bool * Z) :=
  let '(s', (q, eo)) := tof_core s i pt delta in
  ({| tof_et := eo; tof_q := q; tof_prev := tof_prev s'; tof_timing := tof_timing s' |}, (q, eo)).

(* ---- TP ---- *)
Record tp_st := { tp_et : Z; tp_q : bool; tp_prev : bool; tp_active : bool }.
Definition tp_init := {| tp_et := 0; tp_q := false; tp_prev := false; tp_active := false |}.
(* [retrig] = true transcribes a TP whose rising edge restarts a running pulse;
   [retrig] = false is the guarded form (rising edge honoured only while idle).
   Which one the code is, is decided by the correspondence check (see Extract/C04x.v). *)
Definition tp_core (retrig : bool) (s : tp_st) (i : bool) (pt delta : Z) : tp_st * (bool * Z) :=
  let p := norm pt in
  let rising := negb (tp_prev s) && i in
  let start := rising && (retrig || negb (tp_active s)) in
  let act1 := if start then true else tp_active s in
  let et1 := if start then 0 else tp_et s in
  let '(act2, et2) :=
    if act1 then
      let e := et1 + delta in
      if p <=? e then (false, p) else (true, e)
    else (act1, et1) in
  let s' := {| tp_et := et2; tp_q := act2; tp_prev := i; tp_active := act2 |} in
  (s', (act2, if act2 then et2 else 0)).
Definition tp_exec (retrig : bool) (s : tp_st) (i : bool) (pt delta : Z) : tp_st * (bool * Z) :=
  let '(s', (q, eo)) := tp_core retrig s i pt delta in
  ({| tp_et := eo; tp_q := q; tp_prev := tp_prev s'; tp_active := tp_active s' |}, (q, eo)).

(* ---- elapsed_since: last = None before the first call ---- *)
Definition elapsed (last : option Z) (now : Z) : Z :=
  match last with
  | None => 0
  | Some l => let d := now - l in if d <=? 0 then 0 else d
  end.

(* A timer instance driven by clock readings, as the runtime does. *)
Section TimerRun.
  Context {S : Type} (step : S -> bool -> Z -> Z -> S * (bool * Z)).
  (* call = (IN, PT, now) *)
  Fixpoint run_now (s : S) (last : option Z) (tr : list (bool * Z * Z)) : list (bool * Z) :=
    match tr with
    | [] => []
    | (i, pt, now) :: tr' =>
        let '(s', o) := step s i pt (elapsed last now) in
        o :: run_now s' (Some now) tr'
    end.
  (* the same, driven by explicit non-negative deltas: call = (IN, PT, dt) *)
  Fixpoint run_dt (s : S) (tr : list (bool * Z * Z)) : list (bool * Z) :=
    match tr with
    | [] => []
    | (i, pt, dt) :: tr' => let '(s', o) := step s i pt dt in o :: run_dt s' tr'
    end.
  Fixpoint state_dt (s : S) (tr : list (bool * Z * Z)) : S :=
    match tr with
    | [] => s
    | (i, pt, dt) :: tr' => state_dt (fst (step s i pt dt)) tr'
    end.
End TimerRun.

Fixpoint to_dts (last : option Z) (tr : list (bool * Z * Z)) : list (bool * Z * Z) :=
  match tr with
  | [] => []
  | (i, pt, now) :: tr' => (i, pt, elapsed last now) :: to_dts (Some now) tr'
  end.

(* ---- counters, generic in the value range [lo, hi] of the PV/CV type ---- *)
Record ctu_st := { ctu_cv : Z; ctu_prev : bool }.
Definition ctu_init := {| ctu_cv := 0; ctu_prev := false |}.
Definition ctu_step (hi : Z) (s : ctu_st) (cu r : bool) (pv : Z) : ctu_st * (bool * Z) :=
  let rising := cu && negb (ctu_prev s) in
  let cv := if r then 0 else if rising && (ctu_cv s <? hi) then ctu_cv s + 1 else ctu_cv s in
  ({| ctu_cv := cv; ctu_prev := cu |}, (pv <=? cv, cv)).

Record ctd_st := { ctd_cv : Z; ctd_prev : bool }.
Definition ctd_init := {| ctd_cv := 0; ctd_prev := false |}.
Definition ctd_step (lo : Z) (s : ctd_st) (cd ld : bool) (pv : Z) : ctd_st * (bool * Z) :=
  let rising := cd && negb (ctd_prev s) in
  let cv := if ld then pv else if rising && (lo <? ctd_cv s) then ctd_cv s - 1 else ctd_cv s in
  ({| ctd_cv := cv; ctd_prev := cd |}, (cv <=? 0, cv)).

Record ctud_st := { ctud_cv : Z; ctud_pcu : bool; ctud_pcd : bool }.
Definition ctud_init := {| ctud_cv := 0; ctud_pcu := false; ctud_pcd := false |}.
Definition ctud_step (lo hi : Z) (s : ctud_st) (cu cd r ld : bool) (pv : Z)
  : ctud_st * (bool * bool * Z) :=
  let rcu := cu && negb (ctud_pcu s) in
  let rcd := cd && negb (ctud_pcd s) in
  let cv0 := ctud_cv s in
  let cv :=
    if r then 0 else if ld then pv
    else if negb (rcu && rcd) then
      if rcu && (cv0 <? hi) then cv0 + 1
      else if rcd && (lo <? cv0) then cv0 - 1 else cv0
    else cv0 in
  ({| ctud_cv := cv; ctud_pcu := cu; ctud_pcd := cd |}, (pv <=? cv, cv <=? 0, cv)).

(* ---- edge detectors; state = STATE_TRIG_M ---- *)
Definition rtrig_step (m : bool) (clk : bool) : bool * bool := (clk, clk && negb m).
Definition ftrig_step (m : bool) (clk : bool) : bool * bool := (negb clk, negb clk && negb m).

(* ---- bistables; state = Q1 ---- *)
Definition sr_step (q : bool) (s1 r : bool) : bool := if s1 then true else if r then false else q.
Definition rs_step (q : bool) (s r1 : bool) : bool := if r1 then false else if s then true else q.

(* ---- generic runners over input lists ---- *)
Section Run.
  Context {S I O : Type} (step : S -> I -> S * O).
  Fixpoint run (s : S) (tr : list I) : list O :=
    match tr with [] => [] | x :: tr' => let '(s', o) := step s x in o :: run s' tr' end.
  Fixpoint state_after (s : S) (tr : list I) : S :=
    match tr with [] => s | x :: tr' => state_after (fst (step s x)) tr' end.
End Run.

Definition ctu_stepI hi (s : ctu_st) (x : bool * bool * Z) := let '(cu, r, pv) := x in ctu_step hi s cu r pv.
Definition ctd_stepI lo (s : ctd_st) (x : bool * bool * Z) := let '(cd, ld, pv) := x in ctd_step lo s cd ld pv.
Definition ctud_stepI lo hi (s : ctud_st) (x : bool * bool * bool * bool * Z) :=
  let '(cu, cd, r, ld, pv) := x in ctud_step lo hi s cu cd r ld pv.
Definition sr_stepI (q : bool) (x : bool * bool) := let q' := sr_step q (fst x) (snd x) in (q', q').
Definition rs_stepI (q : bool) (x : bool * bool) := let q' := rs_step q (fst x) (snd x) in (q', q').

(* ---- instance store: independence of instances ---- *)
Definition store (S : Type) := nat -> S.
Definition upd {S} (st : store S) (i : nat) (v : S) : store S := fun j => if Nat.eqb j i then v else st j.
Definition call_inst {S I O} (step : S -> I -> S * O) (st : store S) (i : nat) (x : I) : store S * O :=
  let '(s', o) := step (st i) x in (upd st i s', o).
