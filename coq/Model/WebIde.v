(* Model of the browser IDE's file API (crates/trust-runtime/src/web/ide.rs):
   1. normalize_workspace_path on Unix: trim, reject absolute, std::path::Path::components
      (empty and "." segments vanish, ".." is ParentDir), reject hidden names;
   2. resolve_workspace_path over a file system with symbolic links: only the closest existing
      PARENT is canonicalised ([r_full_check] = false); the repaired code also canonicalises the
      path itself when it exists ([r_full_check] = true);
   3. who may mutate: role, expiry, write-enabled mode;
   4. versioned documents: open_source / apply_source.  The code reads the file BEFORE taking the
      state lock ([WRead] then [WCommit], any interleaving); the repaired code reads under the lock
      ([WAtomic]).
   Characters are code points (N); '/' = 47, '.' = 46. *)
From Coq Require Import List Bool Arith NArith.
Import ListNotations.

Definition chr := N.
Definition slash : chr := 47%N.
Definition dot : chr := 46%N.
Definition name := list chr.

(* ---------- 1. normalisation ---------- *)
(* char::is_whitespace *)
Definition is_ws (c : chr) : bool :=
  ((N.leb 9 c && N.leb c 13) || N.eqb c 32 || N.eqb c 133 || N.eqb c 160 || N.eqb c 5760 ||
  (N.leb 8192 c && N.leb c 8202) || N.eqb c 8232 || N.eqb c 8233 || N.eqb c 8239 || N.eqb c 8287 || N.eqb c 12288)%N.
Fixpoint trim_start (s : list chr) : list chr :=
  match s with c :: s' => if is_ws c then trim_start s' else s | [] => [] end.
Definition trim (s : list chr) : list chr := rev (trim_start (rev (trim_start s))).
(* split at '/' *)
Fixpoint split_go (s : list chr) (cur : name) : list name :=
  match s with
  | [] => [rev cur]
  | c :: s' => if N.eqb c slash then rev cur :: split_go s' [] else split_go s' (c :: cur)
  end.
Definition split (s : list chr) : list name := split_go s [].

Inductive nerr := Invalid | Forbidden.
Inductive res (A : Type) := Ok (a : A) | Err (e : nerr).
Arguments Ok {A}. Arguments Err {A}.
Definition name_eqb (a b : name) : bool := if list_eq_dec N.eq_dec a b then true else false.
Fixpoint norm_parts (segs : list name) (acc : list name) : res (list name) :=
  match segs with
  | [] => Ok (rev acc)
  | s :: rest =>
      match s with
      | [] => norm_parts rest acc                                   (* repeated or trailing '/' *)
      | c :: s' =>
          if N.eqb c dot then
            match s' with
            | [] => norm_parts rest acc                             (* "." *)
            | _ => Err Forbidden                                    (* ".." and every hidden name *)
            end
          else norm_parts rest (s :: acc)
      end
  end.
Definition normalize (p : list chr) : res (list name) :=
  match trim p with
  | [] => Err Invalid
  | (c :: _) as t =>
      if N.eqb c slash then Err Forbidden
      else match norm_parts (split t) [] with
           | Ok [] => Err Invalid
           | r => r
           end
  end.
Fixpoint join (parts : list name) : list chr :=
  match parts with [] => [] | [x] => x | x :: rest => x ++ slash :: join rest end.

(* ---------- 2. resolution over a file system with symlinks ---------- *)
Inductive node := NFile | NDir | NLink (target : list name).         (* absolute target *)
Definition fs := list (list name * node).                            (* canonical absolute path -> node *)
Definition path_eqb (a b : list name) : bool := if list_eq_dec (list_eq_dec N.eq_dec) a b then true else false.
Fixpoint lookup (f : fs) (p : list name) : option node :=
  match f with [] => None | (q, n) :: f' => if path_eqb p q then Some n else lookup f' p end.
(* canonicalize: resolve [rest] below the canonical directory [cur]; None = does not exist / loop *)
Fixpoint canon (fuel : nat) (f : fs) (cur rest : list name) : option (list name) :=
  match fuel with
  | 0 => None
  | S fuel' =>
      match rest with
      | [] => Some cur
      | n :: rest' =>
          match lookup f (cur ++ [n]) with
          | Some (NLink tgt) => canon fuel' f [] (tgt ++ rest')
          | Some NDir => canon fuel' f (cur ++ [n]) rest'
          | Some NFile => match rest' with [] => Some (cur ++ [n]) | _ => None end
          | None => None
          end
      end
  end.
Fixpoint is_prefix (a b : list name) : bool :=
  match a, b with
  | [], _ => true
  | x :: a', y :: b' => name_eqb x y && is_prefix a' b'
  | _ :: _, [] => false
  end.
(* closest_existing_parent: walk up until something exists *)
Fixpoint closest_existing (fuel : nat) (f : fs) (p : list name) (steps : nat) : option (list name) :=
  match steps with
  | 0 => canon fuel f [] p
  | S k => match canon fuel f [] p with Some c => Some c | None => closest_existing fuel f (removelast p) k end
  end.
Record ropts := { r_full_check : bool }.
Definition is_link (n : option node) : bool := match n with Some (NLink _) => true | _ => false end.
Definition resolve (o : ropts) (fuel : nat) (f : fs) (root parts : list name) : res (list name) :=
  let joined := root ++ parts in
  match closest_existing fuel f (removelast joined) (length joined) with
  | None => Err Invalid
  | Some cp =>
      if is_prefix root cp then
        if r_full_check o then
          match canon fuel f [] joined with
          | Some t => if is_prefix root t then Ok joined else Err Forbidden
          | None =>
              (* does not resolve: a dangling link is refused, a missing name is fine *)
              match canon fuel f [] (removelast joined) with
              | Some d => if is_link (lookup f (d ++ [last joined []])) then Err Forbidden else Ok joined
              | None => Ok joined
              end
          end
        else Ok joined
      else Err Forbidden
  end.
(* the object the operating system touches when the resolved path is opened / written / created:
   an existing object after following links; otherwise the last component is created in the
   resolved parent - or, if it is a dangling link, wherever the link points *)
Fixpoint os_target (fuel : nat) (f : fs) (joined : list name) : option (list name) :=
  match fuel with
  | 0 => None
  | S fuel' =>
      match canon fuel f [] joined with
      | Some t => Some t
      | None => match canon fuel f [] (removelast joined) with
                | Some d => match lookup f (d ++ [last joined []]) with
                            | Some (NLink tgt) => os_target fuel' f tgt
                            | _ => Some (d ++ [last joined []])
                            end
                | None => None
                end
      end
  end.

(* ---------- 3. who may mutate ---------- *)
Inductive role := Viewer | Editor.
Record session := { s_role : role; s_expired : bool }.
Inductive gate := GOk | GForbidden | GUnauthorized.
Definition may_mutate (write_enabled : bool) (s : option session) : gate :=
  if negb write_enabled then GForbidden
  else match s with
       | None => GUnauthorized
       | Some s => if s_expired s then GUnauthorized else match s_role s with Editor => GOk | Viewer => GForbidden end
       end.

(* ---------- 4. versioned documents ---------- *)
(* open_source and apply_source both read the file BEFORE taking the state lock: every call is
   two atomic steps, [WRead] (unlocked read) and [WOpenCommit] / [WCommit] (under the lock), and
   steps of different sessions interleave arbitrarily. *)
Definition content := nat.
Record doc := { d_content : content; d_version : nat }.
Record wstate := {
  w_disk : content; w_entry : option doc;
  w_read : list (nat * (content * nat));    (* per session: content read before taking the lock; ghost: version current at that moment *)
  g_label : list (nat * content)            (* ghost: every version ever current, with the content it denotes *)
}.
Definition w_init (c : content) : wstate := {| w_disk := c; w_entry := None; w_read := []; g_label := [] |}.
Inductive wout := OVersion (v : nat) (c : content) | OConflict (v : nat) | ONone.
Definition cur_version (st : wstate) : nat := match w_entry st with Some d => d_version d | None => 0 end.
(* the entry is created / refreshed from the disk content the caller has in hand *)
Definition sync (e : option doc) (seen : content) : doc :=
  match e with
  | None => {| d_content := seen; d_version := 1 |}
  | Some d => if Nat.eqb (d_content d) seen then d else {| d_content := seen; d_version := S (d_version d) |}
  end.
Fixpoint assoc {A} (l : list (nat * A)) (k : nat) : option A :=
  match l with [] => None | (k', v) :: l' => if Nat.eqb k k' then Some v else assoc l' k end.
Inductive wop :=
  | WRead (s : nat)                                  (* first half of open_source / apply_source *)
  | WOpenCommit (s : nat)                            (* open_source under the lock: returns (version, content read) *)
  | WCommit (s : nat) (expected : nat) (c : content) (* apply_source under the lock *)
  | WExternal (c : content).                         (* somebody edits the file outside the IDE *)
Definition wstep (st : wstate) (o : wop) : wstate * wout :=
  match o with
  | WRead s => ({| w_disk := w_disk st; w_entry := w_entry st; w_read := (s, (w_disk st, cur_version st)) :: w_read st; g_label := g_label st |}, ONone)
  | WOpenCommit s =>
      match assoc (w_read st) s with
      | None => (st, ONone)
      | Some (seen, _) =>
          let d := sync (w_entry st) seen in
          ({| w_disk := w_disk st; w_entry := Some d; w_read := w_read st; g_label := (d_version d, d_content d) :: g_label st |}, OVersion (d_version d) seen)
      end
  | WCommit s expected c =>
      match assoc (w_read st) s with
      | None => (st, ONone)
      | Some (seen, _) =>
          let d := sync (w_entry st) seen in
          let lab := (d_version d, d_content d) :: g_label st in
          if Nat.eqb (d_version d) expected then
            ({| w_disk := c; w_entry := Some {| d_content := c; d_version := S (d_version d) |}; w_read := w_read st;
                g_label := (S (d_version d), c) :: lab |}, OVersion (S (d_version d)) c)
          else ({| w_disk := w_disk st; w_entry := Some d; w_read := w_read st; g_label := lab |}, OConflict (d_version d))
      end
  | WExternal c => ({| w_disk := c; w_entry := w_entry st; w_read := w_read st; g_label := g_label st |}, ONone)
  end.
Fixpoint wrun (st : wstate) (ops : list wop) : wstate * list wout :=
  match ops with
  | [] => (st, [])
  | o :: ops' => let '(st1, out) := wstep st o in let '(st2, outs) := wrun st1 ops' in (st2, out :: outs)
  end.
