(* Model of the debugger state machine: crates/trust-runtime/src/debug/control.rs
   (DebugState, apply_action, pause_entry, on_statement_inner incl. its wait loop, set_current_thread).
   All mutations happen under one mutex and Condvar::wait releases it atomically, so the
   concurrent system is an interleaving of atomic segments:
     LHook      the statement hook from taking the lock to returning or starting to wait
     LWake      one turn of the wait loop after a notification or a spurious wake-up
     LAct/LEntry  a control action issued by the adapter thread
     LSetThread the runtime announcing which task is about to run (cycle thread, so never while parked).
   Breakpoint matching (conditions, hit counts, log points) is an oracle: the Hook label says
   whether a breakpoint matched at this statement. [steps] holds at most one entry because every
   insertion is preceded by clear().
   Ghost components (not in the code, used only to state theorems): g_emitted (stop notifications
   since the last resume), g_notified (a notify_all reached a parked waiter and has not been
   consumed), st_origin (call depth the step was issued from), g_mark (number of stops at the last resume), sp_step (kind and origin of the step a Step stop ends). *)
From Coq Require Import List Bool Arith.
Import ListNotations.

Inductive mode := Running | Paused.
Inductive reason := RPause | RStep | RBreakpoint | REntry.
Inductive kind := KInto | KOver | KOut.
Record step_state := { st_key : nat; st_kind : kind; st_depth : nat; st_started : bool; st_origin : nat }.
Record stop := { sp_reason : reason; sp_depth : nat; sp_thread : option nat; sp_step : option (kind * nat) (* ghost: kind and origin depth of the step that ended here *) }.

Record dstate := {
  d_mode : mode; d_pending : option reason; d_step : option step_state;
  d_target : option nat; d_current : option nat;
  d_last_depth : nat; d_last_depths : list (nat * nat);
  d_stops : list stop;            (* emitted so far, newest first *)
  d_waiting : bool;               (* the cycle thread sits in cvar.wait *)
  g_emitted : nat; g_notified : bool; g_mark : nat
}.
Definition d_init : dstate :=
  {| d_mode := Running; d_pending := None; d_step := None; d_target := None; d_current := None;
     d_last_depth := 0; d_last_depths := []; d_stops := []; d_waiting := false;
     g_emitted := 0; g_notified := false; g_mark := 0 |}.

Inductive action := APause (t : option nat) | AContinue | AStepIn (t : option nat) | AStepOver (t : option nat) | AStepOut (t : option nat).
Inductive outcome := Applied | Ignored.

Definition opt_eqb (a b : option nat) : bool :=
  match a, b with Some x, Some y => Nat.eqb x y | None, None => true | _, _ => false end.
Definition is_target (s : dstate) : bool :=
  match d_target s with None => true | Some _ => opt_eqb (d_target s) (d_current s) end.
Fixpoint lookup (l : list (nat * nat)) (k : nat) : option nat :=
  match l with [] => None | (k', v) :: l' => if Nat.eqb k k' then Some v else lookup l' k end.
Definition or_else (a b : option nat) : option nat := match a with Some _ => a | None => b end.

(* control fields mode/pending/step/target *)
Definition upd_mode (s : dstate) m p st tg :=
  {| d_mode := m; d_pending := p; d_step := st; d_target := tg; d_current := d_current s;
     d_last_depth := d_last_depth s; d_last_depths := d_last_depths s; d_stops := d_stops s; d_waiting := d_waiting s;
     g_emitted := g_emitted s; g_notified := g_notified s; g_mark := g_mark s |}.
(* a resuming action: notify_all + ghost reset *)
Definition resumed (s : dstate) :=
  {| d_mode := d_mode s; d_pending := d_pending s; d_step := d_step s; d_target := d_target s; d_current := d_current s;
     d_last_depth := d_last_depth s; d_last_depths := d_last_depths s; d_stops := d_stops s; d_waiting := d_waiting s;
     g_emitted := 0; g_notified := d_waiting s; g_mark := length (d_stops s) |}.
Definition set_waiting (s : dstate) (w : bool) :=
  {| d_mode := d_mode s; d_pending := d_pending s; d_step := d_step s; d_target := d_target s; d_current := d_current s;
     d_last_depth := d_last_depth s; d_last_depths := d_last_depths s; d_stops := d_stops s; d_waiting := w;
     g_emitted := g_emitted s; g_notified := g_notified s; g_mark := g_mark s |}.
Definition set_notified (s : dstate) (w : bool) :=
  {| d_mode := d_mode s; d_pending := d_pending s; d_step := d_step s; d_target := d_target s; d_current := d_current s;
     d_last_depth := d_last_depth s; d_last_depths := d_last_depths s; d_stops := d_stops s; d_waiting := d_waiting s;
     g_emitted := g_emitted s; g_notified := w; g_mark := g_mark s |}.
Definition step_depth_for (s : dstate) (tt : option nat) : nat :=
  match tt with Some k => match lookup (d_last_depths s) k with Some d => d | None => d_last_depth s end | None => d_last_depth s end.

(* apply_action *)
Definition apply_action (s : dstate) (a : action) : dstate * outcome :=
  let started := match d_mode s with Paused => true | Running => false end in
  match a with
  | APause t =>
      match d_mode s with
      | Paused => (s, Ignored)
      | Running => (upd_mode s Paused (Some RPause) None t, Applied)
      end
  | AContinue => (resumed (upd_mode s Running None None None), Applied)
  | AStepIn t =>
      let tt := or_else t (d_current s) in
      let key := match tt with Some k => k | None => 0 end in
      (resumed (upd_mode s Running None (Some {| st_key := key; st_kind := KInto; st_depth := d_last_depth s; st_started := started; st_origin := d_last_depth s |}) tt), Applied)
  | AStepOver t =>
      let tt := or_else t (d_current s) in
      let key := match tt with Some k => k | None => 0 end in
      let depth := step_depth_for s tt in
      (resumed (upd_mode s Running None (Some {| st_key := key; st_kind := KOver; st_depth := depth; st_started := started; st_origin := depth |}) tt), Applied)
  | AStepOut t =>
      let tt := or_else t (d_current s) in
      let key := match tt with Some k => k | None => 0 end in
      let depth := step_depth_for s tt in
      (resumed (upd_mode s Running None (Some {| st_key := key; st_kind := KOut; st_depth := depth - 1; st_started := started; st_origin := depth |}) tt), Applied)
  end.
(* DebugControl::pause_entry *)
Definition pause_entry (s : dstate) : dstate :=
  match d_mode s with Paused => s | Running => upd_mode s Paused (Some REntry) None None end.

Definition emit (s : dstate) (r : reason) (depth : nat) (g : option (kind * nat)) : dstate :=
  {| d_mode := d_mode s; d_pending := d_pending s; d_step := d_step s; d_target := d_target s; d_current := d_current s;
     d_last_depth := d_last_depth s; d_last_depths := d_last_depths s;
     d_stops := {| sp_reason := r; sp_depth := depth; sp_thread := d_current s; sp_step := g |} :: d_stops s; d_waiting := d_waiting s;
     g_emitted := S (g_emitted s); g_notified := g_notified s; g_mark := g_mark s |}.
(* "if paused and on the target thread, turn a pending stop into a stop notification" *)
Definition consume_pending (s : dstate) (depth : nat) : dstate :=
  match d_mode s, is_target s, d_pending s with
  | Paused, true, Some r => emit (upd_mode s (d_mode s) None (d_step s) (d_target s)) r depth None
  | _, _, _ => s
  end.
(* one turn of the final loop: the thread returns (waiting = false) or waits *)
Definition loop_turn (s : dstate) (depth : nat) : dstate :=
  let s1 := consume_pending s depth in
  set_waiting s1 (match d_mode s1 with Running => false | Paused => is_target s1 end).

Fixpoint set_assoc (l : list (nat * nat)) (k v : nat) : list (nat * nat) :=
  match l with [] => [(k, v)] | (k', v') :: l' => if Nat.eqb k k' then (k, v) :: l' else (k', v') :: set_assoc l' k v end.

Definition enter_hook (s : dstate) (depth : nat) : dstate :=
  {| d_mode := d_mode s; d_pending := d_pending s; d_step := d_step s; d_target := d_target s; d_current := d_current s;
     d_last_depth := depth;
     d_last_depths := match d_current s with Some t => set_assoc (d_last_depths s) t depth | None => d_last_depths s end;
     d_stops := d_stops s; d_waiting := false;
     g_emitted := g_emitted s; g_notified := g_notified s; g_mark := g_mark s |}.

Definition step_key_ok (s : dstate) (st : step_state) : bool :=
  match d_current s with Some t => Nat.eqb t (st_key st) | None => false end || Nat.eqb (st_key st) 0.
Definition should_stop (st : step_state) (depth : nat) : bool :=
  match st_kind st with KInto => true | KOver | KOut => Nat.leb depth (st_depth st) end.

(* the statement hook at call depth [depth]; [bp] = a breakpoint matches here; [has_loc] = the
   statement has a source location (steps and breakpoints are only examined then) *)
Definition hook (s : dstate) (depth : nat) (bp has_loc : bool) : dstate :=
  let s0 := enter_hook s depth in
  let tgt := is_target s0 in
  let s1 := consume_pending s0 depth in
  let effective := if tgt then d_mode s1 else Running in
  let s2 :=
    match effective, has_loc with
    | Running, true =>
        let after_bp (x : dstate) :=
          if bp then emit (upd_mode x Paused None None None) RBreakpoint depth None else x in
        match (if tgt then d_step s1 else None) with
        | Some st =>
            if step_key_ok s1 st then
              if negb (st_started st) then
                after_bp (upd_mode s1 (d_mode s1) (d_pending s1)
                            (Some {| st_key := st_key st; st_kind := st_kind st; st_depth := st_depth st; st_started := true; st_origin := st_origin st |}) (d_target s1))
              else if should_stop st depth then
                emit (upd_mode s1 Paused None None (d_target s1)) RStep depth (Some (st_kind st, st_origin st))
              else after_bp s1
            else after_bp s1
        | None => after_bp s1
        end
    | _, _ => s1
    end in
  loop_turn s2 depth.

Inductive label := LHook (depth : nat) (bp has_loc : bool) | LWake (depth : nat) | LAct (a : action) | LEntry | LSetThread (t : option nat).
Definition enabled (s : dstate) (l : label) : bool :=
  match l with
  | LHook _ _ _ | LSetThread _ => negb (d_waiting s)
  | LWake _ => d_waiting s
  | LAct _ | LEntry => true
  end.
Definition step (s : dstate) (l : label) : dstate :=
  match l with
  | LHook d bp hl => hook s d bp hl
  | LWake d => loop_turn (set_notified s false) d
  | LAct a => fst (apply_action s a)
  | LEntry => pause_entry s
  | LSetThread t =>
      {| d_mode := d_mode s; d_pending := d_pending s; d_step := d_step s; d_target := d_target s; d_current := t;
         d_last_depth := d_last_depth s; d_last_depths := d_last_depths s; d_stops := d_stops s; d_waiting := d_waiting s;
         g_emitted := g_emitted s; g_notified := g_notified s; g_mark := g_mark s |}
  end.
(* a schedule is any list of labels, each enabled when it is taken; the parked hook is always
   woken at the depth it parked at (d_last_depth) *)
Definition wake_ok (s : dstate) (l : label) : bool :=
  match l with LWake d => Nat.eqb d (d_last_depth s) | _ => true end.
Fixpoint run (s : dstate) (ls : list label) : option dstate :=
  match ls with
  | [] => Some s
  | l :: ls' => if enabled s l && wake_ok s l then run (step s l) ls' else None
  end.
