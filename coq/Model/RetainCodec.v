(* Model of the retain-file codec: crates/trust-runtime/src/retain.rs
   (encode_snapshot/decode_snapshot, encode_value/decode_value, RetainReader, read_string).
   Bytes are N (< 256). Fixed-width kinds (Bool, integers, REAL/LREAL, bit strings, time and
   date kinds, CHAR/WCHAR) are carried as their little-endian bit pattern. *)
From Coq Require Import NArith List Bool.
Import ListNotations.
Open Scope N_scope.

Inductive value :=
  | VScalar (tag : N) (bits : N)
  | VStr (tag : N) (s : list N)                          (* 24 STRING / 25 WSTRING: UTF-8 bytes *)
  | VArray (dims : list (N * N)) (elems : list value)    (* tag 28 *)
  | VStruct (tname : list N) (fields : list (list N * value))  (* tag 29 *)
  | VEnum (tname vname : list N) (num : N)               (* tag 30 *)
  | VNull.                                               (* tag 31 *)

(* payload width in bytes of the fixed-width tags *)
Definition scalar_width (tag : N) : option nat :=
  match tag with
  | 1 | 2 | 6 | 12 | 26 => Some 1%nat
  | 3 | 7 | 13 | 27 => Some 2%nat
  | 4 | 8 | 10 | 14 => Some 4%nat
  | 5 | 9 | 11 | 15 | 16 | 17 | 18 | 19 | 20 | 21 | 22 | 23 => Some 8%nat
  | _ => None
  end.

Fixpoint le_bytes (n : nat) (v : N) : list N :=
  match n with O => [] | S n' => (v mod 256) :: le_bytes n' (v / 256) end.
Fixpoint le_value (bs : list N) : N :=
  match bs with [] => 0 | b :: r => b + 256 * le_value r end.

(* RetainReader::read_bytes *)
Fixpoint take (n : nat) (bs : list N) : option (list N * list N) :=
  match n, bs with
  | O, _ => Some ([], bs)
  | S n', b :: r => match take n' r with Some (h, t) => Some (b :: h, t) | None => None end
  | S _, [] => None
  end.
Definition read_le (n : nat) (bs : list N) : option (N * list N) :=
  match take n bs with Some (h, t) => Some (le_value h, t) | None => None end.

(* ---- UTF-8 validation as done by String::from_utf8 (Unicode table 3-7) ---- *)
Definition inr (lo hi b : N) : bool := (lo <=? b) && (b <=? hi).
Fixpoint utf8_valid_f (fuel : nat) (bs : list N) : bool :=
  match fuel with
  | O => match bs with [] => true | _ => false end
  | S f =>
    match bs with
    | [] => true
    | b0 :: r =>
      if b0 <? 128 then utf8_valid_f f r
      else if inr 194 223 b0 then
        match r with b1 :: r' => inr 128 191 b1 && utf8_valid_f f r' | _ => false end
      else if b0 =? 224 then
        match r with b1 :: b2 :: r' => inr 160 191 b1 && inr 128 191 b2 && utf8_valid_f f r' | _ => false end
      else if inr 225 236 b0 || inr 238 239 b0 then
        match r with b1 :: b2 :: r' => inr 128 191 b1 && inr 128 191 b2 && utf8_valid_f f r' | _ => false end
      else if b0 =? 237 then
        match r with b1 :: b2 :: r' => inr 128 159 b1 && inr 128 191 b2 && utf8_valid_f f r' | _ => false end
      else if b0 =? 240 then
        match r with b1 :: b2 :: b3 :: r' => inr 144 191 b1 && inr 128 191 b2 && inr 128 191 b3 && utf8_valid_f f r' | _ => false end
      else if inr 241 243 b0 then
        match r with b1 :: b2 :: b3 :: r' => inr 128 191 b1 && inr 128 191 b2 && inr 128 191 b3 && utf8_valid_f f r' | _ => false end
      else if b0 =? 244 then
        match r with b1 :: b2 :: b3 :: r' => inr 128 143 b1 && inr 128 191 b2 && inr 128 191 b3 && utf8_valid_f f r' | _ => false end
      else false
    end
  end.
Definition utf8_valid (bs : list N) : bool := utf8_valid_f (length bs) bs.

(* ---- encoding ---- *)
Definition enc_string (s : list N) : list N := le_bytes 4 (N.of_nat (length s)) ++ s.
Fixpoint enc_value (v : value) : list N :=
  match v with
  | VScalar t b => t :: match scalar_width t with Some w => le_bytes w b | None => [] end
  | VStr t s => t :: enc_string s
  | VArray dims elems =>
      28 :: le_bytes 4 (N.of_nat (length elems)) ++ le_bytes 4 (N.of_nat (length dims)) ++
      concat (map (fun d => le_bytes 8 (fst d) ++ le_bytes 8 (snd d)) dims) ++
      concat (map enc_value elems)
  | VStruct tn fields =>
      29 :: enc_string tn ++ le_bytes 4 (N.of_nat (length fields)) ++
      concat (map (fun f => enc_string (fst f) ++ enc_value (snd f)) fields)
  | VEnum tn vn num => 30 :: enc_string tn ++ enc_string vn ++ le_bytes 8 num
  | VNull => [31]
  end.
Definition magic : list N := [83; 84; 82; 78].   (* "STRN" *)
Definition enc_snapshot (s : list (list N * value)) : list N :=
  magic ++ le_bytes 2 1 ++ le_bytes 4 (N.of_nat (length s)) ++
  concat (map (fun e => enc_string (fst e) ++ enc_value (snd e)) s).

(* ---- decoding ---- *)
Inductive err := ETruncated | EUtf8 | ETag | EMagic | EVersion | EDeep | EFuel.
Inductive res (A : Type) := Ok (a : A) | Err (e : err).
Arguments Ok {A} a. Arguments Err {A} e.

Definition max_depth : nat := 64.

Definition read_string (bs : list N) : res (list N * list N) :=
  match read_le 4 bs with
  | None => Err ETruncated
  | Some (len, r) =>
      if N.of_nat (length r) <? len then Err ETruncated
      else match take (N.to_nat len) r with
           | None => Err ETruncated
           | Some (s, r') => if utf8_valid s then Ok (s, r') else Err EUtf8
           end
  end.

Fixpoint dec_dims (fuel : nat) (n : N) (bs : list N) : res (list (N * N) * list N) :=
  match fuel with
  | O => Err EFuel
  | S f =>
      if n =? 0 then Ok ([], bs)
      else match read_le 8 bs with
           | None => Err ETruncated
           | Some (lo, r) =>
               match read_le 8 r with
               | None => Err ETruncated
               | Some (hi, r') =>
                   match dec_dims f (n - 1) r' with
                   | Ok (ds, r'') => Ok ((lo, hi) :: ds, r'')
                   | Err e => Err e
                   end
               end
           end
  end.

Fixpoint dec_value (fuel : nat) (depth : nat) (bs : list N) {struct fuel} : res (value * list N) :=
  match fuel with
  | O => Err EFuel
  | S f =>
    if Nat.ltb max_depth depth then Err EDeep else
    match bs with
    | [] => Err ETruncated
    | t :: r =>
      match scalar_width t with
      | Some w =>
          match read_le w r with
          | Some (b, r') => Ok (VScalar t (if t =? 1 then (if b =? 0 then 0 else 1) else b), r')
          | None => Err ETruncated
          end
      | None =>
        if (t =? 24) || (t =? 25) then
          match read_string r with Ok (s, r') => Ok (VStr t s, r') | Err e => Err e end
        else if t =? 28 then
          match read_le 4 r with
          | None => Err ETruncated
          | Some (len, r1) =>
            match read_le 4 r1 with
            | None => Err ETruncated
            | Some (nd, r2) =>
              match dec_dims (S (length r2)) nd r2 with
              | Err e => Err e
              | Ok (dims, r3) =>
                match dec_values f (S depth) len r3 with
                | Ok (vs, r4) => Ok (VArray dims vs, r4)
                | Err e => Err e
                end
              end
            end
          end
        else if t =? 29 then
          match read_string r with
          | Err e => Err e
          | Ok (tn, r1) =>
            match read_le 4 r1 with
            | None => Err ETruncated
            | Some (cnt, r2) =>
              match dec_fields f (S depth) cnt r2 with
              | Ok (fs, r3) => Ok (VStruct tn fs, r3)
              | Err e => Err e
              end
            end
          end
        else if t =? 30 then
          match read_string r with
          | Err e => Err e
          | Ok (tn, r1) =>
            match read_string r1 with
            | Err e => Err e
            | Ok (vn, r2) =>
              match read_le 8 r2 with
              | Some (num, r3) => Ok (VEnum tn vn num, r3)
              | None => Err ETruncated
              end
            end
          end
        else if t =? 31 then Ok (VNull, r)
        else Err ETag
      end
    end
  end
with dec_values (fuel : nat) (depth : nat) (n : N) (bs : list N) {struct fuel} : res (list value * list N) :=
  match fuel with
  | O => Err EFuel
  | S f =>
      if n =? 0 then Ok ([], bs)
      else match dec_value f depth bs with
           | Err e => Err e
           | Ok (v, r) =>
               match dec_values f depth (n - 1) r with
               | Ok (vs, r') => Ok (v :: vs, r')
               | Err e => Err e
               end
           end
  end
with dec_fields (fuel : nat) (depth : nat) (n : N) (bs : list N) {struct fuel} : res (list (list N * value) * list N) :=
  match fuel with
  | O => Err EFuel
  | S f =>
      if n =? 0 then Ok ([], bs)
      else match read_string bs with
           | Err e => Err e
           | Ok (name, r0) =>
             match dec_value f depth r0 with
             | Err e => Err e
             | Ok (v, r) =>
                 match dec_fields f depth (n - 1) r with
                 | Ok (fs, r') => Ok ((name, v) :: fs, r')
                 | Err e => Err e
                 end
             end
           end
  end.

(* fuel for an input of this length: enough for every well-formed snapshot (dec_enc_snapshot); the
   correspondence check treats an EFuel answer of the model as a failure of the check *)
Definition fuel_for (bs : list N) : nat := 3 * length bs + 4.

Definition dec_snapshot (bs : list N) : res (list (list N * value)) :=
  match take 4 bs with
  | None => Err ETruncated
  | Some (m, r) =>
    if negb (forallb (fun p => fst p =? snd p) (combine m magic)) then Err EMagic else
    match read_le 2 r with
    | None => Err ETruncated
    | Some (ver, r1) =>
      if negb (ver =? 1) then Err EVersion else
      match read_le 4 r1 with
      | None => Err ETruncated
      | Some (cnt, r2) =>
        match dec_fields (fuel_for r2) 0 cnt r2 with
        | Ok (fs, _) => Ok fs
        | Err e => Err e
        end
      end
    end
  end.

(* capacity passed to Vec::with_capacity for a count read from the file
   ([bounded] = the repaired code: never more than the remaining bytes can hold) *)
Definition cap_request (bounded : bool) (count remaining unit : N) : N :=
  if bounded then N.min count (remaining / unit) else count.
