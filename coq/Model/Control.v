(* Gate model of the control endpoint: crates/trust-runtime/src/control.rs
   (handle_request_value: parse -> resolve_request_role -> required role -> debug gate ->
   dispatch) over the tables translated from the source (gen/C18Tables.v). *)
From Coq Require Import String Ascii List Bool Arith.
From TP Require Import gen.C18Tables.
Import ListNotations.
Open Scope string_scope.

Definition mem (k : string) (l : list string) : bool := existsb (String.eqb k) l.

(* required_role_for_control_request; [admin_key] = the params object names an admin-only key;
   [has_params] = params is a JSON object *)
Fixpoint lookup_arm (k : string) (arms : list (list string * rolespec)) : option rolespec :=
  match arms with
  | [] => None
  | (pats, spec) :: arms' => if mem k pats then Some spec else lookup_arm k arms'
  end.
Definition config_set_role (has_params admin_key : bool) : nat :=
  if negb has_params then config_set_noparams else if admin_key then config_set_admin else config_set_other.
Definition required_role (k : string) (has_params admin_key : bool) : nat :=
  match lookup_arm k role_arms with
  | Some (Fixed r) => r
  | Some ConfigSet => config_set_role has_params admin_key
  | None => default_role
  end.

(* credentials presented with a request *)
Inductive cred :=
  | CNone                  (* no auth field *)
  | CWrong                 (* a string that is neither the token nor a live pairing token *)
  | CAdmin                 (* the configured auth token *)
  | CPair (r : nat)        (* a live pairing token minted for role r *)
  | CDead.                 (* an expired or revoked pairing token *)

Definition admin_rank : nat := length role_names - 1.

(* resolve_request_role *)
Definition role_of (token_set : bool) (c : cred) : option nat :=
  if token_set then
    match c with CAdmin => Some admin_rank | CPair r => Some r | _ => None end
  else
    match c with CPair r => Some r | _ => Some admin_rank end.

Inductive outcome := Unauthorized | Forbidden (need : nat) | DebugDisabled | Unsupported | Dispatched.

Definition handle (token_set debug_on : bool) (c : cred) (k : string) (has_params admin_key : bool) : outcome :=
  match role_of token_set c with
  | None => Unauthorized
  | Some r =>
      let need := required_role k has_params admin_key in
      if Nat.ltb r need then Forbidden need
      else if negb debug_on && mem k debug_kinds then DebugDisabled
      else if mem k dispatch_kinds then Dispatched else Unsupported
  end.

(* pair.claim mints a credential: the requested role capped at Engineer (sanitize_requested_role) *)
Definition engineer_rank : nat := 2.
Definition claimed_role (requested : option nat) : nat :=
  match requested with None => 1 | Some r => Nat.min r engineer_rank end.

(* config.set: the gate (required_role_for_config_set) looks for the admin-only keys by their exact spelling; the handler
   (handle_config_set) matches the keys of the params object by exact spelling too and answers "unknown config key" - changing
   nothing - for any other string.  [norm] = a handler that trims and lower-cases the keys before matching (not the code). *)
Definition lower_ascii (a : ascii) : ascii :=
  let n := nat_of_ascii a in if Nat.leb 65 n && Nat.leb n 90 then ascii_of_nat (n + 32) else a.
Definition is_space (a : ascii) : bool := let n := nat_of_ascii a in Nat.eqb n 32 || (Nat.leb 9 n && Nat.leb n 13).
Fixpoint lower (s : string) : string := match s with EmptyString => EmptyString | String a r => String (lower_ascii a) (lower r) end.
Fixpoint ltrim (s : string) : string := match s with String a r => if is_space a then ltrim r else s | EmptyString => EmptyString end.
Fixpoint rev_str (s acc : string) : string := match s with EmptyString => acc | String a r => rev_str r (String a acc) end.
Definition normalize (s : string) : string := lower (rev_str (ltrim (rev_str (ltrim s) EmptyString)) EmptyString).
Definition gate_admin_key (key : string) : bool := mem key config_admin_keys.
Definition handler_admin_key (norm : bool) (key : string) : bool := mem (if norm then normalize key else key) config_admin_keys.
(* an admin-only setting is changed by  config.set {key: v}  only if the request is dispatched and the handler takes the key for one *)
Definition admin_effect (norm ts dbg : bool) (c : cred) (key : string) : bool :=
  match handle ts dbg c "config.set" true (gate_admin_key key) with Dispatched => handler_admin_key norm key | _ => false end.
