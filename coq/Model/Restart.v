(* Model of restart / retain-store bookkeeping: crates/trust-runtime/src/runtime/restart.rs
   (restart, retain_snapshot, apply_retain_snapshot), retain_store.rs, instance creation.
   Storage = globals + an instance heap; every program lives in one instance; direct-address,
   access-path and task bindings hold the instance id RESOLVED AT BUILD TIME.
   Program execution is a parameter (each program maps its variables and the globals to new ones).
   Flags: [in_place] restart re-initialises the existing program instance (the repaired code)
          instead of allocating a new one; [progs_in_store] the retain snapshot includes
          program-level RETAIN variables (the repaired code). *)
From Coq Require Import ZArith List Bool.
Import ListNotations.
Open Scope Z_scope.

Record vmeta := { m_retain : bool; m_init : Z }.
Record cfg := { c_globals : list vmeta; c_progs : list (list vmeta);
                c_bindings : list (nat * nat);   (* output bindings: (program = its build-time instance id, variable offset) *)
                c_in_place : bool; c_progs_in_store : bool }.
Record rt := { r_g : list Z;                (* globals *)
               r_heap : list (list Z);      (* instance id -> variables *)
               r_pinst : list nat;          (* program -> its current instance id *)
               r_out : list Z;              (* the published output word of every binding *)
               r_time : Z; r_cycles : Z; r_faulted : bool }.

Definition inits (ms : list vmeta) : list Z := map m_init ms.
Definition fresh (c : cfg) : rt :=
  {| r_g := inits (c_globals c); r_heap := map inits (c_progs c); r_pinst := seq 0 (length (c_progs c));
     r_out := map (fun _ => 0) (c_bindings c); r_time := 0; r_cycles := 0; r_faulted := false |}.

Definition inst_vars (s : rt) (p : nat) : list Z := nth (nth p (r_pinst s) 0%nat) (r_heap s) [].

(* keep the current value where retained (warm), the initial value elsewhere *)
Fixpoint reinit (warm : bool) (ms : list vmeta) (cur : list Z) : list Z :=
  match ms, cur with
  | m :: ms', v :: cur' => (if warm && m_retain m then v else m_init m) :: reinit warm ms' cur'
  | m :: ms', [] => m_init m :: reinit warm ms' []
  | [], _ => []
  end.

Fixpoint set_nth {A} (l : list A) (i : nat) (x : A) : list A :=
  match i, l with O, _ :: r => x :: r | S i', y :: r => y :: set_nth r i' x | _, [] => [] end.

(* restart the programs one after the other *)
Fixpoint restart_progs (in_place warm : bool) (progs : list (list vmeta)) (p : nat) (heap : list (list Z)) (pinst : list nat)
  : list (list Z) * list nat :=
  match progs with
  | [] => (heap, pinst)
  | ms :: progs' =>
      let cur := nth (nth p pinst 0%nat) heap [] in
      let vars := reinit warm ms cur in
      if in_place then restart_progs in_place warm progs' (S p) (set_nth heap (nth p pinst 0%nat) vars) pinst
      else restart_progs in_place warm progs' (S p) (heap ++ [vars]) (set_nth pinst p (length heap))
  end.
Definition restart (c : cfg) (warm : bool) (s : rt) : rt :=
  let '(heap, pinst) := restart_progs (c_in_place c) warm (c_progs c) 0 (r_heap s) (r_pinst s) in
  {| r_g := reinit warm (c_globals c) (r_g s); r_heap := heap; r_pinst := pinst;
     r_out := r_out s;   (* the process image is not touched by a restart *)
     r_time := 0; r_cycles := 0; r_faulted := false |}.

(* the retain store: retained globals (+ retained program variables) *)
Fixpoint retained (ms : list vmeta) (cur : list Z) : list (option Z) :=
  match ms, cur with
  | m :: ms', v :: cur' => (if m_retain m then Some v else None) :: retained ms' cur'
  | _, _ => []
  end.
Record snapshot := { sn_g : list (option Z); sn_p : list (list (option Z)) }.
Definition take_snapshot (c : cfg) (s : rt) : snapshot :=
  {| sn_g := retained (c_globals c) (r_g s);
     sn_p := if c_progs_in_store c
             then map (fun p => retained (nth p (c_progs c) []) (inst_vars s p)) (seq 0 (length (c_progs c)))
             else [] |}.
Fixpoint apply_opt (sn : list (option Z)) (cur : list Z) : list Z :=
  match sn, cur with
  | Some v :: sn', _ :: cur' => v :: apply_opt sn' cur'
  | None :: sn', x :: cur' => x :: apply_opt sn' cur'
  | _, _ => cur
  end.
Fixpoint apply_progs (sn : list (list (option Z))) (p : nat) (heap : list (list Z)) (pinst : list nat) : list (list Z) :=
  match sn with
  | [] => heap
  | sp :: sn' =>
      let id := nth p pinst 0%nat in
      apply_progs sn' (S p) (set_nth heap id (apply_opt sp (nth id heap []))) pinst
  end.
Definition apply_snapshot (sn : snapshot) (s : rt) : rt :=
  {| r_g := apply_opt (sn_g sn) (r_g s); r_heap := apply_progs (sn_p sn) 0 (r_heap s) (r_pinst s); r_pinst := r_pinst s;
     r_out := r_out s; r_time := r_time s; r_cycles := r_cycles s; r_faulted := r_faulted s |}.
(* power cycle: save, a new process builds the runtime from the same sources, load *)
Definition power_cycle (c : cfg) (s : rt) : rt := apply_snapshot (take_snapshot c s) (fresh c).

(* one scan cycle: every program in order; refused when faulted *)
Section Exec.
  Variable body : nat -> list Z -> list Z -> list Z * list Z.   (* program p: (globals, vars) -> (globals', vars') *)
  Fixpoint run_progs (n : nat) (p : nat) (g : list Z) (heap : list (list Z)) (pinst : list nat) : list Z * list (list Z) :=
    match n with
    | O => (g, heap)
    | S n' =>
        let id := nth p pinst 0%nat in
        let '(g', v') := body p g (nth id heap []) in
        run_progs n' (S p) g' (set_nth heap id v') pinst
    end.
  Definition cycle (c : cfg) (dt : Z) (s : rt) : rt :=
    if r_faulted s then {| r_g := r_g s; r_heap := r_heap s; r_pinst := r_pinst s; r_out := r_out s; r_time := r_time s + dt; r_cycles := r_cycles s; r_faulted := true |}
    else let '(g, heap) := run_progs (length (c_progs c)) 0 (r_g s) (r_heap s) (r_pinst s) in
         {| r_g := g; r_heap := heap; r_pinst := r_pinst s;
            (* publish through the references resolved at build time *)
            r_out := map (fun b => nth (snd b) (nth (fst b) heap []) 0) (c_bindings c);
            r_time := r_time s + dt; r_cycles := r_cycles s + 1; r_faulted := false |}.

  Inductive op := OCycle (dt : Z) | OSetG (i : nat) (v : Z) | OSetP (p i : nat) (v : Z)
                | ORestart (warm : bool) | OPower | OFault.
  Definition step (c : cfg) (s : rt) (o : op) : rt :=
    match o with
    | OCycle dt => cycle c dt s
    | OSetG i v => {| r_g := set_nth (r_g s) i v; r_heap := r_heap s; r_pinst := r_pinst s; r_out := r_out s; r_time := r_time s; r_cycles := r_cycles s; r_faulted := r_faulted s |}
    | OSetP p i v =>
        let id := nth p (r_pinst s) 0%nat in
        {| r_g := r_g s; r_heap := set_nth (r_heap s) id (set_nth (nth id (r_heap s) []) i v); r_pinst := r_pinst s; r_out := r_out s;
           r_time := r_time s; r_cycles := r_cycles s; r_faulted := r_faulted s |}
    | ORestart w => restart c w s
    | OPower => power_cycle c s
    | OFault => {| r_g := r_g s; r_heap := r_heap s; r_pinst := r_pinst s; r_out := r_out s; r_time := r_time s; r_cycles := r_cycles s; r_faulted := true |}
    end.
  Definition run (c : cfg) (ops : list op) : rt := fold_left (step c) ops (fresh c).
End Exec.

(* what a binding created at build time (instance id p, offset i) reads *)
Definition read_binding (s : rt) (p i : nat) : Z := nth i (nth p (r_heap s) []) 0.
(* what the program's variable holds now *)
Definition read_var (s : rt) (p i : nat) : Z := nth i (inst_vars s p) 0.
