(* Model of the generic parsing machinery of crates/trust-syntax:
     lexer/mod.rs    the adapter around the generated lexer (the "1." + ".." pending queue)
     parser/sink.rs  Sink::finish: events + tokens -> tree (forward-parent chains, eat_trivia)
   The generated lexer and the grammar are parameters: any raw token list, any event list. *)
From Coq Require Import List Bool Arith.
Import ListNotations.

(* ---------- tokens ---------- *)
Record tok := { t_kind : nat; t_trivia : bool; t_text : list nat }.

(* ---------- lexer adapter ---------- *)
(* raw tokens of the generated lexer: kind, text.  [k_int] / [k_dot] / [k_dotdot] are the kinds the adapter looks at;
   an integer literal whose text ends in '.' (46) and is longer than one byte is split *)
Section Adapter.
  Variables k_int k_dot k_dotdot : nat.
  Definition ends_with_dot (s : list nat) : bool := match rev s with c :: _ :: _ => Nat.eqb c 46 | _ => false end.
  Fixpoint adapt (fuel : nat) (raw : list tok) : list tok :=
    match fuel with
    | O => raw
    | S fuel' =>
        match raw with
        | [] => []
        | t :: rest =>
            if Nat.eqb (t_kind t) k_int && ends_with_dot (t_text t) then
              let int_part := {| t_kind := k_int; t_trivia := false; t_text := removelast (t_text t) |} in
              match rest with
              | nx :: rest' =>
                  if Nat.eqb (t_kind nx) k_dot then
                    int_part :: {| t_kind := k_dotdot; t_trivia := false; t_text := 46 :: t_text nx |} :: adapt fuel' rest'
                  else int_part :: {| t_kind := k_dot; t_trivia := false; t_text := [46] |} :: nx :: adapt fuel' rest'
              | [] => [int_part; {| t_kind := k_dot; t_trivia := false; t_text := [46] |}]
              end
            else t :: adapt fuel' rest
        end
    end.
End Adapter.

(* ---------- sink ---------- *)
Inductive tree := Node (k : nat) (cs : list tree) | Leaf (k : nat) (text : list nat).
Inductive event := EStart (k : nat) (fp : option nat) | EToken (k : nat) (n : nat) | EFinish | EPlaceholder.
Record sink := {
  s_events : list event; s_cursor : nat;
  s_stack : list (nat * list tree);   (* open nodes, innermost first; children newest first *)
  s_roots : list tree;                (* finished top-level nodes, newest first *)
  s_panic : bool                      (* finish_node without an open node *)
}.
Fixpoint set_nth {A} (l : list A) (i : nat) (x : A) : list A :=
  match l, i with [], _ => [] | _ :: r, O => x :: r | y :: r, S i' => y :: set_nth r i' x end.
Definition add_child (s : sink) (t : tree) : sink :=
  match s_stack s with
  | (k, cs) :: st => {| s_events := s_events s; s_cursor := s_cursor s; s_stack := (k, t :: cs) :: st; s_roots := s_roots s; s_panic := s_panic s |}
  | [] => {| s_events := s_events s; s_cursor := s_cursor s; s_stack := []; s_roots := t :: s_roots s; s_panic := s_panic s |}
  end.
(* Sink::token *)
Definition emit_token (toks : list tok) (kind : nat) (s : sink) : sink :=
  match nth_error toks (s_cursor s) with
  | Some t => let s' := add_child s (Leaf kind (t_text t)) in
              {| s_events := s_events s'; s_cursor := S (s_cursor s); s_stack := s_stack s'; s_roots := s_roots s'; s_panic := s_panic s' |}
  | None => s
  end.
Fixpoint eat_trivia (fuel : nat) (toks : list tok) (s : sink) : sink :=
  match fuel with
  | O => s
  | S fuel' => match nth_error toks (s_cursor s) with
               | Some t => if t_trivia t then eat_trivia fuel' toks (emit_token toks (t_kind t) s) else s
               | None => s
               end
  end.
Fixpoint emit_n (toks : list tok) (kind n : nat) (s : sink) : sink :=
  match n with O => s | S n' => emit_n toks kind n' (emit_token toks kind s) end.
Definition start_node (k : nat) (s : sink) : sink :=
  {| s_events := s_events s; s_cursor := s_cursor s; s_stack := (k, []) :: s_stack s; s_roots := s_roots s; s_panic := s_panic s |}.
Definition finish_node (s : sink) : sink :=
  match s_stack s with
  | (k, cs) :: st =>
      add_child {| s_events := s_events s; s_cursor := s_cursor s; s_stack := st; s_roots := s_roots s; s_panic := s_panic s |} (Node k (rev cs))
  | [] => {| s_events := s_events s; s_cursor := s_cursor s; s_stack := []; s_roots := s_roots s; s_panic := true |}
  end.
(* follow a forward-parent chain from index idx: the kinds collected (first = innermost) and the events with the visited
   Start events replaced by placeholders *)
Fixpoint follow (fuel : nat) (evs : list event) (idx : nat) (fp : option nat) (kinds : list nat) : list nat * list event :=
  match fuel with
  | O => (kinds, evs)
  | S fuel' =>
      match fp with
      | None => (kinds, evs)
      | Some d =>
          match nth_error evs (idx + d) with
          | Some (EStart k fp') => follow fuel' (set_nth evs (idx + d) EPlaceholder) (idx + d) fp' (kinds ++ [k])
          | Some _ => (kinds, set_nth evs (idx + d) EPlaceholder)     (* std::mem::replace happens before the test *)
          | None => (kinds, evs)                                      (* out of range would panic in the code; wf events never do *)
          end
      end
  end.
Definition sink_step (toks : list tok) (i : nat) (s : sink) : sink :=
  match nth_error (s_events s) i with
  | None => s
  | Some e =>
      let s0 := {| s_events := set_nth (s_events s) i EPlaceholder; s_cursor := s_cursor s; s_stack := s_stack s; s_roots := s_roots s; s_panic := s_panic s |} in
      match e with
      | EStart k fp =>
          let '(kinds, evs) := follow (length (s_events s)) (s_events s0) i fp [k] in
          fold_left (fun acc k => start_node k acc) (rev kinds)
                    {| s_events := evs; s_cursor := s_cursor s; s_stack := s_stack s; s_roots := s_roots s; s_panic := s_panic s |}
      | EToken k n => emit_n toks k n (eat_trivia (length toks) toks s0)
      | EFinish => finish_node (eat_trivia (length toks) toks s0)
      | EPlaceholder => s0
      end
  end.
Fixpoint sink_loop (toks : list tok) (n i : nat) (s : sink) : sink :=
  match n with O => s | S n' => sink_loop toks n' (S i) (sink_step toks i s) end.
Definition sink_run (toks : list tok) (evs : list event) : sink :=
  sink_loop toks (length evs) 0 {| s_events := evs; s_cursor := 0; s_stack := []; s_roots := []; s_panic := false |}.

(* the texts of the leaves, in order *)
Fixpoint leaves (t : tree) : list (list nat) :=
  match t with
  | Leaf _ x => [x]
  | Node _ cs => (fix go (l : list tree) := match l with [] => [] | c :: r => leaves c ++ go r end) cs
  end.
Definition leaves_list (l : list tree) : list (list nat) := flat_map leaves l.
Definition frame_leaves (f : nat * list tree) : list (list nat) := leaves_list (rev (snd f)).
Definition sink_leaves (s : sink) : list (list nat) := leaves_list (rev (s_roots s)) ++ flat_map frame_leaves (rev (s_stack s)).
