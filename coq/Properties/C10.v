(* C10 — retain file: lossless codec, crash-atomic save, bounded total decoder. Pinned. *)
From Coq Require Import NArith List Bool Arith.
From TP Require Import Model.RetainCodec Model.CrashFs Proofs.C10Proofs.
Import ListNotations.

(* every well-formed snapshot (every retainable value shape, any nesting up to the limit,
   any valid UTF-8 names) is read back unchanged *)
Theorem decode_encode_snapshot : forall s, wf_snapshot s -> dec_snapshot (enc_snapshot s) = Ok s.
Proof. exact dec_enc_snapshot. Qed.
Theorem decode_encode_value : forall fuel v depth rest,
  wf v -> (vsize v <= fuel)%nat -> (depth + height v <= max_depth)%nat ->
  dec_value fuel depth (enc_value v ++ rest) = Ok (v, rest).
Proof. intro fuel. exact (proj1 (dec_enc_all fuel)). Qed.
(* a crash at any point of the save protocol (any prefix of the system calls, the write cut at
   any byte) leaves the previous file contents or the new ones in full *)
Theorem save_crash_atomic : forall target tmp (f : fs) new ops,
  target <> tmp -> In ops (crash_prefixes (save_atomic target tmp new)) ->
  apply_ops f ops target = f target \/ apply_ops f ops target = Some new.
Proof. exact save_atomic_crash_safe. Qed.
Theorem save_in_place_not_atomic_refuted :
  exists (f : fs) target new ops, In ops (crash_prefixes (save_in_place target new)) /\
    apply_ops f ops target <> f target /\ apply_ops f ops target <> Some new.
Proof. exact save_in_place_refuted. Qed.
(* arbitrary bytes: decoding never nests deeper than the limit (bounded recursion) ... *)
Theorem decode_depth_bounded : forall fuel depth bs v r,
  dec_value fuel depth bs = Ok (v, r) -> (depth + height v <= max_depth + 1)%nat.
Proof. intro fuel. exact (proj1 (dec_depth_all fuel)). Qed.
(* ... and never reserves more memory than the remaining bytes can hold *)
Theorem decode_alloc_bounded : forall count remaining unit, (0 < unit)%N ->
  (cap_request true count remaining unit * unit <= remaining)%N.
Proof. exact cap_bounded. Qed.
Theorem unbounded_capacity_refuted :
  exists count remaining, remaining = 11%N /\ cap_request false count remaining 1 = 4294967295%N.
Proof. exact cap_unbounded_refuted. Qed.

Example c10_nonvacuous :
  wf_snapshot [ ([103], VArray [(0, 1)] [VScalar 3 513; VScalar 3 65535]);
                ([115], VStruct [80] [([120], VStr 24 [195; 169]); ([121], VNull)]) ]%N /\
  dec_snapshot (enc_snapshot [ ([103%N], VScalar 1 1) ]) = Ok [ ([103%N], VScalar 1 1) ].
Proof. exact c10_nonvacuous_l. Qed.

Print Assumptions decode_encode_snapshot.
Print Assumptions decode_encode_value.
Print Assumptions save_crash_atomic.
Print Assumptions save_in_place_not_atomic_refuted.
Print Assumptions decode_depth_bounded.
Print Assumptions decode_alloc_bounded.
Print Assumptions unbounded_capacity_refuted.
