(* C06 — property theorems, pinned (statements + exact + Print Assumptions only). *)
From Coq Require Import ZArith List Bool Sorting.Sorted Sorting.Permutation.
From TP Require Import Model.Sched Spec.C06 Proofs.C06Proofs.
Import ListNotations.
Open Scope Z_scope.

Definition st0 := {| ts_last_single := false; ts_last_run := 0; ts_overruns := 0 |}.

(* a task is selected in a cycle iff it is due: rising edge of SINGLE, or periodic *)
Theorem task_due_iff : forall now sv t st, in_i64 (now - ts_last_run st) ->
  (snd (step_task now sv t st) <> None <->
   event_due (ts_last_single st) sv \/ periodic_due (t_interval t) (ts_last_run st) now sv).
Proof. exact step_task_due. Qed.
Theorem event_and_periodic_exclusive : forall prev cur iv la now,
  event_due prev cur -> periodic_due iv la now cur -> False.
Proof. exact event_periodic_exclusive. Qed.
(* the tasks executed in a cycle are exactly the due ones, each at most once ... *)
Theorem executed_exactly_the_due_tasks : forall ts nprog sts now singles i, length ts = length sts ->
  (In i (snd (fst (cycle ts nprog sts now singles))) <->
   (i < length ts)%nat /\
   snd (step_task now (single_val singles (nth i ts dummy_task)) (nth i ts dummy_task) (nth i sts st0)) <> None).
Proof. exact cycle_executes_exactly_due. Qed.
Theorem at_most_once_per_cycle : forall ts nprog sts now singles,
  NoDup (snd (fst (cycle ts nprog sts now singles))).
Proof. exact cycle_at_most_once. Qed.
(* ... in ascending (priority, due time, declaration index) *)
Theorem order_is_priority_due_index : forall ts nprog sts now singles,
  let ready := isort (key_leb ts) (snd (collect now singles ts sts)) in
  StronglySorted (fun a b => key_leb ts a b = true) ready /\
  Permutation (snd (collect now singles ts sts)) ready /\
  snd (fst (cycle ts nprog sts now singles)) = map fst ready.
Proof. exact cycle_order_sorted. Qed.
Theorem key_leb_is_lexicographic : forall ts a b, key_leb ts a b = true <-> key_lt (prio_of ts) a b \/
  (prio_of ts (fst a) = prio_of ts (fst b) /\ snd a = snd b /\ (fst a <= fst b)%nat).
Proof. exact key_leb_spec. Qed.
(* followed by every program that has no task, in declaration order *)
Theorem background_after_all_tasks : forall ts nprog sts now singles,
  exists taskprogs, snd (cycle ts nprog sts now singles) = taskprogs ++ background ts nprog /\
    taskprogs = flat_map (fun i => t_progs (nth i ts dummy_task)) (snd (fst (cycle ts nprog sts now singles))).
Proof. exact cycle_background_last. Qed.
Theorem background_is_unscheduled : forall ts nprog p,
  In p (background ts nprog) <-> (p < nprog)%nat /\ forall t, In t ts -> ~ In p (t_progs t).
Proof. exact background_spec. Qed.
Theorem background_in_declaration_order : forall ts nprog, StronglySorted lt (background ts nprog).
Proof. exact background_order. Qed.
(* effect of an activation on the bookkeeping *)
Theorem periodic_activation : forall now t st,
  in_i64 (now - ts_last_run st) -> in_i64 (ts_last_run st + t_interval t) ->
  periodic_due (t_interval t) (ts_last_run st) now false ->
  step_task now false t st =
  ({| ts_last_single := false; ts_last_run := now;
      ts_overruns := Z.min u64max (ts_overruns st + missed (t_interval t) (ts_last_run st) now) |},
   Some (ts_last_run st + t_interval t)).
Proof. exact step_task_periodic. Qed.
Theorem event_activation : forall now t st, event_due (ts_last_single st) true ->
  step_task now true t st =
  ({| ts_last_single := true; ts_last_run := ts_last_run st; ts_overruns := ts_overruns st |}, Some now).
Proof. exact step_task_event. Qed.
Theorem not_due_changes_only_last_single : forall now sv t st, in_i64 (now - ts_last_run st) ->
  ~ event_due (ts_last_single st) sv -> ~ periodic_due (t_interval t) (ts_last_run st) now sv ->
  step_task now sv t st =
  ({| ts_last_single := sv; ts_last_run := ts_last_run st; ts_overruns := ts_overruns st |}, None).
Proof. exact step_task_idle. Qed.
Theorem missed_activations_counted_not_replayed : forall now now' t st,
  in_i64 (now - ts_last_run st) -> in_i64 (ts_last_run st + t_interval t) ->
  periodic_due (t_interval t) (ts_last_run st) now false -> now' - now < t_interval t ->
  ~ periodic_due (t_interval t) (ts_last_run (fst (step_task now false t st))) now' false.
Proof. exact not_replayed. Qed.
Theorem overrun_counter_monotone : forall now sv t st, 0 <= ts_overruns st <= u64max ->
  ts_overruns st <= ts_overruns (fst (step_task now sv t st)) <= u64max.
Proof. exact overruns_monotone. Qed.
(* over any timeline the edge detector compares with the SINGLE value of the previous cycle *)
Theorem event_only_on_rising_edge : forall ts nprog tl sts now singles j,
  length ts = length sts -> (j < length ts)%nat ->
  ts_last_single (nth j (states_after ts nprog sts (tl ++ [(now, singles)])) st0)
  = single_val singles (nth j ts dummy_task).
Proof. exact last_single_tracks. Qed.
Theorem no_spurious_edge_at_registration_t : forall now0 now singles t, t_interval t = 0 ->
  snd (step_task now (single_val singles t) t (reg_state now0 singles t)) = None.
Proof. exact no_spurious_edge_at_registration. Qed.

Example c06_nonvacuous :
  periodic_due 10 0 25 false /\ missed 10 0 25 = 1 /\ event_due false true /\ in_i64 (25 - 0) /\
  snd (cycle [ {| t_interval := 10; t_single := None; t_prio := 1; t_progs := [0%nat] |};
               {| t_interval := 0; t_single := Some 0%nat; t_prio := 0; t_progs := [1%nat] |} ] 3
             [ st0; st0 ] 25 [true]) = [1%nat; 0%nat; 2%nat].
Proof. exact c06_nonvacuous_l. Qed.

Print Assumptions task_due_iff.
Print Assumptions event_and_periodic_exclusive.
Print Assumptions executed_exactly_the_due_tasks.
Print Assumptions at_most_once_per_cycle.
Print Assumptions order_is_priority_due_index.
Print Assumptions key_leb_is_lexicographic.
Print Assumptions background_after_all_tasks.
Print Assumptions background_is_unscheduled.
Print Assumptions background_in_declaration_order.
Print Assumptions periodic_activation.
Print Assumptions event_activation.
Print Assumptions not_due_changes_only_last_single.
Print Assumptions missed_activations_counted_not_replayed.
Print Assumptions overrun_counter_monotone.
Print Assumptions event_only_on_rising_edge.
Print Assumptions no_spurious_edge_at_registration_t.
