(* C03 — a variable always holds a value of its declared type. Pinned.
   [store_ok G s]: every slot carries the declared kind and a magnitude inside that kind's range. *)
From Coq Require Import ZArith List Bool.
From TP Require Import Model.StCore Model.StTyping Proofs.StProofs Proofs.StArrays.
Import ListNotations.
Open Scope Z_scope.

(* preserved by every cycle of every T-typed program, for any sequence of cycles and
   declaration-conforming external writes (I/O latch, debugger, harness) in between *)
Theorem storage_typed : forall o strict,
  o_neg_checked o = true -> o_for_checked o = true -> o_coerce_write o = true \/ strict = true ->
  o_case_unsigned o = true -> o_return_ok o = true ->
  forall G fuel body, tprogram strict G body = true -> forall inputs s, store_ok G s = true -> Forall (inputs_ok G) inputs ->
  benign (run_cycles o fuel s body inputs) (fun s' => store_ok G s' = true).
Proof. exact cycles_sound. Qed.
(* per write path: assignment (with the conversion to the target's kind) ... *)
Theorem assignment_keeps_type : forall o strict, o_coerce_write o = true \/ strict = true -> forall G s x v t,
  store_ok G s = true -> nth_error G x = Some t ->
  (match t with TBool => is_vbool v | TInt k => exists k' z, v = VInt k' z /\ in_range k' z = true /\ (strict = true -> k' = k) end) ->
  benign (write o s x v) (fun s' => store_ok G s' = true).
Proof. exact write_sound. Qed.
(* ... and the FOR control variable update *)
Theorem for_control_keeps_type : forall k zt z, k <> KULInt -> (is_signed k = false -> 0 <= z) ->
  benign (coerce_loop (VInt k zt) z) (fun v => slot_ok (TInt k) v = true).
Proof. exact coerce_loop_sound. Qed.
Theorem external_write_keeps_type : forall G s x t v,
  store_ok G s = true -> nth_error G x = Some t -> slot_ok t v = true -> store_ok G (upd s x v) = true.
Proof. exact store_ok_upd. Qed.
(* storing the evaluated value as it is (the code before the repair) changes the type tag *)
Theorem uncoerced_assignment_refuted :
  run_program {| o_neg_checked := true; o_for_checked := true; o_coerce_write := false; o_case_unsigned := true; o_return_ok := true |} 10
    [VInt KInt 1] [SAssign 0 (EBin BAdd (EVar 0) (ELit true (VInt KDInt 1)))] = Ok [VInt KDInt 2] /\
  store_ok [TInt KInt] [VInt KDInt 2] = false.
Proof. exact uncoerced_write_changes_type. Qed.

Print Assumptions storage_typed.
Print Assumptions assignment_keeps_type.
Print Assumptions for_control_keeps_type.
Print Assumptions external_write_keeps_type.
Print Assumptions uncoerced_assignment_refuted.

(* ---- arrays: storage_typed covers programs with element assignments (SAssignIdx); the element write path on its own ---- *)
(* the slot an element assignment computes is declared with the element kind, so the stored value conforms *)
Theorem element_write_keeps_type : forall o strict, o_coerce_write o = true \/ strict = true -> forall G s b lo n k iv x v,
  store_ok G s = true -> arr_ok G b n k = true -> idx_slot b lo n iv = Ok x ->
  (exists k' z, v = VInt k' z /\ in_range k' z = true /\ (strict = true -> k' = k)) ->
  benign (write o s x v) (fun s' => store_ok G s' = true).
Proof. exact StArrays.element_write_keeps_type. Qed.
(* a T-typed element assignment, executed by the interpreter: every variable and every element still holds its declared type *)
Theorem element_assignment_keeps_type : forall o strict,
  o_neg_checked o = true -> o_for_checked o = true -> o_coerce_write o = true \/ strict = true -> o_case_unsigned o = true ->
  forall G fuel depth s b lo n ki i e il, store_ok G s = true -> tstmt strict G il (SAssignIdx b lo n ki i e) = true ->
  benign (exec o fuel depth s (SAssignIdx b lo n ki i e)) (fun r => store_ok G (fst r) = true /\ snd r = GNormal).
Proof. exact StArrays.array_write_sound. Qed.
(* the slots of a declared array hold the element kind, in range *)
Theorem array_slots_typed : forall G s b n k j, store_ok G s = true -> arr_ok G b n k = true -> (j < n)%nat ->
  exists z, nth_error s (b + j) = Some (VInt k z) /\ in_range k z = true.
Proof. exact arr_ok_slot. Qed.

Print Assumptions element_write_keeps_type.
Print Assumptions element_assignment_keeps_type.
Print Assumptions array_slots_typed.
