(* C07 — process image: address locality, little-endian layout, latch once / publish once. Pinned. *)
From Coq Require Import ZArith List Bool.
From TP Require Import Model.Io Model.Cycle Proofs.IoProofs Proofs.CycleProofs.
Import ListNotations.
Open Scope Z_scope.

(* a write touches only the bytes of the addressed span; the image only grows to cover it *)
Theorem write_is_local : forall ad v img j, in_span ad j = false -> get (io_write ad v img) j = get img j.
Proof. exact io_write_local. Qed.
Theorem write_length : forall ad v img,
  length (io_write ad v img) = Nat.max (length img) (a_byte ad + nbytes (a_size ad)).
Proof. exact io_write_length. Qed.
(* a bit write leaves the other bits of its byte unchanged *)
Theorem bit_write_other_bits : forall a bit flag img m, 0 <= bit -> 0 <= m -> m <> bit ->
  Z.testbit (get (wr_bit a bit flag img) a) m = Z.testbit (get img a) m.
Proof. exact wr_bit_other_bits. Qed.
Theorem bit_write_keeps_byte_range : forall a bit flag img, 0 <= bit < 8 -> 0 <= get img a < 256 ->
  0 <= get (wr_bit a bit flag img) a < 256.
Proof. exact wr_bit_byte_range. Qed.
Theorem read_after_write : forall ad v img,
  match a_size ad with
  | SzX => 0 <= a_bit ad /\ (v = 0 \/ v = 1)
  | s => 0 <= v < 256 ^ Z.of_nat (nbytes s)
  end -> io_read ad (io_write ad v img) = v.
Proof. exact io_read_write_same. Qed.
Theorem read_unaffected_by_disjoint_write : forall ad ad' v img,
  (forall j, in_span ad j = true -> in_span ad' j = false) -> io_read ad (io_write ad' v img) = io_read ad img.
Proof. exact io_read_write_disjoint. Qed.
(* little-endian: the value is the sum of byte_k * 256^k *)
Theorem little_endian_value : forall n a img,
  rd_le n a img = fold_right (fun k acc => get img (a + k) * 256 ^ Z.of_nat k + acc) 0 (seq 0 n).
Proof. exact rd_le_sum. Qed.
Theorem little_endian_bytes : forall n a v img k, (k < n)%nat ->
  get (wr_le n a v img) (a + k) = (v / 256 ^ Z.of_nat k) mod 256.
Proof. exact wr_le_inside. Qed.
(* typed variables survive the image: signed <-> two's complement *)
Theorem signed_roundtrip_t : forall bits s, 0 < bits -> - 2 ^ (bits - 1) <= s < 2 ^ (bits - 1) ->
  to_signed bits (to_unsigned bits s) = s.
Proof. exact signed_roundtrip. Qed.
Theorem unsigned_roundtrip_t : forall bits u, 0 < bits -> 0 <= u < 2 ^ bits ->
  to_unsigned bits (to_signed bits u) = u.
Proof. exact unsigned_roundtrip. Qed.

(* each driver is asked for inputs exactly once before, and given the final outputs exactly once after *)
Theorem driver_calls_once_each : forall c ds st st' log, cycle c ds st = (ROk, st', log) ->
  log = map LRd (seq 0 (length ds)) ++ map (fun d => LWr d (im_out (r_im st'))) (seq 0 (length ds)).
Proof. exact cycle_ok_log. Qed.
Theorem ok_cycle_is_latch_exec_publish : forall c ds st st' log, cycle c ds st = (ROk, st', log) ->
  exists inp,
    fst (fst (read_phase 0 ds (im_in (r_im st)))) = inp /\
    let im1 := im_set AIn (r_im st) inp in
    let vs1 := latch (c_bindings c) im1 (r_vars st) in
    exec (c_prog c) vs1 = (r_vars st', false) /\
    r_im st' = publish (c_bindings c) (r_vars st') im1 /\ r_faulted st' = false.
Proof. exact cycle_ok_state. Qed.
(* every input-bound variable = decode(latched bytes); unbound variables untouched *)
Theorem inputs_latched : forall bs im vs b,
  NoDup (map b_var bs) -> In b bs -> b_area b <> AOut -> (b_var b < length vs)%nat ->
  get_var (latch bs im vs) (b_var b) = from_io (b_ty b) (io_read (b_addr b) (im_get (b_area b) im)).
Proof. exact latch_bound. Qed.
Theorem latch_leaves_unbound : forall bs im vs j,
  (forall b, In b bs -> b_area b <> AOut -> b_var b <> j) -> get_var (latch bs im vs) j = get_var vs j.
Proof. exact latch_unbound. Qed.
(* published bytes = encode(final variables), later overlapping bindings win (stated as proviso) *)
Theorem published_is_final : forall bs1 b bs2 vs im,
  out_binding b = true ->
  (forall b', In b' bs2 -> out_binding b' = true -> disjoint_b b b') ->
  fits b (to_io (b_ty b) (get_var vs (b_var b))) ->
  io_read (b_addr b) (im_get (b_area b) (publish (bs1 ++ b :: bs2) vs im)) = to_io (b_ty b) (get_var vs (b_var b)).
Proof. exact publish_final. Qed.
(* a cycle whose program faults publishes nothing the program computed *)
Theorem fault_publishes_nothing : forall c ds st inp rlog vs2,
  r_faulted st = false ->
  read_phase 0 ds (im_in (r_im st)) = (inp, rlog, true) ->
  exec (c_prog c) (latch (c_bindings c) (im_set AIn (r_im st) inp) (r_vars st)) = (vs2, true) ->
  let '(r, st', _) := cycle c ds st in
  r = RErr /\
  r_im st' = (if fault_policy_safe (c_policy c)
              then fst (safe_apply (c_stop_on_error c) (c_safe c) (im_set AIn (r_im st) inp))
              else im_set AIn (r_im st) inp).
Proof. exact cycle_program_fault_publishes_nothing. Qed.

Example c07_nonvacuous :
  io_read {| a_size := SzW; a_byte := 1; a_bit := 0 |}
     (io_write {| a_size := SzW; a_byte := 1; a_bit := 0 |} 513 [7]) = 513 /\
  io_write {| a_size := SzW; a_byte := 1; a_bit := 0 |} 513 [7] = [7; 1; 2] /\
  in_span {| a_size := SzW; a_byte := 1; a_bit := 0 |} 0 = false.
Proof. exact c07_nonvacuous_l. Qed.

Print Assumptions write_is_local.
Print Assumptions write_length.
Print Assumptions bit_write_other_bits.
Print Assumptions bit_write_keeps_byte_range.
Print Assumptions read_after_write.
Print Assumptions read_unaffected_by_disjoint_write.
Print Assumptions little_endian_value.
Print Assumptions little_endian_bytes.
Print Assumptions signed_roundtrip_t.
Print Assumptions unsigned_roundtrip_t.
Print Assumptions driver_calls_once_each.
Print Assumptions ok_cycle_is_latch_exec_publish.
Print Assumptions inputs_latched.
Print Assumptions latch_leaves_unbound.
Print Assumptions published_is_final.
Print Assumptions fault_publishes_nothing.
