(* C20 — resource threads: consistent shared globals; pause / resume / stop always work.
   Pinned statements about every interleaving of loop iterations and controller actions of
   Model/Resource.v, for an arbitrary program (cycle effect) per resource. *)
From Coq Require Import List Bool Arith.
From TP Require Import Model.Resource Proofs.C20Proofs Model.ResourceGate Proofs.C20Gate.
Import ListNotations.

(* whatever each cycle preserves on the shared set, every interleaving preserves: a cycle works on
   a snapshot taken atomically with its write-back, so nobody sees a half-updated set *)
Theorem shared_invariants_are_preserved : forall (G L : Type) (prog : nat -> G -> L -> G * L * bool) (P : G -> Prop),
  (forall i g l, P g -> P (fst (fst (prog i g l)))) ->
  forall ls (s : sys G L), P (s_shared G L s) -> P (s_shared G L (run G L prog s ls)).
Proof. exact invariant_preserved_l. Qed.
(* read-modify-write cycles never lose an update: a counter bumped by every cycle counts them all *)
Theorem counter_no_lost_update : forall (G L : Type) (prog : nat -> G -> L -> G * L * bool) (cnt : G -> nat),
  (forall i g l, cnt (fst (fst (prog i g l))) = S (cnt g)) ->
  forall ls (s : sys G L), cnt (s_shared G L (run G L prog s ls)) + total_cycles G L s = cnt (s_shared G L s) + total_cycles G L (run G L prog s ls).
Proof. exact counter_no_lost_update_l. Qed.
(* a paused resource executes no cycle until a resume is sent *)
Theorem paused_runs_no_cycle : forall (G L : Type) (prog : nat -> G -> L -> G * L * bool) i ls (s : sys G L) r,
  nth_error (s_res G L s) i = Some r -> will_pause L r = true -> no_resume i ls = true ->
  exists r', nth_error (s_res G L (run G L prog s ls)) i = Some r' /\ r_cycles L r' = r_cycles L r /\ r_local L r' = r_local L r /\ will_pause L r' = true.
Proof. exact paused_runs_no_cycle_l. Qed.
Theorem pause_takes_effect : forall (L : Type) (r : res L),
  will_pause L {| r_state := r_state L r; r_alive := r_alive L r; r_paused := r_paused L r; r_queue := r_queue L r ++ [CPause];
                  r_stop := r_stop L r; r_cycles := r_cycles L r; r_saves := r_saves L r; r_local := r_local L r |} = true.
Proof. exact pause_takes_effect_l. Qed.
(* stop: the next iteration ends the loop in Stopped after exactly one save; an ended loop does nothing more *)
Theorem stop_terminates : forall (G L : Type) (prog : nat -> G -> L -> G * L * bool) i g (r : res L), r_alive L r = true -> r_stop L r = true ->
  iter_res G L prog i g r = (g, {| r_state := Stopped; r_alive := false; r_paused := r_paused L r; r_queue := r_queue L r; r_stop := true;
                                   r_cycles := r_cycles L r; r_saves := S (r_saves L r); r_local := r_local L r |}).
Proof. exact stop_terminates_l. Qed.
Theorem ended_loop_is_final : forall (G L : Type) (prog : nat -> G -> L -> G * L * bool) i g (r : res L), r_alive L r = false -> iter_res G L prog i g r = (g, r).
Proof. exact dead_is_final_l. Qed.
Theorem retained_data_saved_once : forall (G L : Type) (prog : nat -> G -> L -> G * L * bool) ls (s : sys G L),
  Forall (save_inv L) (s_res G L s) -> Forall (save_inv L) (s_res G L (run G L prog s ls)).
Proof. exact save_inv_run. Qed.
(* a fault is local: it ends only the faulting loop; every other live resource still executes its cycle *)
Theorem fault_halts_only_itself : forall (G L : Type) (prog : nat -> G -> L -> G * L * bool) i g (r : res L),
  r_alive L r = true -> r_stop L r = false -> will_pause L r = false -> snd (prog i g (r_local L r)) = true ->
  r_alive L (snd (iter_res G L prog i g r)) = false /\ r_state L (snd (iter_res G L prog i g r)) = Faulted.
Proof. exact fault_halts_only_itself_l. Qed.
Theorem others_are_untouched : forall (G L : Type) (prog : nat -> G -> L -> G * L * bool) (s : sys G L) l j,
  label_idx l <> j -> nth_error (s_res G L (step G L prog s l)) j = nth_error (s_res G L s) j.
Proof. exact frame_l. Qed.
Theorem live_resource_makes_progress : forall (G L : Type) (prog : nat -> G -> L -> G * L * bool) i g (r : res L),
  r_alive L r = true -> r_stop L r = false -> will_pause L r = false ->
  r_cycles L (snd (iter_res G L prog i g r)) = S (r_cycles L r) /\ fst (iter_res G L prog i g r) = fst (fst (prog i g (r_local L r))).
Proof. exact cycle_progress_l. Qed.
Theorem c20_nonvacuous :
  let s := run (nat * nat) nat demo_prog demo_sys demo_ls in
  s_shared _ _ s = (8, 8) /\ map (r_cycles nat) (s_res _ _ s) = [3; 2; 3] /\ map (r_state nat) (s_res _ _ s) = [Running; Stopped; Faulted]
  /\ map (r_saves nat) (s_res _ _ s) = [0; 1; 0].
Proof. exact demo_run. Qed.
(* ---- the start gate (Model/ResourceGate.v): a resource waiting at the gate runs no cycle and saves nothing; with the timed wait
   of the code (or with a stop() that notified the gate) no reachable state is wedged - a stop request or an opened gate can always
   be acted upon; a stop at the closed gate ends in Stopped at the next wake-up, an opened gate lets the thread in; an untimed wait
   with a stop() that does not notify the gate is refuted: the thread stays at the gate for ever *)
Theorem gate_runs_nothing : forall c ls, g_cycles (grun c ginit ls) = 0 /\ g_saves (grun c ginit ls) = 0.
Proof. exact gate_runs_nothing_l. Qed.
Theorem gate_never_wedged : forall c, timed c = true \/ stop_notifies c = true -> forall ls, wedged c (grun c ginit ls) = false.
Proof. exact gate_never_wedged_l. Qed.
Theorem gate_stop_terminates : forall c s, g_phase s = GWait -> g_open s = false -> wake_enabled c (gstep c s GStop) = true ->
  g_phase (gstep c (gstep c s GStop) GWake) = GStopped.
Proof. exact gate_stop_terminates_l. Qed.
Theorem gate_open_enters : forall c s, g_phase s = GWait -> g_phase (gstep c (gstep c s GOpen) GWake) = GEntered.
Proof. exact gate_open_enters_l. Qed.
Theorem untimed_gate_wait_refuted : let c := {| timed := false; stop_notifies := false |} in
  wedged c (grun c ginit [GStop]) = true /\ forall n, g_phase (grun c ginit (GStop :: repeat GWake n)) = GWait.
Proof. exact untimed_wait_wedges. Qed.
Theorem gate_nonvacuous : timed code_cfg = true \/ stop_notifies code_cfg = true.
Proof. exact code_cfg_ok. Qed.
Print Assumptions shared_invariants_are_preserved.
Print Assumptions counter_no_lost_update.
Print Assumptions paused_runs_no_cycle.
Print Assumptions pause_takes_effect.
Print Assumptions stop_terminates.
Print Assumptions ended_loop_is_final.
Print Assumptions retained_data_saved_once.
Print Assumptions fault_halts_only_itself.
Print Assumptions others_are_untouched.
Print Assumptions live_resource_makes_progress.
Print Assumptions gate_runs_nothing.
Print Assumptions gate_never_wedged.
Print Assumptions gate_stop_terminates.
Print Assumptions gate_open_enters.
Print Assumptions untimed_gate_wait_refuted.
