(* C16 — rename preserves program meaning and is reversible: the binding structure of a two-level
   scope model (project declarations; per POU locals and identifier uses), Model/Rename.v. *)
From Coq Require Import List Bool Arith.
From TP Require Import Model.Rename Proofs.C16Proofs.
Import ListNotations.

(* in an error-free project (every use denotes a declaration) whatever the full conflict check accepts leaves EVERY identifier use bound to the same declaration: no capture, no new
   shadowing; diagnostics and run-time behaviour are functions of the binding structure *)
Theorem rename_preserves_binding : forall P t y P', no_unbound P -> rename {| r_full := true |} P t y = Some P' -> bindings P' = bindings P.
Proof. exact rename_preserves_binding_l. Qed.
(* the declaring-scope-only check of the original code accepts a capturing rename *)
Theorem declaring_scope_check_refuted :
  exists P', rename {| r_full := false |} capture_prog (TLocal 0 1) 7 = Some P' /\
             bindings capture_prog = [[BLocal 1; BGlobal 0; BLocal 0]] /\ bindings P' = [[BLocal 1; BLocal 0; BLocal 0]] /\
             rename {| r_full := true |} capture_prog (TLocal 0 1) 7 = None.
Proof. exact declaring_scope_check_captures. Qed.
(* renaming back restores the text of the renamed scope *)
Theorem rename_back_identity : forall (p : pou) x y, mem y (p_locals p) = false -> mem y (p_uses p) = false ->
  {| p_locals := subst y x (subst x y (p_locals p)); p_uses := subst y x (subst x y (p_uses p)) |} = p.
Proof. exact rename_back_local_l. Qed.
Theorem c16_nonvacuous :
  exists P', rename {| r_full := true |} {| g_decls := [7; 8]; g_pous := [{| p_locals := [1; 2]; p_uses := [2; 7; 1] |}; {| p_locals := [7]; p_uses := [7; 8] |}] |} (TGlobal 7) 9 = Some P' /\
             g_decls P' = [9; 8] /\ map p_uses (g_pous P') = [[2; 9; 1]; [7; 8]].
Proof. exact rename_nonvacuous. Qed.
Print Assumptions rename_preserves_binding.
Print Assumptions declaring_scope_check_refuted.
Print Assumptions rename_back_identity.
