(* C14 — the language server keeps the same document text as the editor. Pinned. *)
From Coq Require Import ZArith List Bool.
From TP Require Import Model.LspText Spec.C14 Proofs.C14Proofs.
Import ListNotations.
Open Scope Z_scope.

(* every position an editor can send resolves to the same character boundary on both sides *)
Theorem server_resolves_positions_like_editor : forall text l c k,
  eresolve text l c = Some k -> position_to_index true text l c = Some k.
Proof. exact server_resolves_like_editor. Qed.
(* after every notification of every history (incremental, full, multi-change; each change
   interpreted on the text produced by the previous one) the server's text is the editor's *)
Theorem server_text_equals_editor_text : forall notes text ts,
  editor_run text notes = Some ts -> run_notes true text notes = map (fun t => (true, t)) ts.
Proof. exact server_text_equals_editor_text_l. Qed.
Theorem multi_change_sequencing : forall chs text t,
  editor_changes text chs = Some t -> apply_changes true text chs = Some t.
Proof. exact apply_changes_like_editor. Qed.
(* offset -> position -> offset is the identity on every character boundary *)
Theorem offset_position_roundtrip : forall text k, (k <= length text)%nat ->
  let '(l, c) := index_to_position true text k in position_to_index true text l c = Some k.
Proof. exact offset_position_roundtrip_l. Qed.
(* one column per character (the code before the repair) diverges from the editor *)
Theorem char_columns_lose_the_text_refuted :
  exists text notes ts, editor_run text notes = Some ts /\
    run_notes false text notes <> map (fun t => (true, t)) ts.
Proof. exact char_columns_refuted. Qed.

Example c14_nonvacuous :
  editor_run [128512; 97; 10; 98] [[ {| ch_range := Some (0%nat, 3, 1%nat, 0); ch_text := [90] |} ]]
    = Some [[128512; 97; 90; 98]].
Proof. exact c14_nonvacuous_l. Qed.

Print Assumptions server_resolves_positions_like_editor.
Print Assumptions server_text_equals_editor_text.
Print Assumptions multi_change_sequencing.
Print Assumptions offset_position_roundtrip.
Print Assumptions char_columns_lose_the_text_refuted.
