(* C19 — the browser IDE's file API stays inside the project and never loses a concurrent edit.
   Pinned statements over Model/WebIde.v. *)
From Coq Require Import List Bool Arith NArith.
From TP Require Import Model.WebIde Model.WebIdeDocs Proofs.C19Proofs.
Import ListNotations.

(* every path string that normalisation accepts is a non-empty list of plain names: none is
   empty, "." or "..", none starts with a dot (hidden), none contains a separator *)
Theorem normalized_paths_are_plain : forall p parts, normalize p = Ok parts -> parts <> [] /\ Forall good_name parts.
Proof. exact normalize_safe_l. Qed.
Theorem plain_names_are_not_dot_or_dotdot : forall s, good_name s -> s <> [dot; dot] /\ s <> [dot].
Proof. exact good_name_not_dotdot. Qed.
(* with the full-path check, whatever object the operating system reaches through an accepted
   path (following symbolic links, or creating the last component) lies under the project root *)
Theorem accepted_paths_stay_inside : forall fuel f root parts j t,
  resolve {| r_full_check := true |} fuel f root parts = Ok j -> os_target fuel f j = Some t -> is_prefix root t = true.
Proof. exact confinement_l. Qed.
Theorem parent_only_check_refuted :
  let root := [nm [112%N]] in
  let f := [([nm [112%N]], NDir); ([nm [112%N]; nm [108%N]], NLink [nm [111%N]]); ([nm [111%N]], NFile)] in
  resolve {| r_full_check := false |} 8 f root [nm [108%N]] = Ok [nm [112%N]; nm [108%N]] /\
  os_target 8 f [nm [112%N]; nm [108%N]] = Some [nm [111%N]] /\ is_prefix root [nm [111%N]] = false.
Proof. exact parent_only_check_escapes. Qed.
Theorem dangling_link_is_refused :
  let root := [nm [112%N]] in
  let f := [([nm [112%N]], NDir); ([nm [112%N]; nm [108%N]], NLink [nm [111%N]])] in
  resolve {| r_full_check := true |} 8 f root [nm [108%N]] = Err Forbidden /\
  resolve {| r_full_check := false |} 8 f root [nm [108%N]] = Ok [nm [112%N]; nm [108%N]] /\
  os_target 8 f [nm [112%N]; nm [108%N]] = Some [nm [111%N]].
Proof. exact dangling_link_refused. Qed.
(* only a live editor session in write-enabled mode passes the mutation gate *)
Theorem only_live_editors_mutate : forall we s, may_mutate we s = GOk ->
  we = true /\ exists s0, s = Some s0 /\ s_role s0 = Editor /\ s_expired s0 = false.
Proof. exact only_live_editors_mutate_l. Qed.
(* no lost update, for every interleaving of unlocked reads and locked commits *)
Theorem write_based_on_latest : forall c0 ops st s e c st' v c' seen vr,
  forallb internal ops = true -> fst (wrun (w_init c0) ops) = st ->
  assoc (w_read st) s = Some (seen, vr) -> e <= vr ->
  wstep st (WCommit s e c) = (st', OVersion v c') ->
  v = S e /\ c' = c /\ w_disk st' = c /\ w_entry st' = Some {| d_content := c; d_version := S e |} /\
  w_disk st = seen /\ assoc (g_label st') e = Some (w_disk st) /\
  (forall c1, assoc (g_label st) e = Some c1 -> c1 = w_disk st).
Proof. exact based_on_latest_l. Qed.
Theorem guessed_future_version_refuted :
  let ops := [WRead 1; WOpenCommit 1; WRead 1; WRead 2; WCommit 2 1 20] in
  let st := fst (wrun (w_init 10) ops) in
  w_disk st = 20 /\ wstep st (WCommit 1 3 30) = (fst (wstep st (WCommit 1 3 30)), OVersion 4 30) /\
  assoc (g_label (fst (wstep st (WCommit 1 3 30)))) 3 = Some 10.
Proof. exact guessed_version_overwrites. Qed.
Theorem file_is_last_successful_write : forall ops st, forallb internal ops = true ->
  w_disk (fst (wrun st ops)) = last_success (w_disk st) ops (snd (wrun st ops)).
Proof. exact disk_is_last_success_l. Qed.
Theorem versions_never_decrease : forall st o, cur_version st <= cur_version (fst (wstep st o)).
Proof. exact version_monotone_l. Qed.
(* several documents: renaming a directory touches only that directory's documents; work on one path touches only that path *)
Theorem rename_dir_touches_only_its_directory : forall s d d' k, fst k <> d -> fst k <> d' ->
  klookup (md_docs (fst (mstep s (MRenameDir d d')))) k = klookup (md_docs s) k /\
  klookup (md_disk (fst (mstep s (MRenameDir d d')))) k = klookup (md_disk s) k.
Proof. exact rename_dir_frame_l. Qed.
Theorem one_path_touches_only_its_document : forall s k k' e c, key_eqb k k' = false ->
  klookup (md_docs (fst (mstep s (MOpen k')))) k = klookup (md_docs s) k /\
  klookup (md_docs (fst (mstep s (MApply k' e c)))) k = klookup (md_docs s) k /\
  klookup (md_docs (fst (mstep s (MExternal k' c)))) k = klookup (md_docs s) k.
Proof. exact single_path_frame_l. Qed.
Theorem c19_nonvacuous :
  snd (wrun (w_init 10) [WRead 1; WOpenCommit 1; WRead 2; WOpenCommit 2; WRead 1; WRead 2; WCommit 1 1 20; WCommit 2 1 30;
                         WRead 2; WOpenCommit 2; WRead 2; WCommit 2 4 30; WExternal 40; WRead 1; WCommit 1 5 50]) =
  [ONone; OVersion 1 10; ONone; OVersion 1 10; ONone; ONone; OVersion 2 20; OConflict 3; ONone; OVersion 4 20; ONone; OVersion 5 30; ONone; ONone; OConflict 6].
Proof. exact c19_docs_nonvacuous. Qed.
Print Assumptions normalized_paths_are_plain.
Print Assumptions plain_names_are_not_dot_or_dotdot.
Print Assumptions accepted_paths_stay_inside.
Print Assumptions parent_only_check_refuted.
Print Assumptions dangling_link_is_refused.
Print Assumptions only_live_editors_mutate.
Print Assumptions write_based_on_latest.
Print Assumptions guessed_future_version_refuted.
Print Assumptions file_is_last_successful_write.
Print Assumptions versions_never_decrease.
Print Assumptions rename_dir_touches_only_its_directory.
Print Assumptions one_path_touches_only_its_document.
