(* C13 — incremental analysis equals from-scratch analysis: the bookkeeping between the database's
   own file map and the salsa inputs (Model/HirDb.v), for every history of edits, removals,
   re-additions and queries; analysis itself is an arbitrary function of the inputs it is given. *)
From Coq Require Import List Bool Arith.
From TP Require Import Model.HirDb Proofs.C13Proofs.
Import ListNotations.

Theorem views_agree : forall ops, view (run ops) = spec ops /\ d_src (run ops) = spec ops.
Proof. exact views_agree_l. Qed.
Theorem incremental_equals_fresh : forall (answer : Type) (F : table -> file -> answer) ops ops' f,
  spec ops = spec ops' -> F (view (run ops)) f = F (view (run ops')) f.
Proof. exact incremental_equals_fresh_l. Qed.
Theorem query_is_idempotent : forall (answer : Type) (F : table -> file -> answer) ops f g,
  F (view (run (ops ++ [OQuery g]))) f = F (view (run ops)) f.
Proof. exact query_is_idempotent_l. Qed.
Theorem c13_nonvacuous :
  let ops := [OSet 2 10; OSet 1 11; OQuery 1; OSet 2 12; ORemove 1; OQuery 2; OSet 1 13; OSet 3 14; ORemove 3] in
  view (run ops) = [(1, 13); (2, 12)] /\ spec (fresh_load (spec ops)) = spec ops /\ d_proj (run ops) = Some [1; 2].
Proof. exact hirdb_nonvacuous. Qed.
Print Assumptions views_agree.
Print Assumptions incremental_equals_fresh.
Print Assumptions query_is_idempotent.
