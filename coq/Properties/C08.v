(* C08 — a fault halts the resource; safe_halt forces every safe-state output. Pinned. *)
From Coq Require Import ZArith List Bool.
From TP Require Import Model.Io Model.Cycle Proofs.IoProofs Proofs.CycleProofs.
Import ListNotations.
Open Scope Z_scope.

Theorem fault_latches : forall c ds st st' log, cycle c ds st = (RErr, st', log) -> r_faulted st' = true.
Proof. exact cycle_err_latches. Qed.
Theorem cycle_outcome_matches_latch : forall c ds st, r_faulted st = false ->
  let '(r, st', _) := cycle c ds st in (r = ROk /\ r_faulted st' = false) \/ (r = RErr /\ r_faulted st' = true).
Proof. exact cycle_result_faulted_iff. Qed.
Theorem watchdog_timeout_latches : forall c ds st, r_faulted (fst (watchdog_timeout c ds st)) = true.
Proof. exact watchdog_latches. Qed.
Theorem simulation_fault_latches : forall c ds st, r_faulted (fst (simulation_fault c ds st)) = true.
Proof. exact simfault_latches. Qed.
(* once faulted every later cycle request is refused: no driver call, no statement, no change *)
Theorem faulted_refuses : forall c ds st, r_faulted st = true -> cycle c ds st = (RFaulted, st, []).
Proof. exact cycle_faulted_refuses. Qed.
Theorem faulted_refuses_everything : forall c ops st, r_faulted st = true -> only_cycles ops ->
  Forall (fun x => x = (Some RFaulted, [], st)) (run_ops c st ops).
Proof. exact faulted_refuses_forever. Qed.
(* which decisions apply the safe state *)
Theorem decision_table :
  map fault_policy_safe [PHalt; PSafeHalt; PRestart] = [false; true; false] /\
  map watchdog_safe [PHalt; PSafeHalt; PRestart] = [true; true; false].
Proof. exact decision_table_l. Qed.
(* every configured safe-state address holds its safe value (later entries win on overlap) *)
Theorem safe_state_in_image : forall s1 e s2 stop im,
  safe_ok (s1 ++ e :: s2) -> entry_fits e ->
  (forall e', In e' s2 -> entries_disjoint e e') ->
  let '(a, ad, v) := e in io_read ad (im_get a (fst (safe_apply stop (s1 ++ e :: s2) im))) = v.
Proof. exact safe_state_holds. Qed.
(* ... and that image is delivered to every driver, whatever the drivers answer, before the
   fault is reported (apply_fault returns the latched state together with the delivery log) *)
Theorem safe_image_delivered_to_every_driver : forall c ds wrote st,
  c_stop_on_error c = false -> length wrote = length ds ->
  let '(st', log) := apply_fault c true ds wrote st in
  r_faulted st' = true /\
  r_im st' = fst (safe_apply false (c_safe c) (r_im st)) /\
  log = map (fun d => LWr d (im_out (r_im st'))) (seq 0 (length ds)).
Proof. exact apply_fault_delivers. Qed.
(* the loop that aborts at the first failing driver violates this (the defect repaired in /repo) *)
Theorem stop_at_first_driver_error_refuted :
  exists c ds st, c_stop_on_error c = true /\
    let '(st', log) := apply_fault c true ds (map (fun _ => false) ds) st in
    log <> map (fun d => LWr d (im_out (r_im st'))) (seq 0 (length ds)).
Proof. exact stop_on_error_refuted. Qed.
Theorem fault_keeps_variables : forall c safe ds wrote st, r_vars (fst (apply_fault c safe ds wrote st)) = r_vars st.
Proof. exact apply_fault_vars. Qed.

Example c08_nonvacuous :
  safe_ok [(AOut, {| a_size := SzB; a_byte := 0; a_bit := 0 |}, 8)] /\
  entry_fits (AOut, {| a_size := SzB; a_byte := 0; a_bit := 0 |}, 8) /\
  only_cycles [OCycle []; OCycle []].
Proof. exact c08_nonvacuous_l. Qed.

Print Assumptions fault_latches.
Print Assumptions cycle_outcome_matches_latch.
Print Assumptions watchdog_timeout_latches.
Print Assumptions simulation_fault_latches.
Print Assumptions faulted_refuses.
Print Assumptions faulted_refuses_everything.
Print Assumptions decision_table.
Print Assumptions safe_state_in_image.
Print Assumptions safe_image_delivered_to_every_driver.
Print Assumptions stop_at_first_driver_error_refuted.
Print Assumptions fault_keeps_variables.
