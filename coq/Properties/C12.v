(* C12 — parsing is total and lossless: the generic machinery (lexer adapter, event sink) for EVERY
   raw token list and EVERY event list; the grammar that produces the events is tied by the check. *)
From Coq Require Import List Bool Arith.
From TP Require Import Model.LexSink Proofs.C12Proofs.
Import ListNotations.

(* the adapter re-cuts tokens but never changes the text they cover *)
Theorem adapter_preserves_text : forall ki kd kdd fuel raw,
  concat (map t_text (adapt ki kd kdd fuel raw)) = concat (map t_text raw).
Proof. exact adapt_preserves_text_l. Qed.
(* whatever events the parser emits, the leaves of what the sink has built are exactly the tokens it consumed, in order *)
Theorem sink_lossless : forall toks evs,
  sink_leaves (sink_run toks evs) = map t_text (firstn (s_cursor (sink_run toks evs)) toks).
Proof. exact sink_lossless_l. Qed.
(* so a finished tree that consumed every token has the tokens as its leaves and the input as its text *)
Theorem tree_text_is_input : forall toks evs t, s_stack (sink_run toks evs) = [] -> s_roots (sink_run toks evs) = [t] ->
  s_cursor (sink_run toks evs) = length toks ->
  leaves t = map t_text toks /\ concat (leaves t) = concat (map t_text toks).
Proof. exact sink_tree_text_l. Qed.
Theorem c12_nonvacuous : exists t, s_roots (sink_run demo_toks demo_events) = [t] /\ s_stack (sink_run demo_toks demo_events) = [] /\
  s_cursor (sink_run demo_toks demo_events) = 5 /\ leaves t = [[97]; [32]; [43]; [98]; [10]] /\
  t = Node 100 [Node 60 [Node 50 [Leaf 1 [97]; Leaf 9 [32]]; Leaf 2 [43]; Node 50 [Leaf 1 [98]; Leaf 9 [10]]]].
Proof. exact demo_sink. Qed.
Print Assumptions adapter_preserves_text.
Print Assumptions sink_lossless.
Print Assumptions tree_text_is_input.
