(* C04 — property theorems, pinned. This file contains nothing but statements closed by
   [exact lemma], [Check name : statement] pins, and [Print Assumptions]. *)
From Coq Require Import ZArith List Bool.
From TP Require Import Model.Fb Spec.C04 Proofs.C04Proofs.
Import ListNotations.
Open Scope Z_scope.

(* TON / TOF: the execution path (state rebuilt from the stored, clamped ET) equals the IEC
   closed form on EVERY prefix of EVERY trace with non-negative deltas, any preset. *)
Theorem ton_refines_iec : forall p tr, nonneg tr ->
  run_dt ton_exec ton_init (const_pt p tr) = map (ton_spec p) (hists [] tr).
Proof. exact ton_refines_iec_l. Qed.
Theorem ton_pure_refines_iec : forall p tr, nonneg tr ->
  run_dt ton_core ton_init (const_pt p tr) = map (ton_spec p) (hists [] tr).
Proof. exact ton_pure_refines_iec_l. Qed.
Theorem tof_refines_iec : forall p tr, nonneg tr ->
  run_dt tof_exec tof_init (const_pt p tr) = map (tof_spec p) (hists [] tr).
Proof. exact tof_refines_iec_l. Qed.
(* TP with the rising edge honoured only while idle is the non-retriggerable pulse automaton *)
Theorem tp_refines_iec : forall p tr,
  run_dt (tp_exec false) tp_init (const_pt p tr) = tp_auto p (None, false) tr.
Proof. exact tp_refines_iec_l. Qed.
Theorem tp_pulse_not_extended : forall p l a prev, nonneg l -> a + dsum l < pnorm p ->
  Forall (fun o => fst o = true) (tp_auto p (Some a, prev) l).
Proof. exact tp_pulse_runs. Qed.
Theorem tp_pulse_length_exact : forall p l a prev x,
  nonneg l -> a + dsum l < pnorm p -> pnorm p <= a + dsum l + snd x ->
  last (tp_auto p (Some a, prev) (l ++ [x])) (true, 0) = (false, 0).
Proof. exact tp_pulse_ends. Qed.
(* a TP that restarts on a rising edge during the pulse violates the definition (witness) *)
Theorem tp_retriggerable_refuted :
  exists p tr, nonneg tr /\ run_dt (tp_exec true) tp_init (const_pt p tr) <> tp_auto p (None, false) tr.
Proof. exact tp_retrigger_refuted. Qed.

(* ET stays within [0, PT] for any sequence of presets, and never decreases while timing *)
Theorem ton_et_le_pt : forall s i pt d, 0 <= ton_et s -> 0 <= d ->
  let '(s', (q, eo)) := ton_exec s i pt d in 0 <= eo <= norm pt /\ ton_et s' = eo /\ eo <= ton_et s + d.
Proof. exact ton_et_bounds. Qed.
Theorem tof_et_le_pt : forall s i pt d, 0 <= tof_et s -> 0 <= d ->
  let '(s', (q, eo)) := tof_exec s i pt d in 0 <= eo <= norm pt /\ tof_et s' = eo /\ eo <= tof_et s + d.
Proof. exact tof_et_bounds. Qed.
Theorem tp_et_le_pt : forall r s i pt d, 0 <= tp_et s -> 0 <= d ->
  let '(s', (q, eo)) := tp_exec r s i pt d in 0 <= eo <= norm pt /\ tp_et s' = eo /\ eo <= tp_et s + d.
Proof. exact tp_et_bounds. Qed.
Theorem ton_et_monotone_while_timing : forall s pt d,
  0 <= ton_et s -> ton_et s <= norm pt -> 0 <= d -> ton_et s <= snd (snd (ton_exec s true pt d)).
Proof. exact ton_et_monotone. Qed.

(* no i64 overflow of [ET + delta] under a monotone clock: every sum is <= now_last - now_first *)
Theorem ton_no_i64_overflow : forall tr s l first,
  first <= l -> 0 <= ton_et s <= l - first -> mono l tr ->
  Forall (fun x => 0 <= x <= last_now l tr - first) (sums_now ton_exec ton_et s (Some l) tr).
Proof. exact (sums_bound ton_exec ton_et ton_step_bounds). Qed.
Theorem tof_no_i64_overflow : forall tr s l first,
  first <= l -> 0 <= tof_et s <= l - first -> mono l tr ->
  Forall (fun x => 0 <= x <= last_now l tr - first) (sums_now tof_exec tof_et s (Some l) tr).
Proof. exact (sums_bound tof_exec tof_et tof_step_bounds). Qed.
Theorem tp_no_i64_overflow : forall r tr s l first,
  first <= l -> 0 <= tp_et s <= l - first -> mono l tr ->
  Forall (fun x => 0 <= x <= last_now l tr - first) (sums_now (tp_exec r) tp_et s (Some l) tr).
Proof. intro r. exact (sums_bound (tp_exec r) tp_et (tp_step_bounds r)). Qed.

(* counters: closed forms (saturating edge counts) and range invariants, any width *)
Theorem ctu_refines_iec : forall hi tr, 0 <= hi ->
  run (ctu_stepI hi) ctu_init tr = map (ctu_spec hi) (hists [] tr).
Proof. exact ctu_refines_iec_top. Qed.
Theorem ctd_refines_iec : forall lo hi tr, lo <= 0 -> pvs_in lo hi tr ->
  run (ctd_stepI lo) ctd_init tr = map (ctd_spec lo) (hists [] tr).
Proof. exact ctd_refines_iec_top. Qed.
(* CTUD with its edge-detecting inputs is the function the standard describes (reset over load, simultaneous edges cancel, saturation) *)
Theorem ctud_refines_iec : forall lo hi tr cv pcu pcd,
  run (ctud_stepI lo hi) {| ctud_cv := cv; ctud_pcu := pcu; ctud_pcd := pcd |} tr = ctud_spec_run lo hi cv pcu pcd tr.
Proof. exact ctud_refines_iec_l. Qed.
Theorem ctu_saturates : forall lo hi s cu r pv, lo <= 0 <= hi -> lo <= ctu_cv s <= hi ->
  lo <= ctu_cv (fst (ctu_step hi s cu r pv)) <= hi.
Proof. exact ctu_in_range. Qed.
Theorem ctd_saturates : forall lo hi s cd ld pv, lo <= 0 <= hi -> lo <= pv <= hi -> lo <= ctd_cv s <= hi ->
  lo <= ctd_cv (fst (ctd_step lo s cd ld pv)) <= hi.
Proof. exact ctd_in_range. Qed.
Theorem ctud_saturates : forall lo hi s cu cd r ld pv, lo <= 0 <= hi -> lo <= pv <= hi -> lo <= ctud_cv s <= hi ->
  lo <= ctud_cv (fst (ctud_step lo hi s cu cd r ld pv)) <= hi.
Proof. exact ctud_in_range. Qed.

(* edge detectors: closed form and exactly one firing per edge *)
Theorem rtrig_refines_iec : forall tr, run rtrig_stepI false tr = map rtrig_spec (hists [] tr).
Proof. intro tr. exact (rtrig_refines_iec_l tr []). Qed.
Theorem ftrig_refines_iec : forall tr, run ftrig_stepI false tr = map ftrig_spec (hists [] tr).
Proof. intro tr. exact (ftrig_refines_iec_l tr []). Qed.
Theorem rtrig_one_call_per_edge : forall tr m, count_true (run rtrig_stepI m tr) = rising_edges m tr.
Proof. exact rtrig_one_per_edge. Qed.
Theorem ftrig_one_call_per_edge : forall tr m, count_true (run ftrig_stepI m tr) = falling_edges (negb m) tr.
Proof. exact ftrig_one_per_edge. Qed.

Theorem sr_truth_table : forall q s1 r, sr_step q s1 r = sr_spec q s1 r.
Proof. exact sr_truth. Qed.
Theorem rs_truth_table : forall q s r1, rs_step q s r1 = rs_spec q s r1.
Proof. exact rs_truth. Qed.

Theorem fb_instances_independent : forall (S I O : Type) (step : S -> I -> S * O) st i x j,
  j <> i -> fst (call_inst step st i x) j = st j.
Proof. exact @instances_independent. Qed.

(* non-vacuity: the hypotheses are met by concrete non-trivial traces *)
Example c04_nonvacuous :
  nonneg [(true, 3); (true, 4); (false, 0); (true, 9)] /\
  run_dt ton_exec ton_init (const_pt 7 [(true, 3); (true, 4); (false, 0); (true, 9)])
    = [(false, 3); (true, 7); (false, 0); (true, 7)] /\
  mono 5 [(true, 7, 5); (true, 7, 9)] /\
  pvs_in (-32768) 32767 [(true, true, 3); (false, false, 3)].
Proof. exact c04_nonvacuous_l. Qed.

Print Assumptions ton_refines_iec.
Print Assumptions ton_pure_refines_iec.
Print Assumptions tof_refines_iec.
Print Assumptions tp_refines_iec.
Print Assumptions tp_pulse_not_extended.
Print Assumptions tp_pulse_length_exact.
Print Assumptions tp_retriggerable_refuted.
Print Assumptions ton_et_le_pt.
Print Assumptions tof_et_le_pt.
Print Assumptions tp_et_le_pt.
Print Assumptions ton_et_monotone_while_timing.
Print Assumptions ton_no_i64_overflow.
Print Assumptions tof_no_i64_overflow.
Print Assumptions tp_no_i64_overflow.
Print Assumptions ctu_refines_iec.
Print Assumptions ctd_refines_iec.
Print Assumptions ctu_saturates.
Print Assumptions ctd_saturates.
Print Assumptions ctud_saturates.
Print Assumptions rtrig_refines_iec.
Print Assumptions ftrig_refines_iec.
Print Assumptions rtrig_one_call_per_edge.
Print Assumptions ftrig_one_call_per_edge.
Print Assumptions sr_truth_table.
Print Assumptions rs_truth_table.
Print Assumptions fb_instances_independent.
Print Assumptions ctud_refines_iec.
