(* C02 — the interpreter agrees with an independent IEC reference semantics R (Model/StRef.v). Pinned.
   Proved here: the laws that make R the IEC semantics the property names. The agreement of the
   implementation with R is decided per observed trace by the extracted R (checks/c02.py); the
   refinement theorem "M = R wherever R does not fault" is not yet proved (stated in DESIGN.md). *)
From Coq Require Import ZArith List Bool.
From TP Require Import Model.StCore Model.StTyping Model.StRef Proofs.StProofs Proofs.C02Proofs Proofs.C02Refine Proofs.StArrays.
Import ListNotations.
Open Scope Z_scope.

(* exact integer arithmetic in the operand type, a fault exactly when the result is out of range *)
Theorem overflow_iff_out_of_range_add : forall s k l r a b, reval s k l = Ok a -> reval s k r = Ok b ->
  reval s k (EBin BAdd l r) = (if in_range k (a + b) then Ok (a + b) else Fault FOverflow).
Proof. exact add_exact. Qed.
Theorem overflow_iff_out_of_range_sub : forall s k l r a b, reval s k l = Ok a -> reval s k r = Ok b ->
  reval s k (EBin BSub l r) = (if in_range k (a - b) then Ok (a - b) else Fault FOverflow).
Proof. exact sub_exact. Qed.
Theorem overflow_iff_out_of_range_mul : forall s k l r a b, reval s k l = Ok a -> reval s k r = Ok b ->
  reval s k (EBin BMul l r) = (if in_range k (a * b) then Ok (a * b) else Fault FOverflow).
Proof. exact mul_exact. Qed.
Theorem div_truncates_toward_zero : forall s k l r a b, reval s k l = Ok a -> reval s k r = Ok b -> b <> 0 ->
  in_range k (Z.quot a b) = true ->
  reval s k (EBin BDiv l r) = Ok (Z.quot a b) /\ Z.abs (Z.quot a b * b) <= Z.abs a /\ a = Z.quot a b * b + Z.rem a b.
Proof. exact div_truncates. Qed.
Theorem division_by_zero_faults : forall s k l r a, reval s k l = Ok a -> reval s k r = Ok 0 ->
  reval s k (EBin BDiv l r) = Fault FDivZero /\ reval s k (EBin BMod l r) = Fault FModZero.
Proof. exact div_by_zero_faults. Qed.
Theorem and_short_circuits : forall G s l r, rbool G s l = Ok false -> rbool G s (EBin BAnd l r) = Ok false.
Proof. exact and_short_circuit. Qed.
Theorem or_short_circuits : forall G s l r, rbool G s l = Ok true -> rbool G s (EBin BOr l r) = Ok true.
Proof. exact or_short_circuit. Qed.
Theorem for_tests_bound_before_each_iteration : forall o ex n depth x t ei pi body s cur,
  (0 < pi /\ ei < cur) \/ (pi < 0 /\ cur < ei) ->
  for_loop o ex (S n) depth x t ei pi body s cur = Ok (s, GNormal).
Proof. exact for_tests_before_iteration. Qed.
Theorem assignment_converts_to_declared_type : forall s x k zt k' z, rd s x = Ok (VInt k zt) ->
  write o_ref s x (VInt k' z) = (if ik_eqb k k' then Ok (upd s x (VInt k' z))
                                 else if in_range k z then Ok (upd s x (VInt k z)) else Fault FOverflow).
Proof. exact assignment_converts. Qed.
(* the interpreter (as it is) hides an overflow of the declared type (known finding; witness) *)
Theorem interpreter_hides_overflow_refuted :
  let G := [TInt KSInt; TInt KSInt] in
  let body := [SAssign 1 (EBin BSub (EBin BAdd (EVar 0) (ELit true (VInt KDInt 1))) (ELit true (VInt KDInt 1)))] in
  tprogram false G body = true /\
  run_ref G 10 [VInt KSInt 127; VInt KSInt 0] body = Fault FOverflow /\
  run_program {| o_neg_checked := true; o_for_checked := true; o_coerce_write := false; o_case_unsigned := true; o_return_ok := true |}
    10 [VInt KSInt 127; VInt KSInt 0] body = Ok [VInt KSInt 127; VInt KDInt 127].
Proof. exact widening_hides_overflow. Qed.

(* the refinement: on every strictly typed program (typed literals only) and every well-typed store the interpreter model M
   and the reference semantics R give the same result - the same final store, the same fault at the same point, or both run
   out of fuel - for every fuel; in particular for the options of the code as it is (assignments stored uncoerced) *)
Theorem interpreter_refines_reference : forall o, o_neg_checked o = true -> o_for_checked o = true -> o_case_unsigned o = true -> o_return_ok o = true ->
  forall G fuel s body, store_ok G s = true -> tprogram true G body = true -> run_ref G fuel s body = run_program o fuel s body.
Proof. exact program_refines_l. Qed.
Theorem code_refines_reference : forall G fuel s body, store_ok G s = true -> tprogram true G body = true ->
  run_ref G fuel s body = run_program o_code fuel s body.
Proof. exact (program_refines_l o_code eq_refl eq_refl eq_refl eq_refl). Qed.
(* ... expression by expression: an integer expression of declared kind k evaluates in M to exactly R's value tagged k *)
Theorem integer_expressions_agree : forall o, o_neg_checked o = true -> forall G s, store_ok G s = true ->
  forall k e, tint true G k e = true -> eval o s e = bind (reval s k e) (fun z => Ok (VInt k z)).
Proof. exact eval_int_refines. Qed.
Theorem boolean_expressions_agree : forall o, o_neg_checked o = true -> forall G s, store_ok G s = true ->
  forall e, tbool true G e = true -> eval o s e = bind (rbool G s e) (fun b => Ok (VBool b)).
Proof. exact eval_bool_refines. Qed.

Example c02_nonvacuous :
  run_ref [TInt KInt; TInt KInt; TBool] 20 [VInt KInt 7; VInt KInt 0; VBool false]
    [SAssign 1 (EBin BDiv (EUn UNeg (EVar 0)) (ELit false (VInt KInt 2)));
     SAssign 2 (EBin BOr (EBin BLt (EVar 1) (ELit true (VInt KDInt 0))) (EBin BEq (EBin BDiv (EVar 0) (ELit true (VInt KDInt 0))) (EVar 0)))]
  = Ok [VInt KInt 7; VInt KInt (-3); VBool true].
Proof. exact c02_nonvacuous_l. Qed.

Print Assumptions overflow_iff_out_of_range_add.
Print Assumptions overflow_iff_out_of_range_sub.
Print Assumptions overflow_iff_out_of_range_mul.
Print Assumptions div_truncates_toward_zero.
Print Assumptions division_by_zero_faults.
Print Assumptions and_short_circuits.
Print Assumptions or_short_circuits.
Print Assumptions for_tests_bound_before_each_iteration.
Print Assumptions assignment_converts_to_declared_type.
Print Assumptions interpreter_hides_overflow_refuted.
Print Assumptions interpreter_refines_reference.
Print Assumptions code_refines_reference.
Print Assumptions integer_expressions_agree.
Print Assumptions boolean_expressions_agree.

(* ---- arrays: interpreter_refines_reference covers programs with element reads (EIdx) and element writes (SAssignIdx) -
   no side condition excludes them; the laws of R for indexing and the agreement specialised to the two accesses ---- *)
(* R checks the index against the declared bounds before it reads the element (IndexOutOfBounds outside lo .. lo+n-1) *)
Theorem ref_index_checked : forall s k b lo n ki i z, reval s ki i = Ok z ->
  reval s k (EIdx b lo n ki i) =
  (if (z <? lo) || (lo + Z.of_nat n - 1 <? z) then Fault FIndexOOB
   else v <- rd s (b + Z.to_nat (z - lo))%nat ;; match v with VInt _ z' => Ok z' | VBool _ => Fault FTypeMismatch end).
Proof. exact StArrays.ref_index_checked. Qed.
Theorem array_read_refines : forall o, o_neg_checked o = true -> forall G s, store_ok G s = true -> forall k b lo n ki i,
  tint true G k (EIdx b lo n ki i) = true ->
  eval o s (EIdx b lo n ki i) = bind (reval s k (EIdx b lo n ki i)) (fun z => Ok (VInt k z)).
Proof. exact StArrays.array_read_refines. Qed.
Theorem array_write_refines : forall o, o_neg_checked o = true -> o_for_checked o = true -> o_case_unsigned o = true ->
  forall G fuel depth s b lo n ki i e il, store_ok G s = true -> tstmt true G il (SAssignIdx b lo n ki i e) = true ->
  exec_with o_ref (ev_ref G) fuel depth s (SAssignIdx b lo n ki i e) = exec o fuel depth s (SAssignIdx b lo n ki i e).
Proof. exact StArrays.array_write_refines. Qed.
Example array_refines_nonvacuous :
  let G := [TInt KInt; TInt KInt; TInt KInt; TInt KInt; TInt KInt] in
  let s := [VInt KInt 2; VInt KInt 10; VInt KInt 20; VInt KInt 30; VInt KInt 0] in
  let a := EIdx 1 (-1) 3 KInt in
  let lit := fun z => ELit false (VInt KInt z) in
  let body := [SAssignIdx 1 (-1) 3 KInt (lit 0) (lit 42); SAssign 4 (EBin BAdd (a (lit (-1))) (a (lit 1)))] in
  let body_oob := body ++ [SAssign 4 (a (EVar 0))] in
  store_ok G s = true /\ tprogram true G body = true /\ tprogram true G body_oob = true /\
  run_ref G 10 s body = Ok [VInt KInt 2; VInt KInt 10; VInt KInt 42; VInt KInt 30; VInt KInt 40] /\
  run_program o_code 10 s body = Ok [VInt KInt 2; VInt KInt 10; VInt KInt 42; VInt KInt 30; VInt KInt 40] /\
  run_ref G 10 s body_oob = Fault FIndexOOB /\ run_program o_code 10 s body_oob = Fault FIndexOOB.
Proof. exact StArrays.array_refines_nonvacuous. Qed.

Print Assumptions ref_index_checked.
Print Assumptions array_read_refines.
Print Assumptions array_write_refines.
Print Assumptions array_refines_nonvacuous.
