(* C09 — restart semantics: warm keeps exactly RETAIN data, cold equals a fresh start, bindings stay
   connected, power cycle = warm. Pinned. Program execution is a parameter of the model. *)
From Coq Require Import ZArith List Bool.
From TP Require Import Model.Restart Model.RestartTasks Proofs.C09Proofs.
Import ListNotations.
Open Scope Z_scope.

(* warm: every retained global / program variable keeps its value, every other one is re-initialised *)
Theorem warm_keeps_exactly_retained_globals : forall c s i m,
  nth_error (c_globals c) i = Some m -> length (r_g s) = length (c_globals c) ->
  nth i (r_g (restart c true s)) 0 = if m_retain m then nth i (r_g s) 0 else m_init m.
Proof. exact warm_globals. Qed.
Theorem warm_keeps_exactly_retained_program_vars : forall ms gl b ps s i m,
  let c := {| c_globals := gl; c_progs := [ms]; c_bindings := b; c_in_place := true; c_progs_in_store := ps |} in
  r_pinst s = [0%nat] -> (exists v0 rest, r_heap s = v0 :: rest /\ length v0 = length ms) ->
  nth_error ms i = Some m ->
  read_var (restart c true s) 0 i = if m_retain m then read_var s 0 i else m_init m.
Proof. exact warm_program_vars. Qed.
(* cold: the whole state except the untouched process image is that of a newly built runtime *)
Theorem cold_equals_fresh : forall c s,
  c_in_place c = true -> r_pinst s = r_pinst (fresh c) -> length (r_heap s) = length (c_progs c) ->
  restart c false s = {| r_g := r_g (fresh c); r_heap := r_heap (fresh c); r_pinst := r_pinst (fresh c);
                         r_out := r_out s; r_time := 0; r_cycles := 0; r_faulted := false |}.
Proof. exact cold_restart_is_fresh. Qed.
Theorem restart_resets_time_cycles_fault : forall c w s,
  r_time (restart c w s) = 0 /\ r_cycles (restart c w s) = 0 /\ r_faulted (restart c w s) = false.
Proof. exact restart_resets. Qed.
(* after ANY history of cycles, writes, restarts, power cycles and faults, the instance id a
   binding resolved at build time is still the program's instance: what it reads is the variable *)
Theorem bindings_stay_connected : forall body c, c_in_place c = true -> forall ops,
  r_pinst (run body c ops) = r_pinst (fresh c).
Proof. exact bindings_connected. Qed.
Theorem binding_reads_the_variable : forall body c, c_in_place c = true -> forall ops p i,
  (p < length (c_progs c))%nat -> read_binding (run body c ops) p i = read_var (run body c ops) p i.
Proof. exact binding_reads_variable. Qed.
Theorem new_instances_disconnect_bindings_refuted :
  let c := {| c_globals := []; c_progs := [[{| m_retain := false; m_init := 0 |}]]; c_bindings := [(0%nat, 0%nat)];
              c_in_place := false; c_progs_in_store := true |} in
  let body := fun (_ : nat) (g v : list Z) => (g, map (fun x => x + 1) v) in
  let s := run body c [OCycle 0; OCycle 0; ORestart false; OCycle 0] in
  read_var s 0 0 = 1 /\ read_binding s 0 0 = 2 /\ r_out s = [2] /\ r_out (run body c [OCycle 0]) = [1].
Proof. exact new_instances_disconnect. Qed.
(* power cycle (save, new process, load) preserves the same variables as a warm restart *)
Theorem power_cycle_equals_warm_globals : forall c s, length (r_g s) = length (c_globals c) ->
  r_g (power_cycle c s) = r_g (restart c true s).
Proof. exact power_cycle_globals. Qed.
Theorem power_cycle_equals_warm_program_vars : forall ms gl b s,
  let c := {| c_globals := gl; c_progs := [ms]; c_bindings := b; c_in_place := true; c_progs_in_store := true |} in
  r_pinst s = [0%nat] -> (exists v0 rest, r_heap s = v0 :: rest /\ length v0 = length ms) ->
  inst_vars (power_cycle c s) 0 = inst_vars (restart c true s) 0.
Proof. exact power_cycle_program_vars. Qed.
Theorem globals_only_store_refuted :
  let c := {| c_globals := []; c_progs := [[{| m_retain := true; m_init := 0 |}]]; c_bindings := [];
              c_in_place := true; c_progs_in_store := false |} in
  let body := fun (_ : nat) (g v : list Z) => (g, map (fun x => x + 1) v) in
  let s := run body c [OCycle 0; OCycle 0] in
  read_var (restart c true s) 0 0 = 2 /\ read_var (power_cycle c s) 0 0 = 0.
Proof. exact globals_only_store_loses_program_retain. Qed.

(* task state is re-created by a restart: an event (SINGLE) task sees every later trigger trace as a fresh runtime does *)
Theorem restarted_event_task_equals_fresh : forall s ops, ev_run false (ev_step false false s ERestart) ops = ev_run false ev_fresh ops.
Proof. exact restarted_event_task_is_fresh. Qed.
Theorem kept_edge_latch_refuted :
  let s := ev_run true ev_fresh [ESetTrig true; ECycle; ERestart; ESetTrig true; ECycle] in
  let f := ev_run true ev_fresh [ESetTrig true; ECycle] in
  e_count s = 0 /\ e_count f = 1.
Proof. exact stale_latch_swallows_edge. Qed.

Example c09_nonvacuous :
  let c := {| c_globals := [{| m_retain := true; m_init := 3 |}; {| m_retain := false; m_init := 4 |}];
              c_progs := [[{| m_retain := true; m_init := 1 |}; {| m_retain := false; m_init := 2 |}]];
              c_bindings := [(0%nat, 1%nat)]; c_in_place := true; c_progs_in_store := true |} in
  let body := fun (_ : nat) (g v : list Z) => (map (fun x => x + 1) g, map (fun x => x + 10) v) in
  let s := run body c [OCycle 5; OCycle 5] in
  r_g s = [5; 6] /\ inst_vars s 0 = [21; 22] /\ r_out s = [22] /\
  r_g (restart c true s) = [5; 4] /\ inst_vars (restart c true s) 0 = [21; 2] /\
  r_pinst s = r_pinst (fresh c) /\ length (r_heap s) = length (c_progs c).
Proof. exact c09_nonvacuous_l. Qed.

(* ... and so does a periodic (INTERVAL) task: last_run is re-created at the restarted clock, so every later clock trace runs the task
   exactly when a freshly built runtime runs it *)
Theorem restarted_periodic_task_equals_fresh : forall iv f now s tr,
  per_run false iv (per_step false iv f now s ERestart) tr = per_run false iv per_fresh tr.
Proof. exact restarted_periodic_task_is_fresh. Qed.
Theorem periodic_task_keeping_last_run_refuted :
  let iv := 10000000%Z in
  let before := [(false, 10000000, ECycle); (false, 20000000, ECycle); (false, 30000000, ECycle)]%Z in
  let after := [(false, 10000000, ECycle); (false, 20000000, ECycle)]%Z in
  p_count (per_run true iv (per_step true iv false 0 (per_run true iv per_fresh before) ERestart) after) = 0%Z /\
  p_count (per_run true iv per_fresh after) = 2%Z /\
  p_count (per_run false iv (per_step false iv false 0 (per_run false iv per_fresh before) ERestart) after) = 2%Z.
Proof. exact kept_last_run_is_not_fresh. Qed.
Print Assumptions warm_keeps_exactly_retained_globals.
Print Assumptions warm_keeps_exactly_retained_program_vars.
Print Assumptions cold_equals_fresh.
Print Assumptions restart_resets_time_cycles_fault.
Print Assumptions bindings_stay_connected.
Print Assumptions binding_reads_the_variable.
Print Assumptions new_instances_disconnect_bindings_refuted.
Print Assumptions power_cycle_equals_warm_globals.
Print Assumptions power_cycle_equals_warm_program_vars.
Print Assumptions globals_only_store_refuted.
Print Assumptions restarted_event_task_equals_fresh.
Print Assumptions restarted_periodic_task_equals_fresh.
Print Assumptions periodic_task_keeping_last_run_refuted.
Print Assumptions kept_edge_latch_refuted.
