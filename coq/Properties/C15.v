(* C15 — formatting never changes the program: the line-edit logic of range and on-type formatting,
   for an arbitrary formatter and arbitrary documents (Model/FmtEdit.v). *)
From Coq Require Import List Bool Arith ZArith NArith.
From TP Require Import Model.FmtEdit Proofs.C15Proofs Model.FmtIndent gen.C15Kinds Spec.C15Judge Proofs.C15Indent.
Import ListNotations.

(* if the formatter keeps every line's tokens on that line (same number of lines), every range / on-type edit preserves the tokens *)
Theorem range_edit_preserves_tokens : forall (token : Type) (src fmt : doc token) s e r,
  linewise token src fmt -> range_edit token src fmt s e = Some r -> toks token r = toks token src.
Proof. exact range_edit_preserves_l. Qed.
(* the edit replaces only the lines it covers *)
Theorem range_edit_touches_only_its_lines : forall (token : Type) (src fmt : doc token) s e r, range_edit token src fmt s e = Some r ->
  firstn s r = firstn s src /\ (length fmt = length src -> skipn (S e) r = skipn (S e) src /\ length r = length src).
Proof. exact range_edit_frame_l. Qed.
(* ... and the hypothesis is needed: when a long line is wrapped the same-index edit loses and duplicates tokens *)
Theorem wrapped_range_edit_refuted :
  toks nat wrap_fmt = toks nat wrap_src /\
  range_edit nat wrap_src wrap_fmt 1 1 = Some [[1; 2; 3; 4]; [3; 4]] /\
  toks nat [[1; 2; 3; 4]; [3; 4]] <> toks nat wrap_src.
Proof. exact wrapped_range_edit_changes_tokens. Qed.

(* --- the indentation pass of format_document (Model/FmtIndent.v; kind sets and the clamp are read from the source) --- *)
(* for every document - balanced or not - and both END-keyword styles the formatter never asks for a negative number of
   indentation units (`indent_unit.repeat(current_indent as usize)` is defined: no capacity-overflow panic) *)
Theorem indentation_is_never_negative : forall style (lines : list (bool * list N)),
  all_nonneg (doc_indents style lines) = true.
Proof. exact doc_indents_nonneg_l. Qed.
(* ... which is false without the clamp after an END keyword of the `indented` style (the code as found) *)
Theorem unclamped_indentation_refuted :
  indents refute_cfg 0 refute_lines = [Some 0; Some (-1)]%Z /\ all_nonneg (indents refute_cfg 0 refute_lines) = false.
Proof. exact unclamped_negative_l. Qed.
(* a block-structured run of lines leaves the level where it was and is written at or to the right of it, in both styles *)
Theorem balanced_lines_restore_indentation : forall c ls lvl, balanced ls -> (0 <= lvl)%Z ->
  final c lvl ls = lvl /\ lower lvl (indents c lvl ls).
Proof. exact balanced_restores_l. Qed.
Theorem end_keywords_are_dedent_tokens : forall k, In k end_kinds -> In k dedent_kinds.
Proof. exact end_kinds_are_dedent_l. Qed.
Theorem c15_indent_nonvacuous : balanced demo_lines /\
  indents {| aligned := true; clamp := true |} 0 demo_lines = [Some 0; Some 1; Some 2; Some 1; Some 1; Some 2; Some 1; None; Some 2; Some 1; Some 0]%Z /\
  indents {| aligned := false; clamp := true |} 0 demo_lines = [Some 0; Some 1; Some 2; Some 2; Some 1; Some 2; Some 1; None; Some 2; Some 2; Some 1]%Z.
Proof. exact (conj demo_balanced demo_indents). Qed.
Print Assumptions range_edit_preserves_tokens.
Print Assumptions indentation_is_never_negative.
Print Assumptions unclamped_indentation_refuted.
Print Assumptions balanced_lines_restore_indentation.
Print Assumptions end_keywords_are_dedent_tokens.
Print Assumptions range_edit_touches_only_its_lines.
Print Assumptions wrapped_range_edit_refuted.
