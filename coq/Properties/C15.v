(* C15 — formatting never changes the program: the line-edit logic of range and on-type formatting,
   for an arbitrary formatter and arbitrary documents (Model/FmtEdit.v). *)
From Coq Require Import List Bool Arith.
From TP Require Import Model.FmtEdit Proofs.C15Proofs.
Import ListNotations.

(* if the formatter keeps every line's tokens on that line (same number of lines), every range / on-type edit preserves the tokens *)
Theorem range_edit_preserves_tokens : forall (token : Type) (src fmt : doc token) s e r,
  linewise token src fmt -> range_edit token src fmt s e = Some r -> toks token r = toks token src.
Proof. exact range_edit_preserves_l. Qed.
(* the edit replaces only the lines it covers *)
Theorem range_edit_touches_only_its_lines : forall (token : Type) (src fmt : doc token) s e r, range_edit token src fmt s e = Some r ->
  firstn s r = firstn s src /\ (length fmt = length src -> skipn (S e) r = skipn (S e) src /\ length r = length src).
Proof. exact range_edit_frame_l. Qed.
(* ... and the hypothesis is needed: when a long line is wrapped the same-index edit loses and duplicates tokens *)
Theorem wrapped_range_edit_refuted :
  toks nat wrap_fmt = toks nat wrap_src /\
  range_edit nat wrap_src wrap_fmt 1 1 = Some [[1; 2; 3; 4]; [3; 4]] /\
  toks nat [[1; 2; 3; 4]; [3; 4]] <> toks nat wrap_src.
Proof. exact wrapped_range_edit_changes_tokens. Qed.
Print Assumptions range_edit_preserves_tokens.
Print Assumptions range_edit_touches_only_its_lines.
Print Assumptions wrapped_range_edit_refuted.
