(* C18 — the control endpoint executes a request only with a sufficient role. Pinned.
   The tables (gen/C18Tables.v) are regenerated from the Rust source on every run. *)
From Coq Require Import String List Bool Arith.
From TP Require Import gen.C18Tables Model.Control Spec.C18 Proofs.C18Proofs.
Import ListNotations.
Open Scope string_scope.

(* every request type the dispatcher knows that is not on the reviewed read-only list
   requires more than the viewer role, for all parameter shapes *)
Theorem mutating_requires_more_than_viewer : forall k hp ak,
  In k dispatch_kinds -> ~ In k readonly_kinds -> viewer_rank < required_role k hp ak.
Proof. exact mutating_requires_more_than_viewer_l. Qed.
(* for EVERY request type string, credential and configuration: a handler runs only if the
   credential maps to a role at least as high as the required one *)
Theorem effect_implies_sufficient_role : forall ts dbg c k hp ak,
  handle ts dbg c k hp ak = Dispatched -> exists r, role_of ts c = Some r /\ required_role k hp ak <= r.
Proof. exact effect_implies_sufficient_role_l. Qed.
Theorem viewer_cannot_mutate : forall ts dbg k hp ak,
  In k dispatch_kinds -> ~ In k readonly_kinds -> handle ts dbg (CPair viewer_rank) k hp ak <> Dispatched.
Proof. exact viewer_cannot_mutate_l. Qed.
(* with a token configured, no/wrong/expired/revoked credentials never get past "unauthorized" *)
Theorem token_configured_rejects_invalid : forall dbg c k hp ak,
  c = CNone \/ c = CWrong \/ c = CDead -> handle true dbg c k hp ak = Unauthorized.
Proof. exact token_configured_rejects_invalid_l. Qed.
(* debug-class requests are refused while debugging is disabled *)
Theorem debug_gate : forall ts c k hp ak, In k debug_class_kinds -> handle ts false c k hp ak <> Dispatched.
Proof. exact debug_class_refused_l. Qed.
Theorem unknown_kinds_reach_no_handler : forall ts dbg c k hp ak,
  ~ In k dispatch_kinds -> handle ts dbg c k hp ak <> Dispatched.
Proof. exact unknown_kinds_reach_no_handler_l. Qed.
Theorem role_order_total_monotone :
  (forall a b : nat, a <= b \/ b <= a) /\
  (forall ts dbg k hp ak r r', r <= r' ->
     handle ts dbg (CPair r) k hp ak = Dispatched -> handle ts dbg (CPair r') k hp ak = Dispatched).
Proof. exact (conj role_order_total_l allows_monotone_l). Qed.
Theorem role_table_well_formed :
  forallb (fun arm => forallb (fun k => mem k dispatch_kinds) (fst arm)) role_arms = true /\
  forallb (fun arm => match snd arm with Fixed r => Nat.ltb r (length role_names) | ConfigSet => true end) role_arms = true /\
  role_names = ["Viewer"; "Operator"; "Engineer"; "Admin"] /\
  Nat.ltb viewer_rank config_set_noparams = true /\ Nat.ltb viewer_rank config_set_other = true /\
  config_set_admin = admin_rank.
Proof. exact role_table_sane. Qed.
(* pairing: minting needs an admin-started code, and a claim never mints more than Engineer *)
Theorem claimed_role_le_engineer : forall req, claimed_role req <= engineer_rank.
Proof. exact claimed_role_le_engineer_l. Qed.
Theorem pairing_requests_gated :
  required_role "pair.start" false false = admin_rank /\
  required_role "pair.revoke" true false = admin_rank /\
  required_role "pair.list" false false = admin_rank /\
  viewer_rank < required_role "pair.claim" true false.
Proof. exact pairing_is_gated. Qed.

(* config.set: an admin-only setting (auth tokens, control mode, web auth) changes only for the admin role, whatever the key's spelling *)
Theorem admin_only_config_needs_admin : forall ts dbg c key, admin_effect false ts dbg c key = true ->
  exists r, role_of ts c = Some r /\ admin_rank <= r.
Proof. exact admin_config_needs_admin_l. Qed.
(* ... which fails for a handler that normalises the keys while the gate compares them exactly *)
Theorem normalizing_config_handler_refuted :
  normalize " Control.Auth_Token " = "control.auth_token" /\
  admin_effect true true true (CPair 2) "Control.Auth_Token" = true /\ role_of true (CPair 2) = Some 2 /\ 2 < admin_rank /\
  admin_effect false true true (CPair 2) "Control.Auth_Token" = false /\ admin_effect false true true CAdmin "control.auth_token" = true.
Proof. exact normalizing_handler_refuted_l. Qed.

Example c18_nonvacuous :
  handle true true (CPair 2) "io.write" true false = Dispatched /\
  handle true true (CPair 0) "io.write" true false = Forbidden 2 /\
  handle true true CWrong "status" false false = Unauthorized /\
  In "io.write" dispatch_kinds /\ ~ In "io.write" readonly_kinds.
Proof. exact c18_nonvacuous_l. Qed.

Print Assumptions mutating_requires_more_than_viewer.
Print Assumptions effect_implies_sufficient_role.
Print Assumptions viewer_cannot_mutate.
Print Assumptions token_configured_rejects_invalid.
Print Assumptions debug_gate.
Print Assumptions unknown_kinds_reach_no_handler.
Print Assumptions role_order_total_monotone.
Print Assumptions role_table_well_formed.
Print Assumptions claimed_role_le_engineer.
Print Assumptions pairing_requests_gated.
Print Assumptions admin_only_config_needs_admin.
Print Assumptions normalizing_config_handler_refuted.
