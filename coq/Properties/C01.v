(* C01 — every scan cycle ends in success or a value-dependent fault, never a crash. Pinned.
   Scope of the proved core: BOOL and the eight integer kinds, assignment, IF/ELSIF, CASE, FOR,
   WHILE, REPEAT, EXIT, CONTINUE; programs accepted by the strict discipline T (Model/StTyping.v). *)
From Coq Require Import ZArith List Bool.
From TP Require Import Model.StCore Model.StTyping Proofs.StProofs Model.StCalls Proofs.StCallsProofs Proofs.StCallsTyping Proofs.StArrays.
Import ListNotations.
Open Scope Z_scope.

(* one cycle of a T-typed program on a declaration-conforming store: Ok, a value-dependent
   fault, or out of model fuel (non-termination) — never a static-class fault or a panic *)
Theorem type_soundness : forall o strict,
  o_neg_checked o = true -> o_for_checked o = true -> o_coerce_write o = true \/ strict = true ->
  o_case_unsigned o = true -> o_return_ok o = true ->
  forall G fuel s body, store_ok G s = true -> tprogram strict G body = true ->
  benign (run_program o fuel s body) (fun s' => store_ok G s' = true).
Proof. exact program_sound. Qed.
Theorem type_soundness_every_cycle : forall o strict,
  o_neg_checked o = true -> o_for_checked o = true -> o_coerce_write o = true \/ strict = true ->
  o_case_unsigned o = true -> o_return_ok o = true ->
  forall G fuel body, tprogram strict G body = true -> forall inputs s, store_ok G s = true -> Forall (inputs_ok G) inputs ->
  benign (run_cycles o fuel s body inputs) (fun s' => store_ok G s' = true).
Proof. exact cycles_sound. Qed.
(* expressions: integer expressions evaluate to an integer of the context's signedness,
   boolean expressions to a BOOL, or to a value-dependent fault *)
Theorem int_expr_sound : forall o strict, o_neg_checked o = true -> forall G s k, store_ok G s = true ->
  forall e, tint strict G k e = true -> benign (eval o s e) (dyn_int strict k e).
Proof. exact tint_sound. Qed.
Theorem bool_expr_sound : forall o strict, o_neg_checked o = true -> forall G s, store_ok G s = true ->
  forall e, tbool strict G e = true -> benign (eval o s e) is_vbool.
Proof. exact tbool_sound. Qed.
(* EXIT / CONTINUE never escape a loop: no InvalidControlFlow *)
Theorem statement_sound : forall o strict,
  o_neg_checked o = true -> o_for_checked o = true -> o_coerce_write o = true \/ strict = true ->
  o_case_unsigned o = true ->
  forall G fuel depth s st il, store_ok G s = true -> tstmt strict G il st = true -> (il = true -> depth <> 0%nat) ->
  sres_ok G depth (exec o fuel depth s st).
Proof. exact exec_sound. Qed.

(* the panics of the unrepaired code, and the program classes T excludes because the
   interpreter fails on them although the checker accepts them (witnesses) *)
Theorem unchecked_negation_panics_refuted :
  run_program {| o_neg_checked := false; o_for_checked := true; o_coerce_write := true; o_case_unsigned := true; o_return_ok := true |} 10
    [VInt KSInt (-128); VInt KSInt 0] [SAssign 1 (EUn UNeg (EVar 0))] = Fault FPanic /\
  tprogram true [TInt KSInt; TInt KSInt] [SAssign 1 (EUn UNeg (EVar 0))] = true.
Proof. exact neg_unchecked_panics. Qed.
Theorem unchecked_for_increment_panics_refuted :
  run_program {| o_neg_checked := true; o_for_checked := false; o_coerce_write := true; o_case_unsigned := true; o_return_ok := true |} 10
    [VInt KLInt 0]
    [SFor 0 (ELit false (VInt KLInt 9223372036854775806)) (ELit false (VInt KLInt 9223372036854775807)) (ELit false (VInt KLInt 2)) []]
  = Fault FPanic.
Proof. exact for_unchecked_panics. Qed.
(* the code as it is stores assigned values with the type tag they were computed with: an accepted
   program with untyped literals then reaches TypeMismatch (known finding, see C03) *)
Theorem untyped_literals_reach_type_mismatch_refuted :
  let G := [TInt KUInt; TInt KUInt] in
  let body := [SAssign 0 (ELit true (VInt KDInt 1));
               SAssign 0 (EBin BSub (EVar 0) (ELit true (VInt KDInt 2)));
               SAssign 1 (EBin BAdd (EVar 1) (EVar 0))] in
  tprogram false G body = true /\ store_ok G [VInt KUInt 0; VInt KUInt 0] = true /\
  run_program o_code 10 [VInt KUInt 0; VInt KUInt 0] body = Fault FTypeMismatch.
Proof. exact uncoerced_writes_reach_type_mismatch. Qed.
Theorem unsigned_case_selector_refuted :
  run_program {| o_neg_checked := true; o_for_checked := true; o_coerce_write := true; o_case_unsigned := false; o_return_ok := true |}
    10 [VInt KUInt 1] [SCase (EVar 0) [([LSingle 1], [])] []] = Fault FCaseSelector.
Proof. exact unsigned_case_selector_faults. Qed.
Theorem return_in_program_body_refuted :
  run_program {| o_neg_checked := true; o_for_checked := true; o_coerce_write := true; o_case_unsigned := true; o_return_ok := false |}
    10 [] [SReturn] = Fault FControlFlow.
Proof. exact return_in_program_faults. Qed.
Theorem negative_literal_in_unsigned_context_refuted :
  run_program o_fixed 10 [VInt KUInt 5; VInt KUInt 0]
    [SAssign 1 (EBin BAdd (EVar 0) (EBin BSub (ELit true (VInt KDInt 1)) (ELit true (VInt KDInt 2))))] = Fault FTypeMismatch.
Proof. exact negative_literal_in_unsigned_context_faults. Qed.

Example c01_nonvacuous :
  tprogram false [TInt KInt; TBool; TInt KUSInt]
    [SFor 0 (ELit true (VInt KDInt 0)) (ELit true (VInt KDInt 3)) (ELit true (VInt KDInt 1))
       [SIf (EBin BLt (EVar 0) (ELit true (VInt KDInt 2))) [SContinue] [] [SAssign 2 (EBin BAdd (EVar 2) (ELit true (VInt KDInt 200)))]];
     SAssign 1 (EBin BGe (EVar 2) (ELit false (VInt KUSInt 7)))] = true /\
  store_ok [TInt KInt; TBool; TInt KUSInt] [VInt KInt 0; VBool false; VInt KUSInt 0] = true /\
  run_program o_fixed 50 [VInt KInt 0; VBool false; VInt KUSInt 0]
    [SFor 0 (ELit true (VInt KDInt 0)) (ELit true (VInt KDInt 3)) (ELit true (VInt KDInt 1))
       [SIf (EBin BLt (EVar 0) (ELit true (VInt KDInt 2))) [SContinue] [] [SAssign 2 (EBin BAdd (EVar 2) (ELit true (VInt KDInt 200)))]];
     SAssign 1 (EBin BGe (EVar 2) (ELit false (VInt KUSInt 7)))] = Fault FOverflow.
Proof. exact st_nonvacuous_l. Qed.

(* function-block calls with named arguments (Model/StCalls.v: the instance's variables in the flat store, the call inlined):
   whatever the body does and whatever the arguments and the store are, a call that completes has changed only the variables of
   its own instance and the variables bound to its outputs - the caller's other variables and all other instances are untouched *)
Theorem fb_call_changes_only_instance_and_outputs : forall o fuel depth s f base en ins outs eno r,
  wr_block (fun x => Nat.ltb x (fb_size f)) (fb_body f) = true -> (length ins <= fb_nin f)%nat ->
  exec o fuel depth s (inline_call f base en ins outs eno) = Ok r ->
  forall y, call_writes f base outs eno y = false -> nth_error (fst r) y = nth_error s y.
Proof. exact call_frame_l. Qed.
(* a call, inlined, is an ordinary statement: when it is T-typed the soundness theorem applies to it (no static-class fault inside
   the callee or on return to the caller) *)
Theorem fb_call_sound : forall o strict,
  o_neg_checked o = true -> o_for_checked o = true -> o_coerce_write o = true \/ strict = true -> o_case_unsigned o = true ->
  forall G fuel depth s f base en ins outs eno il, store_ok G s = true ->
  tstmt strict G il (inline_call f base en ins outs eno) = true -> (il = true -> depth <> 0%nat) ->
  sres_ok G depth (exec o fuel depth s (inline_call f base en ins outs eno)).
Proof. exact (fun o strict H1 H2 H3 H4 G fuel depth s f base en ins outs eno il => exec_sound o strict H1 H2 H3 H4 G fuel depth s (inline_call f base en ins outs eno) il). Qed.
(* the typing rule for calls: a body T-typed under the block's own declarations ([EN] inputs outputs [ENO] locals), arguments of the
   inputs' types and targets of the outputs' types give a T-typed statement wherever the instance lies in the caller's environment -
   so type_soundness covers programs with function-block calls *)
Theorem fb_call_typing_rule : forall strict pre post f tin tout tloc,
  length tin = fb_nin f -> length tout = fb_nout f ->
  forall en ins outs eno il,
  let G := pre ++ fb_env f tin tout tloc ++ post in
  tblock strict (fb_env f tin tout tloc) false (fb_body f) = true ->
  (forall e, en = Some e -> tbool strict G e = true) ->
  Forall2 (fun e t => texpr strict G t e = true) ins tin ->
  Forall2 (fun o t => match o with Some x => nth_error G x = Some t | None => True end) outs tout ->
  (forall x, eno = Some x -> nth_error G x = Some TBool) ->
  tstmt strict G il (inline_call f (length pre) en ins outs eno) = true.
Proof. exact inline_call_typed_l. Qed.
Theorem fb_call_typing_nonvacuous :
  let pre := [TInt KInt; TInt KInt; TBool; TBool] in
  let tin := [TInt KInt] in let tout := [TInt KInt] in let tloc := [TInt KInt] in
  tblock true (fb_env demo_fb tin tout tloc) false (fb_body demo_fb) = true /\
  tstmt true (pre ++ fb_env demo_fb tin tout tloc ++ []) false (inline_call demo_fb (length pre) (Some (EVar 3)) [EVar 0] [Some 1%nat] (Some 2%nat)) = true /\
  store_ok (pre ++ fb_env demo_fb tin tout tloc ++ []) demo_store = true.
Proof. exact call_typing_demo. Qed.
Theorem fb_call_nonvacuous :
  wr_block (fun x => Nat.ltb x (fb_size demo_fb)) (fb_body demo_fb) = true /\
  exec demo_opts 10 0 demo_store (inline_call demo_fb 4 (Some (EVar 3)) [EVar 0] [Some 1%nat] (Some 2%nat)) =
    Ok ([VInt KInt 5; VInt KInt 5; VBool true; VBool true; VBool true; VInt KInt 5; VInt KInt 5; VBool true; VInt KInt 5], GNormal) /\
  exec demo_opts 10 0 demo_store (inline_call demo_fb 4 (Some (EVar 2)) [EVar 0] [Some 1%nat] (Some 3%nat)) =
    Ok ([VInt KInt 5; VInt KInt 0; VBool false; VBool false; VBool false; VInt KInt 0; VInt KInt 0; VBool false; VInt KInt 0], GNormal).
Proof. exact call_demo. Qed.

Print Assumptions type_soundness.
Print Assumptions type_soundness_every_cycle.
Print Assumptions int_expr_sound.
Print Assumptions bool_expr_sound.
Print Assumptions statement_sound.
Print Assumptions unchecked_negation_panics_refuted.
Print Assumptions unchecked_for_increment_panics_refuted.
Print Assumptions untyped_literals_reach_type_mismatch_refuted.
Print Assumptions unsigned_case_selector_refuted.
Print Assumptions return_in_program_body_refuted.
Print Assumptions negative_literal_in_unsigned_context_refuted.
Print Assumptions fb_call_changes_only_instance_and_outputs.
Print Assumptions fb_call_sound.
Print Assumptions fb_call_typing_rule.

(* ---- arrays (one-dimensional integer arrays: EIdx element read, SAssignIdx element write; Proofs/StArrays.v) ---- *)
(* an element read that succeeds has read a slot of the array - whatever the index expression is, typed or not *)
Theorem index_in_bounds_or_fault : forall o s b lo n ki i v, eval o s (EIdx b lo n ki i) = Ok v ->
  exists z x, (iv <- eval o s i ;; int_value iv) = Ok z /\ lo <= z <= lo + Z.of_nat n - 1 /\
    x = (b + Z.to_nat (z - lo))%nat /\ (b <= x < b + n)%nat /\ rd s x = Ok v.
Proof. exact StArrays.index_in_bounds_or_fault. Qed.
Theorem index_out_of_bounds_faults : forall o s b lo n ki i iv z, eval o s i = Ok iv -> int_value iv = Ok z ->
  z < lo \/ lo + Z.of_nat n - 1 < z -> eval o s (EIdx b lo n ki i) = Fault FIndexOOB.
Proof. exact StArrays.index_out_of_bounds_faults. Qed.
(* an element write that completes has changed at most one slot, a slot of the array; nothing else, and the store keeps its size *)
Theorem element_write_local : forall o ev ex fuel depth s b lo n ki i e s' sig,
  step o ev ex fuel depth s (SAssignIdx b lo n ki i e) = Ok (s', sig) ->
  exists z x, (iv <- ev s i ;; int_value iv) = Ok z /\ lo <= z <= lo + Z.of_nat n - 1 /\
    x = (b + Z.to_nat (z - lo))%nat /\ (b <= x < b + n)%nat /\
    (forall y, y <> x -> nth_error s' y = nth_error s y) /\ length s' = length s /\ sig = GNormal.
Proof. exact StArrays.element_write_local. Qed.
Theorem element_write_local_exec : forall o fuel depth s b lo n ki i e s' sig,
  exec o fuel depth s (SAssignIdx b lo n ki i e) = Ok (s', sig) ->
  exists z x, (iv <- eval o s i ;; int_value iv) = Ok z /\ lo <= z <= lo + Z.of_nat n - 1 /\
    x = (b + Z.to_nat (z - lo))%nat /\ (b <= x < b + n)%nat /\
    (forall y, y <> x -> nth_error s' y = nth_error s y) /\ length s' = length s /\ sig = GNormal.
Proof. exact StArrays.element_write_local_exec. Qed.
(* well-typed accesses: the read gives an in-range integer of exactly the element kind, the write a declaration-conforming store
   and a normal completion - or a value-dependent fault, which is exactly IndexOutOfBounds when the index leaves the declared bounds *)
Theorem array_access_sound : forall o strict,
  o_neg_checked o = true -> o_for_checked o = true -> o_coerce_write o = true \/ strict = true -> o_case_unsigned o = true ->
  forall G s, store_ok G s = true -> forall b lo n ki i,
  (forall k, tint strict G k (EIdx b lo n ki i) = true ->
     benign (eval o s (EIdx b lo n ki i)) (fun v => exists z, v = VInt k z /\ in_range k z = true) /\
     (forall k' z, eval o s i = Ok (VInt k' z) -> z < lo \/ lo + Z.of_nat n - 1 < z ->
        eval o s (EIdx b lo n ki i) = Fault FIndexOOB)) /\
  (forall e il fuel depth, tstmt strict G il (SAssignIdx b lo n ki i e) = true ->
     benign (exec o fuel depth s (SAssignIdx b lo n ki i e)) (fun r => store_ok G (fst r) = true /\ snd r = GNormal) /\
     (forall v k' z, eval o s e = Ok v -> eval o s i = Ok (VInt k' z) -> z < lo \/ lo + Z.of_nat n - 1 < z ->
        exec o (S fuel) depth s (SAssignIdx b lo n ki i e) = Fault FIndexOOB)).
Proof. exact StArrays.array_access_sound. Qed.
Theorem array_index_in_bounds_reads : forall o strict, o_neg_checked o = true -> forall G s k b lo n ki i, store_ok G s = true ->
  tint strict G k (EIdx b lo n ki i) = true ->
  forall k' z, eval o s i = Ok (VInt k' z) -> lo <= z <= lo + Z.of_nat n - 1 ->
  exists ze, eval o s (EIdx b lo n ki i) = Ok (VInt k ze) /\ in_range k ze = true /\
             nth_error s (b + Z.to_nat (z - lo)) = Some (VInt k ze).
Proof. exact StArrays.array_index_in_bounds_reads. Qed.
(* a constant index is checked statically (T accepts a literal index only inside the declared bounds): that read cannot fault *)
Theorem array_literal_index_reads : forall o strict, o_neg_checked o = true -> forall G s k b lo n ki u v, store_ok G s = true ->
  tint strict G k (EIdx b lo n ki (ELit u v)) = true ->
  exists k' z ze, v = VInt k' z /\ lo <= z <= lo + Z.of_nat n - 1 /\
    eval o s (EIdx b lo n ki (ELit u v)) = Ok (VInt k ze) /\ in_range k ze = true /\
    nth_error s (b + Z.to_nat (z - lo)) = Some (VInt k ze).
Proof. exact StArrays.array_literal_index_reads. Qed.
(* j : INT := 2;  a : ARRAY[-1..1] OF INT := [10, 20, 30] at slots 1..3;  r : INT *)
Example array_nonvacuous :
  let G := [TInt KInt; TInt KInt; TInt KInt; TInt KInt; TInt KInt] in
  let s := [VInt KInt 2; VInt KInt 10; VInt KInt 20; VInt KInt 30; VInt KInt 0] in
  let a := EIdx 1 (-1) 3 KInt in
  let lit := fun z => ELit false (VInt KInt z) in
  let body := [SAssignIdx 1 (-1) 3 KInt (lit 0) (lit 42); SAssign 4 (EBin BAdd (a (lit (-1))) (a (lit 1)))] in
  let body_oob := body ++ [SAssign 4 (a (EVar 0))] in
  let write_oob := [SAssignIdx 1 (-1) 3 KInt (EVar 0) (lit 1)] in
  store_ok G s = true /\ tprogram true G body = true /\ tprogram true G body_oob = true /\ tprogram true G write_oob = true /\
  tprogram true G [SAssign 4 (a (lit 2))] = false /\ tprogram true G [SAssignIdx 1 (-1) 3 KInt (lit (-2)) (lit 1)] = false /\
  eval o_code s (a (lit (-1))) = Ok (VInt KInt 10) /\ eval o_code s (a (lit 1)) = Ok (VInt KInt 30) /\
  eval o_code s (a (lit 2)) = Fault FIndexOOB /\ eval o_code s (a (lit (-2))) = Fault FIndexOOB /\
  run_program o_code 10 s body = Ok [VInt KInt 2; VInt KInt 10; VInt KInt 42; VInt KInt 30; VInt KInt 40] /\
  run_program o_fixed 10 s body = Ok [VInt KInt 2; VInt KInt 10; VInt KInt 42; VInt KInt 30; VInt KInt 40] /\
  run_program o_code 10 s body_oob = Fault FIndexOOB /\
  run_program o_code 10 s write_oob = Fault FIndexOOB /\
  StRef.run_ref G 10 s body = Ok [VInt KInt 2; VInt KInt 10; VInt KInt 42; VInt KInt 30; VInt KInt 40] /\
  StRef.run_ref G 10 s body_oob = Fault FIndexOOB /\ StRef.run_ref G 10 s write_oob = Fault FIndexOOB /\
  store_ok G [VInt KInt 2; VInt KInt 10; VInt KInt 42; VInt KInt 30; VInt KInt 40] = true.
Proof. exact StArrays.array_nonvacuous. Qed.

Print Assumptions index_in_bounds_or_fault.
Print Assumptions index_out_of_bounds_faults.
Print Assumptions element_write_local.
Print Assumptions element_write_local_exec.
Print Assumptions array_access_sound.
Print Assumptions array_index_in_bounds_reads.
Print Assumptions array_literal_index_reads.
Print Assumptions array_nonvacuous.
