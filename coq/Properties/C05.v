(* C05 — deterministic, reproducible compilation and execution. Pinned.
   Partial: the theorems are about the table discipline; hash seeds, allocator layout and the OS
   are outside any Gallina model (every Gallina function is deterministic), so independence of
   process identity is established by the cross-process differential of checks/c05.py. *)
From Coq Require Import List Bool Arith.
From TP Require Import Model.OrderOblivious gen.C05Sites Proofs.C05Proofs.
Import ListNotations.

Theorem lookup_only_clients_are_order_oblivious : forall ops m1 m2, equiv m1 m2 ->
  snd (run_ops m1 ops) = snd (run_ops m2 ops) /\ equiv (fst (run_ops m1 ops)) (fst (run_ops m2 ops)).
Proof. exact lookup_only_oblivious. Qed.
Theorem intern_ids_follow_first_seen_order : forall l vec i1 i2, equiv i1 i2 ->
  snd (intern_all (vec, i1) l) = snd (intern_all (vec, i2) l) /\
  fst (fst (intern_all (vec, i1) l)) = fst (fst (intern_all (vec, i2) l)).
Proof. exact intern_oblivious. Qed.
Theorem iteration_exposes_order_refuted : exists m1 m2, equiv m1 m2 /\ iter_keys m1 <> iter_keys m2.
Proof. exact iteration_exposes_order. Qed.
Theorem hash_container_uses_are_lookup_only : forallb site_ok sites = true.
Proof. exact sites_lookup_only_l. Qed.

Print Assumptions lookup_only_clients_are_order_oblivious.
Print Assumptions intern_ids_follow_first_seen_order.
Print Assumptions iteration_exposes_order_refuted.
Print Assumptions hash_container_uses_are_lookup_only.
