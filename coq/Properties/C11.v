(* C11 — STBC container: total decoder, exact round trip, validated means safe. Pinned statements
   over Model/Stbc.v (frame decoding for arbitrary bytes, string-table codec, allocation). *)
From Coq Require Import List Bool Arith NArith.
From TP Require Import Model.Stbc Model.StbcEnc Model.StbcFmt Model.StbcSections Proofs.C11Proofs Proofs.C11Frame Proofs.C11Fmt.
Import ListNotations.
Open Scope N_scope.

Theorem le32_round_trip : forall n, n < 4294967296 ->
  le32 (n mod 256) ((n / 256) mod 256) ((n / 65536) mod 256) ((n / 16777216) mod 256) = n.
Proof. exact le32_enc32. Qed.
(* for ANY byte string: an accepted frame has version 1, a section table inside the file, every
   section 4-aligned and inside the file, sections pairwise disjoint, and a flagged CRC that matches;
   so slicing the payloads can never go out of bounds *)
Theorem frame_sections_in_bounds : forall (crc : list N -> N) bs f, dec_frame crc bs = Ok f ->
  Forall (in_bounds (blen bs)) (f_entries f) /\ chain 0 (sort_entries (f_entries f)) /\
  f_major f = 1 /\ 24 <= blen bs /\
  (N.odd (f_flags f) = true -> crc (skipn (N.to_nat (u32_at bs 16)) bs) = u32_at bs 20) /\
  length (f_entries f) = N.to_nat (u16_at bs 14) /\ u32_at bs 16 + u16_at bs 14 * 12 <= blen bs.
Proof. exact frame_sections_in_bounds_l. Qed.
(* the string table: decoding what the encoder wrote gives back exactly the strings *)
Theorem strtab_round_trip : forall b l, N.of_nat (length l) < 4294967296 -> Forall (fun s => blen s < 4294967296) l ->
  st_entries (dec_strtab b (enc_strtab l)) = Some l.
Proof. exact strtab_round_trip_l. Qed.
(* memory proportional to the input: the repaired decoder never asks for more elements than bytes remain *)
Theorem strtab_capacity_bounded : forall bs, st_capacity (dec_strtab true bs) <= blen bs.
Proof. exact strtab_capacity_bounded_l. Qed.
Theorem unbounded_capacity_refuted :
  st_capacity (dec_strtab false huge_count) = 4294967295 /\ blen huge_count = 8 /\ st_entries (dec_strtab false huge_count) = None.
Proof. exact strtab_capacity_unbounded. Qed.
(* decoding an encoded frame reproduces it: the decoder accepts what the encoder writes, returns exactly the table the encoder
   laid out, and the bytes at every table entry are the section payloads, identifiers and flags that were encoded *)
Theorem decode_of_encoded_frame : forall crc minor flags ss, wf_frame minor flags ss ->
  dec_frame crc (enc_frame 1 minor flags ss) =
  Ok {| f_major := 1; f_minor := minor; f_flags := flags; f_entries := layout (first_offset (N.of_nat (length ss))) ss |}.
Proof. exact dec_enc_frame_l. Qed.
Theorem encoded_payloads_are_returned : forall minor flags ss,
  Forall2 (fun e s => slice (enc_frame 1 minor flags ss) (e_off e) (e_len e) = s_data s /\ e_id e = s_id s /\ e_flags e = s_flags s)
          (layout (first_offset (N.of_nat (length ss))) ss) ss.
Proof. exact frame_payloads_l. Qed.
Theorem c11_frame_nonvacuous :
  let ss := [{| s_id := 1; s_flags := 0; s_data := [1; 0; 0; 0; 97; 0; 0; 0] |}; {| s_id := 7; s_flags := 2; s_data := [9; 9; 9] |}; {| s_id := 3; s_flags := 0; s_data := [] |}] in
  wf_frame 1 0 ss /\ blen (enc_frame 1 1 0 ss) = 72 /\
  map e_off (layout (first_offset 3) ss) = [60; 68; 72] /\ map e_len (layout (first_offset 3) ss) = [8; 3; 0].
Proof. exact frame_demo. Qed.
Theorem c11_nonvacuous : exists f, dec_frame (fun _ => 0) demo_frame = Ok f /\ map e_off (f_entries f) = [48; 56] /\ map e_len (f_entries f) = [6; 4].
Proof. exact demo_frame_ok. Qed.
(* ---- section contents: the format calculus (Model/StbcFmt.v) and the section descriptors (Model/StbcSections.v) ---- *)
(* for every format: decoding what the encoder wrote gives back the tree and leaves whatever follows untouched *)
Theorem dec_enc : forall f t bs rest, wf f t -> enc f t = Some bs -> dec f (bs ++ rest) = Some (t, rest).
Proof. exact dec_enc_l. Qed.
(* the decoder never reads out of bounds: an accepted input is the consumed bytes followed by the untouched suffix *)
Theorem dec_consumes : forall f bs t rest, dec f bs = Some (t, rest) -> exists used, bs = used ++ rest.
Proof. exact dec_consumes_l. Qed.
(* decoded values are encodable; on canonical inputs (reserved bytes / padding zero) the encoder reproduces the consumed bytes *)
Theorem dec_wf : forall f bs t rest, fmt_ok f -> bytes_ok bs -> dec f bs = Some (t, rest) -> wf f t.
Proof. exact dec_wf_l. Qed.
Theorem enc_dec_canonical : forall f bs t rest, bytes_ok bs -> canonical f bs -> dec f bs = Some (t, rest) ->
  exists used, bs = used ++ rest /\ enc f t = Some used.
Proof. exact enc_dec_canonical_l. Qed.
Theorem enc_canonical : forall f t bs rest, wf f t -> enc f t = Some bs -> canonical f (bs ++ rest).
Proof. exact enc_canonical_l. Qed.
(* memory proportional to the input: no capacity request exceeds the number of bytes given *)
Theorem cap_bounded : forall f bs, cap f bs <= blen bs.
Proof. exact cap_bounded_l. Qed.
Theorem section_fmt_ok : forall minor id f, section_fmt minor id = Some f -> fmt_ok f.
Proof. exact section_fmt_ok_l. Qed.
(* every section kind, the offset-indexed type table included *)
Theorem section_round_trip : forall minor id t bs, wf_section minor id t -> enc_section minor id t = Some bs -> dec_section minor id bs = Some t.
Proof. exact section_round_trip_l. Qed.
Theorem section_round_trip_trailing : forall minor id f t bs extra, section_fmt minor id = Some f -> wf f t -> enc f t = Some bs ->
  dec_section minor id (bs ++ extra) = Some t.
Proof. exact section_round_trip_trailing_l. Qed.
Theorem type_table_round_trip : forall t bs, wf_type_table t -> enc_type_table t = Some bs -> dec_type_table bs = Some t.
Proof. exact type_table_round_trip_l. Qed.
Theorem cap_section_bounded : forall minor id payload, cap_section minor id payload <= blen payload.
Proof. exact cap_section_bounded_l. Qed.
Theorem c11_sections_nonvacuous :
  (wf_section 1 5 demo_pou_index /\ wf_section 1 4 demo_ref_table) /\
  rt_of 1 5 demo_pou_index = (Some 144, Some demo_pou_index) /\ rt_of 1 4 demo_ref_table = (Some 52, Some demo_ref_table) /\
  rt_of 1 2 demo_type_table = (Some 56, Some demo_type_table) /\
  dec_section 1 5 [1; 0; 0; 0; 0; 0; 0; 0; 0; 0; 0; 0; 5; 0; 0; 0] = None /\
  dec_section 1 8 [255; 255; 255; 255; 1; 0; 0; 0] = None /\ cap_section 1 8 [255; 255; 255; 255; 1; 0; 0; 0] = 4.
Proof. exact demo_sections_all. Qed.
Print Assumptions le32_round_trip.
Print Assumptions frame_sections_in_bounds.
Print Assumptions strtab_round_trip.
Print Assumptions strtab_capacity_bounded.
Print Assumptions unbounded_capacity_refuted.
Print Assumptions decode_of_encoded_frame.
Print Assumptions encoded_payloads_are_returned.
Print Assumptions dec_enc.
Print Assumptions dec_consumes.
Print Assumptions dec_wf.
Print Assumptions enc_dec_canonical.
Print Assumptions enc_canonical.
Print Assumptions cap_bounded.
Print Assumptions section_fmt_ok.
Print Assumptions section_round_trip.
Print Assumptions section_round_trip_trailing.
Print Assumptions type_table_round_trip.
Print Assumptions cap_section_bounded.
Print Assumptions c11_sections_nonvacuous.
