(* C11 — STBC container: total decoder, exact round trip, validated means safe. Pinned statements
   over Model/Stbc.v (frame decoding for arbitrary bytes, string-table codec, allocation). *)
From Coq Require Import List Bool Arith NArith.
From TP Require Import Model.Stbc Proofs.C11Proofs.
Import ListNotations.
Open Scope N_scope.

Theorem le32_round_trip : forall n, n < 4294967296 ->
  le32 (n mod 256) ((n / 256) mod 256) ((n / 65536) mod 256) ((n / 16777216) mod 256) = n.
Proof. exact le32_enc32. Qed.
(* for ANY byte string: an accepted frame has version 1, a section table inside the file, every
   section 4-aligned and inside the file, sections pairwise disjoint, and a flagged CRC that matches;
   so slicing the payloads can never go out of bounds *)
Theorem frame_sections_in_bounds : forall (crc : list N -> N) bs f, dec_frame crc bs = Ok f ->
  Forall (in_bounds (blen bs)) (f_entries f) /\ chain 0 (sort_entries (f_entries f)) /\
  f_major f = 1 /\ 24 <= blen bs /\
  (N.odd (f_flags f) = true -> crc (skipn (N.to_nat (u32_at bs 16)) bs) = u32_at bs 20) /\
  length (f_entries f) = N.to_nat (u16_at bs 14) /\ u32_at bs 16 + u16_at bs 14 * 12 <= blen bs.
Proof. exact frame_sections_in_bounds_l. Qed.
(* the string table: decoding what the encoder wrote gives back exactly the strings *)
Theorem strtab_round_trip : forall b l, N.of_nat (length l) < 4294967296 -> Forall (fun s => blen s < 4294967296) l ->
  st_entries (dec_strtab b (enc_strtab l)) = Some l.
Proof. exact strtab_round_trip_l. Qed.
(* memory proportional to the input: the repaired decoder never asks for more elements than bytes remain *)
Theorem strtab_capacity_bounded : forall bs, st_capacity (dec_strtab true bs) <= blen bs.
Proof. exact strtab_capacity_bounded_l. Qed.
Theorem unbounded_capacity_refuted :
  st_capacity (dec_strtab false huge_count) = 4294967295 /\ blen huge_count = 8 /\ st_entries (dec_strtab false huge_count) = None.
Proof. exact strtab_capacity_unbounded. Qed.
Theorem c11_nonvacuous : exists f, dec_frame (fun _ => 0) demo_frame = Ok f /\ map e_off (f_entries f) = [48; 56] /\ map e_len (f_entries f) = [6; 4].
Proof. exact demo_frame_ok. Qed.
Print Assumptions le32_round_trip.
Print Assumptions frame_sections_in_bounds.
Print Assumptions strtab_round_trip.
Print Assumptions strtab_capacity_bounded.
Print Assumptions unbounded_capacity_refuted.
