(* C17 — the debugger is transparent and never wedges the runtime. Pinned statements about every
   schedule (interleaving of statement hooks, wake-ups, control actions, task switches) of the
   debugger state machine in Model/Debug.v. *)
From Coq Require Import List Bool Arith.
From TP Require Import Model.Debug Proofs.C17Inv Proofs.C17Proofs.
Import ListNotations.

(* one stop notification per pause, sent before the thread parks *)
Theorem one_stop_per_pause : forall s, reachable s ->
  length (d_stops s) = g_mark s + g_emitted s /\
  (d_mode s = Running -> d_pending s = None /\ g_emitted s = 0) /\
  (d_mode s = Paused -> g_emitted s + pend1 s = 1) /\
  (d_mode s = Paused -> d_pending s = None -> d_waiting s = true /\ is_target s = true) /\
  (d_waiting s = true -> d_mode s = Paused -> is_target s = true -> g_notified s = true \/ g_emitted s = 1).
Proof. exact one_stop_per_pause_l. Qed.
(* no lost wake-up; every continue / step issued while the thread is parked un-parks it *)
Theorem no_lost_wakeup : forall s, reachable s -> d_waiting s = true ->
  (g_notified s = true \/ (d_mode s = Paused /\ is_target s = true /\ d_pending s = None)) /\
  (d_mode s = Running -> d_waiting (step s (LWake (d_last_depth s))) = false) /\
  (forall a, resume_action a = true ->
     let s1 := fst (apply_action s a) in
     snd (apply_action s a) = Applied /\ g_notified s1 = true /\ d_waiting s1 = true /\
     d_waiting (step s1 (LWake (d_last_depth s1))) = false).
Proof. exact no_lost_wakeup_l. Qed.
(* step-over / step-out never stop deeper than their origin *)
Theorem step_over_out_depth : forall s, reachable s -> Forall stop_ok (d_stops s).
Proof. exact step_depth_l. Qed.
Theorem step_origin_is_parked_depth : forall s t, reachable s -> d_waiting s = true -> (t = None \/ t = d_current s) ->
  (forall st, d_step (fst (apply_action s (AStepOver t))) = Some st -> st_origin st = d_last_depth s /\ st_depth st = d_last_depth s) /\
  (forall st, d_step (fst (apply_action s (AStepOut t))) = Some st -> st_origin st = d_last_depth s /\ st_depth st = d_last_depth s - 1).
Proof. exact step_origin_l. Qed.
(* step-in stops at the very next statement *)
Theorem step_in_next_statement : forall s d bp, reachable s -> d_waiting s = true ->
  let s1 := fst (apply_action s (AStepIn None)) in
  let s2 := step s1 (LWake (d_last_depth s1)) in
  d_waiting s2 = false /\
  (d_mode s = Paused ->
   d_stops (hook s2 d bp true) = {| sp_reason := RStep; sp_depth := d; sp_thread := d_current s; sp_step := Some (KInto, d_last_depth s) |} :: d_stops s /\
   d_waiting (hook s2 d bp true) = true /\ d_mode (hook s2 d bp true) = Paused).
Proof. exact step_in_next_l. Qed.
(* transparency of the product system (model side; the code side is the differential run of the check) *)
Theorem transparency : forall (A : Type) (prog : list (stmt A)) (a0 : A) (ls : list plabel) (ps ps' : pstate A),
  p_val A ps = undebugged A prog (p_done A ps) a0 ->
  prun A prog ps ls = Some ps' -> p_val A ps' = undebugged A prog (p_done A ps') a0 /\ p_done A ps <= p_done A ps'.
Proof. exact transparency_l. Qed.
Theorem c17_nonvacuous : exists s, run d_init demo_schedule = Some s /\ d_waiting s = true /\ d_mode s = Paused /\
  map sp_reason (d_stops s) = [RStep; RPause; RStep; RStep; RPause] /\ map sp_depth (d_stops s) = [1; 1; 1; 0; 1].
Proof. exact demo_reachable. Qed.
Print Assumptions one_stop_per_pause.
Print Assumptions no_lost_wakeup.
Print Assumptions step_over_out_depth.
Print Assumptions step_origin_is_parked_depth.
Print Assumptions step_in_next_statement.
Print Assumptions transparency.
Print Assumptions c17_nonvacuous.
