Extract/C04x.vo Extract/C04x.glob Extract/C04x.v.beautified Extract/C04x.required_vo: Extract/C04x.v Model/Fb.vo Spec/C04.vo Spec/C04Judge.vo
Extract/C04x.vio: Extract/C04x.v Model/Fb.vio Spec/C04.vio Spec/C04Judge.vio
Extract/C04x.vos Extract/C04x.vok Extract/C04x.required_vos: Extract/C04x.v Model/Fb.vos Spec/C04.vos Spec/C04Judge.vos
Model/Fb.vo Model/Fb.glob Model/Fb.v.beautified Model/Fb.required_vo: Model/Fb.v 
Model/Fb.vio: Model/Fb.v 
Model/Fb.vos Model/Fb.vok Model/Fb.required_vos: Model/Fb.v 
Proofs/C04Proofs.vo Proofs/C04Proofs.glob Proofs/C04Proofs.v.beautified Proofs/C04Proofs.required_vo: Proofs/C04Proofs.v Model/Fb.vo Spec/C04.vo
Proofs/C04Proofs.vio: Proofs/C04Proofs.v Model/Fb.vio Spec/C04.vio
Proofs/C04Proofs.vos Proofs/C04Proofs.vok Proofs/C04Proofs.required_vos: Proofs/C04Proofs.v Model/Fb.vos Spec/C04.vos
Properties/C04.vo Properties/C04.glob Properties/C04.v.beautified Properties/C04.required_vo: Properties/C04.v Model/Fb.vo Spec/C04.vo Proofs/C04Proofs.vo
Properties/C04.vio: Properties/C04.v Model/Fb.vio Spec/C04.vio Proofs/C04Proofs.vio
Properties/C04.vos Properties/C04.vok Properties/C04.required_vos: Properties/C04.v Model/Fb.vos Spec/C04.vos Proofs/C04Proofs.vos
Spec/C04.vo Spec/C04.glob Spec/C04.v.beautified Spec/C04.required_vo: Spec/C04.v 
Spec/C04.vio: Spec/C04.v 
Spec/C04.vos Spec/C04.vok Spec/C04.required_vos: Spec/C04.v 
Spec/C04Judge.vo Spec/C04Judge.glob Spec/C04Judge.v.beautified Spec/C04Judge.required_vo: Spec/C04Judge.v Spec/C04.vo
Spec/C04Judge.vio: Spec/C04Judge.v Spec/C04.vio
Spec/C04Judge.vos Spec/C04Judge.vok Spec/C04Judge.required_vos: Spec/C04Judge.v Spec/C04.vos
