Extract/C01x.vo Extract/C01x.glob Extract/C01x.v.beautified Extract/C01x.required_vo: Extract/C01x.v Model/StCore.vo Model/StTyping.vo Model/StRef.vo Model/StCalls.vo
Extract/C01x.vio: Extract/C01x.v Model/StCore.vio Model/StTyping.vio Model/StRef.vio Model/StCalls.vio
Extract/C01x.vos Extract/C01x.vok Extract/C01x.required_vos: Extract/C01x.v Model/StCore.vos Model/StTyping.vos Model/StRef.vos Model/StCalls.vos
Extract/C04x.vo Extract/C04x.glob Extract/C04x.v.beautified Extract/C04x.required_vo: Extract/C04x.v Model/Fb.vo Spec/C04.vo Spec/C04Judge.vo
Extract/C04x.vio: Extract/C04x.v Model/Fb.vio Spec/C04.vio Spec/C04Judge.vio
Extract/C04x.vos Extract/C04x.vok Extract/C04x.required_vos: Extract/C04x.v Model/Fb.vos Spec/C04.vos Spec/C04Judge.vos
Extract/C06x.vo Extract/C06x.glob Extract/C06x.v.beautified Extract/C06x.required_vo: Extract/C06x.v Model/Sched.vo Spec/C06Judge.vo
Extract/C06x.vio: Extract/C06x.v Model/Sched.vio Spec/C06Judge.vio
Extract/C06x.vos Extract/C06x.vok Extract/C06x.required_vos: Extract/C06x.v Model/Sched.vos Spec/C06Judge.vos
Extract/C07x.vo Extract/C07x.glob Extract/C07x.v.beautified Extract/C07x.required_vo: Extract/C07x.v Model/Io.vo Model/Cycle.vo Spec/C07Judge.vo
Extract/C07x.vio: Extract/C07x.v Model/Io.vio Model/Cycle.vio Spec/C07Judge.vio
Extract/C07x.vos Extract/C07x.vok Extract/C07x.required_vos: Extract/C07x.v Model/Io.vos Model/Cycle.vos Spec/C07Judge.vos
Extract/C09x.vo Extract/C09x.glob Extract/C09x.v.beautified Extract/C09x.required_vo: Extract/C09x.v Model/Restart.vo Model/RestartTasks.vo Spec/C09Judge.vo
Extract/C09x.vio: Extract/C09x.v Model/Restart.vio Model/RestartTasks.vio Spec/C09Judge.vio
Extract/C09x.vos Extract/C09x.vok Extract/C09x.required_vos: Extract/C09x.v Model/Restart.vos Model/RestartTasks.vos Spec/C09Judge.vos
Extract/C10x.vo Extract/C10x.glob Extract/C10x.v.beautified Extract/C10x.required_vo: Extract/C10x.v Model/RetainCodec.vo Model/CrashFs.vo
Extract/C10x.vio: Extract/C10x.v Model/RetainCodec.vio Model/CrashFs.vio
Extract/C10x.vos Extract/C10x.vok Extract/C10x.required_vos: Extract/C10x.v Model/RetainCodec.vos Model/CrashFs.vos
Extract/C11Fx.vo Extract/C11Fx.glob Extract/C11Fx.v.beautified Extract/C11Fx.required_vo: Extract/C11Fx.v Model/Stbc.vo Model/StbcFmt.vo Model/StbcSections.vo
Extract/C11Fx.vio: Extract/C11Fx.v Model/Stbc.vio Model/StbcFmt.vio Model/StbcSections.vio
Extract/C11Fx.vos Extract/C11Fx.vok Extract/C11Fx.required_vos: Extract/C11Fx.v Model/Stbc.vos Model/StbcFmt.vos Model/StbcSections.vos
Extract/C11x.vo Extract/C11x.glob Extract/C11x.v.beautified Extract/C11x.required_vo: Extract/C11x.v Model/Stbc.vo Spec/C11Judge.vo
Extract/C11x.vio: Extract/C11x.v Model/Stbc.vio Spec/C11Judge.vio
Extract/C11x.vos Extract/C11x.vok Extract/C11x.required_vos: Extract/C11x.v Model/Stbc.vos Spec/C11Judge.vos
Extract/C12x.vo Extract/C12x.glob Extract/C12x.v.beautified Extract/C12x.required_vo: Extract/C12x.v Model/LexSink.vo Spec/C12Judge.vo
Extract/C12x.vio: Extract/C12x.v Model/LexSink.vio Spec/C12Judge.vio
Extract/C12x.vos Extract/C12x.vok Extract/C12x.required_vos: Extract/C12x.v Model/LexSink.vos Spec/C12Judge.vos
Extract/C13x.vo Extract/C13x.glob Extract/C13x.v.beautified Extract/C13x.required_vo: Extract/C13x.v Model/HirDb.vo
Extract/C13x.vio: Extract/C13x.v Model/HirDb.vio
Extract/C13x.vos Extract/C13x.vok Extract/C13x.required_vos: Extract/C13x.v Model/HirDb.vos
Extract/C14x.vo Extract/C14x.glob Extract/C14x.v.beautified Extract/C14x.required_vo: Extract/C14x.v Model/LspText.vo Spec/C14.vo
Extract/C14x.vio: Extract/C14x.v Model/LspText.vio Spec/C14.vio
Extract/C14x.vos Extract/C14x.vok Extract/C14x.required_vos: Extract/C14x.v Model/LspText.vos Spec/C14.vos
Extract/C15x.vo Extract/C15x.glob Extract/C15x.v.beautified Extract/C15x.required_vo: Extract/C15x.v Model/FmtEdit.vo Spec/C15Judge.vo
Extract/C15x.vio: Extract/C15x.v Model/FmtEdit.vio Spec/C15Judge.vio
Extract/C15x.vos Extract/C15x.vok Extract/C15x.required_vos: Extract/C15x.v Model/FmtEdit.vos Spec/C15Judge.vos
Extract/C16x.vo Extract/C16x.glob Extract/C16x.v.beautified Extract/C16x.required_vo: Extract/C16x.v Model/Rename.vo
Extract/C16x.vio: Extract/C16x.v Model/Rename.vio
Extract/C16x.vos Extract/C16x.vok Extract/C16x.required_vos: Extract/C16x.v Model/Rename.vos
Extract/C17x.vo Extract/C17x.glob Extract/C17x.v.beautified Extract/C17x.required_vo: Extract/C17x.v Model/Debug.vo Spec/C17Judge.vo
Extract/C17x.vio: Extract/C17x.v Model/Debug.vio Spec/C17Judge.vio
Extract/C17x.vos Extract/C17x.vok Extract/C17x.required_vos: Extract/C17x.v Model/Debug.vos Spec/C17Judge.vos
Extract/C18x.vo Extract/C18x.glob Extract/C18x.v.beautified Extract/C18x.required_vo: Extract/C18x.v gen/C18Tables.vo Model/Control.vo Spec/C18.vo Spec/C18Judge.vo
Extract/C18x.vio: Extract/C18x.v gen/C18Tables.vio Model/Control.vio Spec/C18.vio Spec/C18Judge.vio
Extract/C18x.vos Extract/C18x.vok Extract/C18x.required_vos: Extract/C18x.v gen/C18Tables.vos Model/Control.vos Spec/C18.vos Spec/C18Judge.vos
Extract/C19x.vo Extract/C19x.glob Extract/C19x.v.beautified Extract/C19x.required_vo: Extract/C19x.v Model/WebIde.vo Model/WebIdeDocs.vo Spec/C19Judge.vo
Extract/C19x.vio: Extract/C19x.v Model/WebIde.vio Model/WebIdeDocs.vio Spec/C19Judge.vio
Extract/C19x.vos Extract/C19x.vok Extract/C19x.required_vos: Extract/C19x.v Model/WebIde.vos Model/WebIdeDocs.vos Spec/C19Judge.vos
Extract/C20x.vo Extract/C20x.glob Extract/C20x.v.beautified Extract/C20x.required_vo: Extract/C20x.v Model/Resource.vo Spec/C20Judge.vo
Extract/C20x.vio: Extract/C20x.v Model/Resource.vio Spec/C20Judge.vio
Extract/C20x.vos Extract/C20x.vok Extract/C20x.required_vos: Extract/C20x.v Model/Resource.vos Spec/C20Judge.vos
Model/Control.vo Model/Control.glob Model/Control.v.beautified Model/Control.required_vo: Model/Control.v gen/C18Tables.vo
Model/Control.vio: Model/Control.v gen/C18Tables.vio
Model/Control.vos Model/Control.vok Model/Control.required_vos: Model/Control.v gen/C18Tables.vos
Model/CrashFs.vo Model/CrashFs.glob Model/CrashFs.v.beautified Model/CrashFs.required_vo: Model/CrashFs.v 
Model/CrashFs.vio: Model/CrashFs.v 
Model/CrashFs.vos Model/CrashFs.vok Model/CrashFs.required_vos: Model/CrashFs.v 
Model/Cycle.vo Model/Cycle.glob Model/Cycle.v.beautified Model/Cycle.required_vo: Model/Cycle.v Model/Io.vo
Model/Cycle.vio: Model/Cycle.v Model/Io.vio
Model/Cycle.vos Model/Cycle.vok Model/Cycle.required_vos: Model/Cycle.v Model/Io.vos
Model/Debug.vo Model/Debug.glob Model/Debug.v.beautified Model/Debug.required_vo: Model/Debug.v 
Model/Debug.vio: Model/Debug.v 
Model/Debug.vos Model/Debug.vok Model/Debug.required_vos: Model/Debug.v 
Model/Fb.vo Model/Fb.glob Model/Fb.v.beautified Model/Fb.required_vo: Model/Fb.v 
Model/Fb.vio: Model/Fb.v 
Model/Fb.vos Model/Fb.vok Model/Fb.required_vos: Model/Fb.v 
Model/FmtEdit.vo Model/FmtEdit.glob Model/FmtEdit.v.beautified Model/FmtEdit.required_vo: Model/FmtEdit.v 
Model/FmtEdit.vio: Model/FmtEdit.v 
Model/FmtEdit.vos Model/FmtEdit.vok Model/FmtEdit.required_vos: Model/FmtEdit.v 
Model/FmtIndent.vo Model/FmtIndent.glob Model/FmtIndent.v.beautified Model/FmtIndent.required_vo: Model/FmtIndent.v 
Model/FmtIndent.vio: Model/FmtIndent.v 
Model/FmtIndent.vos Model/FmtIndent.vok Model/FmtIndent.required_vos: Model/FmtIndent.v 
Model/HirDb.vo Model/HirDb.glob Model/HirDb.v.beautified Model/HirDb.required_vo: Model/HirDb.v 
Model/HirDb.vio: Model/HirDb.v 
Model/HirDb.vos Model/HirDb.vok Model/HirDb.required_vos: Model/HirDb.v 
Model/Io.vo Model/Io.glob Model/Io.v.beautified Model/Io.required_vo: Model/Io.v 
Model/Io.vio: Model/Io.v 
Model/Io.vos Model/Io.vok Model/Io.required_vos: Model/Io.v 
Model/LexSink.vo Model/LexSink.glob Model/LexSink.v.beautified Model/LexSink.required_vo: Model/LexSink.v 
Model/LexSink.vio: Model/LexSink.v 
Model/LexSink.vos Model/LexSink.vok Model/LexSink.required_vos: Model/LexSink.v 
Model/LspText.vo Model/LspText.glob Model/LspText.v.beautified Model/LspText.required_vo: Model/LspText.v 
Model/LspText.vio: Model/LspText.v 
Model/LspText.vos Model/LspText.vok Model/LspText.required_vos: Model/LspText.v 
Model/OrderOblivious.vo Model/OrderOblivious.glob Model/OrderOblivious.v.beautified Model/OrderOblivious.required_vo: Model/OrderOblivious.v 
Model/OrderOblivious.vio: Model/OrderOblivious.v 
Model/OrderOblivious.vos Model/OrderOblivious.vok Model/OrderOblivious.required_vos: Model/OrderOblivious.v 
Model/Rename.vo Model/Rename.glob Model/Rename.v.beautified Model/Rename.required_vo: Model/Rename.v 
Model/Rename.vio: Model/Rename.v 
Model/Rename.vos Model/Rename.vok Model/Rename.required_vos: Model/Rename.v 
Model/Resource.vo Model/Resource.glob Model/Resource.v.beautified Model/Resource.required_vo: Model/Resource.v 
Model/Resource.vio: Model/Resource.v 
Model/Resource.vos Model/Resource.vok Model/Resource.required_vos: Model/Resource.v 
Model/ResourceGate.vo Model/ResourceGate.glob Model/ResourceGate.v.beautified Model/ResourceGate.required_vo: Model/ResourceGate.v 
Model/ResourceGate.vio: Model/ResourceGate.v 
Model/ResourceGate.vos Model/ResourceGate.vok Model/ResourceGate.required_vos: Model/ResourceGate.v 
Model/Restart.vo Model/Restart.glob Model/Restart.v.beautified Model/Restart.required_vo: Model/Restart.v 
Model/Restart.vio: Model/Restart.v 
Model/Restart.vos Model/Restart.vok Model/Restart.required_vos: Model/Restart.v 
Model/RestartTasks.vo Model/RestartTasks.glob Model/RestartTasks.v.beautified Model/RestartTasks.required_vo: Model/RestartTasks.v 
Model/RestartTasks.vio: Model/RestartTasks.v 
Model/RestartTasks.vos Model/RestartTasks.vok Model/RestartTasks.required_vos: Model/RestartTasks.v 
Model/RetainCodec.vo Model/RetainCodec.glob Model/RetainCodec.v.beautified Model/RetainCodec.required_vo: Model/RetainCodec.v 
Model/RetainCodec.vio: Model/RetainCodec.v 
Model/RetainCodec.vos Model/RetainCodec.vok Model/RetainCodec.required_vos: Model/RetainCodec.v 
Model/Sched.vo Model/Sched.glob Model/Sched.v.beautified Model/Sched.required_vo: Model/Sched.v 
Model/Sched.vio: Model/Sched.v 
Model/Sched.vos Model/Sched.vok Model/Sched.required_vos: Model/Sched.v 
Model/StCalls.vo Model/StCalls.glob Model/StCalls.v.beautified Model/StCalls.required_vo: Model/StCalls.v Model/StCore.vo
Model/StCalls.vio: Model/StCalls.v Model/StCore.vio
Model/StCalls.vos Model/StCalls.vok Model/StCalls.required_vos: Model/StCalls.v Model/StCore.vos
Model/StCore.vo Model/StCore.glob Model/StCore.v.beautified Model/StCore.required_vo: Model/StCore.v 
Model/StCore.vio: Model/StCore.v 
Model/StCore.vos Model/StCore.vok Model/StCore.required_vos: Model/StCore.v 
Model/StRef.vo Model/StRef.glob Model/StRef.v.beautified Model/StRef.required_vo: Model/StRef.v Model/StCore.vo Model/StTyping.vo
Model/StRef.vio: Model/StRef.v Model/StCore.vio Model/StTyping.vio
Model/StRef.vos Model/StRef.vok Model/StRef.required_vos: Model/StRef.v Model/StCore.vos Model/StTyping.vos
Model/StTyping.vo Model/StTyping.glob Model/StTyping.v.beautified Model/StTyping.required_vo: Model/StTyping.v Model/StCore.vo
Model/StTyping.vio: Model/StTyping.v Model/StCore.vio
Model/StTyping.vos Model/StTyping.vok Model/StTyping.required_vos: Model/StTyping.v Model/StCore.vos
Model/Stbc.vo Model/Stbc.glob Model/Stbc.v.beautified Model/Stbc.required_vo: Model/Stbc.v 
Model/Stbc.vio: Model/Stbc.v 
Model/Stbc.vos Model/Stbc.vok Model/Stbc.required_vos: Model/Stbc.v 
Model/StbcEnc.vo Model/StbcEnc.glob Model/StbcEnc.v.beautified Model/StbcEnc.required_vo: Model/StbcEnc.v Model/Stbc.vo
Model/StbcEnc.vio: Model/StbcEnc.v Model/Stbc.vio
Model/StbcEnc.vos Model/StbcEnc.vok Model/StbcEnc.required_vos: Model/StbcEnc.v Model/Stbc.vos
Model/StbcFmt.vo Model/StbcFmt.glob Model/StbcFmt.v.beautified Model/StbcFmt.required_vo: Model/StbcFmt.v Model/Stbc.vo
Model/StbcFmt.vio: Model/StbcFmt.v Model/Stbc.vio
Model/StbcFmt.vos Model/StbcFmt.vok Model/StbcFmt.required_vos: Model/StbcFmt.v Model/Stbc.vos
Model/StbcSections.vo Model/StbcSections.glob Model/StbcSections.v.beautified Model/StbcSections.required_vo: Model/StbcSections.v Model/Stbc.vo Model/StbcFmt.vo
Model/StbcSections.vio: Model/StbcSections.v Model/Stbc.vio Model/StbcFmt.vio
Model/StbcSections.vos Model/StbcSections.vok Model/StbcSections.required_vos: Model/StbcSections.v Model/Stbc.vos Model/StbcFmt.vos
Model/WebIde.vo Model/WebIde.glob Model/WebIde.v.beautified Model/WebIde.required_vo: Model/WebIde.v 
Model/WebIde.vio: Model/WebIde.v 
Model/WebIde.vos Model/WebIde.vok Model/WebIde.required_vos: Model/WebIde.v 
Model/WebIdeDocs.vo Model/WebIdeDocs.glob Model/WebIdeDocs.v.beautified Model/WebIdeDocs.required_vo: Model/WebIdeDocs.v Model/WebIde.vo
Model/WebIdeDocs.vio: Model/WebIdeDocs.v Model/WebIde.vio
Model/WebIdeDocs.vos Model/WebIdeDocs.vok Model/WebIdeDocs.required_vos: Model/WebIdeDocs.v Model/WebIde.vos
Proofs/C02Proofs.vo Proofs/C02Proofs.glob Proofs/C02Proofs.v.beautified Proofs/C02Proofs.required_vo: Proofs/C02Proofs.v Model/StCore.vo Model/StTyping.vo Model/StRef.vo
Proofs/C02Proofs.vio: Proofs/C02Proofs.v Model/StCore.vio Model/StTyping.vio Model/StRef.vio
Proofs/C02Proofs.vos Proofs/C02Proofs.vok Proofs/C02Proofs.required_vos: Proofs/C02Proofs.v Model/StCore.vos Model/StTyping.vos Model/StRef.vos
Proofs/C02Refine.vo Proofs/C02Refine.glob Proofs/C02Refine.v.beautified Proofs/C02Refine.required_vo: Proofs/C02Refine.v Model/StCore.vo Model/StTyping.vo Model/StRef.vo Proofs/StProofs.vo
Proofs/C02Refine.vio: Proofs/C02Refine.v Model/StCore.vio Model/StTyping.vio Model/StRef.vio Proofs/StProofs.vio
Proofs/C02Refine.vos Proofs/C02Refine.vok Proofs/C02Refine.required_vos: Proofs/C02Refine.v Model/StCore.vos Model/StTyping.vos Model/StRef.vos Proofs/StProofs.vos
Proofs/C04Proofs.vo Proofs/C04Proofs.glob Proofs/C04Proofs.v.beautified Proofs/C04Proofs.required_vo: Proofs/C04Proofs.v Model/Fb.vo Spec/C04.vo
Proofs/C04Proofs.vio: Proofs/C04Proofs.v Model/Fb.vio Spec/C04.vio
Proofs/C04Proofs.vos Proofs/C04Proofs.vok Proofs/C04Proofs.required_vos: Proofs/C04Proofs.v Model/Fb.vos Spec/C04.vos
Proofs/C05Proofs.vo Proofs/C05Proofs.glob Proofs/C05Proofs.v.beautified Proofs/C05Proofs.required_vo: Proofs/C05Proofs.v Model/OrderOblivious.vo gen/C05Sites.vo
Proofs/C05Proofs.vio: Proofs/C05Proofs.v Model/OrderOblivious.vio gen/C05Sites.vio
Proofs/C05Proofs.vos Proofs/C05Proofs.vok Proofs/C05Proofs.required_vos: Proofs/C05Proofs.v Model/OrderOblivious.vos gen/C05Sites.vos
Proofs/C06Proofs.vo Proofs/C06Proofs.glob Proofs/C06Proofs.v.beautified Proofs/C06Proofs.required_vo: Proofs/C06Proofs.v Model/Sched.vo Spec/C06.vo
Proofs/C06Proofs.vio: Proofs/C06Proofs.v Model/Sched.vio Spec/C06.vio
Proofs/C06Proofs.vos Proofs/C06Proofs.vok Proofs/C06Proofs.required_vos: Proofs/C06Proofs.v Model/Sched.vos Spec/C06.vos
Proofs/C09Proofs.vo Proofs/C09Proofs.glob Proofs/C09Proofs.v.beautified Proofs/C09Proofs.required_vo: Proofs/C09Proofs.v Model/Restart.vo Model/RestartTasks.vo
Proofs/C09Proofs.vio: Proofs/C09Proofs.v Model/Restart.vio Model/RestartTasks.vio
Proofs/C09Proofs.vos Proofs/C09Proofs.vok Proofs/C09Proofs.required_vos: Proofs/C09Proofs.v Model/Restart.vos Model/RestartTasks.vos
Proofs/C10Proofs.vo Proofs/C10Proofs.glob Proofs/C10Proofs.v.beautified Proofs/C10Proofs.required_vo: Proofs/C10Proofs.v Model/RetainCodec.vo Model/CrashFs.vo
Proofs/C10Proofs.vio: Proofs/C10Proofs.v Model/RetainCodec.vio Model/CrashFs.vio
Proofs/C10Proofs.vos Proofs/C10Proofs.vok Proofs/C10Proofs.required_vos: Proofs/C10Proofs.v Model/RetainCodec.vos Model/CrashFs.vos
Proofs/C11Fmt.vo Proofs/C11Fmt.glob Proofs/C11Fmt.v.beautified Proofs/C11Fmt.required_vo: Proofs/C11Fmt.v Model/Stbc.vo Model/StbcFmt.vo Model/StbcSections.vo Proofs/C11Proofs.vo
Proofs/C11Fmt.vio: Proofs/C11Fmt.v Model/Stbc.vio Model/StbcFmt.vio Model/StbcSections.vio Proofs/C11Proofs.vio
Proofs/C11Fmt.vos Proofs/C11Fmt.vok Proofs/C11Fmt.required_vos: Proofs/C11Fmt.v Model/Stbc.vos Model/StbcFmt.vos Model/StbcSections.vos Proofs/C11Proofs.vos
Proofs/C11Frame.vo Proofs/C11Frame.glob Proofs/C11Frame.v.beautified Proofs/C11Frame.required_vo: Proofs/C11Frame.v Model/Stbc.vo Model/StbcEnc.vo Proofs/C11Proofs.vo
Proofs/C11Frame.vio: Proofs/C11Frame.v Model/Stbc.vio Model/StbcEnc.vio Proofs/C11Proofs.vio
Proofs/C11Frame.vos Proofs/C11Frame.vok Proofs/C11Frame.required_vos: Proofs/C11Frame.v Model/Stbc.vos Model/StbcEnc.vos Proofs/C11Proofs.vos
Proofs/C11Proofs.vo Proofs/C11Proofs.glob Proofs/C11Proofs.v.beautified Proofs/C11Proofs.required_vo: Proofs/C11Proofs.v Model/Stbc.vo
Proofs/C11Proofs.vio: Proofs/C11Proofs.v Model/Stbc.vio
Proofs/C11Proofs.vos Proofs/C11Proofs.vok Proofs/C11Proofs.required_vos: Proofs/C11Proofs.v Model/Stbc.vos
Proofs/C12Proofs.vo Proofs/C12Proofs.glob Proofs/C12Proofs.v.beautified Proofs/C12Proofs.required_vo: Proofs/C12Proofs.v Model/LexSink.vo
Proofs/C12Proofs.vio: Proofs/C12Proofs.v Model/LexSink.vio
Proofs/C12Proofs.vos Proofs/C12Proofs.vok Proofs/C12Proofs.required_vos: Proofs/C12Proofs.v Model/LexSink.vos
Proofs/C13Proofs.vo Proofs/C13Proofs.glob Proofs/C13Proofs.v.beautified Proofs/C13Proofs.required_vo: Proofs/C13Proofs.v Model/HirDb.vo
Proofs/C13Proofs.vio: Proofs/C13Proofs.v Model/HirDb.vio
Proofs/C13Proofs.vos Proofs/C13Proofs.vok Proofs/C13Proofs.required_vos: Proofs/C13Proofs.v Model/HirDb.vos
Proofs/C14Proofs.vo Proofs/C14Proofs.glob Proofs/C14Proofs.v.beautified Proofs/C14Proofs.required_vo: Proofs/C14Proofs.v Model/LspText.vo Spec/C14.vo
Proofs/C14Proofs.vio: Proofs/C14Proofs.v Model/LspText.vio Spec/C14.vio
Proofs/C14Proofs.vos Proofs/C14Proofs.vok Proofs/C14Proofs.required_vos: Proofs/C14Proofs.v Model/LspText.vos Spec/C14.vos
Proofs/C15Indent.vo Proofs/C15Indent.glob Proofs/C15Indent.v.beautified Proofs/C15Indent.required_vo: Proofs/C15Indent.v Model/FmtIndent.vo gen/C15Kinds.vo Spec/C15Judge.vo
Proofs/C15Indent.vio: Proofs/C15Indent.v Model/FmtIndent.vio gen/C15Kinds.vio Spec/C15Judge.vio
Proofs/C15Indent.vos Proofs/C15Indent.vok Proofs/C15Indent.required_vos: Proofs/C15Indent.v Model/FmtIndent.vos gen/C15Kinds.vos Spec/C15Judge.vos
Proofs/C15Proofs.vo Proofs/C15Proofs.glob Proofs/C15Proofs.v.beautified Proofs/C15Proofs.required_vo: Proofs/C15Proofs.v Model/FmtEdit.vo
Proofs/C15Proofs.vio: Proofs/C15Proofs.v Model/FmtEdit.vio
Proofs/C15Proofs.vos Proofs/C15Proofs.vok Proofs/C15Proofs.required_vos: Proofs/C15Proofs.v Model/FmtEdit.vos
Proofs/C16Proofs.vo Proofs/C16Proofs.glob Proofs/C16Proofs.v.beautified Proofs/C16Proofs.required_vo: Proofs/C16Proofs.v Model/Rename.vo
Proofs/C16Proofs.vio: Proofs/C16Proofs.v Model/Rename.vio
Proofs/C16Proofs.vos Proofs/C16Proofs.vok Proofs/C16Proofs.required_vos: Proofs/C16Proofs.v Model/Rename.vos
Proofs/C17Inv.vo Proofs/C17Inv.glob Proofs/C17Inv.v.beautified Proofs/C17Inv.required_vo: Proofs/C17Inv.v Model/Debug.vo
Proofs/C17Inv.vio: Proofs/C17Inv.v Model/Debug.vio
Proofs/C17Inv.vos Proofs/C17Inv.vok Proofs/C17Inv.required_vos: Proofs/C17Inv.v Model/Debug.vos
Proofs/C17Proofs.vo Proofs/C17Proofs.glob Proofs/C17Proofs.v.beautified Proofs/C17Proofs.required_vo: Proofs/C17Proofs.v Model/Debug.vo Proofs/C17Inv.vo
Proofs/C17Proofs.vio: Proofs/C17Proofs.v Model/Debug.vio Proofs/C17Inv.vio
Proofs/C17Proofs.vos Proofs/C17Proofs.vok Proofs/C17Proofs.required_vos: Proofs/C17Proofs.v Model/Debug.vos Proofs/C17Inv.vos
Proofs/C18Proofs.vo Proofs/C18Proofs.glob Proofs/C18Proofs.v.beautified Proofs/C18Proofs.required_vo: Proofs/C18Proofs.v gen/C18Tables.vo Model/Control.vo Spec/C18.vo
Proofs/C18Proofs.vio: Proofs/C18Proofs.v gen/C18Tables.vio Model/Control.vio Spec/C18.vio
Proofs/C18Proofs.vos Proofs/C18Proofs.vok Proofs/C18Proofs.required_vos: Proofs/C18Proofs.v gen/C18Tables.vos Model/Control.vos Spec/C18.vos
Proofs/C19Proofs.vo Proofs/C19Proofs.glob Proofs/C19Proofs.v.beautified Proofs/C19Proofs.required_vo: Proofs/C19Proofs.v Model/WebIde.vo Model/WebIdeDocs.vo
Proofs/C19Proofs.vio: Proofs/C19Proofs.v Model/WebIde.vio Model/WebIdeDocs.vio
Proofs/C19Proofs.vos Proofs/C19Proofs.vok Proofs/C19Proofs.required_vos: Proofs/C19Proofs.v Model/WebIde.vos Model/WebIdeDocs.vos
Proofs/C20Gate.vo Proofs/C20Gate.glob Proofs/C20Gate.v.beautified Proofs/C20Gate.required_vo: Proofs/C20Gate.v Model/ResourceGate.vo
Proofs/C20Gate.vio: Proofs/C20Gate.v Model/ResourceGate.vio
Proofs/C20Gate.vos Proofs/C20Gate.vok Proofs/C20Gate.required_vos: Proofs/C20Gate.v Model/ResourceGate.vos
Proofs/C20Proofs.vo Proofs/C20Proofs.glob Proofs/C20Proofs.v.beautified Proofs/C20Proofs.required_vo: Proofs/C20Proofs.v Model/Resource.vo
Proofs/C20Proofs.vio: Proofs/C20Proofs.v Model/Resource.vio
Proofs/C20Proofs.vos Proofs/C20Proofs.vok Proofs/C20Proofs.required_vos: Proofs/C20Proofs.v Model/Resource.vos
Proofs/CycleProofs.vo Proofs/CycleProofs.glob Proofs/CycleProofs.v.beautified Proofs/CycleProofs.required_vo: Proofs/CycleProofs.v Model/Io.vo Model/Cycle.vo Proofs/IoProofs.vo
Proofs/CycleProofs.vio: Proofs/CycleProofs.v Model/Io.vio Model/Cycle.vio Proofs/IoProofs.vio
Proofs/CycleProofs.vos Proofs/CycleProofs.vok Proofs/CycleProofs.required_vos: Proofs/CycleProofs.v Model/Io.vos Model/Cycle.vos Proofs/IoProofs.vos
Proofs/IoProofs.vo Proofs/IoProofs.glob Proofs/IoProofs.v.beautified Proofs/IoProofs.required_vo: Proofs/IoProofs.v Model/Io.vo
Proofs/IoProofs.vio: Proofs/IoProofs.v Model/Io.vio
Proofs/IoProofs.vos Proofs/IoProofs.vok Proofs/IoProofs.required_vos: Proofs/IoProofs.v Model/Io.vos
Proofs/StArrays.vo Proofs/StArrays.glob Proofs/StArrays.v.beautified Proofs/StArrays.required_vo: Proofs/StArrays.v Model/StCore.vo Model/StTyping.vo Model/StRef.vo Proofs/StProofs.vo Proofs/StCallsProofs.vo Proofs/C02Refine.vo
Proofs/StArrays.vio: Proofs/StArrays.v Model/StCore.vio Model/StTyping.vio Model/StRef.vio Proofs/StProofs.vio Proofs/StCallsProofs.vio Proofs/C02Refine.vio
Proofs/StArrays.vos Proofs/StArrays.vok Proofs/StArrays.required_vos: Proofs/StArrays.v Model/StCore.vos Model/StTyping.vos Model/StRef.vos Proofs/StProofs.vos Proofs/StCallsProofs.vos Proofs/C02Refine.vos
Proofs/StCallsProofs.vo Proofs/StCallsProofs.glob Proofs/StCallsProofs.v.beautified Proofs/StCallsProofs.required_vo: Proofs/StCallsProofs.v Model/StCore.vo Model/StCalls.vo
Proofs/StCallsProofs.vio: Proofs/StCallsProofs.v Model/StCore.vio Model/StCalls.vio
Proofs/StCallsProofs.vos Proofs/StCallsProofs.vok Proofs/StCallsProofs.required_vos: Proofs/StCallsProofs.v Model/StCore.vos Model/StCalls.vos
Proofs/StCallsTyping.vo Proofs/StCallsTyping.glob Proofs/StCallsTyping.v.beautified Proofs/StCallsTyping.required_vo: Proofs/StCallsTyping.v Model/StCore.vo Model/StTyping.vo Model/StCalls.vo Proofs/StProofs.vo Proofs/StCallsProofs.vo
Proofs/StCallsTyping.vio: Proofs/StCallsTyping.v Model/StCore.vio Model/StTyping.vio Model/StCalls.vio Proofs/StProofs.vio Proofs/StCallsProofs.vio
Proofs/StCallsTyping.vos Proofs/StCallsTyping.vok Proofs/StCallsTyping.required_vos: Proofs/StCallsTyping.v Model/StCore.vos Model/StTyping.vos Model/StCalls.vos Proofs/StProofs.vos Proofs/StCallsProofs.vos
Proofs/StProofs.vo Proofs/StProofs.glob Proofs/StProofs.v.beautified Proofs/StProofs.required_vo: Proofs/StProofs.v Model/StCore.vo Model/StTyping.vo
Proofs/StProofs.vio: Proofs/StProofs.v Model/StCore.vio Model/StTyping.vio
Proofs/StProofs.vos Proofs/StProofs.vok Proofs/StProofs.required_vos: Proofs/StProofs.v Model/StCore.vos Model/StTyping.vos
Properties/C01.vo Properties/C01.glob Properties/C01.v.beautified Properties/C01.required_vo: Properties/C01.v Model/StCore.vo Model/StTyping.vo Proofs/StProofs.vo Model/StCalls.vo Proofs/StCallsProofs.vo Proofs/StCallsTyping.vo Proofs/StArrays.vo
Properties/C01.vio: Properties/C01.v Model/StCore.vio Model/StTyping.vio Proofs/StProofs.vio Model/StCalls.vio Proofs/StCallsProofs.vio Proofs/StCallsTyping.vio Proofs/StArrays.vio
Properties/C01.vos Properties/C01.vok Properties/C01.required_vos: Properties/C01.v Model/StCore.vos Model/StTyping.vos Proofs/StProofs.vos Model/StCalls.vos Proofs/StCallsProofs.vos Proofs/StCallsTyping.vos Proofs/StArrays.vos
Properties/C02.vo Properties/C02.glob Properties/C02.v.beautified Properties/C02.required_vo: Properties/C02.v Model/StCore.vo Model/StTyping.vo Model/StRef.vo Proofs/StProofs.vo Proofs/C02Proofs.vo Proofs/C02Refine.vo Proofs/StArrays.vo
Properties/C02.vio: Properties/C02.v Model/StCore.vio Model/StTyping.vio Model/StRef.vio Proofs/StProofs.vio Proofs/C02Proofs.vio Proofs/C02Refine.vio Proofs/StArrays.vio
Properties/C02.vos Properties/C02.vok Properties/C02.required_vos: Properties/C02.v Model/StCore.vos Model/StTyping.vos Model/StRef.vos Proofs/StProofs.vos Proofs/C02Proofs.vos Proofs/C02Refine.vos Proofs/StArrays.vos
Properties/C03.vo Properties/C03.glob Properties/C03.v.beautified Properties/C03.required_vo: Properties/C03.v Model/StCore.vo Model/StTyping.vo Proofs/StProofs.vo Proofs/StArrays.vo
Properties/C03.vio: Properties/C03.v Model/StCore.vio Model/StTyping.vio Proofs/StProofs.vio Proofs/StArrays.vio
Properties/C03.vos Properties/C03.vok Properties/C03.required_vos: Properties/C03.v Model/StCore.vos Model/StTyping.vos Proofs/StProofs.vos Proofs/StArrays.vos
Properties/C04.vo Properties/C04.glob Properties/C04.v.beautified Properties/C04.required_vo: Properties/C04.v Model/Fb.vo Spec/C04.vo Proofs/C04Proofs.vo
Properties/C04.vio: Properties/C04.v Model/Fb.vio Spec/C04.vio Proofs/C04Proofs.vio
Properties/C04.vos Properties/C04.vok Properties/C04.required_vos: Properties/C04.v Model/Fb.vos Spec/C04.vos Proofs/C04Proofs.vos
Properties/C05.vo Properties/C05.glob Properties/C05.v.beautified Properties/C05.required_vo: Properties/C05.v Model/OrderOblivious.vo gen/C05Sites.vo Proofs/C05Proofs.vo
Properties/C05.vio: Properties/C05.v Model/OrderOblivious.vio gen/C05Sites.vio Proofs/C05Proofs.vio
Properties/C05.vos Properties/C05.vok Properties/C05.required_vos: Properties/C05.v Model/OrderOblivious.vos gen/C05Sites.vos Proofs/C05Proofs.vos
Properties/C06.vo Properties/C06.glob Properties/C06.v.beautified Properties/C06.required_vo: Properties/C06.v Model/Sched.vo Spec/C06.vo Proofs/C06Proofs.vo
Properties/C06.vio: Properties/C06.v Model/Sched.vio Spec/C06.vio Proofs/C06Proofs.vio
Properties/C06.vos Properties/C06.vok Properties/C06.required_vos: Properties/C06.v Model/Sched.vos Spec/C06.vos Proofs/C06Proofs.vos
Properties/C07.vo Properties/C07.glob Properties/C07.v.beautified Properties/C07.required_vo: Properties/C07.v Model/Io.vo Model/Cycle.vo Proofs/IoProofs.vo Proofs/CycleProofs.vo
Properties/C07.vio: Properties/C07.v Model/Io.vio Model/Cycle.vio Proofs/IoProofs.vio Proofs/CycleProofs.vio
Properties/C07.vos Properties/C07.vok Properties/C07.required_vos: Properties/C07.v Model/Io.vos Model/Cycle.vos Proofs/IoProofs.vos Proofs/CycleProofs.vos
Properties/C08.vo Properties/C08.glob Properties/C08.v.beautified Properties/C08.required_vo: Properties/C08.v Model/Io.vo Model/Cycle.vo Proofs/IoProofs.vo Proofs/CycleProofs.vo
Properties/C08.vio: Properties/C08.v Model/Io.vio Model/Cycle.vio Proofs/IoProofs.vio Proofs/CycleProofs.vio
Properties/C08.vos Properties/C08.vok Properties/C08.required_vos: Properties/C08.v Model/Io.vos Model/Cycle.vos Proofs/IoProofs.vos Proofs/CycleProofs.vos
Properties/C09.vo Properties/C09.glob Properties/C09.v.beautified Properties/C09.required_vo: Properties/C09.v Model/Restart.vo Model/RestartTasks.vo Proofs/C09Proofs.vo
Properties/C09.vio: Properties/C09.v Model/Restart.vio Model/RestartTasks.vio Proofs/C09Proofs.vio
Properties/C09.vos Properties/C09.vok Properties/C09.required_vos: Properties/C09.v Model/Restart.vos Model/RestartTasks.vos Proofs/C09Proofs.vos
Properties/C10.vo Properties/C10.glob Properties/C10.v.beautified Properties/C10.required_vo: Properties/C10.v Model/RetainCodec.vo Model/CrashFs.vo Proofs/C10Proofs.vo
Properties/C10.vio: Properties/C10.v Model/RetainCodec.vio Model/CrashFs.vio Proofs/C10Proofs.vio
Properties/C10.vos Properties/C10.vok Properties/C10.required_vos: Properties/C10.v Model/RetainCodec.vos Model/CrashFs.vos Proofs/C10Proofs.vos
Properties/C11.vo Properties/C11.glob Properties/C11.v.beautified Properties/C11.required_vo: Properties/C11.v Model/Stbc.vo Model/StbcEnc.vo Model/StbcFmt.vo Model/StbcSections.vo Proofs/C11Proofs.vo Proofs/C11Frame.vo Proofs/C11Fmt.vo
Properties/C11.vio: Properties/C11.v Model/Stbc.vio Model/StbcEnc.vio Model/StbcFmt.vio Model/StbcSections.vio Proofs/C11Proofs.vio Proofs/C11Frame.vio Proofs/C11Fmt.vio
Properties/C11.vos Properties/C11.vok Properties/C11.required_vos: Properties/C11.v Model/Stbc.vos Model/StbcEnc.vos Model/StbcFmt.vos Model/StbcSections.vos Proofs/C11Proofs.vos Proofs/C11Frame.vos Proofs/C11Fmt.vos
Properties/C12.vo Properties/C12.glob Properties/C12.v.beautified Properties/C12.required_vo: Properties/C12.v Model/LexSink.vo Proofs/C12Proofs.vo
Properties/C12.vio: Properties/C12.v Model/LexSink.vio Proofs/C12Proofs.vio
Properties/C12.vos Properties/C12.vok Properties/C12.required_vos: Properties/C12.v Model/LexSink.vos Proofs/C12Proofs.vos
Properties/C13.vo Properties/C13.glob Properties/C13.v.beautified Properties/C13.required_vo: Properties/C13.v Model/HirDb.vo Proofs/C13Proofs.vo
Properties/C13.vio: Properties/C13.v Model/HirDb.vio Proofs/C13Proofs.vio
Properties/C13.vos Properties/C13.vok Properties/C13.required_vos: Properties/C13.v Model/HirDb.vos Proofs/C13Proofs.vos
Properties/C14.vo Properties/C14.glob Properties/C14.v.beautified Properties/C14.required_vo: Properties/C14.v Model/LspText.vo Spec/C14.vo Proofs/C14Proofs.vo
Properties/C14.vio: Properties/C14.v Model/LspText.vio Spec/C14.vio Proofs/C14Proofs.vio
Properties/C14.vos Properties/C14.vok Properties/C14.required_vos: Properties/C14.v Model/LspText.vos Spec/C14.vos Proofs/C14Proofs.vos
Properties/C15.vo Properties/C15.glob Properties/C15.v.beautified Properties/C15.required_vo: Properties/C15.v Model/FmtEdit.vo Proofs/C15Proofs.vo Model/FmtIndent.vo gen/C15Kinds.vo Spec/C15Judge.vo Proofs/C15Indent.vo
Properties/C15.vio: Properties/C15.v Model/FmtEdit.vio Proofs/C15Proofs.vio Model/FmtIndent.vio gen/C15Kinds.vio Spec/C15Judge.vio Proofs/C15Indent.vio
Properties/C15.vos Properties/C15.vok Properties/C15.required_vos: Properties/C15.v Model/FmtEdit.vos Proofs/C15Proofs.vos Model/FmtIndent.vos gen/C15Kinds.vos Spec/C15Judge.vos Proofs/C15Indent.vos
Properties/C16.vo Properties/C16.glob Properties/C16.v.beautified Properties/C16.required_vo: Properties/C16.v Model/Rename.vo Proofs/C16Proofs.vo
Properties/C16.vio: Properties/C16.v Model/Rename.vio Proofs/C16Proofs.vio
Properties/C16.vos Properties/C16.vok Properties/C16.required_vos: Properties/C16.v Model/Rename.vos Proofs/C16Proofs.vos
Properties/C17.vo Properties/C17.glob Properties/C17.v.beautified Properties/C17.required_vo: Properties/C17.v Model/Debug.vo Proofs/C17Inv.vo Proofs/C17Proofs.vo
Properties/C17.vio: Properties/C17.v Model/Debug.vio Proofs/C17Inv.vio Proofs/C17Proofs.vio
Properties/C17.vos Properties/C17.vok Properties/C17.required_vos: Properties/C17.v Model/Debug.vos Proofs/C17Inv.vos Proofs/C17Proofs.vos
Properties/C18.vo Properties/C18.glob Properties/C18.v.beautified Properties/C18.required_vo: Properties/C18.v gen/C18Tables.vo Model/Control.vo Spec/C18.vo Proofs/C18Proofs.vo
Properties/C18.vio: Properties/C18.v gen/C18Tables.vio Model/Control.vio Spec/C18.vio Proofs/C18Proofs.vio
Properties/C18.vos Properties/C18.vok Properties/C18.required_vos: Properties/C18.v gen/C18Tables.vos Model/Control.vos Spec/C18.vos Proofs/C18Proofs.vos
Properties/C19.vo Properties/C19.glob Properties/C19.v.beautified Properties/C19.required_vo: Properties/C19.v Model/WebIde.vo Model/WebIdeDocs.vo Proofs/C19Proofs.vo
Properties/C19.vio: Properties/C19.v Model/WebIde.vio Model/WebIdeDocs.vio Proofs/C19Proofs.vio
Properties/C19.vos Properties/C19.vok Properties/C19.required_vos: Properties/C19.v Model/WebIde.vos Model/WebIdeDocs.vos Proofs/C19Proofs.vos
Properties/C20.vo Properties/C20.glob Properties/C20.v.beautified Properties/C20.required_vo: Properties/C20.v Model/Resource.vo Proofs/C20Proofs.vo Model/ResourceGate.vo Proofs/C20Gate.vo
Properties/C20.vio: Properties/C20.v Model/Resource.vio Proofs/C20Proofs.vio Model/ResourceGate.vio Proofs/C20Gate.vio
Properties/C20.vos Properties/C20.vok Properties/C20.required_vos: Properties/C20.v Model/Resource.vos Proofs/C20Proofs.vos Model/ResourceGate.vos Proofs/C20Gate.vos
Spec/C04.vo Spec/C04.glob Spec/C04.v.beautified Spec/C04.required_vo: Spec/C04.v 
Spec/C04.vio: Spec/C04.v 
Spec/C04.vos Spec/C04.vok Spec/C04.required_vos: Spec/C04.v 
Spec/C04Judge.vo Spec/C04Judge.glob Spec/C04Judge.v.beautified Spec/C04Judge.required_vo: Spec/C04Judge.v Spec/C04.vo
Spec/C04Judge.vio: Spec/C04Judge.v Spec/C04.vio
Spec/C04Judge.vos Spec/C04Judge.vok Spec/C04Judge.required_vos: Spec/C04Judge.v Spec/C04.vos
Spec/C06.vo Spec/C06.glob Spec/C06.v.beautified Spec/C06.required_vo: Spec/C06.v 
Spec/C06.vio: Spec/C06.v 
Spec/C06.vos Spec/C06.vok Spec/C06.required_vos: Spec/C06.v 
Spec/C06Judge.vo Spec/C06Judge.glob Spec/C06Judge.v.beautified Spec/C06Judge.required_vo: Spec/C06Judge.v 
Spec/C06Judge.vio: Spec/C06Judge.v 
Spec/C06Judge.vos Spec/C06Judge.vok Spec/C06Judge.required_vos: Spec/C06Judge.v 
Spec/C07Judge.vo Spec/C07Judge.glob Spec/C07Judge.v.beautified Spec/C07Judge.required_vo: Spec/C07Judge.v Model/Io.vo Model/Cycle.vo
Spec/C07Judge.vio: Spec/C07Judge.v Model/Io.vio Model/Cycle.vio
Spec/C07Judge.vos Spec/C07Judge.vok Spec/C07Judge.required_vos: Spec/C07Judge.v Model/Io.vos Model/Cycle.vos
Spec/C09Judge.vo Spec/C09Judge.glob Spec/C09Judge.v.beautified Spec/C09Judge.required_vo: Spec/C09Judge.v Model/Restart.vo
Spec/C09Judge.vio: Spec/C09Judge.v Model/Restart.vio
Spec/C09Judge.vos Spec/C09Judge.vok Spec/C09Judge.required_vos: Spec/C09Judge.v Model/Restart.vos
Spec/C11Judge.vo Spec/C11Judge.glob Spec/C11Judge.v.beautified Spec/C11Judge.required_vo: Spec/C11Judge.v Model/Stbc.vo Model/StbcEnc.vo
Spec/C11Judge.vio: Spec/C11Judge.v Model/Stbc.vio Model/StbcEnc.vio
Spec/C11Judge.vos Spec/C11Judge.vok Spec/C11Judge.required_vos: Spec/C11Judge.v Model/Stbc.vos Model/StbcEnc.vos
Spec/C12Judge.vo Spec/C12Judge.glob Spec/C12Judge.v.beautified Spec/C12Judge.required_vo: Spec/C12Judge.v Model/LexSink.vo
Spec/C12Judge.vio: Spec/C12Judge.v Model/LexSink.vio
Spec/C12Judge.vos Spec/C12Judge.vok Spec/C12Judge.required_vos: Spec/C12Judge.v Model/LexSink.vos
Spec/C14.vo Spec/C14.glob Spec/C14.v.beautified Spec/C14.required_vo: Spec/C14.v Model/LspText.vo
Spec/C14.vio: Spec/C14.v Model/LspText.vio
Spec/C14.vos Spec/C14.vok Spec/C14.required_vos: Spec/C14.v Model/LspText.vos
Spec/C15Judge.vo Spec/C15Judge.glob Spec/C15Judge.v.beautified Spec/C15Judge.required_vo: Spec/C15Judge.v Model/FmtIndent.vo gen/C15Kinds.vo
Spec/C15Judge.vio: Spec/C15Judge.v Model/FmtIndent.vio gen/C15Kinds.vio
Spec/C15Judge.vos Spec/C15Judge.vok Spec/C15Judge.required_vos: Spec/C15Judge.v Model/FmtIndent.vos gen/C15Kinds.vos
Spec/C17Judge.vo Spec/C17Judge.glob Spec/C17Judge.v.beautified Spec/C17Judge.required_vo: Spec/C17Judge.v Model/Debug.vo
Spec/C17Judge.vio: Spec/C17Judge.v Model/Debug.vio
Spec/C17Judge.vos Spec/C17Judge.vok Spec/C17Judge.required_vos: Spec/C17Judge.v Model/Debug.vos
Spec/C18.vo Spec/C18.glob Spec/C18.v.beautified Spec/C18.required_vo: Spec/C18.v 
Spec/C18.vio: Spec/C18.v 
Spec/C18.vos Spec/C18.vok Spec/C18.required_vos: Spec/C18.v 
Spec/C18Judge.vo Spec/C18Judge.glob Spec/C18Judge.v.beautified Spec/C18Judge.required_vo: Spec/C18Judge.v Spec/C18.vo
Spec/C18Judge.vio: Spec/C18Judge.v Spec/C18.vio
Spec/C18Judge.vos Spec/C18Judge.vok Spec/C18Judge.required_vos: Spec/C18Judge.v Spec/C18.vos
Spec/C19Judge.vo Spec/C19Judge.glob Spec/C19Judge.v.beautified Spec/C19Judge.required_vo: Spec/C19Judge.v Model/WebIde.vo
Spec/C19Judge.vio: Spec/C19Judge.v Model/WebIde.vio
Spec/C19Judge.vos Spec/C19Judge.vok Spec/C19Judge.required_vos: Spec/C19Judge.v Model/WebIde.vos
Spec/C20Judge.vo Spec/C20Judge.glob Spec/C20Judge.v.beautified Spec/C20Judge.required_vo: Spec/C20Judge.v Model/Resource.vo
Spec/C20Judge.vio: Spec/C20Judge.v Model/Resource.vio
Spec/C20Judge.vos Spec/C20Judge.vok Spec/C20Judge.required_vos: Spec/C20Judge.v Model/Resource.vos
gen/C05Sites.vo gen/C05Sites.glob gen/C05Sites.v.beautified gen/C05Sites.required_vo: gen/C05Sites.v 
gen/C05Sites.vio: gen/C05Sites.v 
gen/C05Sites.vos gen/C05Sites.vok gen/C05Sites.required_vos: gen/C05Sites.v 
gen/C15Kinds.vo gen/C15Kinds.glob gen/C15Kinds.v.beautified gen/C15Kinds.required_vo: gen/C15Kinds.v 
gen/C15Kinds.vio: gen/C15Kinds.v 
gen/C15Kinds.vos gen/C15Kinds.vok gen/C15Kinds.required_vos: gen/C15Kinds.v 
gen/C18Tables.vo gen/C18Tables.glob gen/C18Tables.v.beautified gen/C18Tables.required_vo: gen/C18Tables.v 
gen/C18Tables.vio: gen/C18Tables.v 
gen/C18Tables.vos gen/C18Tables.vok gen/C18Tables.required_vos: gen/C18Tables.v 
