Extract/C04x.vo Extract/C04x.glob Extract/C04x.v.beautified Extract/C04x.required_vo: Extract/C04x.v Model/Fb.vo Spec/C04.vo Spec/C04Judge.vo
Extract/C04x.vio: Extract/C04x.v Model/Fb.vio Spec/C04.vio Spec/C04Judge.vio
Extract/C04x.vos Extract/C04x.vok Extract/C04x.required_vos: Extract/C04x.v Model/Fb.vos Spec/C04.vos Spec/C04Judge.vos
Extract/C06x.vo Extract/C06x.glob Extract/C06x.v.beautified Extract/C06x.required_vo: Extract/C06x.v Model/Sched.vo Spec/C06Judge.vo
Extract/C06x.vio: Extract/C06x.v Model/Sched.vio Spec/C06Judge.vio
Extract/C06x.vos Extract/C06x.vok Extract/C06x.required_vos: Extract/C06x.v Model/Sched.vos Spec/C06Judge.vos
Model/Fb.vo Model/Fb.glob Model/Fb.v.beautified Model/Fb.required_vo: Model/Fb.v 
Model/Fb.vio: Model/Fb.v 
Model/Fb.vos Model/Fb.vok Model/Fb.required_vos: Model/Fb.v 
Model/Sched.vo Model/Sched.glob Model/Sched.v.beautified Model/Sched.required_vo: Model/Sched.v 
Model/Sched.vio: Model/Sched.v 
Model/Sched.vos Model/Sched.vok Model/Sched.required_vos: Model/Sched.v 
Proofs/C04Proofs.vo Proofs/C04Proofs.glob Proofs/C04Proofs.v.beautified Proofs/C04Proofs.required_vo: Proofs/C04Proofs.v Model/Fb.vo Spec/C04.vo
Proofs/C04Proofs.vio: Proofs/C04Proofs.v Model/Fb.vio Spec/C04.vio
Proofs/C04Proofs.vos Proofs/C04Proofs.vok Proofs/C04Proofs.required_vos: Proofs/C04Proofs.v Model/Fb.vos Spec/C04.vos
Proofs/C06Proofs.vo Proofs/C06Proofs.glob Proofs/C06Proofs.v.beautified Proofs/C06Proofs.required_vo: Proofs/C06Proofs.v Model/Sched.vo Spec/C06.vo
Proofs/C06Proofs.vio: Proofs/C06Proofs.v Model/Sched.vio Spec/C06.vio
Proofs/C06Proofs.vos Proofs/C06Proofs.vok Proofs/C06Proofs.required_vos: Proofs/C06Proofs.v Model/Sched.vos Spec/C06.vos
Properties/C04.vo Properties/C04.glob Properties/C04.v.beautified Properties/C04.required_vo: Properties/C04.v Model/Fb.vo Spec/C04.vo Proofs/C04Proofs.vo
Properties/C04.vio: Properties/C04.v Model/Fb.vio Spec/C04.vio Proofs/C04Proofs.vio
Properties/C04.vos Properties/C04.vok Properties/C04.required_vos: Properties/C04.v Model/Fb.vos Spec/C04.vos Proofs/C04Proofs.vos
Properties/C06.vo Properties/C06.glob Properties/C06.v.beautified Properties/C06.required_vo: Properties/C06.v Model/Sched.vo Spec/C06.vo Proofs/C06Proofs.vo
Properties/C06.vio: Properties/C06.v Model/Sched.vio Spec/C06.vio Proofs/C06Proofs.vio
Properties/C06.vos Properties/C06.vok Properties/C06.required_vos: Properties/C06.v Model/Sched.vos Spec/C06.vos Proofs/C06Proofs.vos
Spec/C04.vo Spec/C04.glob Spec/C04.v.beautified Spec/C04.required_vo: Spec/C04.v 
Spec/C04.vio: Spec/C04.v 
Spec/C04.vos Spec/C04.vok Spec/C04.required_vos: Spec/C04.v 
Spec/C04Judge.vo Spec/C04Judge.glob Spec/C04Judge.v.beautified Spec/C04Judge.required_vo: Spec/C04Judge.v Spec/C04.vo
Spec/C04Judge.vio: Spec/C04Judge.v Spec/C04.vio
Spec/C04Judge.vos Spec/C04Judge.vok Spec/C04Judge.required_vos: Spec/C04Judge.v Spec/C04.vos
Spec/C06.vo Spec/C06.glob Spec/C06.v.beautified Spec/C06.required_vo: Spec/C06.v 
Spec/C06.vio: Spec/C06.v 
Spec/C06.vos Spec/C06.vok Spec/C06.required_vos: Spec/C06.v 
Spec/C06Judge.vo Spec/C06Judge.glob Spec/C06Judge.v.beautified Spec/C06Judge.required_vo: Spec/C06Judge.v 
Spec/C06Judge.vio: Spec/C06Judge.v 
Spec/C06Judge.vos Spec/C06Judge.vok Spec/C06Judge.required_vos: Spec/C06Judge.v 
