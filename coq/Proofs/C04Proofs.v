From Coq Require Import ZArith List Bool Lia.
From TP Require Import Model.Fb Spec.C04.
Import ListNotations.
Open Scope Z_scope.

Ltac zb :=
  repeat match goal with
  | |- context[?a <=? ?b] => destruct (Z.leb_spec a b)
  | |- context[?a <? ?b] => destruct (Z.ltb_spec a b)
  | H : context[?a <=? ?b] |- _ => destruct (Z.leb_spec a b)
  | H : context[?a <? ?b] |- _ => destruct (Z.ltb_spec a b)
  end.

Ltac recs :=
  cbn [ton_et ton_q tof_et tof_q tof_prev tof_timing tp_et tp_q tp_prev tp_active fst snd] in *;
  repeat match goal with
  | |- (_, _) = (_, _) => apply f_equal2
  | |- Build_ton_st _ _ = Build_ton_st _ _ => apply f_equal2
  | |- Build_tof_st _ _ _ _ = Build_tof_st _ _ _ _ => apply f_equal4
  | |- Build_tp_st _ _ _ _ = Build_tp_st _ _ _ _ => apply f_equal4
  end; try reflexivity; try lia; try (exfalso; lia).

Lemma norm_pnorm p : norm p = pnorm p.
Proof. unfold norm, pnorm. zb; lia. Qed.

Definition const_pt (p : Z) (tr : list (bool * Z)) : list (bool * Z * Z) :=
  map (fun x => (fst x, p, snd x)) tr.
Definition nonneg (tr : list (bool * Z)) : Prop := Forall (fun x => 0 <= snd x) tr.

Lemma on_time_nonneg h : nonneg h -> 0 <= on_time h.
Proof. induction 1 as [|[[] d] h Hd _ IH]; simpl in *; lia. Qed.
Lemma off_time_nonneg h : nonneg h -> 0 <= off_time h.
Proof. induction 1 as [|[[] d] h Hd _ IH]; simpl in *; lia. Qed.

(* ---------------- TON ---------------- *)
Definition ton_of (o : bool * Z) : ton_st := {| ton_et := snd o; ton_q := fst o |}.

Lemma ton_exec_step p h i d :
  nonneg h -> 0 <= d ->
  ton_exec (ton_of (ton_spec p h)) i p d
  = (ton_of (ton_spec p ((i, d) :: h)), ton_spec p ((i, d) :: h)).
Proof.
  intros Hh Hd. pose proof (on_time_nonneg h Hh) as Hn.
  unfold ton_exec, ton_core, ton_of, clampt. rewrite norm_pnorm.
  destruct i; [|cbn; unfold pnorm; zb; recs].
  destruct h as [|[[] d'] h']; cbn [ton_spec on_time fst snd ton_et ton_q] in *;
    unfold pnorm in *; zb; recs.
Qed.

Lemma ton_run_spec p tr : forall acc,
  nonneg acc -> nonneg tr ->
  run_dt ton_exec (ton_of (ton_spec p acc)) (const_pt p tr) = map (ton_spec p) (hists acc tr).
Proof.
  induction tr as [|[i d] tr IH]; intros acc Ha Ht; [reflexivity|].
  inversion Ht as [|? ? Hd Ht']; subst. cbn [const_pt map run_dt hists fst snd] in *.
  rewrite ton_exec_step by assumption. f_equal.
  apply IH; [constructor; assumption | assumption].
Qed.

Lemma ton_refines_iec_l p tr :
  nonneg tr -> run_dt ton_exec ton_init (const_pt p tr) = map (ton_spec p) (hists [] tr).
Proof. intro H. apply (ton_run_spec p tr []); [constructor | exact H]. Qed.

(* the pure struct (internal ET not clamped) gives the same outputs *)
Definition ton_pure_of (h : list (bool * Z)) : ton_st :=
  match h with
  | (true, _) :: _ => {| ton_et := on_time h; ton_q := fst (ton_spec 0 h) |}
  | _ => ton_init
  end.
Lemma ton_core_run_spec p tr : forall acc s,
  nonneg acc -> nonneg tr ->
  ton_et s = match acc with (true, _) :: _ => on_time acc | _ => 0 end ->
  run_dt ton_core s (const_pt p tr) = map (ton_spec p) (hists acc tr).
Proof.
  induction tr as [|[i d] tr IH]; intros acc s Ha Ht Hs; [reflexivity|].
  inversion Ht as [|? ? Hd Ht']; subst. cbn [const_pt map run_dt hists fst snd] in *.
  pose proof (on_time_nonneg acc Ha) as Hn.
  assert (Hstep : ton_core s i p d
     = ({| ton_et := match i with true => on_time ((i,d)::acc) | false => 0 end;
           ton_q := fst (ton_spec p ((i,d)::acc)) |}, ton_spec p ((i,d)::acc))).
  { unfold ton_core, clampt. rewrite norm_pnorm. destruct i; [|cbn; unfold pnorm; zb; recs].
    rewrite Hs.
    destruct acc as [|[[] d'] h']; cbn [ton_spec on_time fst snd ton_et ton_q] in *;
      unfold pnorm in *; zb; recs. }
  rewrite Hstep. f_equal. apply IH; [constructor; assumption | assumption |].
  destruct i; reflexivity.
Qed.
Lemma ton_pure_refines_iec_l p tr :
  nonneg tr -> run_dt ton_core ton_init (const_pt p tr) = map (ton_spec p) (hists [] tr).
Proof. intro H. apply (ton_core_run_spec p tr [] ton_init); [constructor | exact H | reflexivity]. Qed.

(* ---------------- TOF ---------------- *)
Definition tof_of (p : Z) (h : list (bool * Z)) : tof_st :=
  let o := tof_spec p h in
  {| tof_et := snd o; tof_q := fst o;
     tof_prev := match h with (i, _) :: _ => i | [] => false end;
     tof_timing := match h with (false, _) :: _ => fst o | _ => false end |}.

Lemma tof_exec_step p h i d :
  nonneg h -> 0 <= d ->
  tof_exec (tof_of p h) i p d = (tof_of p ((i, d) :: h), tof_spec p ((i, d) :: h)).
Proof.
  intros Hh Hd. pose proof (off_time_nonneg h Hh) as Hn.
  unfold tof_exec, tof_core, tof_of, clampt. rewrite norm_pnorm.
  destruct i.
  - cbn. unfold pnorm. zb; recs.
  - destruct h as [|[[] d'] h']; cbn [tof_spec off_time seen_true fst snd tof_et tof_q tof_prev tof_timing] in *.
    + cbn. unfold pnorm; zb; recs.
    + unfold pnorm in *. zb; cbn; zb; recs.
    + destruct (seen_true h') eqn:Hs; cbn [fst snd].
      * unfold pnorm in *.
        destruct (Z.ltb_spec (d' + off_time h') (Z.max 0 p)); cbn [fst snd];
          zb; cbn; zb; recs.
      * cbn. unfold pnorm; zb; recs.
Qed.

Lemma tof_run_spec p tr : forall acc,
  nonneg acc -> nonneg tr ->
  run_dt tof_exec (tof_of p acc) (const_pt p tr) = map (tof_spec p) (hists acc tr).
Proof.
  induction tr as [|[i d] tr IH]; intros acc Ha Ht; [reflexivity|].
  inversion Ht as [|? ? Hd Ht']; subst. cbn [const_pt map run_dt hists fst snd] in *.
  rewrite tof_exec_step by assumption. f_equal.
  apply IH; [constructor; assumption | assumption].
Qed.
Lemma tof_refines_iec_l p tr :
  nonneg tr -> run_dt tof_exec tof_init (const_pt p tr) = map (tof_spec p) (hists [] tr).
Proof. intro H. apply (tof_run_spec p tr []); [constructor | exact H]. Qed.

(* ---------------- TP ---------------- *)
Definition tp_rel (s : tp_st) (st : option Z * bool) : Prop :=
  tp_prev s = snd st /\
  match fst st with
  | Some a => tp_active s = true /\ tp_et s = a
  | None => tp_active s = false
  end.

Lemma tp_exec_step p s st i d :
  tp_rel s st ->
  let '(s', o) := tp_exec false s i p d in
  let '(st', o') := tp_auto_step p st (i, d) in
  o = o' /\ tp_rel s' st'.
Proof.
  destruct st as [run prev]. intros [Hp Hr]. cbn [fst snd] in *.
  unfold tp_exec, tp_core, tp_auto_step. rewrite norm_pnorm, Hp.
  destruct run as [a|]; [destruct Hr as [Ha He]; rewrite Ha, He | rewrite Hr].
  - replace (negb prev && i && (false || negb true)) with false by (destruct prev, i; reflexivity).
    destruct (Z.leb_spec (pnorm p) (a + d)); cbn; repeat split; reflexivity.
  - cbn [negb orb]. rewrite andb_true_r.
    destruct i, prev; cbn [andb negb]; try (cbn; repeat split; reflexivity).
    destruct (Z.leb_spec (pnorm p) (0 + d)); cbn; repeat split; reflexivity.
Qed.

Definition tp_trace (p : Z) (tr : list (bool * Z)) := const_pt p tr.

Lemma tp_run_spec p tr : forall s st,
  tp_rel s st ->
  run_dt (tp_exec false) s (const_pt p tr) = tp_auto p st tr.
Proof.
  induction tr as [|[i d] tr IH]; intros s st HR; [reflexivity|].
  cbn [const_pt map run_dt tp_auto fst snd].
  pose proof (tp_exec_step p s st i d HR) as H.
  destruct (tp_exec false s i p d) as [s' o].
  destruct (tp_auto_step p st (i, d)) as [st' o'].
  destruct H as [-> HR']. f_equal. apply IH. exact HR'.
Qed.
Lemma tp_refines_iec_l p tr :
  run_dt (tp_exec false) tp_init (const_pt p tr) = tp_auto p (None, false) tr.
Proof. apply tp_run_spec. split; reflexivity. Qed.

(* the pulse is not retriggerable and lasts exactly the accumulated preset:
   whatever IN does while a pulse with accumulated time a is running, Q stays TRUE as long
   as the accumulated time is below PT and falls at the first call where it reaches PT. *)
Definition dsum (l : list (bool * Z)) : Z := fold_right (fun x acc => snd x + acc) 0 l.

Lemma dsum_cons x l : dsum (x :: l) = snd x + dsum l.
Proof. reflexivity. Qed.
Lemma dsum_nonneg l : nonneg l -> 0 <= dsum l.
Proof. induction 1 as [|x l Hx _ IH]; [cbn; lia | rewrite dsum_cons; lia]. Qed.

Lemma tp_pulse_runs p : forall l a prev,
  nonneg l -> a + dsum l < pnorm p ->
  Forall (fun o => fst o = true) (tp_auto p (Some a, prev) l).
Proof.
  induction l as [|[i d] l IH]; intros a prev Hn Hs; [constructor|].
  inversion Hn as [|? ? Hd Hn']; subst. rewrite dsum_cons in *. cbn [snd] in *.
  pose proof (dsum_nonneg l Hn').
  cbn [tp_auto tp_auto_step].
  destruct (Z.leb_spec (pnorm p) (a + d)); [lia|].
  constructor; [reflexivity|]. apply IH; [assumption | lia].
Qed.

Lemma tp_pulse_ends p : forall l a prev x,
  nonneg l -> a + dsum l < pnorm p -> pnorm p <= a + dsum l + snd x ->
  last (tp_auto p (Some a, prev) (l ++ [x])) (true, 0) = (false, 0).
Proof.
  induction l as [|[i d] l IH]; intros a prev [i' d'] Hn Hs He.
  - cbn in *. destruct (Z.leb_spec (pnorm p) (a + d')); [reflexivity | lia].
  - inversion Hn as [|? ? Hd Hn']; subst. rewrite dsum_cons in *. cbn [snd] in *.
    pose proof (dsum_nonneg l Hn').
    cbn [app tp_auto tp_auto_step].
    destruct (Z.leb_spec (pnorm p) (a + d)); [lia|].
    specialize (IH (a + d) i (i', d') Hn'). cbn [snd] in IH.
    assert (Hne : tp_auto p (Some (a + d), i) (l ++ [(i', d')]) <> []).
    { destruct l as [|[? ?] ?]; cbn;
        repeat match goal with |- context[if ?c then _ else _] => destruct c end; discriminate. }
    destruct (tp_auto p (Some (a + d), i) (l ++ [(i', d')])) eqn:E; [congruence|].
    cbn [last]. apply IH; lia.
Qed.

(* a retriggerable TP (rising edge restarts a running pulse) does NOT meet the definition *)
Lemma tp_retrigger_refuted :
  exists p tr, nonneg tr /\ run_dt (tp_exec true) tp_init (const_pt p tr) <> tp_auto p (None, false) tr.
Proof.
  exists 10, [(true, 0); (false, 4); (true, 4); (true, 4)]. split.
  - repeat constructor; cbn; lia.
  - vm_compute. discriminate.
Qed.

(* ---------------- general-preset facts (PT may change between calls) ---------------- *)
Lemma ton_et_bounds s i pt d :
  0 <= ton_et s -> 0 <= d ->
  let '(s', (q, eo)) := ton_exec s i pt d in
  0 <= eo <= norm pt /\ ton_et s' = eo /\ eo <= ton_et s + d.
Proof.
  intros Hs Hd. unfold ton_exec, ton_core, clampt, norm. destruct i; cbn; zb; cbn in *; lia.
Qed.
Lemma tof_et_bounds s i pt d :
  0 <= tof_et s -> 0 <= d ->
  let '(s', (q, eo)) := tof_exec s i pt d in
  0 <= eo <= norm pt /\ tof_et s' = eo /\ eo <= tof_et s + d.
Proof.
  destruct s as [e q0 pr tm]. cbn [tof_et]. intros Hs Hd. unfold tof_exec, tof_core, clampt, norm.
  destruct i, pr, tm; cbn; zb; cbn in *; zb; cbn in *; lia.
Qed.
Lemma tp_et_bounds r s i pt d :
  0 <= tp_et s -> 0 <= d ->
  let '(s', (q, eo)) := tp_exec r s i pt d in
  0 <= eo <= norm pt /\ tp_et s' = eo /\ eo <= tp_et s + d.
Proof.
  destruct s as [e q0 pr ac]. cbn [tp_et]. intros Hs Hd. unfold tp_exec, tp_core, norm.
  destruct r, i, pr, ac; cbn; zb; cbn in *; zb; cbn in *; lia.
Qed.

(* ET never decreases while timing (IN stays TRUE, same preset) *)
Lemma ton_et_monotone s pt d :
  0 <= ton_et s -> ton_et s <= norm pt -> 0 <= d ->
  ton_et s <= snd (snd (ton_exec s true pt d)).
Proof. intros. unfold ton_exec, ton_core, clampt, norm in *. cbn. zb; lia. Qed.

(* no i64 overflow on the execution path: with a monotone clock inside [0,2^63) the sum
   [ET + delta] the code computes never reaches 2^63 *)
Section NoOverflow.
  Context {S : Type} (step : S -> bool -> Z -> Z -> S * (bool * Z)) (et : S -> Z).
  Hypothesis step_bounds : forall s i pt d, 0 <= et s -> 0 <= d ->
    0 <= et (fst (step s i pt d)) <= et s + d.
  (* the additions performed: (ET before the call) + delta, one per call *)
  Fixpoint sums_now (s : S) (last : option Z) (tr : list (bool * Z * Z)) : list Z :=
    match tr with
    | [] => []
    | (i, pt, now) :: tr' =>
        (et s + elapsed last now) :: sums_now (fst (step s i pt (elapsed last now))) (Some now) tr'
    end.
  Fixpoint mono (lo : Z) (tr : list (bool * Z * Z)) : Prop :=
    match tr with [] => True | (_, _, now) :: tr' => lo <= now /\ mono now tr' end.
  Fixpoint last_now (lo : Z) (tr : list (bool * Z * Z)) : Z :=
    match tr with [] => lo | (_, _, now) :: tr' => last_now now tr' end.
  Lemma sums_bound : forall tr s l first,
    first <= l -> 0 <= et s <= l - first -> mono l tr ->
    Forall (fun x => 0 <= x <= last_now l tr - first) (sums_now s (Some l) tr).
  Proof.
    induction tr as [|[[i pt] now] tr IH]; intros s l first Hf Hs Hm; [constructor|].
    destruct Hm as [Hln Hm]. cbn [sums_now last_now].
    assert (Hlast : now <= last_now now tr).
    { clear -Hm. revert now Hm. induction tr as [|[[? ?] n] tr IH]; intros now Hm; cbn in *; [lia|].
      destruct Hm as [? Hm]. specialize (IH n Hm). lia. }
    assert (Hel : elapsed (Some l) now = now - l) by (unfold elapsed; zb; lia).
    constructor; [rewrite Hel; lia|].
    pose proof (step_bounds s i pt (elapsed (Some l) now)) as Hb.
    rewrite Hel in *. apply IH; [lia | | assumption].
    specialize (Hb ltac:(lia) ltac:(lia)). lia.
  Qed.
End NoOverflow.

Lemma ton_step_bounds s i pt d : 0 <= ton_et s -> 0 <= d ->
  0 <= ton_et (fst (ton_exec s i pt d)) <= ton_et s + d.
Proof. intros H1 H2. pose proof (ton_et_bounds s i pt d H1 H2) as H. destruct (ton_exec s i pt d) as [s' [q eo]]. cbn. lia. Qed.
Lemma tof_step_bounds s i pt d : 0 <= tof_et s -> 0 <= d ->
  0 <= tof_et (fst (tof_exec s i pt d)) <= tof_et s + d.
Proof. intros H1 H2. pose proof (tof_et_bounds s i pt d H1 H2) as H. destruct (tof_exec s i pt d) as [s' [q eo]]. cbn. lia. Qed.
Lemma tp_step_bounds r s i pt d : 0 <= tp_et s -> 0 <= d ->
  0 <= tp_et (fst (tp_exec r s i pt d)) <= tp_et s + d.
Proof. intros H1 H2. pose proof (tp_et_bounds r s i pt d H1 H2) as H. destruct (tp_exec r s i pt d) as [s' [q eo]]. cbn. lia. Qed.

(* ---------------- counters ---------------- *)
Lemma edges_nonneg h : 0 <= edges_since h.
Proof. induction h as [|[[c r] pv] h IH]; cbn; [lia|]. destruct r; [lia|]. destruct (c && negb (prev_in h)); lia. Qed.

Definition ctu_of hi (h : list (bool * bool * Z)) : ctu_st :=
  {| ctu_cv := Z.min hi (edges_since h); ctu_prev := prev_in h |}.
Lemma ctu_step_spec hi h cu r pv : 0 <= hi ->
  ctu_step hi (ctu_of hi h) cu r pv = (ctu_of hi ((cu, r, pv) :: h), ctu_spec hi ((cu, r, pv) :: h)).
Proof.
  intro Hhi. pose proof (edges_nonneg h). unfold ctu_step, ctu_of, ctu_spec.
  cbn [ctu_cv ctu_prev edges_since prev_in cur_pv].
  destruct r; [cbn; f_equal; [f_equal; lia | f_equal; [f_equal; lia | lia]]|].
  destruct (cu && negb (prev_in h)); cbn [andb];
    zb; f_equal; try (f_equal; lia); f_equal; try lia; f_equal; lia.
Qed.
Lemma ctu_refines_iec_l hi tr : 0 <= hi -> forall acc,
  run (ctu_stepI hi) (ctu_of hi acc) tr = map (ctu_spec hi) (hists acc tr).
Proof.
  intro Hhi. induction tr as [|[[cu r] pv] tr IH]; intro acc; [reflexivity|].
  cbn [run hists map ctu_stepI]. rewrite ctu_step_spec by assumption. f_equal. apply IH.
Qed.

Definition ctd_of lo (h : list (bool * bool * Z)) : ctd_st :=
  {| ctd_cv := Z.max lo (last_load h - edges_since h); ctd_prev := prev_in h |}.
Definition pvs_in (lo hi : Z) (h : list (bool * bool * Z)) : Prop := Forall (fun x => lo <= snd x <= hi) h.
Lemma ctd_step_spec lo h cd ld pv : lo <= 0 -> lo <= pv ->
  ctd_step lo (ctd_of lo h) cd ld pv = (ctd_of lo ((cd, ld, pv) :: h), ctd_spec lo ((cd, ld, pv) :: h)).
Proof.
  intros Hlo Hpv. pose proof (edges_nonneg h). unfold ctd_step, ctd_of, ctd_spec.
  cbn [ctd_cv ctd_prev edges_since prev_in last_load].
  destruct ld; [cbn; f_equal; [f_equal; lia | f_equal; [f_equal; lia | lia]]|].
  destruct (cd && negb (prev_in h)); cbn [andb];
    zb; f_equal; try (f_equal; lia); f_equal; try lia; f_equal; lia.
Qed.
Lemma ctd_refines_iec_l lo hi tr : lo <= 0 -> pvs_in lo hi tr -> forall acc,
  run (ctd_stepI lo) (ctd_of lo acc) tr = map (ctd_spec lo) (hists acc tr).
Proof.
  intros Hlo. induction tr as [|[[cd ld] pv] tr IH]; intros Hp acc; [reflexivity|].
  inversion Hp as [|? ? Hx Hp']; subst. cbn [snd] in Hx.
  cbn [run hists map ctd_stepI]. rewrite ctd_step_spec by lia. f_equal. apply IH. exact Hp'.
Qed.

(* counters saturate: CV stays in the range of its type *)
Lemma ctu_in_range lo hi s cu r pv : lo <= 0 <= hi -> lo <= ctu_cv s <= hi ->
  lo <= ctu_cv (fst (ctu_step hi s cu r pv)) <= hi.
Proof. intros. unfold ctu_step. cbn. destruct r; [lia|]. destruct (cu && negb (ctu_prev s)); cbn; zb; lia. Qed.
Lemma ctd_in_range lo hi s cd ld pv : lo <= 0 <= hi -> lo <= pv <= hi -> lo <= ctd_cv s <= hi ->
  lo <= ctd_cv (fst (ctd_step lo s cd ld pv)) <= hi.
Proof. intros. unfold ctd_step. cbn. destruct ld; [lia|]. destruct (cd && negb (ctd_prev s)); cbn; zb; lia. Qed.
Lemma ctud_in_range lo hi s cu cd r ld pv : lo <= 0 <= hi -> lo <= pv <= hi -> lo <= ctud_cv s <= hi ->
  lo <= ctud_cv (fst (ctud_step lo hi s cu cd r ld pv)) <= hi.
Proof.
  intros. unfold ctud_step. cbn. destruct r; [lia|]. destruct ld; [lia|].
  destruct (cu && negb (ctud_pcu s)), (cd && negb (ctud_pcd s)); cbn; zb; lia.
Qed.
(* CTUD used in one direction only is CTU resp. CTD *)
Lemma ctud_up_is_ctu lo hi s cu r pv :
  let '(s', (qu, _, cv)) := ctud_step lo hi s cu false r false pv in
  let '(t', (q, cv')) := ctu_step hi {| ctu_cv := ctud_cv s; ctu_prev := ctud_pcu s |} cu r pv in
  qu = q /\ cv = cv' /\ ctud_cv s' = ctu_cv t' /\ ctud_pcu s' = ctu_prev t'.
Proof.
  unfold ctud_step, ctu_step. cbn. destruct r; [repeat split|].
  destruct (cu && negb (ctud_pcu s)); cbn; zb; repeat split.
Qed.
Lemma ctud_down_is_ctd lo hi s cd ld pv :
  let '(s', (_, qd, cv)) := ctud_step lo hi s false cd false ld pv in
  let '(t', (q, cv')) := ctd_step lo {| ctd_cv := ctud_cv s; ctd_prev := ctud_pcd s |} cd ld pv in
  qd = q /\ cv = cv' /\ ctud_cv s' = ctd_cv t' /\ ctud_pcd s' = ctd_prev t'.
Proof.
  unfold ctud_step, ctd_step. cbn. destruct ld; [repeat split|].
  destruct (cd && negb (ctud_pcd s)); cbn; zb; repeat split.
Qed.

(* ---------------- edge detectors ---------------- *)
Definition rtrig_stepI (m : bool) (c : bool) := rtrig_step m c.
Definition ftrig_stepI (m : bool) (c : bool) := ftrig_step m c.
Definition head_or (d : bool) (h : list bool) := match h with c :: _ => c | [] => d end.

Lemma rtrig_refines_iec_l tr : forall acc,
  run rtrig_stepI (head_or false acc) tr = map rtrig_spec (hists acc tr).
Proof.
  induction tr as [|c tr IH]; intro acc; [reflexivity|].
  cbn [run hists map rtrig_stepI rtrig_step]. f_equal; [|apply (IH (c :: acc))].
  destruct acc as [|p acc]; cbn; [destruct c; reflexivity | reflexivity].
Qed.
Lemma ftrig_refines_iec_l tr : forall acc,
  run ftrig_stepI (negb (head_or true acc)) tr = map ftrig_spec (hists acc tr).
Proof.
  induction tr as [|c tr IH]; intro acc; [reflexivity|].
  cbn [run hists map ftrig_stepI ftrig_step]. f_equal; [|apply (IH (c :: acc))].
  destruct acc as [|p acc]; cbn; [destruct c; reflexivity | rewrite negb_involutive; reflexivity].
Qed.
(* exactly one firing per edge *)
Lemma rtrig_one_per_edge tr : forall m,
  count_true (run rtrig_stepI m tr) = rising_edges m tr.
Proof.
  induction tr as [|c tr IH]; intro m; [reflexivity|].
  cbn [run rtrig_stepI rtrig_step count_true rising_edges]. rewrite <- IH.
  destruct (c && negb m); reflexivity.
Qed.
Lemma ftrig_one_per_edge tr : forall m,
  count_true (run ftrig_stepI m tr) = falling_edges (negb m) tr.
Proof.
  induction tr as [|c tr IH]; intro m; [reflexivity|].
  cbn [run ftrig_stepI ftrig_step count_true falling_edges]. rewrite (IH (negb c)), !negb_involutive.
  destruct (negb c && negb m); reflexivity.
Qed.

(* ---------------- bistables ---------------- *)
Lemma sr_truth q s1 r : sr_step q s1 r = sr_spec q s1 r.
Proof. destruct q, s1, r; reflexivity. Qed.
Lemma rs_truth q s r1 : rs_step q s r1 = rs_spec q s r1.
Proof. destruct q, s, r1; reflexivity. Qed.

(* ---------------- independence of instances ---------------- *)
Lemma instances_independent {S I O} (step : S -> I -> S * O) st i x j :
  j <> i -> fst (call_inst step st i x) j = st j.
Proof.
  intro Hj. unfold call_inst. destruct (step (st i) x) as [s' o]. cbn. unfold upd.
  destruct (Nat.eqb_spec j i); [contradiction | reflexivity].
Qed.
Lemma instance_output_local {S I O} (step : S -> I -> S * O) st i x :
  snd (call_inst step st i x) = snd (step (st i) x) /\ fst (call_inst step st i x) i = fst (step (st i) x).
Proof.
  unfold call_inst. destruct (step (st i) x) as [s' o]. cbn. unfold upd. rewrite Nat.eqb_refl. split; reflexivity.
Qed.

Lemma ctu_refines_iec_top hi tr : 0 <= hi ->
  run (ctu_stepI hi) ctu_init tr = map (ctu_spec hi) (hists [] tr).
Proof.
  intro H. rewrite <- (ctu_refines_iec_l hi tr H []). unfold ctu_of, ctu_init. cbn.
  replace (Z.min hi 0) with 0 by lia. reflexivity.
Qed.
Lemma ctd_refines_iec_top lo hi tr : lo <= 0 -> pvs_in lo hi tr ->
  run (ctd_stepI lo) ctd_init tr = map (ctd_spec lo) (hists [] tr).
Proof.
  intros H Hp. rewrite <- (ctd_refines_iec_l lo hi tr H Hp []). unfold ctd_of, ctd_init. cbn.
  replace (Z.max lo 0) with 0 by lia. reflexivity.
Qed.

Lemma c04_nonvacuous_l :
  nonneg [(true, 3); (true, 4); (false, 0); (true, 9)] /\
  run_dt ton_exec ton_init (const_pt 7 [(true, 3); (true, 4); (false, 0); (true, 9)])
    = [(false, 3); (true, 7); (false, 0); (true, 7)] /\
  mono 5 [(true, 7, 5); (true, 7, 9)] /\
  pvs_in (-32768) 32767 [(true, true, 3); (false, false, 3)].
Proof. repeat split; try (repeat constructor; cbn; lia); vm_compute; reflexivity. Qed.

(* ---- CTUD against the IEC wording ---- *)
Lemma ctud_refines_iec_l lo hi : forall tr cv pcu pcd,
  run (ctud_stepI lo hi) {| ctud_cv := cv; ctud_pcu := pcu; ctud_pcd := pcd |} tr = ctud_spec_run lo hi cv pcu pcd tr.
Proof.
  induction tr as [|[[[[cu cd] r] ld] pv] tr IH]; intros cv pcu pcd; [reflexivity|].
  cbn [run ctud_stepI ctud_step ctud_spec_run ctud_cv ctud_pcu ctud_pcd].
  destruct r; [cbn; f_equal; apply IH|]. destruct ld; [cbn; f_equal; apply IH|].
  destruct (cu && negb pcu) eqn:Eu, (cd && negb pcd) eqn:Ed; cbn [andb negb];
    try (destruct (cv <? hi); cbn; f_equal; apply IH); try (destruct (lo <? cv); cbn; f_equal; apply IH); cbn; f_equal; apply IH.
Qed.
