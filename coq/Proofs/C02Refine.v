(* C02: on strictly typed programs (typed literals only) the interpreter model M computes exactly
   what the reference semantics R computes - values, faults and their order. *)
From Coq Require Import ZArith List Bool Lia.
From TP Require Import Model.StCore Model.StTyping Model.StRef Proofs.StProofs.
Import ListNotations.
Open Scope Z_scope.

Definition o_code_like (o : opts) : Prop := o_neg_checked o = true /\ o_for_checked o = true /\ o_case_unsigned o = true /\ o_return_ok o = true.

Lemma wider_same k : wider k k = k.
Proof. unfold wider. now rewrite Z.leb_refl. Qed.
Lemma unsigned_nonneg k z : is_signed k = false -> in_range k z = true -> 0 <= z.
Proof. unfold in_range, kmin. intros H Hr. rewrite H in Hr. apply andb_prop in Hr as [H1 _]. now apply Z.leb_le in H1. Qed.
Lemma unsigned_neg_out k z : is_signed k = false -> z < 0 -> in_range k z = false.
Proof. unfold in_range, kmin. intros H Hz. rewrite H. apply andb_false_iff. left. apply Z.leb_gt. lia. Qed.
Lemma check_from_wide k z : bind (check k z) (fun z' => Ok (VInt k z')) = from_wide k z.
Proof. unfold check, from_wide. destruct (in_range k z); reflexivity. Qed.

Section Expr.
  Variable o : opts.
  Hypothesis Hneg : o_neg_checked o = true.
  Variable G : env.
  Variable s : store.
  Hypothesis Hs : store_ok G s = true.

  Lemma rd_int x k : ty_is_int (nth_error G x) k = true -> exists z, rd s x = Ok (VInt k z) /\ in_range k z = true.
  Proof.
    unfold ty_is_int. destruct (nth_error G x) as [[|k']|] eqn:E; try discriminate. intros H. apply ik_eqb_eq in H. subst k'.
    destruct (store_ok_nth G s x (TInt k) Hs E) as [v [Hv Hok]]. destruct v as [|kv z]; [discriminate|]. cbn in Hok.
    apply andb_prop in Hok as [H1 H2]. apply ik_eqb_eq in H1. subst kv. exists z. unfold rd. rewrite Hv. auto.
  Qed.
  Lemma rd_bool x : ty_is_bool (nth_error G x) = true -> exists b, rd s x = Ok (VBool b).
  Proof.
    unfold ty_is_bool. destruct (nth_error G x) as [[|k']|] eqn:E; try discriminate. intros _.
    destruct (store_ok_nth G s x TBool Hs E) as [v [Hv Hok]]. destruct v as [b|]; [|discriminate]. exists b. unfold rd. now rewrite Hv.
  Qed.

  Lemma rd_arr b n k j : arr_ok G b n k = true -> (j < n)%nat -> exists z, rd s (b + j) = Ok (VInt k z) /\ in_range k z = true.
  Proof.
    intros Ha Hj. destruct (arr_ok_slot G s b n k j Hs Ha Hj) as [z [Hnth Hr]]. exists z. unfold rd. rewrite Hnth. auto.
  Qed.

  (* R's values stay in the operand type *)
  Lemma reval_in_range k : forall e z, tint true G k e = true -> reval s k e = Ok z -> in_range k z = true.
  Proof.
    intros e. revert k. induction e as [u v|x|op e1 IH|op l IHl r IHr|b0 lo n ki i IHi]; intros k z Ht Hr.
    - destruct u; destruct v as [b|k' z']; try discriminate; cbn in Ht; [destruct k'; discriminate|].
      apply andb_prop in Ht as [_ Hin]. cbn in Hr. unfold check in Hr. rewrite Hin in Hr. now inversion Hr; subst.
    - cbn in Ht, Hr. destruct (rd_int x k Ht) as [z' [Hrd Hin]]. rewrite Hrd in Hr. cbn in Hr. now inversion Hr; subst.
    - destruct op; [|discriminate]. cbn in Hr. destruct (reval s k e1) as [a| |]; cbn in Hr; try discriminate.
      unfold check in Hr. destruct (in_range k (- a)) eqn:E; inversion Hr; subst; exact E.
    - cbn in Hr. destruct (reval s k l) as [a| |]; cbn in Hr; try discriminate. destruct (reval s k r) as [b| |]; cbn in Hr; try discriminate.
      unfold check in Hr.
      destruct op; try discriminate;
        try (destruct (b =? 0); [discriminate|]);
        match type of Hr with (if in_range k ?w then _ else _) = _ => destruct (in_range k w) eqn:E; inversion Hr; subst; exact E end.
    - cbn [tint] in Ht. apply andb_prop in Ht as [Ht _]. apply andb_prop in Ht as [Ht _]. apply andb_prop in Ht as [Harr _].
      cbn [reval] in Hr. destruct (reval s ki i) as [zi| |]; cbn [bind] in Hr; try discriminate.
      destruct ((zi <? lo) || (lo + Z.of_nat n - 1 <? zi)) eqn:Eoob; [discriminate|].
      apply orb_false_iff in Eoob as [E1 E2]. apply Z.ltb_ge in E1, E2.
      destruct (rd_arr b0 n k (Z.to_nat (zi - lo)) Harr ltac:(lia)) as [ze [Hrd Hin]]. rewrite Hrd in Hr. cbn [bind] in Hr.
      injection Hr as <-. exact Hin.
  Qed.

  (* integer expressions: M = R *)
  Lemma eval_int_refines k : forall e, tint true G k e = true -> eval o s e = bind (reval s k e) (fun z => Ok (VInt k z)).
  Proof.
    intros e. revert k. induction e as [u v|x|op e1 IH|op l IHl r IHr|b0 lo n ki i IHi]; intros k Ht.
    - destruct u; destruct v as [b|k' z']; try discriminate; cbn in Ht; [destruct k'; discriminate|].
      apply andb_prop in Ht as [Hk Hin]. apply ik_eqb_eq in Hk. subst k'. cbn. unfold check. now rewrite Hin.
    - cbn in Ht. destruct (rd_int x k Ht) as [z [Hrd Hin]]. cbn. now rewrite Hrd.
    - destruct op; [|discriminate]. cbn in Ht. apply andb_prop in Ht as [Hsg Ht1]. cbn [eval reval]. rewrite (IH k Ht1).
      destruct (reval s k e1) as [a| |] eqn:Ea; cbn; try reflexivity.
      pose proof (reval_in_range k e1 a Ht1 Ea) as Hin. rewrite Hsg, Hneg. unfold check.
      destruct (a =? kmin k) eqn:Em.
      + apply Z.eqb_eq in Em. subst a. assert (in_range k (- kmin k) = false) as ->; [|reflexivity].
        unfold in_range, kmin, kmax. rewrite Hsg. destruct k; cbn in *; try discriminate; reflexivity.
      + now rewrite (neg_in_range k a Hsg Hin Em).
    - cbn [tint] in Ht. apply andb_prop in Ht as [Ht _]. apply andb_prop in Ht as [Ht Htr]. apply andb_prop in Ht as [Har Htl].
      assert (Hev : eval o s (EBin op l r) = bind (eval o s l) (fun lv => bind (eval o s r) (fun rv => apply_binary op lv rv)))
        by (destruct op; try discriminate; reflexivity).
      rewrite Hev, (IHl k Htl), (IHr k Htr). cbn [reval].
      destruct (reval s k l) as [a| |] eqn:Ea; cbn; try reflexivity.
      destruct (reval s k r) as [b| |] eqn:Eb; cbn; try reflexivity.
      pose proof (reval_in_range k l a Htl Ea) as Ha. pose proof (reval_in_range k r b Htr Eb) as Hb.
      unfold apply_binary. assert (is_logic op = false) as -> by (destruct op; try discriminate; reflexivity).
      rewrite wider_same. destruct (is_signed k) eqn:Hsg.
      + rewrite !to_i64_signed by exact Hsg. cbn [bind]. assert (is_cmp op = false) as -> by (destruct op; try discriminate; reflexivity).
        destruct op; try discriminate; try (destruct (b =? 0); [reflexivity|]); symmetry; apply check_from_wide.
      + unfold to_u64. rewrite Hsg. cbn [andb bind]. assert (is_cmp op = false) as -> by (destruct op; try discriminate; reflexivity).
        pose proof (unsigned_nonneg k a Hsg Ha) as Ha0. pose proof (unsigned_nonneg k b Hsg Hb) as Hb0.
        destruct op; try discriminate.
        * symmetry; apply check_from_wide.
        * destruct (a <? b) eqn:E; [|symmetry; apply check_from_wide]. apply Z.ltb_lt in E. unfold check.
          now rewrite (unsigned_neg_out k (a - b) Hsg) by lia.
        * symmetry; apply check_from_wide.
        * destruct (b =? 0) eqn:E0; [reflexivity|]. apply Z.eqb_neq in E0. rewrite Z.quot_div_nonneg by lia. symmetry; apply check_from_wide.
        * destruct (b =? 0) eqn:E0; [reflexivity|]. apply Z.eqb_neq in E0. rewrite Z.rem_mod_nonneg by lia. symmetry; apply check_from_wide.
    - (* array element: the index has its declared kind (not ULINT), so index_to_i64 is the identity; same bounds check, same slot *)
      cbn [tint] in Ht. apply andb_prop in Ht as [Ht Hti]. apply andb_prop in Ht as [Ht _]. apply andb_prop in Ht as [Harr Hki].
      cbn [eval reval]. rewrite (IHi ki Hti).
      destruct (reval s ki i) as [zi| |]; cbn [bind]; try reflexivity.
      unfold idx_slot. destruct (int_value_int ki zi) as [zi' [Ezi Hzi]]. rewrite Ezi. cbn [bind].
      assert (Hne : ki <> KULInt) by (intro E; subst ki; discriminate). rewrite (Hzi Hne).
      destruct ((zi <? lo) || (lo + Z.of_nat n - 1 <? zi)) eqn:Eoob; [reflexivity|]. cbn [bind].
      apply orb_false_iff in Eoob as [E1 E2]. apply Z.ltb_ge in E1, E2.
      destruct (rd_arr b0 n k (Z.to_nat (zi - lo)) Harr ltac:(lia)) as [ze [Hrd _]]. rewrite Hrd. reflexivity.
  Qed.
End Expr.

Section BoolExpr.
  Variable o : opts.
  Hypothesis Hneg : o_neg_checked o = true.
  Variable G : env.
  Variable s : store.
  Hypothesis Hs : store_ok G s = true.

  (* in the strict discipline the operand type of an integer expression is determined by the expression *)
  Lemma tint_infer k : forall e, tint true G k e = true -> infer_kind G e = Some k.
  Proof.
    intros e. induction e as [u v|x|op e1 IH|op l IHl r IHr|b0 lo n ki i IHi]; intros Ht.
    - destruct u; destruct v as [b|k' z']; try discriminate; cbn in Ht; [destruct k'; discriminate|].
      apply andb_prop in Ht as [Hk _]. apply ik_eqb_eq in Hk. now subst.
    - cbn in *. unfold ty_is_int in Ht. unfold var_kind. destruct (nth_error G x) as [[|k']|]; try discriminate. apply ik_eqb_eq in Ht. now subst.
    - destruct op; [|discriminate]. cbn in Ht. apply andb_prop in Ht as [_ Ht]. cbn. now apply IH.
    - cbn [tint] in Ht. apply andb_prop in Ht as [Ht _]. apply andb_prop in Ht as [Ht _]. apply andb_prop in Ht as [_ Htl]. cbn. now rewrite (IHl Htl).
    - cbn [tint] in Ht. apply andb_prop in Ht as [Ht _]. apply andb_prop in Ht as [Ht _]. apply andb_prop in Ht as [Harr _]. cbn [infer_kind].
      exact (arr_ok_base G b0 n k Harr).
  Qed.
  Lemma tint_not_bool k e : tint true G k e = true -> is_bool_expr G e = false.
  Proof.
    destruct e as [u v|x|op e1|op l r|b0 lo n ki i]; cbn; intros Ht; [| | | |reflexivity].
    - destruct u; destruct v as [b|k' z']; try discriminate; reflexivity.
    - unfold ty_is_int in Ht. unfold ty_is_bool. destruct (nth_error G x) as [[|k']|]; try discriminate; reflexivity.
    - destruct op; [reflexivity|discriminate].
    - apply andb_prop in Ht as [Ht _]. apply andb_prop in Ht as [Ht _]. apply andb_prop in Ht as [Har _]. destruct op; try discriminate; reflexivity.
  Qed.
  Lemma tbool_is_bool e : tbool true G e = true -> is_bool_expr G e = true.
  Proof.
    destruct e as [u v|x|op e1|op l r|b0 lo n ki i]; cbn; intros Ht; [| | | |discriminate].
    - destruct u; destruct v as [b|k' z']; try discriminate; reflexivity.
    - exact Ht.
    - destruct op; [discriminate|reflexivity].
    - destruct (is_logic op) eqn:E1; [reflexivity|]. destruct (is_cmp op) eqn:E2; [reflexivity|discriminate].
  Qed.

  Lemma cmp_refines k op l r : is_cmp op = true -> tint true G k l = true -> tint true G k r = true ->
    eval o s (EBin op l r) = bind (bind (reval s k l) (fun a => bind (reval s k r) (fun b => Ok (cmp_op op a b)))) (fun b => Ok (VBool b)).
  Proof.
    intros Hc Htl Htr.
    assert (Hev : eval o s (EBin op l r) = bind (eval o s l) (fun lv => bind (eval o s r) (fun rv => apply_binary op lv rv)))
      by (destruct op; try discriminate; reflexivity).
    rewrite Hev, (eval_int_refines o Hneg G s Hs k l Htl), (eval_int_refines o Hneg G s Hs k r Htr).
    destruct (reval s k l) as [a| |]; cbn; try reflexivity. destruct (reval s k r) as [b| |]; cbn; try reflexivity.
    unfold apply_binary. assert (is_logic op = false) as -> by (destruct op; try discriminate; reflexivity).
    rewrite wider_same, Hc. destruct (is_signed k) eqn:Hsg.
    - now rewrite !to_i64_signed by exact Hsg.
    - unfold to_u64. rewrite Hsg. reflexivity.
  Qed.

  Lemma eval_bool_refines : forall e, tbool true G e = true -> eval o s e = bind (rbool G s e) (fun b => Ok (VBool b)).
  Proof.
    intros e. induction e as [u v|x|op e1 IH|op l IHl r IHr|b0 lo n ki i IHi]; intros Ht; [| | | |discriminate].
    - destruct u; destruct v as [b|k' z']; try discriminate; reflexivity.
    - cbn in Ht. destruct (rd_bool G s Hs x Ht) as [b Hb]. cbn. now rewrite Hb.
    - destruct op; [discriminate|]. cbn in Ht. cbn [eval rbool]. rewrite (IH Ht). destruct (rbool G s e1) as [b| |]; reflexivity.
    - cbn [tbool] in Ht. destruct (is_logic op) eqn:El.
      + apply andb_prop in Ht as [Htl Htr].
        destruct op; try discriminate; cbn [eval rbool]; rewrite (IHl Htl);
          destruct (rbool G s l) as [a| |]; cbn; try reflexivity.
        * destruct a; [|reflexivity]. rewrite (IHr Htr). destruct (rbool G s r) as [b| |]; reflexivity.
        * destruct a; [reflexivity|]. rewrite (IHr Htr). destruct (rbool G s r) as [b| |]; reflexivity.
        * rewrite (IHr Htr). destruct (rbool G s r) as [b| |]; reflexivity.
      + destruct (is_cmp op) eqn:Ec; [|discriminate].
        apply existsb_exists in Ht. destruct Ht as [k [_ Hk]]. apply andb_prop in Hk as [Hk _]. apply andb_prop in Hk as [Htl Htr].
        rewrite (cmp_refines k op l r Ec Htl Htr).
        assert (Hr : rbool G s (EBin op l r) = bind (reval s k l) (fun a => bind (reval s k r) (fun b => Ok (cmp_op op a b)))).
        { assert (Hinf : infer_kind G (EBin op l r) = Some k) by (cbn; now rewrite (tint_infer k l Htl)).
          destruct op; try discriminate; cbn [rbool is_cmp]; rewrite Hinf; reflexivity. }
        now rewrite Hr.
  Qed.

  (* the evaluator of R and the evaluator of M agree on every well-typed expression at a well-typed store *)
  Lemma ev_ref_int k e : tint true G k e = true -> ev_ref G s e = eval o s e.
  Proof.
    intros Ht. unfold ev_ref. rewrite (tint_not_bool k e Ht), (tint_infer k e Ht). cbn [kind_or_dint].
    now rewrite (eval_int_refines o Hneg G s Hs k e Ht).
  Qed.
  Lemma ev_ref_bool e : tbool true G e = true -> ev_ref G s e = eval o s e.
  Proof. intros Ht. unfold ev_ref. rewrite (tbool_is_bool e Ht). now rewrite (eval_bool_refines e Ht). Qed.
End BoolExpr.

(* ---------- statements ---------- *)
Lemma coerce_loop_ok k zt z c : coerce_loop (VInt k zt) z = Ok c -> slot_ok (TInt k) c = true.
Proof.
  unfold coerce_loop, from_wide. destruct (is_signed k).
  - destruct (in_range k z) eqn:E; intros H; inversion H; subst. cbn. now rewrite ik_eqb_refl, E.
  - destruct (z <? 0); [discriminate|]. destruct (in_range k z) eqn:E; intros H; inversion H; subst. cbn. now rewrite ik_eqb_refl, E.
Qed.

Section Rel.
  Variable o : opts.
  Hypothesis Hneg : o_neg_checked o = true.
  Hypothesis Hfor : o_for_checked o = true.
  Hypothesis Hcase : o_case_unsigned o = true.
  Variable G : env.
  Variable ex1 ex2 : nat -> store -> stmt -> res (store * signal).
  Hypothesis Hs2 : forall depth s st il, store_ok G s = true -> tstmt true G il st = true ->
    (il = true -> depth <> 0%nat) -> sres_ok G depth (ex2 depth s st).
  Hypothesis Hrel : forall depth s st il, store_ok G s = true -> tstmt true G il st = true ->
    (il = true -> depth <> 0%nat) -> ex1 depth s st = ex2 depth s st.

  Lemma rb_rel : forall b depth s il, store_ok G s = true -> tblock true G il b = true -> (il = true -> depth <> 0%nat) ->
    run_block ex1 depth s b = run_block ex2 depth s b.
  Proof.
    induction b as [|st1 b IH]; intros depth s il Hs Ht Hil; [reflexivity|].
    cbn [tblock] in Ht. apply andb_prop in Ht as [Ht1 Htb]. cbn [run_block]. rewrite (Hrel depth s st1 il Hs Ht1 Hil).
    pose proof (Hs2 depth s st1 il Hs Ht1 Hil) as Hok. destruct (ex2 depth s st1) as [[s' g]| |]; cbn; try reflexivity.
    destruct Hok as [Hs' _]. cbn in Hs'. destruct g; try reflexivity. now apply (IH depth s' il).
  Qed.
  Lemma evb_rel s c : store_ok G s = true -> tbool true G c = true -> ev_bool (ev_ref G) s c = ev_bool (eval o) s c.
  Proof. intros Hs Hc. unfold ev_bool. now rewrite (ev_ref_bool o Hneg G s Hs c Hc). Qed.
  Lemma elifs_rel : forall l depth s il el, store_ok G s = true -> telifs true G il l = true -> tblock true G il el = true ->
    (il = true -> depth <> 0%nat) -> run_elifs (ev_ref G) ex1 depth s l el = run_elifs (eval o) ex2 depth s l el.
  Proof.
    induction l as [|[c blk] l IH]; intros depth s il el Hs Hl Hel Hil; cbn [run_elifs]; [now apply (rb_rel el depth s il)|].
    cbn [telifs] in Hl. apply andb_prop in Hl as [Hl Hrest]. apply andb_prop in Hl as [Hc Hb].
    rewrite (evb_rel s c Hs Hc). destruct (ev_bool (eval o) s c) as [b| |]; cbn; try reflexivity.
    destruct b; [now apply (rb_rel blk depth s il)|now apply (IH depth s il)].
  Qed.
  Lemma case_rel : forall l depth s z il el, store_ok G s = true -> tbranches true G il l = true -> tblock true G il el = true ->
    (il = true -> depth <> 0%nat) -> run_case ex1 depth s z l el = run_case ex2 depth s z l el.
  Proof.
    induction l as [|[ls blk] l IH]; intros depth s z il el Hs Hl Hel Hil; cbn [run_case]; [now apply (rb_rel el depth s il)|].
    cbn [tbranches] in Hl. apply andb_prop in Hl as [Hb Hrest].
    destruct (existsb _ ls); [now apply (rb_rel blk depth s il)|now apply (IH depth s z il)].
  Qed.
  Lemma body_rel depth s body : store_ok G s = true -> tblock true G true body = true ->
    run_block ex1 (S depth) s body = run_block ex2 (S depth) s body /\
    match run_block ex2 (S depth) s body with Ok r => store_ok G (fst r) = true | _ => True end.
  Proof.
    intros Hs Hb. split; [apply (rb_rel body (S depth) s true Hs Hb); intros _; discriminate|].
    pose proof (body_sound true G ex2 Hs2 depth s body Hs Hb) as H.
    destruct (run_block ex2 (S depth) s body) as [[s' g]| |]; auto. now destruct H.
  Qed.
  Lemma while_rel : forall n depth c body s, store_ok G s = true -> tbool true G c = true -> tblock true G true body = true ->
    while_loop (ev_ref G) ex1 n depth c body s = while_loop (eval o) ex2 n depth c body s.
  Proof.
    induction n as [|n IH]; intros depth c body s Hs Hc Hb; [reflexivity|]. cbn [while_loop].
    rewrite (evb_rel s c Hs Hc). destruct (ev_bool (eval o) s c) as [b| |]; cbn; try reflexivity. destruct b; cbn; [|reflexivity].
    destruct (body_rel depth s body Hs Hb) as [-> Hok]. destruct (run_block ex2 (S depth) s body) as [[s' g]| |]; cbn; try reflexivity.
    cbn in Hok. destruct g; try reflexivity; now apply IH.
  Qed.
  Lemma repeat_rel : forall n depth body c s, store_ok G s = true -> tbool true G c = true -> tblock true G true body = true ->
    repeat_loop (ev_ref G) ex1 n depth body c s = repeat_loop (eval o) ex2 n depth body c s.
  Proof.
    induction n as [|n IH]; intros depth body c s Hs Hc Hb; [reflexivity|]. cbn [repeat_loop].
    destruct (body_rel depth s body Hs Hb) as [-> Hok]. destruct (run_block ex2 (S depth) s body) as [[s' g]| |]; cbn; try reflexivity.
    cbn in Hok. destruct g; try reflexivity; rewrite (evb_rel s' c Hok Hc); destruct (ev_bool (eval o) s' c) as [b| |]; cbn; try reflexivity;
      destruct b; try reflexivity; now apply IH.
  Qed.
  Lemma for_rel : forall n depth x k zt ei pi body s cur, store_ok G s = true -> nth_error G x = Some (TInt k) -> tblock true G true body = true ->
    for_loop o_ref ex1 n depth x (VInt k zt) ei pi body s cur = for_loop o ex2 n depth x (VInt k zt) ei pi body s cur.
  Proof.
    induction n as [|n IH]; intros depth x k zt ei pi body s cur Hs Hx Hb; [reflexivity|]. cbn [for_loop].
    destruct (_ || _); [reflexivity|].
    destruct (body_rel depth s body Hs Hb) as [-> Hok]. destruct (run_block ex2 (S depth) s body) as [[s' g]| |]; cbn; try reflexivity.
    cbn in Hok. rewrite Hfor. cbn [o_ref o_for_checked].
    assert (Hnext : (if (cur + pi <? - 2 ^ 63) || (i64max <? cur + pi) then Fault FOverflow
                     else bind (coerce_loop (VInt k zt) (cur + pi)) (fun c => for_loop o_ref ex1 n depth x (VInt k zt) ei pi body (upd s' x c) (cur + pi)))
                  = (if (cur + pi <? - 2 ^ 63) || (i64max <? cur + pi) then Fault FOverflow
                     else bind (coerce_loop (VInt k zt) (cur + pi)) (fun c => for_loop o ex2 n depth x (VInt k zt) ei pi body (upd s' x c) (cur + pi)))).
    { destruct (_ || _); [reflexivity|]. destruct (coerce_loop (VInt k zt) (cur + pi)) as [c| |] eqn:Ec; cbn; try reflexivity.
      apply IH; auto. eapply store_ok_upd; [exact Hok|exact Hx|]. eapply coerce_loop_ok; exact Ec. }
    destruct g; try reflexivity; exact Hnext.
  Qed.

  Lemma write_rel s x v t : store_ok G s = true -> nth_error G x = Some t ->
    match t with TBool => is_vbool v | TInt k => exists z, v = VInt k z end -> write o_ref s x v = write o s x v.
  Proof.
    intros Hs Hx Hv. destruct (store_ok_nth G s x t Hs Hx) as [cur [Hcur Hok]]. unfold write, rd. rewrite Hcur. cbn [bind o_ref o_coerce_write].
    assert (coerce_like cur v = Ok v) as ->.
    { destruct t as [|k].
      - destruct Hv as [b ->]. destruct cur; reflexivity.
      - destruct Hv as [z ->]. destruct cur as [|kc zc]; [discriminate|]. cbn in Hok. apply andb_prop in Hok as [Hk _]. apply ik_eqb_eq in Hk. subst kc.
        cbn. now rewrite ik_eqb_refl. }
    destruct (o_coerce_write o); reflexivity.
  Qed.

  Lemma step_rel n depth s st il : store_ok G s = true -> tstmt true G il st = true -> (il = true -> depth <> 0%nat) ->
    step o_ref (ev_ref G) ex1 n depth s st = step o (eval o) ex2 n depth s st.
  Proof.
    intros Hs Ht Hil. destruct st as [x e|b0 lo n0 ki i e|c t elifs el|sel brs el|x a b stp body|c body|body c| | |].
    - cbn [tstmt] in Ht. cbn [step]. destruct (nth_error G x) as [[|k]|] eqn:Ex; [| |discriminate].
      + rewrite (ev_ref_bool o Hneg G s Hs e Ht), (eval_bool_refines o Hneg G s Hs e Ht).
        destruct (rbool G s e) as [b| |]; cbn [bind]; try reflexivity.
        rewrite (write_rel s x (VBool b) TBool Hs Ex); [reflexivity|]. now exists b.
      + rewrite (ev_ref_int o Hneg G s Hs k e Ht), (eval_int_refines o Hneg G s Hs k e Ht).
        destruct (reval s k e) as [z| |]; cbn [bind]; try reflexivity.
        rewrite (write_rel s x (VInt k z) (TInt k) Hs Ex); [reflexivity|]. now exists z.
    - (* element assignment: both sides evaluate value and index alike; the slot written is declared with the element kind *)
      cbn [tstmt] in Ht. cbn [step]. destruct (var_kind G b0) as [k|] eqn:Ek; [|discriminate].
      apply andb_prop in Ht as [Ht Hte]. apply andb_prop in Ht as [Ht Hti]. apply andb_prop in Ht as [Ht _]. apply andb_prop in Ht as [Harr _].
      rewrite (ev_ref_int o Hneg G s Hs k e Hte), (eval_int_refines o Hneg G s Hs k e Hte).
      destruct (reval s k e) as [z| |]; cbn [bind]; try reflexivity.
      rewrite (ev_ref_int o Hneg G s Hs ki i Hti).
      destruct (eval o s i) as [iv| |]; cbn [bind]; try reflexivity.
      destruct (idx_slot b0 lo n0 iv) as [x| |] eqn:Ex; cbn [bind]; try reflexivity.
      destruct (idx_slot_inv _ _ _ _ _ Ex) as [zi [_ [_ [-> Hj]]]].
      rewrite (write_rel s _ (VInt k z) (TInt k) Hs (arr_ok_nth G b0 n0 k _ Harr Hj)); [reflexivity|]. now exists z.
    - rewrite tstmt_if in Ht. apply andb_prop in Ht as [Ht Hel]. apply andb_prop in Ht as [Ht Helifs]. apply andb_prop in Ht as [Hc Hthen].
      cbn [step]. rewrite (evb_rel s c Hs Hc). destruct (ev_bool (eval o) s c) as [bb| |]; cbn; try reflexivity.
      destruct bb; [now apply (rb_rel t depth s il)|now apply (elifs_rel elifs depth s il el)].
    - rewrite tstmt_case in Ht. apply andb_prop in Ht as [Ht Hel]. apply andb_prop in Ht as [Hsel Hbrs].
      apply existsb_exists in Hsel as [k [_ Hts]]. cbn [step]. rewrite (ev_ref_int o Hneg G s Hs k sel Hts).
      destruct (eval o s sel) as [v| |]; cbn [bind]; try reflexivity. destruct v as [|kv z]; [reflexivity|].
      rewrite Hcase. cbn [o_ref o_case_unsigned]. rewrite !orb_true_r.
      destruct (i64max <? z); [now apply (rb_rel el depth s il)|now apply (case_rel brs depth s z il el)].
    - rewrite tstmt_for in Ht. unfold var_kind in Ht. destruct (nth_error G x) as [[|k]|] eqn:Ex; try discriminate.
      apply andb_prop in Ht as [Ht Hbody]. apply andb_prop in Ht as [Ht Hnk]. apply andb_prop in Ht as [Ht Hstp]. apply andb_prop in Ht as [Ha Hb].
      cbn [step]. rewrite (ev_ref_int o Hneg G s Hs k a Ha), (ev_ref_int o Hneg G s Hs k b Hb), (ev_ref_int o Hneg G s Hs k stp Hstp).
      destruct (eval o s a) as [sv| |]; cbn [bind]; try reflexivity. destruct (eval o s b) as [evv| |]; cbn [bind]; try reflexivity.
      destruct (eval o s stp) as [pv| |]; cbn [bind]; try reflexivity.
      destruct (int_value sv) as [si| |]; cbn [bind]; try reflexivity. destruct (int_value evv) as [ei| |]; cbn [bind]; try reflexivity.
      destruct (int_value pv) as [pi| |]; cbn [bind]; try reflexivity. destruct (pi =? 0); [reflexivity|].
      destruct (store_ok_nth G s x (TInt k) Hs Ex) as [tv [Htv Htok]]. unfold rd. rewrite Htv. cbn [bind].
      destruct tv as [|kt zt]; [discriminate|]. cbn in Htok. apply andb_prop in Htok as [Hkt _]. apply ik_eqb_eq in Hkt. subst kt.
      destruct (negb (is_signed k) && (pi <? 0)); [reflexivity|].
      destruct (coerce_loop (VInt k zt) si) as [c0| |] eqn:Ec; cbn [bind]; try reflexivity.
      apply for_rel; auto. eapply store_ok_upd; [exact Hs|exact Ex|]. eapply coerce_loop_ok; exact Ec.
    - rewrite tstmt_while in Ht. apply andb_prop in Ht as [Hc Hb]. cbn [step]. now apply while_rel.
    - rewrite tstmt_repeat in Ht. apply andb_prop in Ht as [Hb Hc]. cbn [step]. now apply repeat_rel.
    - reflexivity.
    - reflexivity.
    - reflexivity.
  Qed.
End Rel.

(* M refines R on strictly typed programs: same final store, same fault, same exhaustion of fuel *)
Section Programs.
  Variable o : opts.
  Hypothesis Hneg : o_neg_checked o = true.
  Hypothesis Hfor : o_for_checked o = true.
  Hypothesis Hcase : o_case_unsigned o = true.
  Hypothesis Hret : o_return_ok o = true.
  Variable G : env.

  Lemma exec_refines : forall fuel depth s st il, store_ok G s = true -> tstmt true G il st = true -> (il = true -> depth <> 0%nat) ->
    exec_with o_ref (ev_ref G) fuel depth s st = exec_with o (eval o) fuel depth s st.
  Proof.
    induction fuel as [|f IH]; intros depth s st il Hs Ht Hil; [reflexivity|]. cbn [exec_with].
    apply (step_rel o Hneg Hfor Hcase G (exec_with o_ref (ev_ref G) f) (exec_with o (eval o) f)) with (il := il); [ | |exact Hs|exact Ht|exact Hil].
    - intros d s0 st0 il0 H1 H2 H3. apply (exec_sound o true Hneg Hfor (or_intror eq_refl) Hcase G f d s0 st0 il0 H1 H2 H3).
    - intros d s0 st0 il0 H1 H2 H3. now apply (IH d s0 st0 il0).
  Qed.
  Lemma program_refines_l fuel s body : store_ok G s = true -> tprogram true G body = true ->
    run_ref G fuel s body = run_program o fuel s body.
  Proof.
    intros Hs Ht. unfold run_ref, run_program, run_program_with.
    assert (Hb : run_block (exec_with o_ref (ev_ref G) fuel) 0 s body = run_block (exec_with o (eval o) fuel) 0 s body).
    { apply (rb_rel G (exec_with o_ref (ev_ref G) fuel) (exec_with o (eval o) fuel)) with (il := false); [ | |exact Hs|exact Ht|discriminate].
      - intros d s0 st0 il0 H1 H2 H3. apply (exec_sound o true Hneg Hfor (or_intror eq_refl) Hcase G fuel d s0 st0 il0 H1 H2 H3).
      - intros d s0 st0 il0 H1 H2 H3. now apply (exec_refines fuel d s0 st0 il0). }
    rewrite Hb. destruct (run_block (exec_with o (eval o) fuel) 0 s body) as [[s' g]| |]; cbn; try reflexivity.
    destruct g; try reflexivity. now rewrite Hret.
  Qed.
End Programs.
