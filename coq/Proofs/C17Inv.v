(* C17: invariants of the debugger LTS for every schedule. *)
From Coq Require Import List Bool Arith Lia.
From TP Require Import Model.Debug.
Import ListNotations.

Arguments opt_eqb : simpl never.
Definition pend1 (s : dstate) : nat := match d_pending s with Some _ => 1 | None => 0 end.
Definition stop_ok (sp : stop) : Prop :=
  match sp_step sp with
  | None => sp_reason sp <> RStep
  | Some (k, o) => sp_reason sp = RStep /\ match k with KInto => True | KOver => sp_depth sp <= o | KOut => sp_depth sp <= o - 1 end
  end.
Definition step_ok (st : step_state) : Prop :=
  match st_kind st with KInto => True | KOver => st_depth st = st_origin st | KOut => st_depth st = st_origin st - 1 end.

Record Inv (s : dstate) : Prop := {
  i_run : d_mode s = Running -> d_pending s = None /\ g_emitted s = 0;
  i_one : d_mode s = Paused -> g_emitted s + pend1 s = 1 /\ d_step s = None;
  i_parked : d_mode s = Paused -> d_pending s = None -> d_waiting s = true /\ is_target s = true;
  i_wake : d_waiting s = true -> g_notified s = true \/ (d_mode s = Paused /\ is_target s = true /\ d_pending s = None);
  i_depth : d_waiting s = true -> match d_current s with Some t => lookup (d_last_depths s) t = Some (d_last_depth s) | None => True end;
  i_log : Forall stop_ok (d_stops s);
  i_sync : length (d_stops s) = g_mark s + g_emitted s;
  i_pend : d_pending s <> Some RStep;
  i_step : forall st, d_step s = Some st -> step_ok st
}.

Lemma lookup_set_assoc l t d : lookup (set_assoc l t d) t = Some d.
Proof.
  induction l as [|[k v] l IH]; cbn; [now rewrite Nat.eqb_refl|].
  destruct (Nat.eqb t k) eqn:E; cbn; [now rewrite Nat.eqb_refl | now rewrite E].
Qed.

Ltac brk := repeat match goal with
  | |- context[match ?x with _ => _ end] => destruct x eqn:?; cbn in *; try discriminate
  | H : context[match ?x with _ => _ end] |- _ => destruct x eqn:?; cbn in *; try discriminate
  end.

Lemma inv_init : Inv d_init.
Proof. split; cbn; intros; try discriminate; auto. Qed.

Ltac fin := cbn in *; unfold pend1, is_target in *; cbn in *; intros; try discriminate;
  try solve [intuition (try congruence; try lia; eauto)].
Ltac use_inv :=
  repeat match goal with
  | H : ?a = ?a -> _ |- _ => specialize (H eq_refl)
  | H : _ /\ _ |- _ => destruct H
  end.

Lemma inv_act s a : Inv s -> Inv (fst (apply_action s a)).
Proof.
  intros [I1 I2 I3 I4 I5 I6 I8 I9 I7].
  destruct s as [m p stp tg cur ld lds stops w em nt lg]; cbn in *.
  destruct a as [t| |t|t|t]; cbn; try destruct m; cbn; use_inv; subst; split; fin.
  all: try (inversion H; subst; cbn; auto; reflexivity).
  all: try (inversion H0; subst; cbn; auto; reflexivity).
Qed.

Lemma inv_entry s : Inv s -> Inv (pause_entry s).
Proof.
  intros [I1 I2 I3 I4 I5 I6 I8 I9 I7].
  destruct s as [m p stp tg cur ld lds stops w em nt lg]; cbn in *.
  unfold pause_entry; cbn. destruct m; cbn; use_inv; subst; split; fin.
Qed.

Lemma inv_setthread s t : d_waiting s = false -> Inv s -> Inv (step s (LSetThread t)).
Proof.
  intros Hw [I1 I2 I3 I4 I5 I6 I8 I9 I7].
  destruct s as [m p stp tg cur ld lds stops w em nt lg]; cbn in *. subst w.
  split; fin.
Qed.

Lemma inv_wake s : d_waiting s = true -> Inv s -> Inv (step s (LWake (d_last_depth s))).
Proof.
  intros Hw [I1 I2 I3 I4 I5 I6 I8 I9 I7].
  destruct s as [m p stp tg cur ld lds stops w em nt lg]; cbn in *. subst w.
  unfold loop_turn, consume_pending, is_target in *; cbn in *.
  destruct m; cbn; use_inv; subst; [split; fin|].
  destruct tg as [tg|]; cbn in *; [destruct (opt_eqb (Some tg) cur) eqn:Et; cbn in *|];
    destruct p as [r|]; cbn in *; split; fin; rewrite ?Et; fin.
  all: constructor; [unfold stop_ok; cbn; congruence | assumption].
Qed.

Lemma inv_hook s d bp hl : d_waiting s = false -> Inv s -> Inv (hook s d bp hl).
Proof.
  intros Hw [I1 I2 I3 I4 I5 I6 I8 I9 I7].
  destruct s as [m p stp tg cur ld lds stops w em nt lg]; cbn in *. subst w.
  assert (L : match cur with Some t => lookup (match cur with Some t => set_assoc lds t d | None => lds end) t = Some d | None => True end)
    by (destruct cur; [apply lookup_set_assoc|exact I]).
  unfold hook, loop_turn, consume_pending, enter_hook, is_target, step_key_ok, should_stop in *; cbn in *.
  remember (match cur with Some t => set_assoc lds t d | None => lds end) as lds' eqn:El. clear El.
  destruct m; cbn in *; use_inv; subst.
  - (* Running *)
    destruct tg as [tg|]; cbn in *; [destruct (opt_eqb (Some tg) cur) eqn:Et; cbn in *|].
    all: destruct hl; cbn in *.
    all: try (destruct stp as [[k kd sd [|] so]|]; cbn in *).
    all: try (destruct (match cur with Some t => Nat.eqb t k | None => false end || Nat.eqb k 0) eqn:Ek; cbn in *).
    all: try (destruct kd; cbn in *).
    all: try (destruct (Nat.leb d sd) eqn:Eleb; cbn in *).
    all: destruct bp; cbn in *; rewrite ?Et; cbn in *.
    all: split; fin; rewrite ?Et; fin.
    all: try (match goal with H : Some _ = Some _ |- _ => inversion H; subst; clear H end; specialize (I7 _ eq_refl); unfold step_ok in *; cbn in *; fin).
    all: try (constructor; [|assumption]; try specialize (I7 _ eq_refl); unfold step_ok, stop_ok in *; cbn in *; try apply Nat.leb_le in Eleb; fin).
  - (* Paused *)
    destruct p as [r|]; cbn in *; [|exfalso; destruct (I3 eq_refl); discriminate].
    destruct tg as [tg|]; cbn in *; [destruct (opt_eqb (Some tg) cur) eqn:Et; cbn in *|].
    all: destruct hl, bp; cbn in *; rewrite ?Et; cbn in *.
    all: split; fin; rewrite ?Et; fin.
    all: constructor; [unfold stop_ok; cbn; congruence | assumption].
Qed.

