From Coq Require Import ZArith List Bool Lia.
From TP Require Import Model.Restart.
Import ListNotations.
Open Scope Z_scope.

Lemma reinit_length : forall w ms cur, length (reinit w ms cur) = length ms.
Proof. induction ms as [|m ms IH]; intros [|v cur]; cbn; try reflexivity; rewrite IH; reflexivity. Qed.
(* warm keeps exactly the retained variables; everything else gets its declared initial value *)
Lemma reinit_nth : forall w ms cur i m, nth_error ms i = Some m -> length cur = length ms ->
  nth i (reinit w ms cur) 0 = if w && m_retain m then nth i cur 0 else m_init m.
Proof.
  induction ms as [|m0 ms IH]; intros [|v cur] i m Hm Hl; destruct i; cbn in *; try discriminate.
  - injection Hm as <-. reflexivity.
  - apply IH; [exact Hm | lia].
Qed.
Lemma reinit_cold : forall ms cur, reinit false ms cur = inits ms.
Proof. induction ms as [|m ms IH]; intros [|v cur]; cbn; try reflexivity; rewrite IH; reflexivity. Qed.

Lemma nth_set_nth_same {A} : forall (l : list A) i x d, (i < length l)%nat -> nth i (set_nth l i x) d = x.
Proof. induction l as [|y l IH]; intros [|i] x d H; cbn in *; try lia; [reflexivity | apply IH; lia]. Qed.
Lemma nth_set_nth_other {A} : forall (l : list A) i j x d, i <> j -> nth j (set_nth l i x) d = nth j l d.
Proof. induction l as [|y l IH]; intros [|i] [|j] x d H; cbn; try reflexivity; try lia. apply IH. lia. Qed.
Lemma length_set_nth {A} : forall (l : list A) i x, length (set_nth l i x) = length l.
Proof. induction l as [|y l IH]; intros [|i] x; cbn; try reflexivity. rewrite IH. reflexivity. Qed.

(* ---- in-place restart: instance ids never change, so bindings stay connected ---- *)
Lemma restart_progs_in_place_pinst : forall w progs p heap pinst,
  snd (restart_progs true w progs p heap pinst) = pinst.
Proof. induction progs as [|ms progs IH]; intros p heap pinst; cbn; [reflexivity | apply IH]. Qed.
Lemma restart_in_place_pinst c w s : c_in_place c = true -> r_pinst (restart c w s) = r_pinst s.
Proof.
  intro H. unfold restart. rewrite H.
  pose proof (restart_progs_in_place_pinst w (c_progs c) 0 (r_heap s) (r_pinst s)) as P.
  destruct (restart_progs true w (c_progs c) 0 (r_heap s) (r_pinst s)) as [heap pinst]. exact P.
Qed.

Section Reach.
  Variable body : nat -> list Z -> list Z -> list Z * list Z.
  Variable c : cfg.
  Hypothesis Hin : c_in_place c = true.

  Lemma run_progs_pinst_heaplen : forall n p g heap pinst,
    length (snd (run_progs body n p g heap pinst)) = length heap.
  Proof.
    induction n as [|n IH]; intros p g heap pinst; cbn; [reflexivity|].
    destruct (body p g (nth (nth p pinst 0%nat) heap [])) as [g' v']. rewrite IH. apply length_set_nth.
  Qed.
  Lemma step_pinst s o : r_pinst s = r_pinst (fresh c) -> r_pinst (step body c s o) = r_pinst (fresh c).
  Proof.
    intro H. destruct o as [dt|i v|p i v|w| |]; cbn [step]; try exact H.
    - unfold cycle. destruct (r_faulted s); [exact H|].
      destruct (run_progs body (length (c_progs c)) 0 (r_g s) (r_heap s) (r_pinst s)). exact H.
    - rewrite restart_in_place_pinst by exact Hin. exact H.
    - reflexivity.
  Qed.
  (* after ANY history the reference a binding resolved at build time is the program's instance *)
  Lemma bindings_connected ops : r_pinst (run body c ops) = r_pinst (fresh c).
  Proof.
    unfold run. assert (G : forall s, r_pinst s = r_pinst (fresh c) -> r_pinst (fold_left (step body c) ops s) = r_pinst (fresh c)).
    { induction ops as [|o ops IH]; intros s H; [exact H|]. cbn. apply IH. apply step_pinst. exact H. }
    apply G. reflexivity.
  Qed.
  Lemma binding_reads_variable ops p i : (p < length (c_progs c))%nat ->
    read_binding (run body c ops) p i = read_var (run body c ops) p i.
  Proof.
    intro Hp. unfold read_binding, read_var, inst_vars. rewrite bindings_connected. cbn [fresh r_pinst].
    rewrite seq_nth by exact Hp. reflexivity.
  Qed.
End Reach.

(* allocating new instances on restart disconnects the bindings (the code before the repair) *)
Lemma new_instances_disconnect :
  let c := {| c_globals := []; c_progs := [[{| m_retain := false; m_init := 0 |}]]; c_bindings := [(0%nat, 0%nat)];
              c_in_place := false; c_progs_in_store := true |} in
  let body := fun (_ : nat) (g v : list Z) => (g, map (fun x => x + 1) v) in
  let s := run body c [OCycle 0; OCycle 0; ORestart false; OCycle 0] in
  read_var s 0 0 = 1 /\ read_binding s 0 0 = 2 /\ r_out s = [2] /\ r_out (run body c [OCycle 0]) = [1].
Proof. repeat split; vm_compute; reflexivity. Qed.

(* ---- cold restart = fresh start (variables, instance ids, time, cycle count, fault latch) ---- *)
Lemma restart_progs_cold_in_place : forall progs p heap pinst,
  (forall q, (q < length progs)%nat -> nth (p + q) pinst 0%nat = (p + q)%nat) -> (p + length progs <= length heap)%nat ->
  fst (restart_progs true false progs p heap pinst) =
  firstn p heap ++ map inits progs ++ skipn (p + length progs) heap.
Proof.
  induction progs as [|ms progs IH]; intros p heap pinst Hp Hl.
  - cbn. rewrite Nat.add_0_r. symmetry. apply firstn_skipn.
  - cbn [restart_progs length map]. rewrite reinit_cold.
    assert (Hpp : nth p pinst 0%nat = p) by (specialize (Hp 0%nat ltac:(cbn; lia)); rewrite Nat.add_0_r in Hp; exact Hp).
    rewrite Hpp. rewrite IH.
    + cbn [length] in Hl.
      assert (E1 : firstn (S p) (set_nth heap p (inits ms)) = firstn p heap ++ [inits ms]).
      { clear -Hl. revert heap Hl. induction p as [|p IHp]; intros [|h heap] Hl; cbn in *; try lia; [reflexivity|].
        rewrite IHp by lia. reflexivity. }
      assert (E2 : skipn (S p + length progs) (set_nth heap p (inits ms)) = skipn (S p + length progs) heap).
      { clear. revert heap. induction p as [|p IHp]; intros [|h heap]; cbn; try reflexivity. apply IHp. }
      rewrite E1, E2, <- app_assoc. cbn [app]. replace (p + S (length progs))%nat with (S p + length progs)%nat by lia. reflexivity.
    + intros q Hq. replace (S p + q)%nat with (p + S q)%nat by lia. apply Hp. cbn. lia.
    + rewrite length_set_nth. cbn in Hl. lia.
Qed.

Lemma cold_restart_is_fresh c s :
  c_in_place c = true -> r_pinst s = r_pinst (fresh c) -> length (r_heap s) = length (c_progs c) ->
  restart c false s = {| r_g := r_g (fresh c); r_heap := r_heap (fresh c); r_pinst := r_pinst (fresh c);
                         r_out := r_out s; r_time := 0; r_cycles := 0; r_faulted := false |}.
Proof.
  intros Hin Hp Hl. unfold restart. rewrite Hin.
  pose proof (restart_progs_cold_in_place (c_progs c) 0 (r_heap s) (r_pinst s)) as H.
  pose proof (restart_progs_in_place_pinst false (c_progs c) 0 (r_heap s) (r_pinst s)) as Hq.
  destruct (restart_progs true false (c_progs c) 0 (r_heap s) (r_pinst s)) as [heap pinst]. cbn [fst snd] in *.
  rewrite reinit_cold. subst pinst. f_equal; [|exact Hp].
  rewrite H.
  - cbn [firstn app]. rewrite Nat.add_0_l, <- Hl, skipn_all, app_nil_r. reflexivity.
  - intros q Hq'. rewrite Hp. cbn [fresh r_pinst]. rewrite seq_nth by exact Hq'. reflexivity.
  - lia.
Qed.

(* ---- restart resets time, cycle counter and the fault latch, in both modes ---- *)
Lemma restart_resets c w s : r_time (restart c w s) = 0 /\ r_cycles (restart c w s) = 0 /\ r_faulted (restart c w s) = false.
Proof. unfold restart. destruct (restart_progs _ _ _ _ _ _). repeat split. Qed.

(* ---- warm restart: globals ---- *)
Lemma warm_globals c s i m : nth_error (c_globals c) i = Some m -> length (r_g s) = length (c_globals c) ->
  nth i (r_g (restart c true s)) 0 = if m_retain m then nth i (r_g s) 0 else m_init m.
Proof.
  intros Hm Hl. unfold restart. destruct (restart_progs _ _ _ _ _ _). cbn [r_g].
  rewrite (reinit_nth true _ _ i m Hm Hl). reflexivity.
Qed.
Lemma cold_globals c s : r_g (restart c false s) = inits (c_globals c).
Proof. unfold restart. destruct (restart_progs _ _ _ _ _ _). cbn. apply reinit_cold. Qed.

(* ---- warm restart of a single-program configuration: program variables ---- *)
Lemma warm_program_vars ms gl b ps s i m :
  let c := {| c_globals := gl; c_progs := [ms]; c_bindings := b; c_in_place := true; c_progs_in_store := ps |} in
  r_pinst s = [0%nat] -> (exists v0 rest, r_heap s = v0 :: rest /\ length v0 = length ms) ->
  nth_error ms i = Some m ->
  read_var (restart c true s) 0 i = if m_retain m then read_var s 0 i else m_init m.
Proof.
  intros c Hp [v0 [rest [Hh Hl]]] Hm. unfold read_var, inst_vars, restart. cbn [c_in_place c_progs c restart_progs].
  rewrite Hp, Hh. cbn [nth set_nth r_pinst r_heap]. rewrite (reinit_nth true ms v0 i m Hm Hl). reflexivity.
Qed.

(* ---- power cycle = warm restart, when the store covers program variables too ---- *)
Lemma apply_retained : forall ms cur, length cur = length ms ->
  apply_opt (retained ms cur) (inits ms) = reinit true ms cur.
Proof.
  induction ms as [|m ms IH]; intros [|v cur] Hl; cbn in *; try discriminate; [reflexivity|].
  destruct (m_retain m); cbn; rewrite IH by lia; reflexivity.
Qed.
Lemma power_cycle_globals c s : length (r_g s) = length (c_globals c) ->
  r_g (power_cycle c s) = r_g (restart c true s).
Proof.
  intro Hl. unfold power_cycle, apply_snapshot, take_snapshot, restart. destruct (restart_progs _ _ _ _ _ _). cbn.
  apply apply_retained. exact Hl.
Qed.
Lemma power_cycle_program_vars ms gl b s :
  let c := {| c_globals := gl; c_progs := [ms]; c_bindings := b; c_in_place := true; c_progs_in_store := true |} in
  r_pinst s = [0%nat] -> (exists v0 rest, r_heap s = v0 :: rest /\ length v0 = length ms) ->
  inst_vars (power_cycle c s) 0 = inst_vars (restart c true s) 0.
Proof.
  intros c Hp [v0 [rest [Hh Hl]]]. unfold power_cycle, apply_snapshot, take_snapshot, restart, inst_vars.
  cbn [c c_progs_in_store c_progs c_in_place length seq map restart_progs fresh r_pinst r_heap nth apply_progs sn_p].
  rewrite Hp, Hh. cbn [nth set_nth]. apply apply_retained. exact Hl.
Qed.
(* a store that covers globals only loses program-level RETAIN variables on a power cycle *)
Lemma globals_only_store_loses_program_retain :
  let c := {| c_globals := []; c_progs := [[{| m_retain := true; m_init := 0 |}]]; c_bindings := [];
              c_in_place := true; c_progs_in_store := false |} in
  let body := fun (_ : nat) (g v : list Z) => (g, map (fun x => x + 1) v) in
  let s := run body c [OCycle 0; OCycle 0] in
  read_var (restart c true s) 0 0 = 2 /\ read_var (power_cycle c s) 0 0 = 0.
Proof. split; vm_compute; reflexivity. Qed.

Lemma c09_nonvacuous_l :
  let c := {| c_globals := [{| m_retain := true; m_init := 3 |}; {| m_retain := false; m_init := 4 |}];
              c_progs := [[{| m_retain := true; m_init := 1 |}; {| m_retain := false; m_init := 2 |}]];
              c_bindings := [(0%nat, 1%nat)]; c_in_place := true; c_progs_in_store := true |} in
  let body := fun (_ : nat) (g v : list Z) => (map (fun x => x + 1) g, map (fun x => x + 10) v) in
  let s := run body c [OCycle 5; OCycle 5] in
  r_g s = [5; 6] /\ inst_vars s 0 = [21; 22] /\ r_out s = [22] /\
  r_g (restart c true s) = [5; 4] /\ inst_vars (restart c true s) 0 = [21; 2] /\
  r_pinst s = r_pinst (fresh c) /\ length (r_heap s) = length (c_progs c).
Proof. repeat split; vm_compute; reflexivity. Qed.

(* ---- event tasks ---- *)
From TP Require Import Model.RestartTasks.
Lemma restart_recreates_task_state s : ev_step false false s ERestart = ev_fresh.
Proof. reflexivity. Qed.
(* hence after a restart every later input trace drives the event task exactly as on a freshly built runtime *)
Lemma restarted_event_task_is_fresh s ops : ev_run false (ev_step false false s ERestart) ops = ev_run false ev_fresh ops.
Proof. reflexivity. Qed.
Lemma stale_latch_swallows_edge :
  let s := ev_run true ev_fresh [ESetTrig true; ECycle; ERestart; ESetTrig true; ECycle] in
  let f := ev_run true ev_fresh [ESetTrig true; ECycle] in
  e_count s = 0 /\ e_count f = 1.
Proof. vm_compute. auto. Qed.

(* ---- periodic tasks ---- *)
Lemma restart_recreates_periodic_state iv f now s : per_step false iv f now s ERestart = per_fresh.
Proof. reflexivity. Qed.
Lemma restarted_periodic_task_is_fresh iv f now s tr : per_run false iv (per_step false iv f now s ERestart) tr = per_run false iv per_fresh tr.
Proof. now rewrite restart_recreates_periodic_state. Qed.
(* keeping last_run across the clock rewind stalls the task: 20 ms of cycles run it twice on a fresh runtime, never after such a restart *)
Lemma kept_last_run_is_not_fresh :
  let iv := 10000000 in
  let before := [(false, 10000000, ECycle); (false, 20000000, ECycle); (false, 30000000, ECycle)] in
  let after := [(false, 10000000, ECycle); (false, 20000000, ECycle)] in
  p_count (per_run true iv (per_step true iv false 0 (per_run true iv per_fresh before) ERestart) after) = 0 /\
  p_count (per_run true iv per_fresh after) = 2 /\
  p_count (per_run false iv (per_step false iv false 0 (per_run false iv per_fresh before) ERestart) after) = 2.
Proof. vm_compute. repeat split; reflexivity. Qed.
