(* Frame property of statements and of inlined function-block calls: a statement changes only the variables it can write. *)
From Coq Require Import ZArith List Bool Arith Lia.
From TP Require Import Model.StCore Model.StCalls.
Import ListNotations.

Lemma bind_ok {A B} (r : res A) (k : A -> res B) y : bind r k = Ok y -> exists a, r = Ok a /\ k a = Ok y.
Proof. destruct r as [a| |]; cbn; intros H; [exists a; split; [reflexivity|exact H] | discriminate | discriminate]. Qed.

Lemma nth_upd_other : forall s x v y, x <> y -> nth_error (upd s x v) y = nth_error s y.
Proof.
  induction s as [|a s IH]; intros x v y H; destruct x; cbn; try reflexivity.
  - destruct y; [congruence|reflexivity].
  - destruct y; [reflexivity|]. cbn. apply IH. congruence.
Qed.
Lemma length_upd : forall s x v, length (upd s x v) = length s.
Proof. induction s as [|a s IH]; intros x v; destruct x; cbn; try reflexivity. now rewrite IH. Qed.

(* a computed element slot lies inside the array *)
Lemma idx_slot_in b lo n iv x : idx_slot b lo n iv = Ok x -> exists j, (j < n)%nat /\ x = (b + j)%nat.
Proof.
  unfold idx_slot. intros H. apply bind_ok in H as [z [_ H]].
  destruct ((z <? lo) || (lo + Z.of_nat n - 1 <? z))%Z eqn:E; [discriminate|]. injection H as <-.
  apply orb_false_iff in E as [E1 E2]. apply Z.ltb_ge in E1, E2.
  exists (Z.to_nat (z - lo)). split; [lia | reflexivity].
Qed.
Lemma wr_idx_slot P b lo n ki i e j : wr P (SAssignIdx b lo n ki i e) = true -> (j < n)%nat -> P (b + j)%nat = true.
Proof.
  cbn [wr]. intros H Hj. apply (proj1 (forallb_forall _ _) H j). apply in_seq. lia.
Qed.

(* wr's local block checker is wr_block *)
Lemma wb_local P : forall b,
  (fix wb (l : list stmt) : bool := match l with [] => true | s1 :: l' => wr P s1 && wb l' end) b = wr_block P b.
Proof. induction b as [|s1 b IH]; [reflexivity|]. cbn [wr_block]. rewrite <- IH. reflexivity. Qed.
Fixpoint welifs (P : nat -> bool) (l : list (expr * list stmt)) : bool :=
  match l with [] => true | (_, blk) :: l' => wr_block P blk && welifs P l' end.
Fixpoint wbranches (P : nat -> bool) (l : list (list label * list stmt)) : bool :=
  match l with [] => true | (_, blk) :: l' => wr_block P blk && wbranches P l' end.
Lemma wr_if P c t elifs el : wr P (SIf c t elifs el) = wr_block P t && welifs P elifs && wr_block P el.
Proof.
  cbn [wr]. rewrite !wb_local. f_equal. f_equal.
  induction elifs as [|[c' b] l IH]; [reflexivity|]. cbn [welifs]. rewrite wb_local, IH. reflexivity.
Qed.
Lemma wr_case P sel brs el : wr P (SCase sel brs el) = wbranches P brs && wr_block P el.
Proof.
  cbn [wr]. rewrite !wb_local. f_equal.
  induction brs as [|[ls b] l IH]; [reflexivity|]. cbn [wbranches]. rewrite wb_local, IH. reflexivity.
Qed.
Lemma wr_for P x a b st body : wr P (SFor x a b st body) = P x && wr_block P body.
Proof. cbn [wr]. rewrite wb_local. reflexivity. Qed.
Lemma wr_while P c body : wr P (SWhile c body) = wr_block P body.
Proof. cbn [wr]. rewrite wb_local. reflexivity. Qed.
Lemma wr_repeat P body c : wr P (SRepeat body c) = wr_block P body.
Proof. cbn [wr]. rewrite wb_local. reflexivity. Qed.

Section Frame.
  Variable P : nat -> bool.
  Definition agree (s s' : store) : Prop := forall y, P y = false -> nth_error s' y = nth_error s y.
  Lemma agree_refl s : agree s s. Proof. intros y _. reflexivity. Qed.
  Lemma agree_trans a b c : agree a b -> agree b c -> agree a c.
  Proof. intros H1 H2 y Hy. rewrite (H2 y Hy). apply H1. exact Hy. Qed.
  Lemma agree_upd s x v : P x = true -> agree s (upd s x v).
  Proof. intros Hx y Hy. apply nth_upd_other. intro E. subst. congruence. Qed.
  Lemma write_agree o s x v s' : P x = true -> write o s x v = Ok s' -> agree s s'.
  Proof.
    intros Hx H. unfold write in H. apply bind_ok in H as [t [_ H]]. apply bind_ok in H as [v' [_ H]].
    injection H as <-. apply agree_upd. exact Hx.
  Qed.

  Variable o : opts.
  Variable ev : store -> expr -> res value.
  Variable ex : nat -> store -> stmt -> res (store * signal).
  Hypothesis ex_frame : forall depth s st r, wr P st = true -> ex depth s st = Ok r -> agree s (fst r).

  Lemma run_block_frame : forall b depth s r, wr_block P b = true -> run_block ex depth s b = Ok r -> agree s (fst r).
  Proof.
    induction b as [|st1 b IH]; intros depth s r Hw H; cbn [run_block] in H.
    - injection H as <-. apply agree_refl.
    - cbn [wr_block] in Hw. apply andb_prop in Hw as [Hw1 Hwb]. apply bind_ok in H as [r1 [H1 H]].
      pose proof (ex_frame _ _ _ _ Hw1 H1) as A1.
      destruct (snd r1); [eapply agree_trans; [exact A1|]; eapply IH; eassumption | | |]; injection H as <-; exact A1.
  Qed.
  Lemma run_elifs_frame : forall l depth s el r, welifs P l = true -> wr_block P el = true ->
    run_elifs ev ex depth s l el = Ok r -> agree s (fst r).
  Proof.
    induction l as [|[c blk] l IH]; intros depth s el r Hl Hel H; cbn [run_elifs] in H.
    - exact (run_block_frame _ _ _ _ Hel H).
    - cbn [welifs] in Hl. apply andb_prop in Hl as [Hb Hl]. apply bind_ok in H as [b [_ H]].
      destruct b; [exact (run_block_frame _ _ _ _ Hb H) | exact (IH _ _ _ _ Hl Hel H)].
  Qed.
  Lemma run_case_frame : forall l depth s z el r, wbranches P l = true -> wr_block P el = true ->
    run_case ex depth s z l el = Ok r -> agree s (fst r).
  Proof.
    induction l as [|[ls blk] l IH]; intros depth s z el r Hl Hel H; cbn [run_case] in H.
    - exact (run_block_frame _ _ _ _ Hel H).
    - cbn [wbranches] in Hl. apply andb_prop in Hl as [Hb Hl].
      destruct (existsb _ ls); [exact (run_block_frame _ _ _ _ Hb H) | exact (IH _ _ _ _ _ Hl Hel H)].
  Qed.
  Lemma while_frame : forall n depth c body s r, wr_block P body = true -> while_loop ev ex n depth c body s = Ok r -> agree s (fst r).
  Proof.
    induction n as [|n IH]; intros depth c body s r Hb H; [discriminate|]. cbn [while_loop] in H.
    apply bind_ok in H as [b [_ H]]. destruct b; cbn [negb] in H; [|injection H as <-; apply agree_refl].
    apply bind_ok in H as [r1 [H1 H]]. pose proof (run_block_frame _ _ _ _ Hb H1) as A1.
    destruct (snd r1); try (injection H as <-; exact A1); (eapply agree_trans; [exact A1|]; eapply IH; eassumption).
  Qed.
  Lemma repeat_frame : forall n depth body c s r, wr_block P body = true -> repeat_loop ev ex n depth body c s = Ok r -> agree s (fst r).
  Proof.
    induction n as [|n IH]; intros depth body c s r Hb H; [discriminate|]. cbn [repeat_loop] in H.
    apply bind_ok in H as [r1 [H1 H]]. pose proof (run_block_frame _ _ _ _ Hb H1) as A1.
    destruct (snd r1); try (injection H as <-; exact A1);
      (apply bind_ok in H as [b [_ H]]; destruct b; [injection H as <-; exact A1 | eapply agree_trans; [exact A1|]; eapply IH; eassumption]).
  Qed.
  Lemma for_frame : forall n depth x template ei pi body s cur r, P x = true -> wr_block P body = true ->
    for_loop o ex n depth x template ei pi body s cur = Ok r -> agree s (fst r).
  Proof.
    induction n as [|n IH]; intros depth x template ei pi body s cur r Hx Hb H; [discriminate|]. cbn [for_loop] in H.
    destruct (_ || _); [injection H as <-; apply agree_refl|].
    apply bind_ok in H as [r1 [H1 H]]. pose proof (run_block_frame _ _ _ _ Hb H1) as A1.
    assert (Hnext : (let next := (cur + pi)%Z in
       if ((next <? - 2 ^ 63) || (i64max <? next))%Z then (if o_for_checked o then Fault FOverflow else Fault FPanic)
       else c <- coerce_loop template next;; for_loop o ex n depth x template ei pi body (upd (fst r1) x c) next) = Ok r -> agree s (fst r)).
    { cbn zeta. intros H'. destruct (_ || _); [destruct (o_for_checked o); discriminate|].
      apply bind_ok in H' as [c [_ H']]. eapply agree_trans; [exact A1|]. eapply agree_trans; [apply (agree_upd (fst r1) x c Hx)|].
      eapply IH; eassumption. }
    destruct (snd r1); [exact (Hnext H) | injection H as <-; exact A1 | exact (Hnext H) | injection H as <-; exact A1].
  Qed.

  Lemma step_frame n depth s st r : wr P st = true -> step o ev ex n depth s st = Ok r -> agree s (fst r).
  Proof.
    intros Hw H. destruct st as [x e|b0 lo n0 ki i e|c t elifs el|sel brs el|x a b stp body|c body|body c| | |]; cbn [step] in H.
    - cbn [wr] in Hw. apply bind_ok in H as [v [_ H]]. apply bind_ok in H as [s' [Hwr H]]. injection H as <-. cbn [fst].
      eapply write_agree; eassumption.
    - apply bind_ok in H as [v [_ H]]. apply bind_ok in H as [iv [_ H]]. apply bind_ok in H as [x [Hx H]].
      apply bind_ok in H as [s' [Hwr H]]. injection H as <-. cbn [fst].
      destruct (idx_slot_in _ _ _ _ _ Hx) as [j [Hj ->]].
      eapply write_agree; [exact (wr_idx_slot P b0 lo n0 ki i e j Hw Hj) | exact Hwr].
    - rewrite wr_if in Hw. apply andb_prop in Hw as [Hw Hel]. apply andb_prop in Hw as [Ht Helifs].
      apply bind_ok in H as [b [_ H]]. destruct b; [exact (run_block_frame _ _ _ _ Ht H) | exact (run_elifs_frame _ _ _ _ _ Helifs Hel H)].
    - rewrite wr_case in Hw. apply andb_prop in Hw as [Hbrs Hel].
      apply bind_ok in H as [v [_ H]]. destruct v as [|k z]; [discriminate|].
      destruct (is_signed k || o_case_unsigned o); [|discriminate].
      destruct (i64max <? z)%Z; [exact (run_block_frame _ _ _ _ Hel H) | exact (run_case_frame _ _ _ _ _ _ Hbrs Hel H)].
    - rewrite wr_for in Hw. apply andb_prop in Hw as [Hx Hbody].
      apply bind_ok in H as [sv [_ H]]. apply bind_ok in H as [evv [_ H]]. apply bind_ok in H as [pv [_ H]].
      apply bind_ok in H as [si [_ H]]. apply bind_ok in H as [ei [_ H]]. apply bind_ok in H as [pi [_ H]].
      destruct (pi =? 0)%Z; [discriminate|]. apply bind_ok in H as [template [_ H]].
      destruct template as [|k z]; [discriminate|]. destruct (negb (is_signed k) && (pi <? 0)%Z); [discriminate|].
      apply bind_ok in H as [c0 [_ H]]. eapply agree_trans; [apply (agree_upd s x c0 Hx)|]. eapply for_frame; eassumption.
    - rewrite wr_while in Hw. eapply while_frame; eassumption.
    - rewrite wr_repeat in Hw. eapply repeat_frame; eassumption.
    - destruct (Nat.eqb depth 0); [discriminate|]. injection H as <-. apply agree_refl.
    - destruct (Nat.eqb depth 0); [discriminate|]. injection H as <-. apply agree_refl.
    - injection H as <-. apply agree_refl.
  Qed.
End Frame.

(* every reachable result of the interpreter (any fuel): only writable variables change *)
Lemma exec_frame P o ev : forall fuel depth s st r, wr P st = true -> exec_with o ev fuel depth s st = Ok r -> agree P s (fst r).
Proof.
  induction fuel as [|f IH]; intros depth s st r Hw H; [discriminate|]. cbn [exec_with] in H.
  eapply step_frame; [|exact Hw|exact H]. intros d s0 st0 r0 Hw0 H0. eapply IH; eassumption.
Qed.
Lemma block_frame P o ev fuel : forall b depth s r, wr_block P b = true -> run_block (exec_with o ev fuel) depth s b = Ok r -> agree P s (fst r).
Proof. intros b depth s r Hw H. eapply run_block_frame; [|exact Hw|exact H]. intros d s0 st0 r0 Hw0 H0. eapply exec_frame; eassumption. Qed.
Lemma program_frame P o ev fuel s body s' : wr_block P body = true -> run_program_with o ev fuel s body = Ok s' -> agree P s s'.
Proof.
  intros Hw H. unfold run_program_with in H. apply bind_ok in H as [r [H1 H]].
  pose proof (block_frame P o ev fuel body 0 s r Hw H1) as A.
  destruct (snd r); [injection H as <-; exact A | discriminate | discriminate | destruct (o_return_ok o); [injection H as <-; exact A | discriminate]].
Qed.

(* ---- structural induction over the nested statement type ---- *)
Local Open Scope nat_scope.
Section StmtInd.
  Variable Q : stmt -> Prop.
  Hypothesis Hassign : forall x e, Q (SAssign x e).
  Hypothesis Hassignidx : forall b lo n ki i e, Q (SAssignIdx b lo n ki i e).
  Hypothesis Hif : forall c t elifs el, Forall Q t -> Forall (fun p => Forall Q (snd p)) elifs -> Forall Q el -> Q (SIf c t elifs el).
  Hypothesis Hcase : forall sel brs el, Forall (fun p => Forall Q (snd p)) brs -> Forall Q el -> Q (SCase sel brs el).
  Hypothesis Hfor : forall x a b c body, Forall Q body -> Q (SFor x a b c body).
  Hypothesis Hwhile : forall c body, Forall Q body -> Q (SWhile c body).
  Hypothesis Hrepeat : forall body c, Forall Q body -> Q (SRepeat body c).
  Hypothesis Hexit : Q SExit.
  Hypothesis Hcont : Q SContinue.
  Hypothesis Hret : Q SReturn.
  Fixpoint stmt_nested_ind (st : stmt) : Q st :=
    let fb := fix fb (l : list stmt) : Forall Q l :=
      match l with [] => Forall_nil Q | s1 :: l' => Forall_cons s1 (stmt_nested_ind s1) (fb l') end in
    match st with
    | SAssign x e => Hassign x e
    | SAssignIdx b lo n ki i e => Hassignidx b lo n ki i e
    | SIf c t elifs el =>
        Hif c t elifs el (fb t)
          ((fix fe (l : list (expr * list stmt)) : Forall (fun p => Forall Q (snd p)) l :=
              match l with [] => Forall_nil _ | p :: l' => Forall_cons p (fb (snd p)) (fe l') end) elifs)
          (fb el)
    | SCase sel brs el =>
        Hcase sel brs el
          ((fix fc (l : list (list label * list stmt)) : Forall (fun p => Forall Q (snd p)) l :=
              match l with [] => Forall_nil _ | p :: l' => Forall_cons p (fb (snd p)) (fc l') end) brs)
          (fb el)
    | SFor x a b c body => Hfor x a b c body (fb body)
    | SWhile c body => Hwhile c body (fb body)
    | SRepeat body c => Hrepeat body c (fb body)
    | SExit => Hexit | SContinue => Hcont | SReturn => Hret
    end.
End StmtInd.

(* shift's local block function is shift_block *)
Lemma sb_local b : forall l,
  (fix sb (l : list stmt) : list stmt := match l with [] => [] | s1 :: l' => shift_stmt b s1 :: sb l' end) l = shift_block b l.
Proof. induction l as [|s1 l IH]; [reflexivity|]. cbn [shift_block]. rewrite <- IH. reflexivity. Qed.
Fixpoint selifs (b : nat) (l : list (expr * list stmt)) : list (expr * list stmt) :=
  match l with [] => [] | (c', blk) :: l' => (shift_expr b c', shift_block b blk) :: selifs b l' end.
Fixpoint sbranches (b : nat) (l : list (list label * list stmt)) : list (list label * list stmt) :=
  match l with [] => [] | (ls, blk) :: l' => (ls, shift_block b blk) :: sbranches b l' end.
Lemma shift_if b c t elifs el : shift_stmt b (SIf c t elifs el) = SIf (shift_expr b c) (shift_block b t) (selifs b elifs) (shift_block b el).
Proof.
  cbn [shift_stmt]. rewrite !sb_local. f_equal.
  induction elifs as [|[c' blk] l IH]; [reflexivity|]. cbn [selifs]. rewrite sb_local, IH. reflexivity.
Qed.
Lemma shift_case b sel brs el : shift_stmt b (SCase sel brs el) = SCase (shift_expr b sel) (sbranches b brs) (shift_block b el).
Proof.
  cbn [shift_stmt]. rewrite !sb_local. f_equal.
  induction brs as [|[ls blk] l IH]; [reflexivity|]. cbn [sbranches]. rewrite sb_local, IH. reflexivity.
Qed.
Lemma shift_for b x a1 a2 a3 body : shift_stmt b (SFor x a1 a2 a3 body) = SFor (b + x) (shift_expr b a1) (shift_expr b a2) (shift_expr b a3) (shift_block b body).
Proof. cbn [shift_stmt]. rewrite sb_local. reflexivity. Qed.
Lemma shift_while b c body : shift_stmt b (SWhile c body) = SWhile (shift_expr b c) (shift_block b body).
Proof. cbn [shift_stmt]. rewrite sb_local. reflexivity. Qed.
Lemma shift_repeat b body c : shift_stmt b (SRepeat body c) = SRepeat (shift_block b body) (shift_expr b c).
Proof. cbn [shift_stmt]. rewrite sb_local. reflexivity. Qed.

(* a shifted statement writes exactly the shifted variables *)
Definition shiftP (b : nat) (P : nat -> bool) (y : nat) : bool := Nat.leb b y && P (y - b).
Lemma shiftP_at b P x : shiftP b P (b + x) = P x.
Proof. unfold shiftP. replace (b + x - b) with x by lia. destruct (Nat.leb_spec b (b + x)); [reflexivity|lia]. Qed.
Lemma wr_block_forall P l : Forall (fun st => wr P st = true) l -> wr_block P l = true.
Proof. induction 1 as [|st l H _ IH]; [reflexivity|]. cbn [wr_block]. now rewrite H, IH. Qed.
Lemma wr_block_inv P l : wr_block P l = true -> Forall (fun st => wr P st = true) l.
Proof. induction l as [|st l IH]; [constructor|]. cbn [wr_block]. intros H. apply andb_prop in H as [H1 H2]. constructor; [exact H1|exact (IH H2)]. Qed.

Lemma wr_shift b P : forall st, wr P st = true -> wr (shiftP b P) (shift_stmt b st) = true.
Proof.
  assert (Hblock : forall l, Forall (fun st => wr P st = true -> wr (shiftP b P) (shift_stmt b st) = true) l ->
                             wr_block P l = true -> wr_block (shiftP b P) (shift_block b l) = true).
  { induction 1 as [|st l H _ IH]; intros Hw; [reflexivity|]. cbn [wr_block] in Hw. apply andb_prop in Hw as [H1 H2].
    cbn [shift_block wr_block]. now rewrite (H H1), (IH H2). }
  apply (stmt_nested_ind (fun st => wr P st = true -> wr (shiftP b P) (shift_stmt b st) = true)).
  - intros x e H. cbn [wr] in *. cbn [shift_stmt wr]. now rewrite shiftP_at.
  - intros b0 lo n ki i e H. cbn [wr] in H. cbn [shift_stmt wr]. apply forallb_forall. intros j Hj.
    replace (b + b0 + j) with (b + (b0 + j)) by lia. rewrite shiftP_at. exact (proj1 (forallb_forall _ _) H j Hj).
  - intros c t elifs el Ht Helifs Hel H. rewrite wr_if in H. apply andb_prop in H as [H H3]. apply andb_prop in H as [H1 H2].
    rewrite shift_if, wr_if. rewrite (Hblock t Ht H1), (Hblock el Hel H3), andb_true_r. cbn [andb].
    clear H1 H3 Ht Hel. induction Helifs as [|[c' blk] l Hb _ IH]; [reflexivity|]. cbn [welifs] in H2. apply andb_prop in H2 as [H21 H22].
    cbn [selifs welifs]. cbn [snd] in Hb. now rewrite (Hblock blk Hb H21), (IH H22).
  - intros sel brs el Hbrs Hel H. rewrite wr_case in H. apply andb_prop in H as [H1 H2].
    rewrite shift_case, wr_case. rewrite (Hblock el Hel H2), andb_true_r.
    clear H2 Hel. induction Hbrs as [|[ls blk] l Hb _ IH]; [reflexivity|]. cbn [wbranches] in H1. apply andb_prop in H1 as [H11 H12].
    cbn [sbranches wbranches]. cbn [snd] in Hb. now rewrite (Hblock blk Hb H11), (IH H12).
  - intros x a1 a2 a3 body Hb H. rewrite wr_for in H. apply andb_prop in H as [H1 H2]. rewrite shift_for, wr_for, shiftP_at, H1. exact (Hblock body Hb H2).
  - intros c body Hb H. rewrite wr_while in H. rewrite shift_while, wr_while. exact (Hblock body Hb H).
  - intros body c Hb H. rewrite wr_repeat in H. rewrite shift_repeat, wr_repeat. exact (Hblock body Hb H).
  - reflexivity.
  - reflexivity.
  - reflexivity.
Qed.
Lemma wr_shift_block b P l : wr_block P l = true -> wr_block (shiftP b P) (shift_block b l) = true.
Proof.
  intros H. apply wr_block_inv in H. induction H as [|st l H _ IH]; [reflexivity|]. cbn [shift_block wr_block]. now rewrite (wr_shift b P st H), IH.
Qed.

(* weakening *)
Lemma wr_mono P Q : (forall x, P x = true -> Q x = true) -> forall st, wr P st = true -> wr Q st = true.
Proof.
  intros HPQ.
  assert (Hblock : forall l, Forall (fun st => wr P st = true -> wr Q st = true) l -> wr_block P l = true -> wr_block Q l = true).
  { induction 1 as [|st l H _ IH]; intros Hw; [reflexivity|]. cbn [wr_block] in *. apply andb_prop in Hw as [H1 H2]. now rewrite (H H1), (IH H2). }
  apply (stmt_nested_ind (fun st => wr P st = true -> wr Q st = true)).
  - intros x e H. cbn [wr] in *. auto.
  - intros b0 lo n ki i e H. cbn [wr] in *. apply forallb_forall. intros j Hj. apply HPQ. exact (proj1 (forallb_forall _ _) H j Hj).
  - intros c t elifs el Ht Helifs Hel H. rewrite wr_if in *. apply andb_prop in H as [H H3]. apply andb_prop in H as [H1 H2].
    rewrite (Hblock t Ht H1), (Hblock el Hel H3), andb_true_r. cbn [andb].
    clear H1 H3 Ht Hel. induction Helifs as [|[c' blk] l Hb _ IH]; [reflexivity|]. cbn [welifs] in *. apply andb_prop in H2 as [H21 H22].
    cbn [snd] in Hb. now rewrite (Hblock blk Hb H21), (IH H22).
  - intros sel brs el Hbrs Hel H. rewrite wr_case in *. apply andb_prop in H as [H1 H2]. rewrite (Hblock el Hel H2), andb_true_r.
    clear H2 Hel. induction Hbrs as [|[ls blk] l Hb _ IH]; [reflexivity|]. cbn [wbranches] in *. apply andb_prop in H1 as [H11 H12].
    cbn [snd] in Hb. now rewrite (Hblock blk Hb H11), (IH H12).
  - intros x a1 a2 a3 body Hb H. rewrite wr_for in *. apply andb_prop in H as [H1 H2]. now rewrite (HPQ x H1), (Hblock body Hb H2).
  - intros c body Hb H. rewrite wr_while in *. exact (Hblock body Hb H).
  - intros body c Hb H. rewrite wr_repeat in *. exact (Hblock body Hb H).
  - reflexivity.
  - reflexivity.
  - reflexivity.
Qed.
Lemma wr_block_mono P Q l : (forall x, P x = true -> Q x = true) -> wr_block P l = true -> wr_block Q l = true.
Proof.
  intros HPQ H. apply wr_block_inv in H. induction H as [|st l H _ IH]; [reflexivity|]. cbn [wr_block]. now rewrite (wr_mono P Q HPQ st H), IH.
Qed.
Lemma wr_block_app P a b : wr_block P (a ++ b) = wr_block P a && wr_block P b.
Proof. induction a as [|st a IH]; [reflexivity|]. cbn [app wr_block]. now rewrite IH, andb_assoc. Qed.

(* ---- an inlined call writes only the instance's variables and the bound targets ---- *)
Lemma wr_assign_from C : forall es start, (forall i, i < length es -> C (start + i) = true) -> wr_block C (assign_from start es) = true.
Proof.
  induction es as [|e es IH]; intros start H; [reflexivity|]. cbn [assign_from wr_block wr].
  rewrite <- (Nat.add_0_r start) at 1. rewrite (H 0) by (cbn; lia). cbn [andb].
  apply IH. intros i Hi. replace (S start + i) with (start + S i) by lia. apply H. cbn. lia.
Qed.
Lemma wr_copy_out C : forall targets start, (forall x, In (Some x) targets -> C x = true) -> wr_block C (copy_out start targets) = true.
Proof.
  induction targets as [|[x|] t IH]; intros start H; [reflexivity| |].
  - cbn [copy_out wr_block wr]. rewrite (H x) by (left; reflexivity). cbn [andb]. apply IH. intros y Hy. apply H. right. exact Hy.
  - cbn [copy_out]. apply IH. intros y Hy. apply H. right. exact Hy.
Qed.
Lemma wr_seq C b : wr C (seq b) = wr_block C b.
Proof. unfold seq. rewrite wr_if. cbn [welifs wr_block]. now rewrite !andb_true_r. Qed.

Lemma in_targets_out x outs eno : In (Some x) outs -> in_targets x outs eno = true.
Proof.
  intros H. unfold in_targets. apply existsb_exists. exists (Some x). split; [right; exact H|apply Nat.eqb_refl].
Qed.
Lemma in_targets_eno x outs : in_targets x outs (Some x) = true.
Proof. unfold in_targets. cbn [existsb]. now rewrite Nat.eqb_refl. Qed.

Lemma inline_call_writes f base en ins outs eno :
  wr_block (fun x => x <? fb_size f) (fb_body f) = true -> length ins <= fb_nin f ->
  wr (call_writes f base outs eno) (inline_call f base en ins outs eno) = true.
Proof.
  intros Hbody Hins.
  set (C := call_writes f base outs eno).
  assert (Hseg : forall y, base <= y -> y < base + fb_size f -> C y = true).
  { intros y H1 H2. unfold C, call_writes. apply orb_true_iff. left. apply andb_true_iff. split; [apply Nat.leb_le; exact H1|apply Nat.ltb_lt; exact H2]. }
  assert (Hrun : wr_block C (assign_from (off_in f base) ins ++ shift_block base (fb_body f) ++ copy_out (off_out f base) outs ++
             (if fb_eno f then match eno with Some x => [SAssign x (EVar (off_eno f base))] | None => [] end else [])) = true).
  { rewrite !wr_block_app. repeat (apply andb_true_iff; split).
    - apply wr_assign_from. intros i Hi. apply Hseg; unfold off_in, fb_size; destruct (fb_en f); lia.
    - apply (wr_block_mono (shiftP base (fun x => x <? fb_size f))); [|apply wr_shift_block; exact Hbody].
      intros y Hy. unfold shiftP in Hy. apply andb_true_iff in Hy as [H1 H2]. apply Nat.leb_le in H1. apply Nat.ltb_lt in H2. apply Hseg; lia.
    - apply wr_copy_out. intros x Hx. unfold C, call_writes. apply orb_true_iff. right. apply in_targets_out. exact Hx.
    - destruct (fb_eno f); [|reflexivity]. destruct eno as [x|]; [|reflexivity]. cbn [wr_block wr].
      unfold C, call_writes. now rewrite in_targets_eno, orb_true_r. }
  unfold inline_call. destruct (fb_en f) eqn:Een.
  - rewrite wr_seq. cbn [wr_block]. rewrite wr_if. cbn [welifs]. rewrite Hrun. cbn [wr andb].
    rewrite (Hseg base) by (unfold fb_size; rewrite ?Een; lia). cbn [andb].
    destruct (fb_eno f); [|reflexivity]. destruct eno as [x|]; [|reflexivity]. cbn [wr_block wr].
    unfold C, call_writes. now rewrite in_targets_eno, orb_true_r.
  - rewrite wr_seq. exact Hrun.
Qed.

(* a function-block call - whatever its body does, with whatever arguments, on whatever store - changes only the variables of
   its own instance and the variables bound to its outputs: the caller's other variables and every other instance keep their values *)
Theorem call_frame_l o fuel depth s f base en ins outs eno r :
  wr_block (fun x => x <? fb_size f) (fb_body f) = true -> length ins <= fb_nin f ->
  exec o fuel depth s (inline_call f base en ins outs eno) = Ok r ->
  forall y, call_writes f base outs eno y = false -> nth_error (fst r) y = nth_error s y.
Proof.
  intros Hbody Hins H. unfold exec in H. eapply exec_frame; [|exact H]. apply inline_call_writes; assumption.
Qed.

(* non-vacuity: a block with EN/ENO, one input, one output and a local, called from a program with four variables *)
Definition demo_fb : fbdef :=
  {| fb_en := true; fb_nin := 1; fb_nout := 1; fb_eno := true; fb_nloc := 1;
     fb_body := [SAssign 4 (EBin BAdd (EVar 4) (EVar 1)); SAssign 2 (EVar 4); SAssign 3 (ELit false (VBool true))] |}.
Definition demo_store : store := [VInt KInt 5; VInt KInt 0; VBool false; VBool true;    (* caller: v0 v1 v2 v3 *)
                                  VBool false; VInt KInt 0; VInt KInt 0; VBool false; VInt KInt 0].   (* instance at 4: EN i0 q0 ENO l0 *)
Definition demo_opts := {| o_neg_checked := true; o_for_checked := true; o_coerce_write := false; o_case_unsigned := true; o_return_ok := true |}.
Lemma call_demo :
  wr_block (fun x => x <? fb_size demo_fb) (fb_body demo_fb) = true /\
  (* enabled: the input is stored, the body accumulates, output and ENO are copied to v1 and v2 *)
  exec demo_opts 10 0 demo_store (inline_call demo_fb 4 (Some (EVar 3)) [EVar 0] [Some 1] (Some 2)) =
    Ok ([VInt KInt 5; VInt KInt 5; VBool true; VBool true; VBool true; VInt KInt 5; VInt KInt 5; VBool true; VInt KInt 5], GNormal) /\
  (* disabled: only EN is stored and the bound ENO target becomes FALSE *)
  exec demo_opts 10 0 demo_store (inline_call demo_fb 4 (Some (EVar 2)) [EVar 0] [Some 1] (Some 3)) =
    Ok ([VInt KInt 5; VInt KInt 0; VBool false; VBool false; VBool false; VInt KInt 0; VInt KInt 0; VBool false; VInt KInt 0], GNormal).
Proof. vm_compute. repeat split; reflexivity. Qed.
