(* Typing of inlined function-block calls: a block body that is T-typed under the block's own declarations stays T-typed when
   it is moved to the instance's place in the caller's flat environment, and a call whose arguments and targets have the declared
   types inlines to a T-typed statement - so the soundness theorem covers programs with calls. *)
From Coq Require Import ZArith List Bool Arith Lia.
From TP Require Import Model.StCore Model.StTyping Model.StCalls Proofs.StProofs Proofs.StCallsProofs.
Import ListNotations.
Local Open Scope nat_scope.

Section Shift.
  Variable strict : bool.
  Variables pre G post : env.
  Notation G' := (pre ++ G ++ post).
  Notation b := (length pre).

  Lemma nth_shift x t : nth_error G x = Some t -> nth_error G' (b + x) = Some t.
  Proof.
    intros H. rewrite nth_error_app2 by lia. replace (b + x - b) with x by lia.
    rewrite nth_error_app1; [exact H|]. apply nth_error_Some. congruence.
  Qed.
  Lemma ty_is_int_shift x k : ty_is_int (nth_error G x) k = true -> ty_is_int (nth_error G' (b + x)) k = true.
  Proof. destruct (nth_error G x) as [t|] eqn:E; [|discriminate]. intros H. now rewrite (nth_shift x t E). Qed.
  Lemma ty_is_bool_shift x : ty_is_bool (nth_error G x) = true -> ty_is_bool (nth_error G' (b + x)) = true.
  Proof. destruct (nth_error G x) as [t|] eqn:E; [|discriminate]. intros H. now rewrite (nth_shift x t E). Qed.
  Lemma pure_lit_shift e : pure_lit (shift_expr b e) = pure_lit e.
  Proof. induction e as [u v|x|op e IH|op l IHl r IHr|b0 lo n ki i IHi]; cbn; try reflexivity; [exact IH|now rewrite IHl, IHr]. Qed.
  Lemma has_var_shift e : has_var (shift_expr b e) = has_var e.
  Proof. induction e as [u v|x|op e IH|op l IHl r IHr|b0 lo n ki i IHi]; cbn; try reflexivity; [exact IH|now rewrite IHl, IHr]. Qed.
  Lemma idx_static_shift lo n i : idx_static_ok lo n (shift_expr b i) = idx_static_ok lo n i.
  Proof.
    destruct i as [u v|x|op e|op l r|b0 lo0 n0 ki i0]; try reflexivity.
    - unfold idx_static_ok. exact (has_var_shift (EUn op e)).
    - unfold idx_static_ok. exact (has_var_shift (EBin op l r)).
  Qed.
  Lemma arr_ok_shift b0 n k : arr_ok G b0 n k = true -> arr_ok G' (b + b0) n k = true.
  Proof.
    unfold arr_ok. intros H. apply andb_prop in H as [Hn H]. rewrite Hn. cbn [andb].
    apply forallb_forall. intros j Hj. pose proof (proj1 (forallb_forall _ _) H j Hj) as Hjk. cbn beta in Hjk.
    destruct (nth_error G (b0 + j)) as [t|] eqn:E; [|discriminate].
    replace (b + b0 + j) with (b + (b0 + j)) by lia. rewrite (nth_shift (b0 + j) t E). exact Hjk.
  Qed.

  Lemma tint_shift : forall e k, tint strict G k e = true -> tint strict G' k (shift_expr b e) = true.
  Proof.
    induction e as [u v|x|op e IH|op l IHl r IHr|b0 lo n ki i IHi]; intros k H; cbn [shift_expr].
    - exact H.
    - cbn [tint] in *. now apply ty_is_int_shift.
    - destruct op; cbn [tint] in *; [|discriminate]. apply andb_prop in H as [H1 H2]. now rewrite H1, (IH k H2).
    - cbn [tint] in *. apply andb_prop in H as [H H4]. apply andb_prop in H as [H H3]. apply andb_prop in H as [H1 H2].
      rewrite H1, (IHl k H2), (IHr k H3), !pure_lit_shift, H4. reflexivity.
    - cbn [tint] in *. apply andb_prop in H as [H H4]. apply andb_prop in H as [H H3]. apply andb_prop in H as [H1 H2].
      rewrite (arr_ok_shift b0 n k H1), H2, idx_static_shift, H3, (IHi ki H4). reflexivity.
  Qed.
  Lemma tbool_shift : forall e, tbool strict G e = true -> tbool strict G' (shift_expr b e) = true.
  Proof.
    induction e as [u v|x|op e IH|op l IHl r IHr|b0 lo n ki i IHi]; intros H; cbn [shift_expr]; [| | | |discriminate].
    - exact H.
    - cbn [tbool] in *. now apply ty_is_bool_shift.
    - destruct op; cbn [tbool] in *; [discriminate|]. exact (IH H).
    - cbn [tbool] in *. destruct (is_logic op).
      + apply andb_prop in H as [H1 H2]. now rewrite (IHl H1), (IHr H2).
      + destruct (is_cmp op); [|discriminate]. apply existsb_exists in H as [k [Hk H]]. apply existsb_exists. exists k. split; [exact Hk|].
        apply andb_prop in H as [H H3]. apply andb_prop in H as [H1 H2]. rewrite (tint_shift l k H1), (tint_shift r k H2), !pure_lit_shift, H3. reflexivity.
  Qed.
  Lemma var_kind_shift x k : var_kind G x = Some k -> var_kind G' (b + x) = Some k.
  Proof.
    unfold var_kind. destruct (nth_error G x) as [[|k']|] eqn:E; try discriminate. intros H. injection H as <-. now rewrite (nth_shift x _ E).
  Qed.

  Lemma tstmt_shift : forall st il, tstmt strict G il st = true -> tstmt strict G' il (shift_stmt b st) = true.
  Proof.
    intros st. pattern st. apply stmt_nested_ind; clear st.
    - intros x e il H. cbn [tstmt] in H. cbn [shift_stmt tstmt].
      destruct (nth_error G x) as [[|k]|] eqn:E; [| |discriminate]; rewrite (nth_shift x _ E); [now apply tbool_shift|now apply tint_shift].
    - intros b0 lo n ki i e il H. cbn [tstmt] in H. cbn [shift_stmt tstmt].
      destruct (var_kind G b0) as [k|] eqn:Ek; [|discriminate]. rewrite (var_kind_shift b0 k Ek).
      apply andb_prop in H as [H H5]. apply andb_prop in H as [H H4]. apply andb_prop in H as [H H3]. apply andb_prop in H as [H1 H2].
      rewrite (arr_ok_shift b0 n k H1), H2, idx_static_shift, H3, (tint_shift i ki H4), (tint_shift e k H5). reflexivity.
    - intros c t elifs el Ht Helifs Hel il H. rewrite tstmt_if in H. apply andb_prop in H as [H H4]. apply andb_prop in H as [H H3]. apply andb_prop in H as [H1 H2].
      rewrite shift_if, tstmt_if, (tbool_shift c H1). cbn [andb].
      assert (Hblock : forall l, Forall (fun st => forall il, tstmt strict G il st = true -> tstmt strict G' il (shift_stmt b st) = true) l ->
                                 forall il, tblock strict G il l = true -> tblock strict G' il (shift_block b l) = true).
      { induction 1 as [|s1 l Hs _ IH]; intros il0 Hb; [reflexivity|]. cbn [tblock] in Hb. apply andb_prop in Hb as [Hb1 Hb2].
        cbn [shift_block tblock]. now rewrite (Hs il0 Hb1), (IH il0 Hb2). }
      rewrite (Hblock t Ht il H2), (Hblock el Hel il H4), andb_true_r. cbn [andb].
      clear H2 H4 Ht Hel. induction Helifs as [|[c' blk] l Hb _ IH]; [reflexivity|]. cbn [telifs] in H3. apply andb_prop in H3 as [H3 H33]. apply andb_prop in H3 as [H31 H32].
      cbn [selifs telifs]. cbn [snd] in Hb. now rewrite (tbool_shift c' H31), (Hblock blk Hb il H32), (IH H33).
    - intros sel brs el Hbrs Hel il H. rewrite tstmt_case in H. apply andb_prop in H as [H H3]. apply andb_prop in H as [H1 H2].
      assert (Hblock : forall l, Forall (fun st => forall il, tstmt strict G il st = true -> tstmt strict G' il (shift_stmt b st) = true) l ->
                                 forall il, tblock strict G il l = true -> tblock strict G' il (shift_block b l) = true).
      { induction 1 as [|s1 l Hs _ IH]; intros il0 Hb; [reflexivity|]. cbn [tblock] in Hb. apply andb_prop in Hb as [Hb1 Hb2].
        cbn [shift_block tblock]. now rewrite (Hs il0 Hb1), (IH il0 Hb2). }
      rewrite shift_case, tstmt_case, (Hblock el Hel il H3), andb_true_r.
      apply andb_true_iff. split.
      + apply existsb_exists in H1 as [k [Hk H1]]. apply existsb_exists. exists k. split; [exact Hk|now apply tint_shift].
      + clear H3 Hel H1. induction Hbrs as [|[ls blk] l Hb _ IH]; [reflexivity|]. cbn [tbranches] in H2. apply andb_prop in H2 as [H21 H22].
        cbn [sbranches tbranches]. cbn [snd] in Hb. now rewrite (Hblock blk Hb il H21), (IH H22).
    - intros x a1 a2 a3 body Hb il H. rewrite tstmt_for in H. destruct (var_kind G x) as [k|] eqn:Ek; [|discriminate].
      apply andb_prop in H as [H H5]. apply andb_prop in H as [H H4]. apply andb_prop in H as [H H3]. apply andb_prop in H as [H1 H2].
      rewrite shift_for, tstmt_for, (var_kind_shift x k Ek), (tint_shift a1 k H1), (tint_shift a2 k H2), (tint_shift a3 k H3), H4. cbn [andb].
      clear - Hb H5. revert H5. induction Hb as [|s1 l Hs _ IH]; intros Hb; [reflexivity|]. cbn [tblock] in Hb. apply andb_prop in Hb as [Hb1 Hb2].
      cbn [shift_block tblock]. now rewrite (Hs true Hb1), (IH Hb2).
    - intros c body Hb il H. rewrite tstmt_while in H. apply andb_prop in H as [H1 H2]. rewrite shift_while, tstmt_while, (tbool_shift c H1). cbn [andb].
      clear - Hb H2. revert H2. induction Hb as [|s1 l Hs _ IH]; intros Hb; [reflexivity|]. cbn [tblock] in Hb. apply andb_prop in Hb as [Hb1 Hb2].
      cbn [shift_block tblock]. now rewrite (Hs true Hb1), (IH Hb2).
    - intros body c Hb il H. rewrite tstmt_repeat in H. apply andb_prop in H as [H1 H2]. rewrite shift_repeat, tstmt_repeat, (tbool_shift c H2), andb_true_r.
      clear - Hb H1. revert H1. induction Hb as [|s1 l Hs _ IH]; intros Hb; [reflexivity|]. cbn [tblock] in Hb. apply andb_prop in Hb as [Hb1 Hb2].
      cbn [shift_block tblock]. now rewrite (Hs true Hb1), (IH Hb2).
    - intros il H. exact H.
    - intros il H. exact H.
    - intros il H. exact H.
  Qed.
  Lemma tblock_shift : forall l il, tblock strict G il l = true -> tblock strict G' il (shift_block b l) = true.
  Proof.
    induction l as [|s1 l IH]; intros il H; [reflexivity|]. cbn [tblock] in H. apply andb_prop in H as [H1 H2].
    cbn [shift_block tblock]. now rewrite (tstmt_shift s1 il H1), (IH il H2).
  Qed.
End Shift.

(* a statement that is typed outside a loop is typed inside one (EXIT / CONTINUE are the only difference) *)
Lemma tstmt_il_mono strict G : forall st, tstmt strict G false st = true -> tstmt strict G true st = true.
Proof.
  assert (Hblock : forall l, Forall (fun st => tstmt strict G false st = true -> tstmt strict G true st = true) l ->
                             tblock strict G false l = true -> tblock strict G true l = true).
  { induction 1 as [|s1 l Hs _ IH]; intros Hb; [reflexivity|]. cbn [tblock] in *. apply andb_prop in Hb as [Hb1 Hb2]. now rewrite (Hs Hb1), (IH Hb2). }
  intros st. pattern st. apply stmt_nested_ind; clear st.
  - intros x e H. exact H.
  - intros b0 lo n ki i e H. exact H.
  - intros c t elifs el Ht Helifs Hel H. rewrite tstmt_if in *. apply andb_prop in H as [H H4]. apply andb_prop in H as [H H3]. apply andb_prop in H as [H1 H2].
    rewrite H1, (Hblock t Ht H2), (Hblock el Hel H4), andb_true_r. cbn [andb].
    clear H2 H4 Ht Hel. induction Helifs as [|[c' blk] l Hb _ IH]; [reflexivity|]. cbn [telifs] in *. apply andb_prop in H3 as [H3 H33]. apply andb_prop in H3 as [H31 H32].
    cbn [snd] in Hb. now rewrite H31, (Hblock blk Hb H32), (IH H33).
  - intros sel brs el Hbrs Hel H. rewrite tstmt_case in *. apply andb_prop in H as [H H3]. apply andb_prop in H as [H1 H2].
    rewrite H1, (Hblock el Hel H3), andb_true_r. cbn [andb].
    clear H3 Hel H1. induction Hbrs as [|[ls blk] l Hb _ IH]; [reflexivity|]. cbn [tbranches] in *. apply andb_prop in H2 as [H21 H22].
    cbn [snd] in Hb. now rewrite (Hblock blk Hb H21), (IH H22).
  - intros x a1 a2 a3 body _ H. rewrite tstmt_for in *. exact H.
  - intros c body _ H. rewrite tstmt_while in *. exact H.
  - intros body c _ H. rewrite tstmt_repeat in *. exact H.
  - discriminate.
  - discriminate.
  - reflexivity.
Qed.
Lemma tblock_il_mono strict G l il : tblock strict G false l = true -> tblock strict G il l = true.
Proof.
  destruct il; [|trivial]. induction l as [|s1 l IH]; [reflexivity|]. cbn [tblock]. intros H. apply andb_prop in H as [H1 H2].
  now rewrite (tstmt_il_mono strict G s1 H1), (IH H2).
Qed.
Lemma tblock_app strict G il a b : tblock strict G il (a ++ b) = tblock strict G il a && tblock strict G il b.
Proof. induction a as [|s1 a IH]; [reflexivity|]. cbn [app tblock]. now rewrite IH, andb_assoc. Qed.

Definition texpr (strict : bool) (G : env) (t : ty) (e : expr) : bool :=
  match t with TBool => tbool strict G e | TInt k => tint strict G k e end.
Lemma tassign strict G il x e t : nth_error G x = Some t -> texpr strict G t e = true -> tstmt strict G il (SAssign x e) = true.
Proof. intros Hx He. cbn [tstmt]. rewrite Hx. destruct t; exact He. Qed.
Lemma texpr_var strict G t y : nth_error G y = Some t -> texpr strict G t (EVar y) = true.
Proof. intros H. destruct t as [|k]; cbn [texpr tbool tint]; rewrite H; cbn; [reflexivity|apply ik_eqb_refl]. Qed.

(* the environment of an instance: [EN] inputs outputs [ENO] locals *)
Definition fb_env (f : fbdef) (tin tout tloc : list ty) : env :=
  (if fb_en f then [TBool] else []) ++ tin ++ tout ++ (if fb_eno f then [TBool] else []) ++ tloc.

Section Call.
  Variable strict : bool.
  Variables pre post : env.
  Variable f : fbdef.
  Variables tin tout tloc : list ty.
  Hypothesis Hnin : length tin = fb_nin f.
  Hypothesis Hnout : length tout = fb_nout f.
  Notation Gfb := (fb_env f tin tout tloc).
  Notation G := (pre ++ Gfb ++ post).
  Notation base := (length pre).

  Lemma nth_inst p t : nth_error Gfb p = Some t -> nth_error G (base + p) = Some t.
  Proof. apply nth_shift. Qed.
  Lemma nth_en : fb_en f = true -> nth_error G base = Some TBool.
  Proof.
    intros He. rewrite <- (Nat.add_0_r base). apply nth_inst. unfold fb_env. rewrite He. reflexivity.
  Qed.
  Lemma nth_in i t : nth_error tin i = Some t -> nth_error G (off_in f base + i) = Some t.
  Proof.
    intros H. unfold off_in. replace (base + (if fb_en f then 1 else 0) + i) with (base + ((if fb_en f then 1 else 0) + i)) by lia.
    apply nth_inst. unfold fb_env. destruct (fb_en f); cbn [app length Nat.add].
    - cbn [nth_error]. rewrite nth_error_app1; [exact H|]. apply nth_error_Some. congruence.
    - rewrite nth_error_app1; [exact H|]. apply nth_error_Some. congruence.
  Qed.
  Lemma nth_out j t : nth_error tout j = Some t -> nth_error G (off_out f base + j) = Some t.
  Proof.
    intros H. unfold off_out, off_in. rewrite <- Hnin.
    replace (base + (if fb_en f then 1 else 0) + length tin + j) with (base + ((if fb_en f then 1 else 0) + (length tin + j))) by lia.
    apply nth_inst. unfold fb_env.
    assert (E : nth_error (tin ++ tout ++ (if fb_eno f then [TBool] else []) ++ tloc) (length tin + j) = Some t).
    { rewrite nth_error_app2 by lia. replace (length tin + j - length tin) with j by lia.
      rewrite nth_error_app1; [exact H|]. apply nth_error_Some. congruence. }
    destruct (fb_en f); cbn [app Nat.add]; [cbn [nth_error]|]; exact E.
  Qed.
  Lemma nth_eno : fb_eno f = true -> nth_error G (off_eno f base) = Some TBool.
  Proof.
    intros He. unfold off_eno, off_out, off_in. rewrite <- Hnin, <- Hnout.
    replace (base + (if fb_en f then 1 else 0) + length tin + length tout) with (base + ((if fb_en f then 1 else 0) + (length tin + length tout))) by lia.
    apply nth_inst. unfold fb_env. rewrite He.
    assert (E : nth_error (tin ++ tout ++ [TBool] ++ tloc) (length tin + length tout) = Some TBool).
    { rewrite nth_error_app2 by lia. replace (length tin + length tout - length tin) with (length tout) by lia.
      rewrite nth_error_app2 by lia. rewrite Nat.sub_diag. reflexivity. }
    destruct (fb_en f); cbn [app Nat.add]; [cbn [nth_error]|]; exact E.
  Qed.

  Lemma assign_from_typed il : forall ins ts start, Forall2 (fun e t => texpr strict G t e = true) ins ts ->
    (forall i t, nth_error ts i = Some t -> nth_error G (start + i) = Some t) -> tblock strict G il (assign_from start ins) = true.
  Proof.
    intros ins ts start H. revert start. induction H as [|e t ins ts He _ IH]; intros start Hpos; [reflexivity|]. cbn [assign_from tblock].
    rewrite (tassign strict G il start e t); [|rewrite <- (Nat.add_0_r start); apply Hpos; reflexivity|exact He]. cbn [andb].
    apply IH. intros i t' Hi. replace (S start + i) with (start + S i) by lia. apply Hpos. exact Hi.
  Qed.
  Lemma copy_out_typed il : forall outs ts start,
    Forall2 (fun o t => match o with Some x => nth_error G x = Some t | None => True end) outs ts ->
    (forall j t, nth_error ts j = Some t -> nth_error G (start + j) = Some t) -> tblock strict G il (copy_out start outs) = true.
  Proof.
    intros outs ts start H. revert start. induction H as [|o t outs ts Ho _ IH]; intros start Hpos; [reflexivity|].
    assert (Hrest : tblock strict G il (copy_out (S start) outs) = true).
    { apply IH. intros j t' Hj. replace (S start + j) with (start + S j) by lia. apply Hpos. exact Hj. }
    destruct o as [x|]; cbn [copy_out]; [|exact Hrest]. cbn [tblock].
    rewrite (tassign strict G il x (EVar start) t Ho); [exact Hrest|]. apply texpr_var. rewrite <- (Nat.add_0_r start). apply Hpos. reflexivity.
  Qed.

  (* the rule for calls *)
  Theorem inline_call_typed_l en ins outs eno il :
    tblock strict Gfb false (fb_body f) = true ->
    (forall e, en = Some e -> tbool strict G e = true) ->
    Forall2 (fun e t => texpr strict G t e = true) ins tin ->
    Forall2 (fun o t => match o with Some x => nth_error G x = Some t | None => True end) outs tout ->
    (forall x, eno = Some x -> nth_error G x = Some TBool) ->
    tstmt strict G il (inline_call f base en ins outs eno) = true.
  Proof.
    intros Hbody Hen Hins Houts Heno.
    assert (Hrun : tblock strict G il (assign_from (off_in f base) ins ++ shift_block base (fb_body f) ++ copy_out (off_out f base) outs ++
               (if fb_eno f then match eno with Some x => [SAssign x (EVar (off_eno f base))] | None => [] end else [])) = true).
    { rewrite !tblock_app. repeat (apply andb_true_iff; split).
      - apply (assign_from_typed il ins tin); [exact Hins|]. intros i t Hi. apply nth_in. exact Hi.
      - apply tblock_il_mono. apply tblock_shift. exact Hbody.
      - apply (copy_out_typed il outs tout); [exact Houts|]. intros j t Hj. apply nth_out. exact Hj.
      - destruct (fb_eno f) eqn:Ee; [|reflexivity]. destruct eno as [x|]; [|reflexivity]. cbn [tblock].
        rewrite (tassign strict G il x _ TBool (Heno x eq_refl)); [reflexivity|]. apply texpr_var. apply nth_eno. exact Ee. }
    unfold inline_call, seq. destruct (fb_en f) eqn:Een.
    - rewrite tstmt_if. cbn [telifs tblock tbool etrue]. rewrite !andb_true_r. cbn [andb].
      apply andb_true_iff. split.
      + apply (tassign strict G il base _ TBool (nth_en Een)). destruct en as [e|]; [exact (Hen e eq_refl)|reflexivity].
      + rewrite tstmt_if. cbn [telifs]. rewrite Hrun, !andb_true_r. cbn [tbool]. rewrite (nth_en Een). cbn [ty_is_bool andb].
        destruct (fb_eno f); [|reflexivity]. destruct eno as [x|]; [|reflexivity]. cbn [tblock].
        rewrite (tassign strict G il x efalse TBool (Heno x eq_refl)); reflexivity.
    - rewrite tstmt_if. cbn [telifs tblock tbool etrue]. rewrite Hrun. reflexivity.
  Qed.
End Call.

(* non-vacuity: the demonstration block of StCallsProofs satisfies the rule's premises, in the caller [v0 v1 : INT; v2 v3 : BOOL] *)
Lemma call_typing_demo :
  let pre := [TInt KInt; TInt KInt; TBool; TBool] in
  let tin := [TInt KInt] in let tout := [TInt KInt] in let tloc := [TInt KInt] in
  tblock true (fb_env demo_fb tin tout tloc) false (fb_body demo_fb) = true /\
  tstmt true (pre ++ fb_env demo_fb tin tout tloc ++ []) false (inline_call demo_fb (length pre) (Some (EVar 3)) [EVar 0] [Some 1] (Some 2)) = true /\
  store_ok (pre ++ fb_env demo_fb tin tout tloc ++ []) demo_store = true.
Proof. vm_compute. repeat split; reflexivity. Qed.
