(* C13: the input view handed to the analysis always equals the plain map of file contents. *)
From Coq Require Import List Bool Arith Lia.
From TP Require Import Model.HirDb.
Import ListNotations.
Arguments Nat.ltb : simpl never.
Arguments Nat.eqb : simpl never.

Fixpoint lb (k : nat) (l : table) : Prop := match l with [] => True | (g, _) :: r => k < g /\ lb g r end.
Definition sorted (l : table) : Prop := match l with [] => True | (g, _) :: r => lb g r end.
Lemma lb_weaken k k' l : k' <= k -> lb k l -> lb k' l.
Proof. destruct l as [|[g u] r]; cbn; [auto|]. intros H [H1 H2]. split; [lia|exact H2]. Qed.
Lemma lb_sorted k l : lb k l -> sorted l.
Proof. destruct l as [|[g u] r]; cbn; [auto|]. tauto. Qed.
Lemma lb_get_none k l f : lb k l -> f <= k -> get f l = None.
Proof.
  revert k; induction l as [|[g u] r IH]; intros k H Hf; [reflexivity|]. cbn in *. destruct H as [H1 H2].
  assert (Nat.eqb f g = false) as -> by (apply Nat.eqb_neq; lia). eapply IH; [exact H2|lia].
Qed.
Lemma lb_put k f t l : lb k l -> k < f -> lb k (put f t l).
Proof.
  revert k; induction l as [|[g u] r IH]; intros k H Hf; cbn [lb put] in *; [auto|]. destruct H as [H1 H2].
  destruct (Nat.ltb f g) eqn:E1; cbn [lb].
  - apply Nat.ltb_lt in E1. auto.
  - apply Nat.ltb_ge in E1. destruct (Nat.eqb f g) eqn:E2; cbn [lb].
    + apply Nat.eqb_eq in E2. subst g. auto.
    + apply Nat.eqb_neq in E2. cbn [lb]. split; [exact H1|]. apply IH; [exact H2|lia].
Qed.
Lemma sorted_put f t l : sorted l -> sorted (put f t l).
Proof.
  destruct l as [|[g u] r]; cbn; [auto|]. intros H.
  destruct (Nat.ltb f g) eqn:E1; cbn.
  - apply Nat.ltb_lt in E1. auto.
  - apply Nat.ltb_ge in E1. destruct (Nat.eqb f g) eqn:E2; cbn.
    + apply Nat.eqb_eq in E2. now subst g.
    + apply Nat.eqb_neq in E2. apply lb_put; [exact H|lia].
Qed.
Lemma lb_del k f l : lb k l -> lb k (del f l).
Proof.
  revert k; induction l as [|[g u] r IH]; intros k H; cbn in *; [auto|]. destruct H as [H1 H2].
  destruct (Nat.eqb f g); cbn; [eapply lb_weaken; [|exact H2]; lia|]. split; [exact H1|now apply IH].
Qed.
Lemma sorted_del f l : sorted l -> sorted (del f l).
Proof.
  destruct l as [|[g u] r]; cbn; [auto|]. intros H. destruct (Nat.eqb f g); cbn; [now apply lb_sorted in H|now apply lb_del].
Qed.
Lemma put_same f t l : sorted l -> get f l = Some t -> put f t l = l.
Proof.
  induction l as [|[g u] r IH]; cbn; intros Hs Hg; [discriminate|].
  destruct (Nat.eqb f g) eqn:E.
  - apply Nat.eqb_eq in E. subst g. inversion Hg; subst. now rewrite Nat.ltb_irrefl.
  - assert (Hlt : Nat.ltb f g = false).
    { apply Nat.ltb_ge. destruct (le_lt_dec g f); [assumption|]. rewrite (lb_get_none g r f Hs) in Hg by lia. discriminate. }
    rewrite Hlt. f_equal. apply IH; [now apply lb_sorted in Hs|exact Hg].
Qed.
Lemma del_absent f l : has f l = false -> del f l = l.
Proof.
  unfold has. induction l as [|[g u] r IH]; cbn; [auto|]. destruct (Nat.eqb f g); [discriminate|]. intros H. f_equal. now apply IH.
Qed.
Lemma keys_put_has f t l : sorted l -> has f l = true -> keys (put f t l) = keys l.
Proof.
  unfold has. induction l as [|[g u] r IH]; cbn; intros Hs Hh; [discriminate|].
  destruct (Nat.eqb f g) eqn:E.
  - apply Nat.eqb_eq in E. subst g. now rewrite Nat.ltb_irrefl.
  - assert (Hlt : Nat.ltb f g = false).
    { apply Nat.ltb_ge. destruct (le_lt_dec g f); [assumption|]. rewrite (lb_get_none g r f Hs) in Hh by lia. discriminate. }
    rewrite Hlt. cbn. f_equal. apply IH; [now apply lb_sorted in Hs|exact Hh].
Qed.
Lemma my_flat_map_ext_in {A B} (f g : A -> list B) l : (forall a, In a l -> f a = g a) -> flat_map f l = flat_map g l.
Proof. induction l as [|a l IH]; cbn; intros H; [reflexivity|]. rewrite (H a (or_introl eq_refl)). f_equal. apply IH. intros b Hb. apply H. now right. Qed.
Lemma lb_keys_gt k l f : lb k l -> In f (keys l) -> k < f.
Proof.
  revert k; induction l as [|[g u] r IH]; intros k H Hin; [destruct Hin|]. cbn in *. destruct H as [H1 H2].
  destruct Hin as [<-|Hin]; [exact H1|]. specialize (IH g H2 Hin). lia.
Qed.
Lemma view_of_keys l : sorted l -> flat_map (fun f => match get f l with Some t => [(f, t)] | None => [] end) (keys l) = l.
Proof.
  induction l as [|[g u] r IH]; cbn; intros Hs; [reflexivity|]. rewrite Nat.eqb_refl. cbn. f_equal.
  rewrite <- (IH (lb_sorted _ _ Hs)) at 2. apply my_flat_map_ext_in. intros f Hin.
  assert (Hne : Nat.eqb f g = false) by (apply Nat.eqb_neq; pose proof (lb_keys_gt g r f Hs Hin); lia).
  now rewrite Hne.
Qed.

Record Inv (s : db) : Prop := {
  i_sorted : sorted (d_src s);
  i_cells : d_cells s = d_src s;
  i_sync : d_synced s = d_rev s;
  i_proj : d_proj s = Some (keys (d_src s)) \/ (d_proj s = None /\ d_src s = [])
}.
Lemma inv_empty : Inv empty.
Proof. split; cbn; auto. Qed.
Lemma inv_step s o : Inv s -> Inv (step s o) /\ d_src (step s o) = spec_step (d_src s) o.
Proof.
  intros [I1 I2 I3 I4]. destruct o as [f t|f|f]; cbn.
  - unfold set_text. destruct (opt_eqb (get f (d_src s)) t) eqn:E.
    + split; [split; assumption|]. unfold opt_eqb in E. destruct (get f (d_src s)) as [u|] eqn:G; [|discriminate].
      apply Nat.eqb_eq in E. subst u. symmetry. now apply put_same.
    + split; [|reflexivity]. split; cbn; [now apply sorted_put|now rewrite I2|reflexivity|].
      left. rewrite I2. destruct (negb (has f (d_src s)) || match d_proj s with None => true | Some _ => false end) eqn:C; [reflexivity|].
      apply orb_false_iff in C. destruct C as [C1 C2]. apply negb_false_iff in C1.
      destruct I4 as [I4|[I4 _]]; [|rewrite I4 in C2; discriminate]. rewrite I4. f_equal. symmetry. now apply keys_put_has.
  - unfold remove_text. destruct (negb (has f (d_src s))) eqn:E.
    + split; [split; assumption|]. apply negb_true_iff in E. symmetry. now apply del_absent.
    + split; [|reflexivity]. split; cbn; [now apply sorted_del|now rewrite I2|reflexivity|left; now rewrite I2].
  - unfold synced. rewrite I3, Nat.eqb_refl. split; [split; assumption|reflexivity].
Qed.
Lemma inv_run_from ops : forall s m, Inv s -> d_src s = m -> Inv (fold_left step ops s) /\ d_src (fold_left step ops s) = fold_left spec_step ops m.
Proof.
  induction ops as [|o ops IH]; cbn; intros s m HI Hm; [auto|]. destruct (inv_step s o HI) as [H1 H2]. apply IH; [exact H1|]. now rewrite H2, Hm.
Qed.
(* after EVERY history of edits, removals, re-additions and queries, what a project-wide query is given
   (file set in file-id order with the current texts) is exactly the plain map of the final contents *)
Lemma views_agree_l ops : view (run ops) = spec ops /\ d_src (run ops) = spec ops.
Proof.
  destruct (inv_run_from ops empty [] inv_empty eq_refl) as [[I1 I2 I3 I4] H]. fold (run ops) in *. fold (spec ops) in H.
  split; [|exact H]. unfold view, synced. rewrite I3, Nat.eqb_refl. rewrite <- H.
  destruct I4 as [I4|[I4 I5]]; rewrite I4; [|now rewrite I5]. rewrite I2. now apply view_of_keys.
Qed.
(* hence: incremental = from scratch.  Any two histories that end with the same file contents give every
   query the same inputs, in particular a history and the fresh load of its final contents *)
Section Answers.
  Variable answer : Type.
  Variable F : table -> file -> answer.
  Lemma incremental_equals_fresh_l ops ops' f : spec ops = spec ops' -> F (view (run ops)) f = F (view (run ops')) f.
  Proof. intros H. destruct (views_agree_l ops) as [-> _]. destruct (views_agree_l ops') as [-> _]. now rewrite H. Qed.
  Lemma query_is_idempotent_l ops f g : F (view (run (ops ++ [OQuery g]))) f = F (view (run ops)) f.
  Proof. apply incremental_equals_fresh_l. unfold spec. rewrite fold_left_app. reflexivity. Qed.
End Answers.
Definition fresh_load (m : table) : list op := map (fun e => OSet (fst e) (snd e)) m.
Lemma hirdb_nonvacuous :
  let ops := [OSet 2 10; OSet 1 11; OQuery 1; OSet 2 12; ORemove 1; OQuery 2; OSet 1 13; OSet 3 14; ORemove 3] in
  view (run ops) = [(1, 13); (2, 12)] /\ spec (fresh_load (spec ops)) = spec ops /\ d_proj (run ops) = Some [1; 2].
Proof. vm_compute. auto. Qed.
