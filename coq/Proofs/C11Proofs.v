(* C11: theorems about the STBC frame decoder and the string-table codec. *)
From Coq Require Import List Bool Arith NArith Lia.
From TP Require Import Model.Stbc.
Import ListNotations.
Open Scope N_scope.

(* ---- little-endian words ---- *)
Lemma le32_enc32 n : n < 4294967296 ->
  le32 (n mod 256) ((n / 256) mod 256) ((n / 65536) mod 256) ((n / 16777216) mod 256) = n.
Proof.
  intros H. unfold le32.
  assert (E1 : n = 256 * (n / 256) + n mod 256) by (apply N.div_mod; lia).
  assert (E2 : n / 256 = 256 * (n / 256 / 256) + (n / 256) mod 256) by (apply N.div_mod; lia).
  assert (E3 : n / 256 / 256 = 256 * (n / 256 / 256 / 256) + (n / 256 / 256) mod 256) by (apply N.div_mod; lia).
  rewrite N.div_div in E2, E3 by lia. rewrite N.div_div in E3 by lia. change (256 * 256) with 65536 in *. change (65536 * 256) with 16777216 in *.
  assert (H4 : n / 16777216 < 256) by (apply N.div_lt_upper_bound; lia).
  rewrite (N.mod_small (n / 16777216) 256) by exact H4. lia.
Qed.
Lemma enc32_bytes n : Forall (fun b => b < 256) (enc32 n).
Proof. unfold enc32. repeat constructor; apply N.mod_lt; lia. Qed.

(* ---- frame ---- *)
Definition in_bounds (file_len : N) (e : entry) : Prop := e_off e mod 4 = 0 /\ e_off e + e_len e <= file_len.
Lemma forall_insert (P : entry -> Prop) x l : Forall P (insert x l) <-> P x /\ Forall P l.
Proof.
  induction l as [|y l IH]; cbn.
  - split; intros H; [inversion H; auto|destruct H; constructor; auto].
  - destruct (N.leb (e_off x) (e_off y)).
    + split; intros H; [inversion H; auto|destruct H; constructor; auto].
    + split; intros H.
      * inversion H as [|? ? Hy Hr]; subst. apply IH in Hr. destruct Hr. repeat split; auto.
      * destruct H as [Hx Hl]. inversion Hl; subst. constructor; auto. apply IH. auto.
  Qed.
Lemma forall_sort (P : entry -> Prop) l : Forall P (sort_entries l) <-> Forall P l.
Proof.
  induction l as [|x l IH]; cbn; [tauto|]. rewrite forall_insert, IH. split; intros H; [destruct H; constructor; auto|inversion H; auto].
Qed.
Lemma validate_sorted_bounds file_len : forall l last, validate_sorted file_len last l = Ok tt -> Forall (in_bounds file_len) l.
Proof.
  induction l as [|e l IH]; cbn; intros last H; [constructor|].
  destruct (N.eqb (e_off e mod 4) 0) eqn:E1; cbn in H; [|discriminate].
  destruct (N.ltb file_len (e_off e + e_len e)) eqn:E2; [discriminate|].
  destruct (N.ltb (e_off e) last) eqn:E3; [discriminate|].
  constructor; [|eapply IH; eauto]. split; [now apply N.eqb_eq|]. apply N.ltb_ge in E2. exact E2.
Qed.
(* in the order of their offsets the sections do not overlap *)
Fixpoint chain (last : N) (l : list entry) : Prop :=
  match l with [] => True | e :: l' => last <= e_off e /\ chain (e_off e + e_len e) l' end.
Lemma validate_sorted_chain file_len : forall l last, validate_sorted file_len last l = Ok tt -> chain last l.
Proof.
  induction l as [|e l IH]; cbn; intros last H; [exact I|].
  destruct (N.eqb (e_off e mod 4) 0); cbn in H; [|discriminate].
  destruct (N.ltb file_len (e_off e + e_len e)); [discriminate|].
  destruct (N.ltb (e_off e) last) eqn:E3; [discriminate|]. apply N.ltb_ge in E3. split; [exact E3|]. now apply IH.
Qed.

Lemma read_entries_length bs n : forall p, length (read_entries bs p n) = n.
Proof. induction n as [|n IH]; intros p; cbn [read_entries length]; [reflexivity|]. f_equal. apply IH. Qed.

Section FrameThms.
  Variable crc : list N -> N.
  (* whatever the bytes, an accepted frame has every section 4-aligned and inside the file, the
     sections are pairwise disjoint, the header invariants hold and a flagged checksum matches *)
  Lemma frame_sections_in_bounds_l bs f : dec_frame crc bs = Ok f ->
    Forall (in_bounds (blen bs)) (f_entries f) /\ chain 0 (sort_entries (f_entries f)) /\
    f_major f = 1 /\ 24 <= blen bs /\
    (N.odd (f_flags f) = true -> crc (skipn (N.to_nat (u32_at bs 16)) bs) = u32_at bs 20) /\
    length (f_entries f) = N.to_nat (u16_at bs 14) /\ u32_at bs 16 + u16_at bs 14 * 12 <= blen bs.
  Proof.
    unfold dec_frame. intros H.
    destruct (N.ltb (blen bs) 4); [discriminate|].
    destruct (negb _); [discriminate|].
    destruct (N.ltb (blen bs) 24) eqn:E24; [discriminate|].
    destruct (N.ltb (u16_at bs 12) 24); [discriminate|].
    destruct (N.ltb (u32_at bs 16) 24); [discriminate|].
    destruct (negb (N.eqb (u32_at bs 16 mod 4) 0)); [discriminate|].
    destruct (N.ltb (blen bs) (u32_at bs 16 + u16_at bs 14 * 12)) eqn:Et; [discriminate|].
    destruct (N.odd (u32_at bs 8) && negb (N.eqb (crc (skipn (N.to_nat (u32_at bs 16)) bs)) (u32_at bs 20))) eqn:Ec; [discriminate|].
    destruct (negb (N.eqb (u16_at bs 4) 1)) eqn:Em; [discriminate|].
    destruct (validate_entries (blen bs) (read_entries bs (u32_at bs 16) (N.to_nat (u16_at bs 14)))) as [[]|e] eqn:Ev; [|discriminate].
    inversion H; subst; cbn [f_entries f_major f_flags]. unfold validate_entries in Ev.
    split; [apply forall_sort; eapply validate_sorted_bounds; eauto|].
    split; [eapply validate_sorted_chain; eauto|].
    split; [apply negb_false_iff in Em; now apply N.eqb_eq|].
    split; [now apply N.ltb_ge|].
    split.
    { intros Ho. rewrite Ho in Ec. cbn in Ec. apply negb_false_iff in Ec. now apply N.eqb_eq. }
    split; [|apply N.ltb_ge; exact Et].
    apply read_entries_length.
  Qed.
End FrameThms.

(* ---- the capacity the string-table decoder asks for ---- *)
Lemma strtab_capacity_bounded_l bs : st_capacity (dec_strtab true bs) <= blen bs.
Proof.
  unfold dec_strtab. destruct (N.ltb (blen bs) 4) eqn:E; cbn; [lia|]. apply N.ltb_ge in E. lia.
Qed.
Definition huge_count : list N := [255; 255; 255; 255; 0; 0; 0; 0].
Lemma strtab_capacity_unbounded : st_capacity (dec_strtab false huge_count) = 4294967295 /\ blen huge_count = 8 /\ st_entries (dec_strtab false huge_count) = None.
Proof. vm_compute. auto. Qed.

(* ---- non-vacuity: a two-section frame and a string table ---- *)
Definition demo_frame : list N :=
  [83; 84; 66; 67; 1; 0; 1; 0; 0; 0; 0; 0; 24; 0; 2; 0; 24; 0; 0; 0; 0; 0; 0; 0;
   1; 0; 0; 0; 48; 0; 0; 0; 6; 0; 0; 0;     2; 0; 0; 0; 56; 0; 0; 0; 4; 0; 0; 0;
   1; 0; 0; 0; 97; 0; 0; 0;   9; 9; 9; 9].
Lemma demo_frame_ok : exists f, dec_frame (fun _ => 0) demo_frame = Ok f /\ map e_off (f_entries f) = [48; 56] /\ map e_len (f_entries f) = [6; 4].
Proof. eexists. split; [vm_compute; reflexivity|]. vm_compute. auto. Qed.
Lemma demo_strtab : st_entries (dec_strtab true (enc_strtab [[104; 105]; []; [97; 98; 99; 100; 101]])) = Some [[104; 105]; []; [97; 98; 99; 100; 101]].
Proof. vm_compute. reflexivity. Qed.

(* ---- string table round trip ---- *)
Lemma align4_ge n : n <= align4 n.
Proof. unfold align4. pose proof (N.div_mod (n + 3) 4). pose proof (N.mod_lt (n + 3) 4). lia. Qed.
Lemma blen_app a b : blen (a ++ b) = blen a + blen b.
Proof. unfold blen. rewrite app_length. lia. Qed.
Lemma enc_str_len s : blen (enc_str s) = align4 (4 + blen s).
Proof.
  unfold enc_str. rewrite !blen_app. unfold blen at 1. cbn [enc32 length]. unfold blen at 2. rewrite repeat_length, N2Nat.id.
  pose proof (align4_ge (4 + blen s)). lia.
Qed.
Lemma u32_at_enc32 n rest : n < 4294967296 -> u32_at (enc32 n ++ rest) 0 = n.
Proof. intros H. unfold u32_at, byte_at, enc32. cbn. now apply le32_enc32. Qed.
Lemma skipn_app_exact {A} (a b : list A) n : n = length a -> skipn n (a ++ b) = b.
Proof. intros ->. rewrite skipn_app, skipn_all, Nat.sub_diag. reflexivity. Qed.
Lemma slice_enc_str s rest : slice (enc_str s ++ rest) 4 (blen s) = s.
Proof.
  unfold slice, enc_str. cbn [enc32 app]. change (N.to_nat 4) with 4%nat. cbn [skipn].
  unfold blen. rewrite Nat2N.id. rewrite <- app_assoc. rewrite firstn_app, firstn_all, Nat.sub_diag. cbn. now rewrite app_nil_r.
Qed.

Lemma dec_strs_enc : forall l fuel, (length l <= fuel)%nat ->
  Forall (fun s => blen s < 4294967296) l ->
  dec_strs fuel (N.of_nat (length l)) (concat (map enc_str l)) = Some l.
Proof.
  induction l as [|s l IH]; intros fuel Hf Hs.
  - destruct fuel; reflexivity.
  - destruct fuel as [|fuel]; [cbn in Hf; lia|].
    inversion Hs as [|? ? Hs1 Hs2]; subst.
    cbn [length map concat]. cbn [dec_strs].
    assert (N.eqb (N.of_nat (S (length l))) 0 = false) as -> by (apply N.eqb_neq; lia).
    pose proof (enc_str_len s) as HL. pose proof (align4_ge (4 + blen s)) as HA.
    assert (N.ltb (blen (enc_str s ++ concat (map enc_str l))) 4 = false) as -> by (apply N.ltb_ge; rewrite blen_app; lia).
    assert (Hu : u32_at (enc_str s ++ concat (map enc_str l)) 0 = blen s).
    { unfold enc_str. rewrite <- app_assoc. now apply u32_at_enc32. }
    rewrite Hu.
    assert (N.ltb (blen (enc_str s ++ concat (map enc_str l))) (align4 (4 + blen s)) = false) as -> by (apply N.ltb_ge; rewrite blen_app; lia).
    rewrite skipn_app_exact by (rewrite <- HL; unfold blen; now rewrite Nat2N.id).
    replace (N.of_nat (S (length l)) - 1) with (N.of_nat (length l)) by lia.
    rewrite IH by (auto; cbn in Hf; lia). now rewrite slice_enc_str.
Qed.

Lemma strtab_round_trip_l b l : N.of_nat (length l) < 4294967296 -> Forall (fun s => blen s < 4294967296) l ->
  st_entries (dec_strtab b (enc_strtab l)) = Some l.
Proof.
  intros Hc Hs. unfold dec_strtab, enc_strtab.
  assert (N.ltb (blen (enc32 (N.of_nat (length l)) ++ concat (map enc_str l))) 4 = false) as ->
    by (apply N.ltb_ge; rewrite blen_app; unfold blen at 1; cbn [enc32 length]; lia).
  cbn [st_entries]. rewrite u32_at_enc32 by exact Hc.
  cbn [enc32 app skipn]. apply dec_strs_enc; [|exact Hs].
  cbn [length]. 
  (* every entry is at least 4 bytes long, so the fuel (input length) covers the count *)
  assert (forall l0 : list (list N), (length l0 <= length (concat (map enc_str l0)))%nat) as Hlen.
  { induction l0 as [|s0 l0 IH0]; cbn [map concat length]; [lia|]. rewrite app_length. unfold enc_str at 1. rewrite app_length. cbn [enc32 length]. lia. }
  specialize (Hlen l). lia.
Qed.
