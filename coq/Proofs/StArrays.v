(* One-dimensional integer arrays ([EIdx] element read, [SAssignIdx] element write; the elements of ARRAY[lo .. lo+n-1]
   occupy the store slots base .. base+n-1): every access stays inside the array or reports IndexOutOfBounds, an element
   write changes exactly one slot of the array, well-typed accesses never reach a static-class fault, the interpreter M and
   the reference semantics R agree on them, and the declared element kind is preserved. *)
From Coq Require Import ZArith List Bool Lia.
From TP Require Import Model.StCore Model.StTyping Model.StRef Proofs.StProofs Proofs.StCallsProofs Proofs.C02Refine.
Import ListNotations.
Open Scope Z_scope.

(* ================= the access itself (no typing assumed) ================= *)
(* a read that succeeds has read a slot of the array: the index value z lies in lo .. lo+n-1 and the slot is base + (z - lo) *)
Theorem index_in_bounds_or_fault : forall o s b lo n ki i v, eval o s (EIdx b lo n ki i) = Ok v ->
  exists z x, (iv <- eval o s i ;; int_value iv) = Ok z /\ lo <= z <= lo + Z.of_nat n - 1 /\
    x = (b + Z.to_nat (z - lo))%nat /\ (b <= x < b + n)%nat /\ rd s x = Ok v.
Proof.
  intros o s b lo n ki i v H. cbn [eval] in H. apply bind_ok in H as [iv [Hiv H]]. apply bind_ok in H as [x [Hx H]].
  destruct (idx_slot_inv _ _ _ _ _ Hx) as [z [Hz [Hb [-> Hj]]]].
  exists z, (b + Z.to_nat (z - lo))%nat. rewrite Hiv. cbn [bind].
  split; [exact Hz|]. split; [exact Hb|]. split; [reflexivity|]. split; [lia | exact H].
Qed.

(* an index value outside lo .. lo+n-1 is IndexOutOfBounds, for the read ... *)
Theorem index_out_of_bounds_faults : forall o s b lo n ki i iv z, eval o s i = Ok iv -> int_value iv = Ok z ->
  z < lo \/ lo + Z.of_nat n - 1 < z -> eval o s (EIdx b lo n ki i) = Fault FIndexOOB.
Proof.
  intros o s b lo n ki i iv z Hi Hz Hoob. cbn [eval]. rewrite Hi. cbn [bind].
  rewrite (idx_slot_oob b lo n iv z Hz Hoob). reflexivity.
Qed.
(* ... and for the write (the value is evaluated first: stmt.rs) *)
Theorem element_write_out_of_bounds_faults : forall o ev ex fuel depth s b lo n ki i e v iv z,
  ev s e = Ok v -> ev s i = Ok iv -> int_value iv = Ok z -> z < lo \/ lo + Z.of_nat n - 1 < z ->
  step o ev ex fuel depth s (SAssignIdx b lo n ki i e) = Fault FIndexOOB.
Proof.
  intros o ev ex fuel depth s b lo n ki i e v iv z He Hi Hz Hoob. cbn [step]. rewrite He, Hi. cbn [bind].
  rewrite (idx_slot_oob b lo n iv z Hz Hoob). reflexivity.
Qed.

(* an element write that completes has changed at most the one slot base + (z - lo) of the array, keeps the size of the
   store, and completes normally; [ev] is any expression evaluator (M's [eval o], R's [ev_ref G]) *)
Theorem element_write_local : forall o ev ex fuel depth s b lo n ki i e s' sig,
  step o ev ex fuel depth s (SAssignIdx b lo n ki i e) = Ok (s', sig) ->
  exists z x, (iv <- ev s i ;; int_value iv) = Ok z /\ lo <= z <= lo + Z.of_nat n - 1 /\
    x = (b + Z.to_nat (z - lo))%nat /\ (b <= x < b + n)%nat /\
    (forall y, y <> x -> nth_error s' y = nth_error s y) /\ length s' = length s /\ sig = GNormal.
Proof.
  intros o ev ex fuel depth s b lo n ki i e s' sig H. cbn [step] in H.
  apply bind_ok in H as [v [_ H]]. apply bind_ok in H as [iv [Hiv H]]. apply bind_ok in H as [x [Hx H]].
  apply bind_ok in H as [s1 [Hw H]]. injection H as <- <-.
  destruct (idx_slot_inv _ _ _ _ _ Hx) as [z [Hz [Hb [-> Hj]]]].
  unfold write in Hw. apply bind_ok in Hw as [t [_ Hw]]. apply bind_ok in Hw as [v' [_ Hw]]. injection Hw as <-.
  exists z, (b + Z.to_nat (z - lo))%nat. rewrite Hiv. cbn [bind].
  split; [exact Hz|]. split; [exact Hb|]. split; [reflexivity|]. split; [lia|].
  split; [|split; [apply length_upd | reflexivity]].
  intros y Hy. apply nth_upd_other. intro E. apply Hy. symmetry. exact E.
Qed.
(* the same for the interpreter with any fuel *)
Theorem element_write_local_exec : forall o fuel depth s b lo n ki i e s' sig,
  exec o fuel depth s (SAssignIdx b lo n ki i e) = Ok (s', sig) ->
  exists z x, (iv <- eval o s i ;; int_value iv) = Ok z /\ lo <= z <= lo + Z.of_nat n - 1 /\
    x = (b + Z.to_nat (z - lo))%nat /\ (b <= x < b + n)%nat /\
    (forall y, y <> x -> nth_error s' y = nth_error s y) /\ length s' = length s /\ sig = GNormal.
Proof.
  intros o fuel depth s b lo n ki i e s' sig H. destruct fuel as [|f]; [discriminate|].
  unfold exec in H. cbn [exec_with] in H. exact (element_write_local _ _ _ _ _ _ _ _ _ _ _ _ _ _ H).
Qed.

(* ================= C01: well-typed accesses ================= *)
(* a well-typed index evaluates to an integer whose kind is not ULINT, so index_to_i64 does not wrap it *)
Lemma index_value_exact : forall o strict, o_neg_checked o = true -> forall G s ki i iv, store_ok G s = true ->
  tint strict G ki i = true -> negb (ik_eqb ki KULInt) = true -> eval o s i = Ok iv ->
  exists k' z, iv = VInt k' z /\ k' <> KULInt /\ int_value iv = Ok z.
Proof.
  intros o strict Hneg G s ki i iv Hs Ht Hki Hev.
  pose proof (tint_sound o strict Hneg G s ki Hs i Ht) as Hb. rewrite Hev in Hb. cbn [benign] in Hb.
  destruct Hb as [k' [z [-> [_ [_ Hd]]]]].
  assert (Hne : k' <> KULInt).
  { destruct (is_signed ki) eqn:Es.
    - intro E. subst k'. discriminate.
    - destruct Hd as [->|[_ [-> _]]]; [|discriminate]. intro E. subst ki. discriminate. }
  exists k', z. split; [reflexivity|]. split; [exact Hne|].
  destruct (int_value_int k' z) as [z' [Ez' Hz']]. rewrite Ez', (Hz' Hne). reflexivity.
Qed.

(* reading an element of a declared array: an integer of exactly the element kind, in range, or a value-dependent fault *)
Theorem array_read_sound : forall o strict, o_neg_checked o = true -> forall G s k b lo n ki i, store_ok G s = true ->
  tint strict G k (EIdx b lo n ki i) = true ->
  benign (eval o s (EIdx b lo n ki i)) (fun v => exists z, v = VInt k z /\ in_range k z = true).
Proof.
  intros o strict Hneg G s k b lo n ki i Hs Ht.
  pose proof (tint_sound o strict Hneg G s k Hs _ Ht) as Hb.
  destruct (eval o s (EIdx b lo n ki i)) as [v|f|] eqn:E; cbn [benign] in *; [|exact Hb|exact I].
  destruct (index_in_bounds_or_fault _ _ _ _ _ _ _ _ E) as [z [x [_ [Hz [Hx [_ Hrd]]]]]].
  cbn [tint] in Ht. apply andb_prop in Ht as [Ht _]. apply andb_prop in Ht as [Ht _]. apply andb_prop in Ht as [Harr _].
  destruct (arr_ok_slot G s b n k (Z.to_nat (z - lo)) Hs Harr ltac:(lia)) as [ze [Hnth Hr]].
  subst x. unfold rd in Hrd. rewrite Hnth in Hrd. injection Hrd as <-. exists ze. split; [reflexivity | exact Hr].
Qed.
(* the fault of a well-typed read is exactly IndexOutOfBounds when the index value lies outside the declared bounds ... *)
Theorem array_index_oob_faults : forall o strict, o_neg_checked o = true -> forall G s k b lo n ki i, store_ok G s = true ->
  tint strict G k (EIdx b lo n ki i) = true ->
  forall k' z, eval o s i = Ok (VInt k' z) -> z < lo \/ lo + Z.of_nat n - 1 < z ->
  eval o s (EIdx b lo n ki i) = Fault FIndexOOB.
Proof.
  intros o strict Hneg G s k b lo n ki i Hs Ht k' z Hev Hoob.
  cbn [tint] in Ht. apply andb_prop in Ht as [Ht Hti]. apply andb_prop in Ht as [Ht _]. apply andb_prop in Ht as [_ Hki].
  destruct (index_value_exact o strict Hneg G s ki i _ Hs Hti Hki Hev) as [k2 [z2 [E [_ Hiv]]]]. injection E as <- <-.
  exact (index_out_of_bounds_faults o s b lo n ki i _ z Hev Hiv Hoob).
Qed.
(* ... and inside the bounds the read succeeds with the content of the element's slot *)
Theorem array_index_in_bounds_reads : forall o strict, o_neg_checked o = true -> forall G s k b lo n ki i, store_ok G s = true ->
  tint strict G k (EIdx b lo n ki i) = true ->
  forall k' z, eval o s i = Ok (VInt k' z) -> lo <= z <= lo + Z.of_nat n - 1 ->
  exists ze, eval o s (EIdx b lo n ki i) = Ok (VInt k ze) /\ in_range k ze = true /\
             nth_error s (b + Z.to_nat (z - lo)) = Some (VInt k ze).
Proof.
  intros o strict Hneg G s k b lo n ki i Hs Ht k' z Hev Hin.
  cbn [tint] in Ht. apply andb_prop in Ht as [Ht Hti]. apply andb_prop in Ht as [Ht _]. apply andb_prop in Ht as [Harr Hki].
  destruct (index_value_exact o strict Hneg G s ki i _ Hs Hti Hki Hev) as [k2 [z2 [E [_ Hiv]]]]. injection E as <- <-.
  destruct (arr_ok_slot G s b n k (Z.to_nat (z - lo)) Hs Harr ltac:(lia)) as [ze [Hnth Hr]].
  exists ze. split; [|split; [exact Hr | exact Hnth]].
  cbn [eval]. rewrite Hev. cbn [bind]. unfold idx_slot. rewrite Hiv. cbn [bind].
  replace ((z <? lo) || (lo + Z.of_nat n - 1 <? z)) with false.
  - cbn [bind]. unfold rd. rewrite Hnth. reflexivity.
  - symmetry. apply orb_false_iff. split; apply Z.ltb_ge; lia.
Qed.

(* a constant index is checked statically (T accepts a literal index only inside the declared bounds): the read cannot fault *)
Theorem array_literal_index_reads : forall o strict, o_neg_checked o = true -> forall G s k b lo n ki u v, store_ok G s = true ->
  tint strict G k (EIdx b lo n ki (ELit u v)) = true ->
  exists k' z ze, v = VInt k' z /\ lo <= z <= lo + Z.of_nat n - 1 /\
    eval o s (EIdx b lo n ki (ELit u v)) = Ok (VInt k ze) /\ in_range k ze = true /\
    nth_error s (b + Z.to_nat (z - lo)) = Some (VInt k ze).
Proof.
  intros o strict Hneg G s k b lo n ki u v Hs Ht.
  pose proof Ht as Ht0. cbn [tint] in Ht0. apply andb_prop in Ht0 as [Ht0 Hti]. apply andb_prop in Ht0 as [_ Hst].
  destruct v as [bv|kv z]; [destruct u; discriminate|].
  unfold idx_static_ok in Hst. apply andb_prop in Hst as [H1 H2]. apply Z.leb_le in H1, H2.
  assert (Hin : lo <= z <= lo + Z.of_nat n - 1) by lia.
  destruct (array_index_in_bounds_reads o strict Hneg G s k b lo n ki _ Hs Ht kv z eq_refl Hin) as [ze [He [Hr Hn]]].
  exists kv, z, ze. split; [reflexivity|]. split; [exact Hin|]. split; [exact He|]. split; [exact Hr | exact Hn].
Qed.

(* a well-typed element assignment: completes normally with a declaration-conforming store, or reports a value-dependent
   fault (IndexOutOfBounds, Overflow of the conversion, a fault of the operands) - never a static-class fault or a panic *)
Theorem array_write_sound : forall o strict,
  o_neg_checked o = true -> o_for_checked o = true -> o_coerce_write o = true \/ strict = true -> o_case_unsigned o = true ->
  forall G fuel depth s b lo n ki i e il, store_ok G s = true -> tstmt strict G il (SAssignIdx b lo n ki i e) = true ->
  benign (exec o fuel depth s (SAssignIdx b lo n ki i e)) (fun r => store_ok G (fst r) = true /\ snd r = GNormal).
Proof.
  intros o strict Hneg Hfor Hco Hcase G fuel depth s b lo n ki i e il Hs Ht.
  assert (Ht' : tstmt strict G false (SAssignIdx b lo n ki i e) = true) by exact Ht.
  pose proof (exec_sound o strict Hneg Hfor Hco Hcase G fuel depth s _ false Hs Ht' ltac:(discriminate)) as Hb.
  unfold sres_ok in Hb. destruct (exec o fuel depth s (SAssignIdx b lo n ki i e)) as [[s' g]|f|] eqn:E; cbn [benign] in *; [|exact Hb|exact I].
  destruct Hb as [Hs' _]. split; [exact Hs'|]. cbn [snd].
  destruct (element_write_local_exec _ _ _ _ _ _ _ _ _ _ _ _ E) as [z [x [_ [_ [_ [_ [_ [_ Hg]]]]]]]]. exact Hg.
Qed.
Theorem array_write_oob_faults : forall o strict, o_neg_checked o = true ->
  forall G fuel depth s b lo n ki i e il, store_ok G s = true -> tstmt strict G il (SAssignIdx b lo n ki i e) = true ->
  forall v k' z, eval o s e = Ok v -> eval o s i = Ok (VInt k' z) -> z < lo \/ lo + Z.of_nat n - 1 < z ->
  exec o (S fuel) depth s (SAssignIdx b lo n ki i e) = Fault FIndexOOB.
Proof.
  intros o strict Hneg G fuel depth s b lo n ki i e il Hs Ht v k' z He Hi Hoob.
  cbn [tstmt] in Ht. destruct (var_kind G b) as [k|]; [|discriminate].
  apply andb_prop in Ht as [Ht _]. apply andb_prop in Ht as [Ht Hti]. apply andb_prop in Ht as [Ht _]. apply andb_prop in Ht as [_ Hki].
  destruct (index_value_exact o strict Hneg G s ki i _ Hs Hti Hki Hi) as [k2 [z2 [E [_ Hiv]]]]. injection E as <- <-.
  unfold exec. cbn [exec_with]. exact (element_write_out_of_bounds_faults o (eval o) _ fuel depth s b lo n ki i e v _ z He Hi Hiv Hoob).
Qed.

(* both accesses together, under the hypotheses of the statement-soundness theorem *)
Theorem array_access_sound : forall o strict,
  o_neg_checked o = true -> o_for_checked o = true -> o_coerce_write o = true \/ strict = true -> o_case_unsigned o = true ->
  forall G s, store_ok G s = true -> forall b lo n ki i,
  (forall k, tint strict G k (EIdx b lo n ki i) = true ->
     benign (eval o s (EIdx b lo n ki i)) (fun v => exists z, v = VInt k z /\ in_range k z = true) /\
     (forall k' z, eval o s i = Ok (VInt k' z) -> z < lo \/ lo + Z.of_nat n - 1 < z ->
        eval o s (EIdx b lo n ki i) = Fault FIndexOOB)) /\
  (forall e il fuel depth, tstmt strict G il (SAssignIdx b lo n ki i e) = true ->
     benign (exec o fuel depth s (SAssignIdx b lo n ki i e)) (fun r => store_ok G (fst r) = true /\ snd r = GNormal) /\
     (forall v k' z, eval o s e = Ok v -> eval o s i = Ok (VInt k' z) -> z < lo \/ lo + Z.of_nat n - 1 < z ->
        exec o (S fuel) depth s (SAssignIdx b lo n ki i e) = Fault FIndexOOB)).
Proof.
  intros o strict Hneg Hfor Hco Hcase G s Hs b lo n ki i. split.
  - intros k Ht. split; [exact (array_read_sound o strict Hneg G s k b lo n ki i Hs Ht)|].
    exact (array_index_oob_faults o strict Hneg G s k b lo n ki i Hs Ht).
  - intros e il fuel depth Ht. split; [exact (array_write_sound o strict Hneg Hfor Hco Hcase G fuel depth s b lo n ki i e il Hs Ht)|].
    exact (array_write_oob_faults o strict Hneg G fuel depth s b lo n ki i e il Hs Ht).
Qed.

(* ================= C02: M = R on array accesses ================= *)
(* R checks the index against the declared bounds before it reads the element *)
Theorem ref_index_checked : forall s k b lo n ki i z, reval s ki i = Ok z ->
  reval s k (EIdx b lo n ki i) =
  (if (z <? lo) || (lo + Z.of_nat n - 1 <? z) then Fault FIndexOOB
   else v <- rd s (b + Z.to_nat (z - lo))%nat ;; match v with VInt _ z' => Ok z' | VBool _ => Fault FTypeMismatch end).
Proof. intros s k b lo n ki i z H. cbn [reval]. rewrite H. reflexivity. Qed.
Theorem array_read_refines : forall o, o_neg_checked o = true -> forall G s, store_ok G s = true -> forall k b lo n ki i,
  tint true G k (EIdx b lo n ki i) = true ->
  eval o s (EIdx b lo n ki i) = bind (reval s k (EIdx b lo n ki i)) (fun z => Ok (VInt k z)).
Proof. intros o Hneg G s Hs k b lo n ki i Ht. exact (eval_int_refines o Hneg G s Hs k _ Ht). Qed.
Theorem array_write_refines : forall o, o_neg_checked o = true -> o_for_checked o = true -> o_case_unsigned o = true ->
  forall G fuel depth s b lo n ki i e il, store_ok G s = true -> tstmt true G il (SAssignIdx b lo n ki i e) = true ->
  exec_with o_ref (ev_ref G) fuel depth s (SAssignIdx b lo n ki i e) = exec o fuel depth s (SAssignIdx b lo n ki i e).
Proof.
  intros o Hneg Hfor Hcase G fuel depth s b lo n ki i e il Hs Ht.
  assert (Ht' : tstmt true G false (SAssignIdx b lo n ki i e) = true) by exact Ht.
  exact (exec_refines o Hneg Hfor Hcase G fuel depth s _ false Hs Ht' ltac:(discriminate)).
Qed.

(* ================= C03: the element kind is kept ================= *)
(* the write path of an element assignment: the computed slot is declared with the element kind, so the stored value conforms *)
Theorem element_write_keeps_type : forall o strict, o_coerce_write o = true \/ strict = true -> forall G s b lo n k iv x v,
  store_ok G s = true -> arr_ok G b n k = true -> idx_slot b lo n iv = Ok x ->
  (exists k' z, v = VInt k' z /\ in_range k' z = true /\ (strict = true -> k' = k)) ->
  benign (write o s x v) (fun s' => store_ok G s' = true).
Proof.
  intros o strict Hco G s b lo n k iv x v Hs Harr Hx Hv.
  destruct (idx_slot_inv _ _ _ _ _ Hx) as [z [_ [_ [-> Hj]]]].
  exact (write_sound o strict Hco G s _ v (TInt k) Hs (arr_ok_nth G b n k _ Harr Hj) Hv).
Qed.

(* ================= non-vacuity ================= *)
(* j : INT := 2;  a : ARRAY[-1..1] OF INT := [10, 20, 30] at slots 1..3;  r : INT.
   a[0] := 42; r := a[-1] + a[1]   completes;   r := a[j]  and  a[j] := 1  are IndexOutOfBounds (j = 2) *)
Lemma array_nonvacuous :
  let G := [TInt KInt; TInt KInt; TInt KInt; TInt KInt; TInt KInt] in
  let s := [VInt KInt 2; VInt KInt 10; VInt KInt 20; VInt KInt 30; VInt KInt 0] in
  let a := EIdx 1 (-1) 3 KInt in
  let lit := fun z => ELit false (VInt KInt z) in
  let body := [SAssignIdx 1 (-1) 3 KInt (lit 0) (lit 42); SAssign 4 (EBin BAdd (a (lit (-1))) (a (lit 1)))] in
  let body_oob := body ++ [SAssign 4 (a (EVar 0))] in
  let write_oob := [SAssignIdx 1 (-1) 3 KInt (EVar 0) (lit 1)] in
  store_ok G s = true /\ tprogram true G body = true /\ tprogram true G body_oob = true /\ tprogram true G write_oob = true /\
  tprogram true G [SAssign 4 (a (lit 2))] = false /\ tprogram true G [SAssignIdx 1 (-1) 3 KInt (lit (-2)) (lit 1)] = false /\
  eval o_code s (a (lit (-1))) = Ok (VInt KInt 10) /\ eval o_code s (a (lit 1)) = Ok (VInt KInt 30) /\
  eval o_code s (a (lit 2)) = Fault FIndexOOB /\ eval o_code s (a (lit (-2))) = Fault FIndexOOB /\
  run_program o_code 10 s body = Ok [VInt KInt 2; VInt KInt 10; VInt KInt 42; VInt KInt 30; VInt KInt 40] /\
  run_program o_fixed 10 s body = Ok [VInt KInt 2; VInt KInt 10; VInt KInt 42; VInt KInt 30; VInt KInt 40] /\
  run_program o_code 10 s body_oob = Fault FIndexOOB /\
  run_program o_code 10 s write_oob = Fault FIndexOOB /\
  run_ref G 10 s body = Ok [VInt KInt 2; VInt KInt 10; VInt KInt 42; VInt KInt 30; VInt KInt 40] /\
  run_ref G 10 s body_oob = Fault FIndexOOB /\ run_ref G 10 s write_oob = Fault FIndexOOB /\
  store_ok G [VInt KInt 2; VInt KInt 10; VInt KInt 42; VInt KInt 30; VInt KInt 40] = true.
Proof. vm_compute. repeat split; reflexivity. Qed.
(* the same program in R and in M (the code as it is): same store, same IndexOutOfBounds *)
Lemma array_refines_nonvacuous :
  let G := [TInt KInt; TInt KInt; TInt KInt; TInt KInt; TInt KInt] in
  let s := [VInt KInt 2; VInt KInt 10; VInt KInt 20; VInt KInt 30; VInt KInt 0] in
  let a := EIdx 1 (-1) 3 KInt in
  let lit := fun z => ELit false (VInt KInt z) in
  let body := [SAssignIdx 1 (-1) 3 KInt (lit 0) (lit 42); SAssign 4 (EBin BAdd (a (lit (-1))) (a (lit 1)))] in
  let body_oob := body ++ [SAssign 4 (a (EVar 0))] in
  store_ok G s = true /\ tprogram true G body = true /\ tprogram true G body_oob = true /\
  run_ref G 10 s body = Ok [VInt KInt 2; VInt KInt 10; VInt KInt 42; VInt KInt 30; VInt KInt 40] /\
  run_program o_code 10 s body = Ok [VInt KInt 2; VInt KInt 10; VInt KInt 42; VInt KInt 30; VInt KInt 40] /\
  run_ref G 10 s body_oob = Fault FIndexOOB /\ run_program o_code 10 s body_oob = Fault FIndexOOB.
Proof. vm_compute. repeat split; reflexivity. Qed.
