From Coq Require Import ZArith List Bool Lia.
From TP Require Import Model.StCore Model.StTyping.
Import ListNotations.
Open Scope Z_scope.

(* a result that is not a static-class fault, a panic or a stuck computation *)
Definition benign {A} (r : res A) (P : A -> Prop) : Prop :=
  match r with Ok a => P a | Fault f => static_class f = false | OutOfFuel => True end.

Lemma benign_bind {A B} (r : res A) (k : A -> res B) (P : A -> Prop) (Q : B -> Prop) :
  benign r P -> (forall a, P a -> benign (k a) Q) -> benign (bind r k) Q.
Proof. destruct r as [a|f|]; cbn; auto. Qed.

Lemma ik_eqb_eq a b : ik_eqb a b = true <-> a = b.
Proof. destruct a, b; cbn; split; intro H; try reflexivity; try discriminate. Qed.
Lemma ik_eqb_refl a : ik_eqb a a = true.
Proof. destruct a; reflexivity. Qed.

(* ---------- the store agrees with the declarations ---------- *)
Lemma store_ok_nth : forall G s x t, store_ok G s = true -> nth_error G x = Some t ->
  exists v, nth_error s x = Some v /\ slot_ok t v = true.
Proof.
  induction G as [|t0 G IH]; intros s x t Hs Hx; [destruct x; discriminate|].
  destruct s as [|v0 s]; [discriminate|]. cbn in Hs. apply andb_prop in Hs as [H0 Hs].
  destruct x as [|x]; cbn in *.
  - injection Hx as <-. exists v0. split; [reflexivity | exact H0].
  - apply IH; assumption.
Qed.
Lemma store_ok_upd : forall G s x t v, store_ok G s = true -> nth_error G x = Some t -> slot_ok t v = true ->
  store_ok G (upd s x v) = true.
Proof.
  induction G as [|t0 G IH]; intros s x t v Hs Hx Hv; [destruct x; discriminate|].
  destruct s as [|v0 s]; [discriminate|]. cbn in Hs. apply andb_prop in Hs as [H0 Hs].
  destruct x as [|x]; cbn in *.
  - injection Hx as <-. rewrite Hv, Hs. reflexivity.
  - rewrite H0. cbn. eapply IH; eassumption.
Qed.

(* ---------- arrays: the slots of a declared array hold its element kind ---------- *)
Lemma arr_ok_pos G b n k : arr_ok G b n k = true -> (0 < n)%nat.
Proof. unfold arr_ok. intro H. apply andb_prop in H as [Hn _]. apply Nat.ltb_lt in Hn. exact Hn. Qed.
Lemma arr_ok_nth G b n k j : arr_ok G b n k = true -> (j < n)%nat -> nth_error G (b + j) = Some (TInt k).
Proof.
  unfold arr_ok. intros H Hj. apply andb_prop in H as [_ H].
  assert (Hin : In j (seq 0 n)) by (apply in_seq; lia).
  pose proof (proj1 (forallb_forall _ _) H j Hin) as Hjk. cbn beta in Hjk.
  destruct (nth_error G (b + j)) as [[|k']|]; try discriminate. apply ik_eqb_eq in Hjk. subst k'. reflexivity.
Qed.
Lemma arr_ok_base G b n k : arr_ok G b n k = true -> var_kind G b = Some k.
Proof.
  intro H. pose proof (arr_ok_nth G b n k 0%nat H (arr_ok_pos G b n k H)) as H0.
  rewrite Nat.add_0_r in H0. unfold var_kind. rewrite H0. reflexivity.
Qed.
Lemma arr_ok_slot G s b n k j : store_ok G s = true -> arr_ok G b n k = true -> (j < n)%nat ->
  exists z, nth_error s (b + j) = Some (VInt k z) /\ in_range k z = true.
Proof.
  intros Hs Ha Hj. destruct (store_ok_nth G s (b + j) (TInt k) Hs (arr_ok_nth G b n k j Ha Hj)) as [v [Hv Hok]].
  destruct v as [|k' z]; [discriminate|]. cbn in Hok. apply andb_prop in Hok as [Hk Hr]. apply ik_eqb_eq in Hk. subst k'.
  exists z. split; [exact Hv | exact Hr].
Qed.
(* the index computation: a slot of the array, or IndexOutOfBounds *)
Lemma int_value_int k z : exists z', int_value (VInt k z) = Ok z' /\ (k <> KULInt -> z' = z).
Proof. destruct k; cbn; eexists; (split; [reflexivity|]); intro Hk; try reflexivity. contradiction. Qed.
Lemma idx_slot_inv b lo n iv x : idx_slot b lo n iv = Ok x ->
  exists z, int_value iv = Ok z /\ lo <= z <= lo + Z.of_nat n - 1 /\ x = (b + Z.to_nat (z - lo))%nat /\ (Z.to_nat (z - lo) < n)%nat.
Proof.
  unfold idx_slot. destruct (int_value iv) as [z| |]; cbn [bind]; try discriminate.
  destruct ((z <? lo) || (lo + Z.of_nat n - 1 <? z)) eqn:E; [discriminate|]. intro H. injection H as <-.
  apply orb_false_iff in E as [E1 E2]. apply Z.ltb_ge in E1, E2.
  exists z. split; [reflexivity|]. split; [lia|]. split; [reflexivity | lia].
Qed.
Lemma idx_slot_oob b lo n iv z : int_value iv = Ok z -> z < lo \/ lo + Z.of_nat n - 1 < z -> idx_slot b lo n iv = Fault FIndexOOB.
Proof.
  intros Hi Hz. unfold idx_slot. rewrite Hi. cbn [bind].
  replace ((z <? lo) || (lo + Z.of_nat n - 1 <? z)) with true; [reflexivity|].
  symmetry. apply orb_true_iff. destruct Hz as [Hz|Hz]; [left | right]; apply Z.ltb_lt; exact Hz.
Qed.
Lemma idx_slot_benign b lo n iv (P : nat -> Prop) : (exists k z, iv = VInt k z) ->
  (forall j, (j < n)%nat -> P (b + j)%nat) -> benign (idx_slot b lo n iv) P.
Proof.
  intros [k [z ->]] HP. destruct (idx_slot b lo n (VInt k z)) as [x|f|] eqn:E; cbn [benign]; [| |exact I].
  - destruct (idx_slot_inv _ _ _ _ _ E) as [z' [_ [_ [-> Hj]]]]. apply HP. exact Hj.
  - unfold idx_slot in E. destruct (int_value_int k z) as [z' [Ez' _]]. rewrite Ez' in E. cbn [bind] in E.
    destruct ((z' <? lo) || (lo + Z.of_nat n - 1 <? z')); [injection E as <-; reflexivity | discriminate].
Qed.

(* ---------- what a well-typed integer expression evaluates to ---------- *)
(* signed context: some signed kind; unsigned context: an unsigned kind, or (for an expression
   made of untyped literals only) a non-negative DINT *)
Definition dyn_int (strict : bool) (k : ikind) (e : expr) (v : value) : Prop :=
  exists k' z, v = VInt k' z /\ in_range k' z = true /\ (strict = true -> k' = k) /\
    (if is_signed k then is_signed k' = true
     else (k' = k \/ (pure_lit e = true /\ k' = KDInt /\ 0 <= z))).

Lemma wider_signed a b : is_signed a = true -> is_signed b = true -> is_signed (wider a b) = true.
Proof. unfold wider. destruct (rank b <=? rank a); auto. Qed.
Lemma wider_unsigned_l a b : is_signed a = false -> is_signed (wider a b) = false.
Proof. destruct a, b; cbn; intro H; try discriminate; reflexivity. Qed.
Lemma wider_unsigned_r a b : is_signed b = false -> is_signed (wider a b) = false.
Proof. destruct a, b; cbn; intro H; try discriminate; reflexivity. Qed.
Lemma to_i64_signed k z : is_signed k = true -> to_i64 k z = Ok z.
Proof. destruct k; cbn; intro H; try discriminate; reflexivity. Qed.

Lemma from_wide_benign t z (P : value -> Prop) : (in_range t z = true -> P (VInt t z)) -> benign (from_wide t z) P.
Proof. intro H. unfold from_wide. destruct (in_range t z) eqn:E; cbn; auto. Qed.
Lemma neg_in_range k z : is_signed k = true -> in_range k z = true -> (z =? kmin k) = false -> in_range k (- z) = true.
Proof.
  unfold in_range, kmin, kmax. intros Hs Hr Hm. rewrite Hs in *.
  apply andb_prop in Hr as [H1 H2]. apply Z.leb_le in H1, H2. apply Z.eqb_neq in Hm.
  apply andb_true_intro. split; apply Z.leb_le; lia.
Qed.

Section Sound.
  Variable o : opts.
  Variable strict : bool.
  Hypothesis Hneg : o_neg_checked o = true.

  Lemma tint_sound G s k : store_ok G s = true -> forall e, tint strict G k e = true ->
    benign (eval o s e) (dyn_int strict k e).
  Proof.
    intros Hs e. revert k. induction e as [u v|x|op e1 IH1|op l IHl r IHr|b lo n ki i IHi]; intros k Ht.
    - (* literal *)
      cbn [eval benign]. cbn [tint] in Ht. destruct u.
      + destruct v as [|k' z]; [discriminate|]. destruct k'; try discriminate.
        apply andb_prop in Ht as [Hrd Hr]. apply andb_prop in Hrd as [Hns Hrd]. apply negb_true_iff in Hns.
        exists KDInt, z. split; [reflexivity|]. split; [exact Hrd|]. split; [intro Hst; congruence|].
        destruct (is_signed k) eqn:Ek; [reflexivity|]. right. repeat split.
        unfold in_range, kmin in Hr. rewrite Ek in Hr. apply andb_prop in Hr as [Hr _]. lia.
      + destruct v as [|k' z]; [discriminate|]. apply andb_prop in Ht as [Hk Hr]. apply ik_eqb_eq in Hk. subst k'.
        exists k, z. split; [reflexivity|]. split; [exact Hr|]. split; [reflexivity|]. destruct (is_signed k) eqn:Ek; [reflexivity | left; reflexivity].
    - (* variable *)
      cbn [eval tint] in *. unfold ty_is_int in Ht. destruct (nth_error G x) as [[|k']|] eqn:Ex; try discriminate.
      apply ik_eqb_eq in Ht. subst k'.
      destruct (store_ok_nth G s x (TInt k) Hs Ex) as [v [Hv Hok]]. unfold rd. rewrite Hv. cbn.
      destruct v as [|k' z]; [discriminate|]. cbn in Hok. apply andb_prop in Hok as [Hk Hr]. apply ik_eqb_eq in Hk. subst k'.
      exists k, z. split; [reflexivity|]. split; [exact Hr|]. split; [reflexivity|]. destruct (is_signed k) eqn:Ek; [reflexivity | left; reflexivity].
    - (* unary *)
      cbn [tint] in Ht. destruct op; [|discriminate]. apply andb_prop in Ht as [Hk Ht1].
      cbn [eval]. eapply benign_bind; [apply IH1; exact Ht1|].
      intros v [k' [z [-> [Hr [Hx Hd]]]]]. rewrite Hk in Hd. cbn [apply_unary]. rewrite Hd.
      destruct (z =? kmin k') eqn:Em; [rewrite Hneg; reflexivity|].
      cbn. exists k', (- z). split; [reflexivity|]. split; [apply neg_in_range; assumption|]. split; [exact Hx|]. rewrite Hk. exact Hd.
    - (* binary arithmetic *)
      cbn [tint] in Ht. apply andb_prop in Ht as [Ht Hpure]. apply andb_prop in Ht as [Ht Htr].
      apply andb_prop in Ht as [Hop Htl].
      assert (Hev : eval o s (EBin op l r) = (lv <- eval o s l ;; rv <- eval o s r ;; apply_binary op lv rv)).
      { destruct op; try discriminate; reflexivity. }
      rewrite Hev. eapply benign_bind; [apply IHl; exact Htl|].
      intros lv [k1 [a [-> [Hr1 [Hx1 Hd1]]]]]. eapply benign_bind; [apply IHr; exact Htr|].
      intros rv [k2 [b [-> [Hr2 [Hx2 Hd2]]]]].
      assert (Hlog : is_logic op = false) by (destruct op; try discriminate; reflexivity).
      assert (Hcmp : is_cmp op = false) by (destruct op; try discriminate; reflexivity).
      unfold apply_binary. rewrite Hlog.
      destruct (is_signed k) eqn:Ek.
      + (* signed context *)
        rewrite (wider_signed _ _ Hd1 Hd2). rewrite !to_i64_signed by assumption. cbn [bind]. rewrite Hcmp.
        assert (Hres : forall z, in_range (wider k1 k2) z = true -> dyn_int strict k (EBin op l r) (VInt (wider k1 k2) z)).
        { intros z Hz. exists (wider k1 k2), z. split; [reflexivity|]. split; [exact Hz|].
          split; [intro Hst; rewrite (Hx1 Hst), (Hx2 Hst); unfold wider; rewrite Z.leb_refl; reflexivity|].
          rewrite Ek. apply wider_signed; assumption. }
        destruct op; try discriminate;
          try (apply from_wide_benign; apply Hres);
          (destruct (b =? 0); [reflexivity | apply from_wide_benign; apply Hres]).
      + (* unsigned context: at least one operand has an unsigned kind *)
        cbn [orb] in Hpure. apply negb_true_iff in Hpure.
        assert (Hw : wider k1 k2 = k).
        { destruct Hd1 as [->|[Hp1 [-> _]]]; destruct Hd2 as [->|[Hp2 [-> _]]].
          - unfold wider. rewrite Z.leb_refl. reflexivity.
          - destruct k; try discriminate; reflexivity.
          - destruct k; try discriminate; reflexivity.
          - rewrite Hp1, Hp2 in Hpure. discriminate. }
        rewrite Hw, Ek.
        assert (Ha : to_u64 k1 a = Ok a).
        { unfold to_u64. destruct Hd1 as [->|[_ [-> H1]]]; [rewrite Ek; reflexivity|].
          cbn. destruct (Z.ltb_spec a 0); [lia | reflexivity]. }
        assert (Hb : to_u64 k2 b = Ok b).
        { unfold to_u64. destruct Hd2 as [->|[_ [-> H2]]]; [rewrite Ek; reflexivity|].
          cbn. destruct (Z.ltb_spec b 0); [lia | reflexivity]. }
        rewrite Ha, Hb. cbn [bind]. rewrite Hcmp.
        assert (Hres : forall z, in_range k z = true -> dyn_int strict k (EBin op l r) (VInt k z)).
        { intros z Hz. exists k, z. split; [reflexivity|]. split; [exact Hz|]. split; [reflexivity|]. rewrite Ek. left. reflexivity. }
        destruct op; try discriminate;
          try (apply from_wide_benign; apply Hres).
        * destruct (a <? b); [reflexivity | apply from_wide_benign; apply Hres].
        * destruct (b =? 0); [reflexivity | apply from_wide_benign; apply Hres].
        * destruct (b =? 0); [reflexivity | apply from_wide_benign; apply Hres].
    - (* array element: the index is an integer, the slot read lies inside the array and holds the element kind *)
      cbn [tint] in Ht. apply andb_prop in Ht as [Ht Hti]. apply andb_prop in Ht as [Ht _]. apply andb_prop in Ht as [Harr _].
      cbn [eval]. eapply benign_bind; [apply IHi; exact Hti|].
      intros iv [k' [z [-> _]]].
      eapply benign_bind; [apply (idx_slot_benign b lo n (VInt k' z) (fun x => exists j, (j < n)%nat /\ x = (b + j)%nat));
                           [exists k', z; reflexivity | intros j Hj; exists j; split; [exact Hj | reflexivity]]|].
      intros x [j [Hj ->]]. destruct (arr_ok_slot G s b n k j Hs Harr Hj) as [ze [Hnth Hr]].
      unfold rd. rewrite Hnth. cbn [benign].
      exists k, ze. split; [reflexivity|]. split; [exact Hr|]. split; [reflexivity|].
      destruct (is_signed k) eqn:Ek; [reflexivity | left; reflexivity].
  Qed.

  Definition is_vbool (v : value) : Prop := exists b, v = VBool b.

  (* two operands checked at the same kind can be compared without a type mismatch *)
  Lemma cmp_sound k op l r lv rv :
    is_cmp op = true -> dyn_int strict k l lv -> dyn_int strict k r rv ->
    (is_signed k || negb (pure_lit l && pure_lit r)) = true ->
    benign (apply_binary op lv rv) is_vbool.
  Proof.
    intros Hcmp [k1 [a [-> [_ [_ Hd1]]]]] [k2 [b [-> [_ [_ Hd2]]]]] Hpure.
    assert (Hlog : is_logic op = false) by (destruct op; try discriminate; reflexivity).
    unfold apply_binary. rewrite Hlog. destruct (is_signed k) eqn:Ek.
    - rewrite (wider_signed _ _ Hd1 Hd2). rewrite !to_i64_signed by assumption. cbn [bind]. rewrite Hcmp.
      cbn. eexists. reflexivity.
    - cbn [orb] in Hpure. apply negb_true_iff in Hpure.
      assert (Hw : wider k1 k2 = k).
      { destruct Hd1 as [->|[Hp1 [-> _]]]; destruct Hd2 as [->|[Hp2 [-> _]]].
        - unfold wider. rewrite Z.leb_refl. reflexivity.
        - destruct k; try discriminate; reflexivity.
        - destruct k; try discriminate; reflexivity.
        - rewrite Hp1, Hp2 in Hpure. discriminate. }
      rewrite Hw, Ek.
      assert (Ha : to_u64 k1 a = Ok a).
      { unfold to_u64. destruct Hd1 as [->|[_ [-> H1]]]; [rewrite Ek; reflexivity|].
        cbn. destruct (Z.ltb_spec a 0); [lia | reflexivity]. }
      assert (Hb : to_u64 k2 b = Ok b).
      { unfold to_u64. destruct Hd2 as [->|[_ [-> H2]]]; [rewrite Ek; reflexivity|].
        cbn. destruct (Z.ltb_spec b 0); [lia | reflexivity]. }
      rewrite Ha, Hb. cbn [bind]. rewrite Hcmp. cbn. eexists. reflexivity.
  Qed.

  Lemma tbool_sound G s : store_ok G s = true -> forall e, tbool strict G e = true ->
    benign (eval o s e) is_vbool.
  Proof.
    intros Hs. induction e as [u v|x|op e1 IH1|op l IHl r IHr|b lo n ki i IHi]; intro Ht; [| | | |discriminate].
    - cbn [tbool] in Ht. destruct u; [discriminate|]. destruct v as [b|]; [|discriminate]. cbn. exists b. reflexivity.
    - cbn [eval tbool] in *. unfold ty_is_bool in Ht. destruct (nth_error G x) as [[|k']|] eqn:Ex; try discriminate.
      destruct (store_ok_nth G s x TBool Hs Ex) as [v [Hv Hok]]. unfold rd. rewrite Hv. cbn.
      destruct v as [b|]; [exists b; reflexivity | discriminate].
    - cbn [tbool] in Ht. destruct op; [discriminate|]. cbn [eval].
      eapply benign_bind; [apply IH1; exact Ht|]. intros v [b ->]. cbn. eexists. reflexivity.
    - cbn [tbool] in Ht. destruct (is_logic op) eqn:Hlog.
      + apply andb_prop in Ht as [Htl Htr].
        assert (Hab : forall lv rv, is_vbool lv -> is_vbool rv -> benign (apply_binary op lv rv) is_vbool).
        { intros lv rv [a ->] [b ->]. unfold apply_binary. rewrite Hlog. cbn. eexists. reflexivity. }
        destruct op; try discriminate; cbn [eval].
        * eapply benign_bind; [apply IHl; exact Htl|]. intros lv Hl. destruct Hl as [a ->].
          destruct a; [|cbn; eexists; reflexivity].
          eapply benign_bind; [apply IHr; exact Htr|]. intros rv Hr. apply Hab; [eexists; reflexivity | exact Hr].
        * eapply benign_bind; [apply IHl; exact Htl|]. intros lv Hl. destruct Hl as [a ->].
          destruct a; [cbn; eexists; reflexivity|].
          eapply benign_bind; [apply IHr; exact Htr|]. intros rv Hr. apply Hab; [eexists; reflexivity | exact Hr].
        * eapply benign_bind; [apply IHl; exact Htl|]. intros lv Hl.
          eapply benign_bind; [apply IHr; exact Htr|]. intros rv Hr. apply Hab; assumption.
      + destruct (is_cmp op) eqn:Hcmp; [|discriminate].
        apply existsb_exists in Ht as [k [_ Hk]]. apply andb_prop in Hk as [Hk Hpure]. apply andb_prop in Hk as [Htl Htr].
        assert (Hev : eval o s (EBin op l r) = (lv <- eval o s l ;; rv <- eval o s r ;; apply_binary op lv rv)).
        { destruct op; try discriminate; reflexivity. }
        rewrite Hev. eapply benign_bind; [apply (tint_sound G s k Hs l Htl)|]. intros lv Hl.
        eapply benign_bind; [apply (tint_sound G s k Hs r Htr)|]. intros rv Hr.
        eapply cmp_sound; eassumption.
  Qed.

  Lemma eval_bool_sound G s e : store_ok G s = true -> tbool strict G e = true ->
    benign (ev_bool (eval o) s e) (fun _ => True).
  Proof.
    intros Hs Ht. unfold ev_bool. eapply benign_bind; [apply (tbool_sound G s Hs e Ht)|].
    intros v [b ->]. cbn. exact I.
  Qed.
End Sound.

(* ================= statements ================= *)
(* the local block-checker inside [tstmt] is [tblock] *)
Lemma tblock_local strict G : forall il b,
  (fix tb (il : bool) (b : list stmt) {struct b} : bool :=
     match b with [] => true | s1 :: b' => tstmt strict G il s1 && tb il b' end) il b = tblock strict G il b.
Proof. intros il b. induction b as [|s1 b IH]; [reflexivity|]. cbn [tblock]. rewrite <- IH. reflexivity. Qed.

Fixpoint telifs (strict : bool) (G : env) (il : bool) (l : list (expr * list stmt)) : bool :=
  match l with [] => true | (c, b) :: l' => tbool strict G c && tblock strict G il b && telifs strict G il l' end.
Fixpoint tbranches (strict : bool) (G : env) (il : bool) (l : list (list label * list stmt)) : bool :=
  match l with [] => true | (_, b) :: l' => tblock strict G il b && tbranches strict G il l' end.

Lemma tstmt_if strict G il c t elifs el :
  tstmt strict G il (SIf c t elifs el) = tbool strict G c && tblock strict G il t && telifs strict G il elifs && tblock strict G il el.
Proof.
  cbn [tstmt]. rewrite !tblock_local. f_equal. f_equal.
  induction elifs as [|[c' b] l IH]; [reflexivity|]. cbn [telifs]. rewrite tblock_local, IH. reflexivity.
Qed.
Lemma tstmt_case strict G il sel brs el :
  tstmt strict G il (SCase sel brs el) =
  existsb (fun k => tint strict G k sel) kinds && tbranches strict G il brs && tblock strict G il el.
Proof.
  cbn [tstmt]. rewrite !tblock_local. f_equal. f_equal.
  induction brs as [|[ls b] l IH]; [reflexivity|]. cbn [tbranches]. rewrite tblock_local, IH. reflexivity.
Qed.
Lemma tstmt_for strict G il x a b st body :
  tstmt strict G il (SFor x a b st body) =
  match var_kind G x with
  | Some k => tint strict G k a && tint strict G k b && tint strict G k st && negb (ik_eqb k KULInt) && tblock strict G true body
  | None => false
  end.
Proof. cbn [tstmt]. destruct (var_kind G x); [rewrite tblock_local|]; reflexivity. Qed.
Lemma tstmt_while strict G il c body : tstmt strict G il (SWhile c body) = tbool strict G c && tblock strict G true body.
Proof. cbn [tstmt]. rewrite tblock_local. reflexivity. Qed.
Lemma tstmt_repeat strict G il body c : tstmt strict G il (SRepeat body c) = tblock strict G true body && tbool strict G c.
Proof. cbn [tstmt]. rewrite tblock_local. reflexivity. Qed.

(* what a statement may hand back: a declaration-conforming store; EXIT/CONTINUE only inside a loop *)
Definition sig_ok (depth : nat) (g : signal) : Prop :=
  match g with GNormal | GReturn => True | GExit | GContinue => depth <> 0%nat end.
Definition sres_ok (G : env) (depth : nat) (r : res (store * signal)) : Prop :=
  benign r (fun p => store_ok G (fst p) = true /\ sig_ok depth (snd p)).

Section SoundStmt.
  Variable o : opts.
  Variable strict : bool.
  Hypothesis Hneg : o_neg_checked o = true.
  Hypothesis Hfor : o_for_checked o = true.
  Hypothesis Hco : o_coerce_write o = true \/ strict = true.
  Hypothesis Hcase : o_case_unsigned o = true.
  Variable G : env.
  (* the recursive executor is sound for nested statements *)
  Variable ex : nat -> store -> stmt -> res (store * signal).
  Hypothesis ex_sound : forall depth s st il, store_ok G s = true -> tstmt strict G il st = true ->
    (il = true -> depth <> 0%nat) -> sres_ok G depth (ex depth s st).

  Lemma run_block_sound : forall b depth s il, store_ok G s = true -> tblock strict G il b = true ->
    (il = true -> depth <> 0%nat) -> sres_ok G depth (run_block ex depth s b).
  Proof.
    induction b as [|st1 b IH]; intros depth s il Hs Ht Hil; [cbn; split; [exact Hs | exact I]|].
    cbn [tblock] in Ht. apply andb_prop in Ht as [Ht1 Htb]. cbn [run_block].
    unfold sres_ok. eapply benign_bind; [apply (ex_sound depth s st1 il Hs Ht1 Hil)|].
    intros [s' g] [Hs' Hg]. cbn [fst snd] in *.
    destruct g; [apply (IH depth s' il Hs' Htb Hil) | | |]; cbn; split; assumption.
  Qed.

  Lemma write_sound s x v t : store_ok G s = true -> nth_error G x = Some t ->
    (match t with
     | TBool => is_vbool v
     | TInt k => exists k' z, v = VInt k' z /\ in_range k' z = true /\ (strict = true -> k' = k)
     end) ->
    benign (write o s x v) (fun s' => store_ok G s' = true).
  Proof.
    intros Hs Hx Hv. unfold write. destruct (store_ok_nth G s x t Hs Hx) as [cur [Hcur Hok]].
    unfold rd. rewrite Hcur. cbn [bind].
    destruct t as [|k].
    - destruct Hv as [b ->]. destruct cur as [cb|]; [|discriminate].
      destruct (o_coerce_write o); cbn; (eapply store_ok_upd; [exact Hs | exact Hx | reflexivity]).
    - destruct Hv as [k' [z [-> [Hr Hx']]]]. destruct cur as [|kc zc]; [discriminate|]. cbn in Hok.
      apply andb_prop in Hok as [Hk _]. apply ik_eqb_eq in Hk. subst kc.
      destruct (o_coerce_write o) eqn:Ecw.
      + cbn [coerce_like]. destruct (ik_eqb k k') eqn:E.
        * apply ik_eqb_eq in E. subst k'. cbn.
          eapply store_ok_upd; [exact Hs | exact Hx |]. cbn. rewrite ik_eqb_refl, Hr. reflexivity.
        * unfold from_wide. destruct (in_range k z) eqn:Er; [|reflexivity]. cbn.
          eapply store_ok_upd; [exact Hs | exact Hx |]. cbn. rewrite ik_eqb_refl, Er. reflexivity.
      + (* the value is stored as it is: under strict typing it already has the declared kind *)
        destruct Hco as [Hc|Hst]; [congruence|]. rewrite (Hx' Hst) in *. cbn.
        eapply store_ok_upd; [exact Hs | exact Hx |]. cbn. rewrite ik_eqb_refl, Hr. reflexivity.
  Qed.

  Lemma run_elifs_sound : forall l depth s il el, store_ok G s = true -> telifs strict G il l = true ->
    tblock strict G il el = true -> (il = true -> depth <> 0%nat) -> sres_ok G depth (run_elifs (eval o) ex depth s l el).
  Proof.
    induction l as [|[c blk] l IH]; intros depth s il el Hs Hl Hel Hil; cbn [run_elifs].
    - eapply run_block_sound; eassumption.
    - cbn [telifs] in Hl. apply andb_prop in Hl as [Hl Hrest]. apply andb_prop in Hl as [Hc Hb].
      unfold sres_ok. eapply benign_bind; [apply (eval_bool_sound o strict Hneg G s c Hs Hc)|].
      intros b _. destruct b; [eapply run_block_sound; eassumption | eapply IH; eassumption].
  Qed.
  Lemma run_case_sound : forall l depth s z il el, store_ok G s = true -> tbranches strict G il l = true ->
    tblock strict G il el = true -> (il = true -> depth <> 0%nat) -> sres_ok G depth (run_case ex depth s z l el).
  Proof.
    induction l as [|[ls blk] l IH]; intros depth s z il el Hs Hl Hel Hil; cbn [run_case].
    - eapply run_block_sound; eassumption.
    - cbn [tbranches] in Hl. apply andb_prop in Hl as [Hb Hrest].
      destruct (existsb _ ls); [eapply run_block_sound; eassumption | eapply IH; eassumption].
  Qed.

  (* a loop body runs at depth + 1, so its EXIT/CONTINUE are consumed by the loop *)
  Lemma body_sound depth s body : store_ok G s = true -> tblock strict G true body = true ->
    sres_ok G (S depth) (run_block ex (S depth) s body).
  Proof. intros Hs Hb. eapply run_block_sound; [exact Hs | exact Hb | intros _; discriminate]. Qed.

  Lemma while_sound : forall n depth c body s, store_ok G s = true -> tbool strict G c = true -> tblock strict G true body = true ->
    sres_ok G depth (while_loop (eval o) ex n depth c body s).
  Proof.
    induction n as [|n IH]; intros depth c body s Hs Hc Hb; [exact I|]. cbn [while_loop].
    unfold sres_ok. eapply benign_bind; [apply (eval_bool_sound o strict Hneg G s c Hs Hc)|]. intros b _.
    destruct b; cbn [negb]; [|cbn; split; [exact Hs | exact I]].
    eapply benign_bind; [apply (body_sound depth s body Hs Hb)|]. intros [s' g] [Hs' Hg]. cbn [fst snd] in *.
    destruct g; try (apply IH; assumption); cbn; (split; [exact Hs' | exact I]).
  Qed.
  Lemma repeat_sound : forall n depth body c s, store_ok G s = true -> tbool strict G c = true -> tblock strict G true body = true ->
    sres_ok G depth (repeat_loop (eval o) ex n depth body c s).
  Proof.
    induction n as [|n IH]; intros depth body c s Hs Hc Hb; [exact I|]. cbn [repeat_loop].
    unfold sres_ok. eapply benign_bind; [apply (body_sound depth s body Hs Hb)|]. intros [s' g] [Hs' Hg]. cbn [fst snd] in *.
    destruct g; [ | cbn; split; [exact Hs' | exact I] | | cbn; split; [exact Hs' | exact I]].
    - eapply benign_bind; [apply (eval_bool_sound o strict Hneg G s' c Hs' Hc)|]. intros b _.
      destruct b; [cbn; split; [exact Hs' | exact I] | apply IH; assumption].
    - eapply benign_bind; [apply (eval_bool_sound o strict Hneg G s' c Hs' Hc)|]. intros b _.
      destruct b; [cbn; split; [exact Hs' | exact I] | apply IH; assumption].
  Qed.

  (* coerce_loop_value keeps the control variable in its declared kind *)
  Lemma coerce_loop_sound k zt z : k <> KULInt -> (is_signed k = false -> 0 <= z) ->
    benign (coerce_loop (VInt k zt) z) (fun v => slot_ok (TInt k) v = true).
  Proof.
    intros _ Hz. unfold coerce_loop. destruct (is_signed k) eqn:Es.
    - unfold from_wide. destruct (in_range k z) eqn:Er; [|reflexivity]. cbn. rewrite ik_eqb_refl, Er. reflexivity.
    - destruct (Z.ltb_spec z 0); [specialize (Hz eq_refl); lia|].
      unfold from_wide. destruct (in_range k z) eqn:Er; [|reflexivity]. cbn. rewrite ik_eqb_refl, Er. reflexivity.
  Qed.

  Lemma for_sound : forall n depth x k zt ei pi body s cur,
    store_ok G s = true -> nth_error G x = Some (TInt k) -> k <> KULInt -> tblock strict G true body = true ->
    (is_signed k = false -> 0 < pi /\ 0 <= cur) ->
    sres_ok G depth (for_loop o ex n depth x (VInt k zt) ei pi body s cur).
  Proof.
    induction n as [|n IH]; intros depth x k zt ei pi body s cur Hs Hx Hk Hb Hu; [exact I|]. cbn [for_loop].
    destruct (_ || _); [cbn; split; [exact Hs | exact I]|].
    unfold sres_ok. eapply benign_bind; [apply (body_sound depth s body Hs Hb)|]. intros [s' g] [Hs' Hg]. cbn [fst snd] in *.
    assert (Hnext : sres_ok G depth
      (let next := cur + pi in
       if (next <? - 2 ^ 63) || (i64max <? next) then (if o_for_checked o then Fault FOverflow else Fault FPanic)
       else c <- coerce_loop (VInt k zt) next;; for_loop o ex n depth x (VInt k zt) ei pi body (upd s' x c) next)).
    { cbn zeta. destruct (_ || _); [rewrite Hfor; reflexivity|].
      unfold sres_ok. eapply benign_bind; [apply (coerce_loop_sound k zt (cur + pi) Hk); intro Hus; specialize (Hu Hus); lia|].
      intros c Hc. apply IH; try assumption.
      - eapply store_ok_upd; eassumption.
      - intro Hus. specialize (Hu Hus). lia. }
    destruct g; [exact Hnext | cbn; split; [exact Hs' | exact I] | exact Hnext | cbn; split; [exact Hs' | exact I]].
  Qed.

  Lemma int_value_of_dyn k e v : dyn_int strict k e v -> exists z, int_value v = Ok z /\
    (forall k' z', v = VInt k' z' -> k' <> KULInt -> z = z').
  Proof.
    intros [k' [z [-> _]]]. destruct k'; cbn; eexists; (split; [reflexivity|]); intros k2 z2 H Hk; injection H as <- <-; try reflexivity.
    contradiction.
  Qed.

  Lemma step_sound n depth s st il : store_ok G s = true -> tstmt strict G il st = true ->
    (il = true -> depth <> 0%nat) -> sres_ok G depth (step o (eval o) ex n depth s st).
  Proof.
    intros Hs Ht Hil. destruct st as [x e|b0 lo n0 ki i e|c t elifs el|sel brs el|x a b stp body|c body|body c| | |].
    - (* assignment *)
      cbn [tstmt] in Ht. cbn [step]. destruct (nth_error G x) as [[|k]|] eqn:Ex; [| |discriminate].
      + unfold sres_ok. eapply benign_bind; [apply (tbool_sound o strict Hneg G s Hs e Ht)|]. intros v Hv.
        eapply benign_bind; [apply (write_sound s x v TBool Hs Ex Hv)|]. intros s' Hs'. cbn. split; [exact Hs' | exact I].
      + unfold sres_ok. eapply benign_bind; [apply (tint_sound o strict Hneg G s k Hs e Ht)|]. intros v [k' [z [-> [Hr [Hx' _]]]]].
        eapply benign_bind; [apply (write_sound s x (VInt k' z) (TInt k) Hs Ex); exists k', z; split; [reflexivity | split; [exact Hr | exact Hx']]|].
        intros s' Hs'. cbn. split; [exact Hs' | exact I].
    - (* element assignment: the value, then the index; the slot written is one of the array's *)
      cbn [tstmt] in Ht. cbn [step]. destruct (var_kind G b0) as [k|] eqn:Ek; [|discriminate].
      apply andb_prop in Ht as [Ht Hte]. apply andb_prop in Ht as [Ht Hti]. apply andb_prop in Ht as [Ht _]. apply andb_prop in Ht as [Harr _].
      unfold sres_ok. eapply benign_bind; [apply (tint_sound o strict Hneg G s k Hs e Hte)|]. intros v [k' [z [-> [Hr [Hx' _]]]]].
      eapply benign_bind; [apply (tint_sound o strict Hneg G s ki Hs i Hti)|]. intros iv [ki' [zi [-> _]]].
      eapply benign_bind; [apply (idx_slot_benign b0 lo n0 (VInt ki' zi) (fun x => exists j, (j < n0)%nat /\ x = (b0 + j)%nat));
                           [exists ki', zi; reflexivity | intros j Hj; exists j; split; [exact Hj | reflexivity]]|].
      intros x [j [Hj ->]].
      eapply benign_bind; [apply (write_sound s (b0 + j)%nat (VInt k' z) (TInt k) Hs (arr_ok_nth G b0 n0 k j Harr Hj));
                           exists k', z; split; [reflexivity | split; [exact Hr | exact Hx']]|].
      intros s' Hs'. cbn. split; [exact Hs' | exact I].
    - (* IF *)
      rewrite tstmt_if in Ht. apply andb_prop in Ht as [Ht Hel]. apply andb_prop in Ht as [Ht Helifs]. apply andb_prop in Ht as [Hc Hthen].
      cbn [step]. unfold sres_ok. eapply benign_bind; [apply (eval_bool_sound o strict Hneg G s c Hs Hc)|]. intros bb _.
      destruct bb; [eapply run_block_sound; eassumption | eapply run_elifs_sound; eassumption].
    - (* CASE *)
      rewrite tstmt_case in Ht. apply andb_prop in Ht as [Ht Hel]. apply andb_prop in Ht as [Hsel Hbrs].
      apply existsb_exists in Hsel as [k [_ Hts]].
      cbn [step]. unfold sres_ok. eapply benign_bind; [apply (tint_sound o strict Hneg G s k Hs sel Hts)|].
      intros v [k' [z [-> _]]]. rewrite Hcase, orb_true_r.
      destruct (i64max <? z); [eapply run_block_sound; eassumption | eapply run_case_sound; eassumption].
    - (* FOR *)
      rewrite tstmt_for in Ht. unfold var_kind in Ht. destruct (nth_error G x) as [[|k]|] eqn:Ex; try discriminate.
      apply andb_prop in Ht as [Ht Hbody]. apply andb_prop in Ht as [Ht Hnk]. apply andb_prop in Ht as [Ht Hstp]. apply andb_prop in Ht as [Ha Hb].
      assert (Hk : k <> KULInt). { intro E. subst k. discriminate. }
      cbn [step]. unfold sres_ok.
      eapply benign_bind; [apply (tint_sound o strict Hneg G s k Hs a Ha)|]. intros sv Hsv.
      eapply benign_bind; [apply (tint_sound o strict Hneg G s k Hs b Hb)|]. intros ev Hev.
      eapply benign_bind; [apply (tint_sound o strict Hneg G s k Hs stp Hstp)|]. intros pv Hpv.
      destruct (int_value_of_dyn k a sv Hsv) as [si [Esi Hsi]]. destruct (int_value_of_dyn k b ev Hev) as [ei [Eei _]].
      destruct (int_value_of_dyn k stp pv Hpv) as [pi [Epi Hpi]].
      rewrite Esi, Eei, Epi. cbn [bind].
      destruct (pi =? 0) eqn:Ep0; [reflexivity|].
      destruct (store_ok_nth G s x (TInt k) Hs Ex) as [tv [Htv Htok]]. unfold rd. rewrite Htv. cbn [bind].
      destruct tv as [|kt zt]; [discriminate|]. cbn in Htok. apply andb_prop in Htok as [Hkt _]. apply ik_eqb_eq in Hkt. subst kt.
      (* in an unsigned context start and step are non-negative *)
      assert (Hnn : forall e v z, dyn_int strict k e v -> int_value v = Ok z -> is_signed k = false -> 0 <= z).
      { intros e0 v0 z0 [k0 [z1 [-> [Hr0 [_ Hd0]]]]] Hi Hus. rewrite Hus in Hd0.
        destruct Hd0 as [->|[_ [-> Hz]]].
        - destruct k; try discriminate; try contradiction; cbn in Hi; injection Hi as <-;
            unfold in_range, kmin in Hr0; cbn in Hr0; apply andb_prop in Hr0 as [Hr0 _]; apply Z.leb_le in Hr0; exact Hr0.
        - cbn in Hi. injection Hi as <-. exact Hz. }
      destruct (negb (is_signed k) && (pi <? 0)) eqn:Eneg.
      { (* unsigned control variable with a negative step: impossible for a T-typed step *)
        apply andb_prop in Eneg as [Eu En]. apply negb_true_iff in Eu. apply Z.ltb_lt in En.
        pose proof (Hnn stp pv pi Hpv Epi Eu). lia. }
      eapply benign_bind; [apply (coerce_loop_sound k zt si Hk); intro Hus; apply (Hnn a sv si Hsv Esi Hus)|].
      intros c0 Hc0. apply for_sound; try assumption.
      + eapply store_ok_upd; eassumption.
      + intro Hus. pose proof (Hnn a sv si Hsv Esi Hus). pose proof (Hnn stp pv pi Hpv Epi Hus).
        apply Z.eqb_neq in Ep0. lia.
    - rewrite tstmt_while in Ht. apply andb_prop in Ht as [Hc Hb]. cbn [step]. apply while_sound; assumption.
    - rewrite tstmt_repeat in Ht. apply andb_prop in Ht as [Hb Hc]. cbn [step]. apply repeat_sound; assumption.
    - cbn [tstmt] in Ht. cbn [step]. destruct (Nat.eqb_spec depth 0) as [E|E]; [exfalso; apply (Hil Ht E)|]. cbn. split; [exact Hs | exact E].
    - cbn [tstmt] in Ht. cbn [step]. destruct (Nat.eqb_spec depth 0) as [E|E]; [exfalso; apply (Hil Ht E)|]. cbn. split; [exact Hs | exact E].
    - cbn [step]. cbn. split; [exact Hs | exact I].
  Qed.
End SoundStmt.

(* ================= programs ================= *)
Section Programs.
  Variable o : opts.
  Variable strict : bool.
  Hypothesis Hneg : o_neg_checked o = true.
  Hypothesis Hfor : o_for_checked o = true.
  Hypothesis Hco : o_coerce_write o = true \/ strict = true.
  Hypothesis Hcase : o_case_unsigned o = true.
  Hypothesis Hret : o_return_ok o = true.
  Variable G : env.

  Lemma exec_sound : forall fuel depth s st il, store_ok G s = true -> tstmt strict G il st = true ->
    (il = true -> depth <> 0%nat) -> sres_ok G depth (exec o fuel depth s st).
  Proof.
    induction fuel as [|f IH]; intros depth s st il Hs Ht Hil; [exact I|].
    unfold exec. cbn [exec_with]. eapply (step_sound o strict Hneg Hfor Hco Hcase G (exec_with o (eval o) f)); [|exact Hs | exact Ht | exact Hil].
    intros d s0 st0 il0 Hs0 Ht0 Hil0. eapply (IH d s0 st0 il0); eassumption.
  Qed.

  (* C01 + C03 for one scan cycle of a T-typed program: the cycle completes or reports a
     value-dependent fault (or runs out of model fuel = does not terminate), never a static-class
     fault or a panic, and every variable still holds its declared type, in range *)
  Lemma program_sound fuel s body : store_ok G s = true -> tprogram strict G body = true ->
    benign (run_program o fuel s body) (fun s' => store_ok G s' = true).
  Proof.
    intros Hs Ht. unfold run_program, run_program_with.
    eapply benign_bind.
    - apply (run_block_sound strict G (exec_with o (eval o) fuel)) with (il := false); [|exact Hs | exact Ht | discriminate].
      intros d s0 st0 il0 Hs0 Ht0 Hil0. eapply (exec_sound fuel d s0 st0 il0); eassumption.
    - intros [s' g] [Hs' Hg]. cbn [fst snd] in *. destruct g; cbn in *; try (exfalso; apply Hg; reflexivity); try exact Hs'.
      rewrite Hret. exact Hs'.
  Qed.

  (* any number of cycles, with arbitrary declaration-conforming external writes in between *)
  Fixpoint run_cycles (fuel : nat) (s : store) (body : list stmt) (inputs : list (list (nat * value))) : res store :=
    match inputs with
    | [] => Ok s
    | sets :: rest =>
        let s1 := fold_left (fun acc p => upd acc (fst p) (snd p)) sets s in
        s2 <- run_program o fuel s1 body ;; run_cycles fuel s2 body rest
    end.
  Definition inputs_ok (sets : list (nat * value)) : Prop :=
    Forall (fun p => exists t, nth_error G (fst p) = Some t /\ slot_ok t (snd p) = true) sets.

  Lemma cycles_sound fuel body : tprogram strict G body = true -> forall inputs s,
    store_ok G s = true -> Forall inputs_ok inputs ->
    benign (run_cycles fuel s body inputs) (fun s' => store_ok G s' = true).
  Proof.
    intro Ht. induction inputs as [|sets rest IH]; intros s Hs Hin; [exact Hs|].
    inversion Hin as [|? ? Hsets Hrest]; subst. cbn [run_cycles].
    assert (Hs1 : store_ok G (fold_left (fun acc p => upd acc (fst p) (snd p)) sets s) = true).
    { clear -Hs Hsets. revert s Hs. induction Hsets as [|[x v] l [t [Hx Hv]] _ IHl]; intros s Hs; [exact Hs|].
      cbn [fold_left fst snd] in *. apply IHl. eapply store_ok_upd; eassumption. }
    eapply benign_bind; [apply (program_sound fuel _ body Hs1 Ht)|].
    intros s2 Hs2. apply IH; assumption.
  Qed.
End Programs.

(* ================= the classes T excludes / the repaired defects, with witnesses ================= *)
Definition o_fixed := {| o_neg_checked := true; o_for_checked := true; o_coerce_write := true; o_case_unsigned := true; o_return_ok := true |}.

Lemma neg_unchecked_panics :
  run_program {| o_neg_checked := false; o_for_checked := true; o_coerce_write := true; o_case_unsigned := true; o_return_ok := true |} 10
    [VInt KSInt (-128); VInt KSInt 0] [SAssign 1 (EUn UNeg (EVar 0))] = Fault FPanic /\
  tprogram true [TInt KSInt; TInt KSInt] [SAssign 1 (EUn UNeg (EVar 0))] = true.
Proof. split; vm_compute; reflexivity. Qed.
Lemma for_unchecked_panics :
  run_program {| o_neg_checked := true; o_for_checked := false; o_coerce_write := true; o_case_unsigned := true; o_return_ok := true |} 10
    [VInt KLInt 0]
    [SFor 0 (ELit false (VInt KLInt 9223372036854775806)) (ELit false (VInt KLInt 9223372036854775807)) (ELit false (VInt KLInt 2)) []]
  = Fault FPanic.
Proof. vm_compute. reflexivity. Qed.
Lemma uncoerced_write_changes_type :
  run_program {| o_neg_checked := true; o_for_checked := true; o_coerce_write := false; o_case_unsigned := true; o_return_ok := true |} 10
    [VInt KInt 1] [SAssign 0 (EBin BAdd (EVar 0) (ELit true (VInt KDInt 1)))] = Ok [VInt KDInt 2] /\
  store_ok [TInt KInt] [VInt KDInt 2] = false.
Proof. split; vm_compute; reflexivity. Qed.
Lemma unsigned_case_selector_faults :
  run_program {| o_neg_checked := true; o_for_checked := true; o_coerce_write := true; o_case_unsigned := false; o_return_ok := true |}
    10 [VInt KUInt 1] [SCase (EVar 0) [([LSingle 1], [])] []] = Fault FCaseSelector.
Proof. vm_compute. reflexivity. Qed.
Lemma return_in_program_faults :
  run_program {| o_neg_checked := true; o_for_checked := true; o_coerce_write := true; o_case_unsigned := true; o_return_ok := false |}
    10 [] [SReturn] = Fault FControlFlow.
Proof. vm_compute. reflexivity. Qed.
Lemma negative_literal_in_unsigned_context_faults :
  run_program o_fixed 10 [VInt KUInt 5; VInt KUInt 0]
    [SAssign 1 (EBin BAdd (EVar 0) (EBin BSub (ELit true (VInt KDInt 1)) (ELit true (VInt KDInt 2))))] = Fault FTypeMismatch.
Proof. vm_compute. reflexivity. Qed.

(* the code as it is (values stored as they are): an accepted program with untyped literals
   reaches a static-class fault; with typed literals only (strict) it cannot (program_sound) *)
Definition o_code := {| o_neg_checked := true; o_for_checked := true; o_coerce_write := false; o_case_unsigned := true; o_return_ok := true |}.
Lemma uncoerced_writes_reach_type_mismatch :
  let G := [TInt KUInt; TInt KUInt] in
  let body := [SAssign 0 (ELit true (VInt KDInt 1));
               SAssign 0 (EBin BSub (EVar 0) (ELit true (VInt KDInt 2)));
               SAssign 1 (EBin BAdd (EVar 1) (EVar 0))] in
  tprogram false G body = true /\ store_ok G [VInt KUInt 0; VInt KUInt 0] = true /\
  run_program o_code 10 [VInt KUInt 0; VInt KUInt 0] body = Fault FTypeMismatch.
Proof. repeat split; vm_compute; reflexivity. Qed.

Lemma st_nonvacuous_l :
  tprogram false [TInt KInt; TBool; TInt KUSInt]
    [SFor 0 (ELit true (VInt KDInt 0)) (ELit true (VInt KDInt 3)) (ELit true (VInt KDInt 1))
       [SIf (EBin BLt (EVar 0) (ELit true (VInt KDInt 2))) [SContinue] [] [SAssign 2 (EBin BAdd (EVar 2) (ELit true (VInt KDInt 200)))]];
     SAssign 1 (EBin BGe (EVar 2) (ELit false (VInt KUSInt 7)))] = true /\
  store_ok [TInt KInt; TBool; TInt KUSInt] [VInt KInt 0; VBool false; VInt KUSInt 0] = true /\
  run_program o_fixed 50 [VInt KInt 0; VBool false; VInt KUSInt 0]
    [SFor 0 (ELit true (VInt KDInt 0)) (ELit true (VInt KDInt 3)) (ELit true (VInt KDInt 1))
       [SIf (EBin BLt (EVar 0) (ELit true (VInt KDInt 2))) [SContinue] [] [SAssign 2 (EBin BAdd (EVar 2) (ELit true (VInt KDInt 200)))]];
     SAssign 1 (EBin BGe (EVar 2) (ELit false (VInt KUSInt 7)))] = Fault FOverflow.
Proof. repeat split; vm_compute; reflexivity. Qed.
