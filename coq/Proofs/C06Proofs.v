From Coq Require Import ZArith List Bool Lia Sorting.Sorted Sorting.Permutation.
From TP Require Import Model.Sched Spec.C06.
Import ListNotations.
Open Scope Z_scope.

Ltac zb :=
  repeat match goal with
  | |- context[?a <=? ?b] => destruct (Z.leb_spec a b)
  | |- context[?a <? ?b] => destruct (Z.ltb_spec a b)
  | H : context[?a <=? ?b] |- _ => destruct (Z.leb_spec a b)
  | H : context[?a <? ?b] |- _ => destruct (Z.ltb_spec a b)
  end.

Definition in_i64 (x : Z) : Prop := i64min <= x <= i64max.
Lemma sat_id x : in_i64 x -> sat x = x.
Proof. unfold in_i64, sat. lia. Qed.
Lemma sat_in x : in_i64 (sat x).
Proof. unfold in_i64, sat, i64min, i64max. lia. Qed.

(* --- one task, one cycle --- *)
Lemma step_task_due now sv t st :
  in_i64 (now - ts_last_run st) ->
  (snd (step_task now sv t st) <> None <->
   event_due (ts_last_single st) sv \/ periodic_due (t_interval t) (ts_last_run st) now sv).
Proof.
  intro Hr. unfold step_task, event_due, periodic_due. rewrite (sat_id _ Hr).
  destruct (ts_last_single st), sv; cbn [negb andb]; zb; cbn; split; intro Hx;
    try congruence; try discriminate; try (exfalso; intuition (congruence || lia)); try (intuition (congruence || lia)).
Qed.

Lemma event_periodic_exclusive prev cur iv la now :
  event_due prev cur -> periodic_due iv la now cur -> False.
Proof. unfold event_due, periodic_due. intros [_ H1] [_ [H2 _]]. congruence. Qed.

Lemma step_task_event now t st :
  event_due (ts_last_single st) true ->
  step_task now true t st =
  ({| ts_last_single := true; ts_last_run := ts_last_run st; ts_overruns := ts_overruns st |}, Some now).
Proof.
  intros [H _]. unfold step_task. rewrite H. cbn [negb andb]. rewrite andb_false_r. cbn. reflexivity.
Qed.

Lemma step_task_periodic now t st :
  in_i64 (now - ts_last_run st) -> in_i64 (ts_last_run st + t_interval t) ->
  periodic_due (t_interval t) (ts_last_run st) now false ->
  step_task now false t st =
  ({| ts_last_single := false; ts_last_run := now;
      ts_overruns := Z.min u64max (ts_overruns st + missed (t_interval t) (ts_last_run st) now) |},
   Some (ts_last_run st + t_interval t)).
Proof.
  intros Hr Hd [Hi [_ He]]. unfold step_task, missed. rewrite (sat_id _ Hr), (sat_id _ Hd).
  rewrite andb_false_r. cbn [negb andb].
  destruct (Z.ltb_spec 0 (t_interval t)); [|lia].
  destruct (Z.leb_spec (t_interval t) (now - ts_last_run st)); [|lia]. cbn [andb].
  f_equal. f_equal. f_equal. f_equal. zb; lia.
Qed.

Lemma step_task_idle now sv t st :
  in_i64 (now - ts_last_run st) ->
  ~ event_due (ts_last_single st) sv -> ~ periodic_due (t_interval t) (ts_last_run st) now sv ->
  step_task now sv t st =
  ({| ts_last_single := sv; ts_last_run := ts_last_run st; ts_overruns := ts_overruns st |}, None).
Proof.
  intros Hr He Hp. pose proof (step_task_due now sv t st Hr) as [H1 H2].
  unfold step_task in *. rewrite (sat_id _ Hr) in *.
  unfold event_due, periodic_due in *.
  destruct (ts_last_single st), sv; cbn [negb andb] in *; zb; cbn in *; try reflexivity;
    exfalso; (apply Hp; lia) || (apply He; split; reflexivity) || (apply Hp; repeat split; lia).
Qed.

(* last_single always becomes the SINGLE value of this cycle *)
Lemma step_task_last_single now sv t st : ts_last_single (fst (step_task now sv t st)) = sv.
Proof. unfold step_task. destruct ((0 <? t_interval t) && negb sv && _); reflexivity. Qed.

(* missed activations are counted, not replayed: after a periodic activation at [now], the
   task is not periodically due again before a full interval has elapsed *)
Lemma not_replayed now now' t st :
  in_i64 (now - ts_last_run st) -> in_i64 (ts_last_run st + t_interval t) ->
  periodic_due (t_interval t) (ts_last_run st) now false ->
  now' - now < t_interval t ->
  ~ periodic_due (t_interval t) (ts_last_run (fst (step_task now false t st))) now' false.
Proof.
  intros Hr Hd Hp Hlt. rewrite (step_task_periodic now t st Hr Hd Hp). cbn. unfold periodic_due. lia.
Qed.

Lemma overruns_monotone now sv t st :
  0 <= ts_overruns st <= u64max ->
  ts_overruns st <= ts_overruns (fst (step_task now sv t st)) <= u64max.
Proof.
  intro H. unfold step_task. destruct ((0 <? t_interval t) && negb sv && _) eqn:E; cbn [fst ts_overruns]; [|lia].
  destruct (Z.ltb_spec 1 (sat (now - ts_last_run st) / t_interval t)); lia.
Qed.

(* --- the ready list --- *)
Lemma collect_from_spec now singles : forall ts sts k i d,
  length ts = length sts ->
  (In (i, d) (snd (collect_from k now singles ts sts)) <->
   exists j, i = (k + j)%nat /\ (j < length ts)%nat /\
     snd (step_task now (single_val singles (nth j ts dummy_task)) (nth j ts dummy_task)
            (nth j sts {| ts_last_single := false; ts_last_run := 0; ts_overruns := 0 |})) = Some d).
Proof.
  induction ts as [|t ts IH]; intros sts k i d Hl; destruct sts as [|st sts]; try discriminate.
  - cbn. split; [intros [] | intros [j [_ [H _]]]; lia].
  - cbn [collect_from]. injection Hl as Hl.
    destruct (step_task now (single_val singles t) t st) as [st' due] eqn:Es.
    destruct (collect_from (S k) now singles ts sts) as [rest ready] eqn:Ec.
    cbn [snd]. specialize (IH sts (S k) i d Hl). rewrite Ec in IH. cbn [snd] in IH.
    split.
    + intro Hin.
      assert (Hcase : (due = Some d /\ i = k) \/ In (i, d) ready).
      { destruct due as [d0|]; [destruct Hin as [Heq|Hin]; [injection Heq as <- <-; left; split; reflexivity | right; exact Hin] | right; exact Hin]. }
      destruct Hcase as [[Hd Hi]|Hin'].
      * exists 0%nat. repeat split; [lia | cbn; lia |]. cbn [nth]. rewrite Es. exact Hd.
      * apply IH in Hin' as [j [Hi [Hj Hs]]]. exists (S j). repeat split; [lia | cbn; lia | exact Hs].
    + intros [j [Hi [Hj Hs]]]. destruct j as [|j].
      * cbn [nth] in Hs. rewrite Es in Hs. cbn [snd] in Hs. subst due. left. f_equal. lia.
      * assert (Hin : In (i, d) ready).
        { apply IH. exists j. repeat split; [lia | cbn in Hj; lia | exact Hs]. }
        destruct due; [right; exact Hin | exact Hin].
Qed.

Lemma collect_from_indices_lt now singles : forall ts sts k,
  Forall (fun e => (k <= fst e)%nat) (snd (collect_from k now singles ts sts)) /\
  StronglySorted (fun a b => (fst a < fst b)%nat) (snd (collect_from k now singles ts sts)).
Proof.
  induction ts as [|t ts IH]; intros sts k; destruct sts as [|st sts]; cbn [collect_from snd];
    try (split; constructor).
  destruct (step_task now (single_val singles t) t st) as [st' due].
  destruct (collect_from (S k) now singles ts sts) as [rest ready] eqn:Ec.
  specialize (IH sts (S k)). rewrite Ec in IH. cbn [snd] in *. destruct IH as [IH1 IH2].
  assert (Hk : Forall (fun e : nat * Z => (k <= fst e)%nat) ready).
  { eapply Forall_impl; [|exact IH1]. cbn. intros; lia. }
  destruct due as [d|]; [|split; assumption].
  split; [constructor; [cbn; lia | exact Hk]|].
  constructor; [exact IH2|]. eapply Forall_impl; [|exact IH1]. cbn. intros; lia.
Qed.

Lemma collect_nodup now singles ts sts : NoDup (map fst (snd (collect now singles ts sts))).
Proof.
  unfold collect. destruct (collect_from_indices_lt now singles ts sts 0) as [_ H].
  induction H as [|a l Hs IH Hf]; cbn; constructor; [|exact IH].
  intro Hin. apply in_map_iff in Hin as [b [Hb Hin]].
  rewrite Forall_forall in Hf. specialize (Hf b Hin). lia.
Qed.

Lemma collect_from_length now singles : forall ts sts k,
  length ts = length sts -> length (fst (collect_from k now singles ts sts)) = length ts.
Proof.
  induction ts as [|t ts IH]; intros sts k Hl; destruct sts as [|st sts]; try discriminate; [reflexivity|].
  cbn [collect_from]. injection Hl as Hl.
  destruct (step_task now (single_val singles t) t st) as [st' due].
  destruct (collect_from (S k) now singles ts sts) as [rest ready] eqn:Ec.
  cbn. f_equal. specialize (IH sts (S k) Hl). rewrite Ec in IH. exact IH.
Qed.

Lemma collect_from_states now singles : forall ts sts k j,
  length ts = length sts -> (j < length ts)%nat ->
  nth j (fst (collect_from k now singles ts sts)) {| ts_last_single := false; ts_last_run := 0; ts_overruns := 0 |}
  = fst (step_task now (single_val singles (nth j ts dummy_task)) (nth j ts dummy_task)
            (nth j sts {| ts_last_single := false; ts_last_run := 0; ts_overruns := 0 |})).
Proof.
  induction ts as [|t ts IH]; intros sts k j Hl Hj; destruct sts as [|st sts]; try discriminate; [cbn in Hj; lia|].
  cbn [collect_from]. injection Hl as Hl.
  destruct (step_task now (single_val singles t) t st) as [st' due] eqn:Es.
  destruct (collect_from (S k) now singles ts sts) as [rest ready] eqn:Ec.
  cbn [fst]. destruct j as [|j]; [cbn [nth]; rewrite Es; reflexivity|].
  cbn [nth]. specialize (IH sts (S k) j Hl ltac:(cbn in Hj; lia)). rewrite Ec in IH. exact IH.
Qed.

(* --- sorting --- *)
Section Sort.
  Variable leb : nat * Z -> nat * Z -> bool.
  Hypothesis leb_total : forall a b, leb a b = true \/ leb b a = true.
  Hypothesis leb_trans : forall a b c, leb a b = true -> leb b c = true -> leb a c = true.

  Lemma insert_perm x l : Permutation (x :: l) (insert leb x l).
  Proof.
    induction l as [|y l IH]; cbn; [apply Permutation_refl|].
    destruct (leb x y); [apply Permutation_refl|].
    eapply Permutation_trans; [apply perm_swap|]. apply perm_skip. exact IH.
  Qed.
  Lemma isort_perm l : Permutation l (isort leb l).
  Proof.
    induction l as [|x l IH]; cbn; [constructor|].
    eapply Permutation_trans; [apply perm_skip; exact IH | apply insert_perm].
  Qed.
  Lemma insert_sorted x l :
    StronglySorted (fun a b => leb a b = true) l -> StronglySorted (fun a b => leb a b = true) (insert leb x l).
  Proof.
    induction 1 as [|y l Hs IH Hf]; cbn; [repeat constructor|].
    destruct (leb x y) eqn:E.
    - constructor; [constructor; assumption|]. constructor; [exact E|].
      eapply Forall_impl; [|exact Hf]. cbn. intros c Hc. eapply leb_trans; eassumption.
    - constructor; [exact IH|].
      assert (Hyx : leb y x = true) by (destruct (leb_total x y); congruence).
      eapply Permutation_Forall; [apply insert_perm|]. constructor; assumption.
  Qed.
  Lemma isort_sorted l : StronglySorted (fun a b => leb a b = true) (isort leb l).
  Proof. induction l as [|x l IH]; cbn; [constructor | apply insert_sorted; exact IH]. Qed.
End Sort.

Definition prio_of (ts : list task) (i : nat) : Z := t_prio (nth i ts dummy_task).

Lemma key_leb_spec ts a b : key_leb ts a b = true <-> key_lt (prio_of ts) a b \/
  (prio_of ts (fst a) = prio_of ts (fst b) /\ snd a = snd b /\ (fst a <= fst b)%nat).
Proof.
  unfold key_leb, key_lt, prio_of, dummy_task.
  set (pa := t_prio (nth (fst a) ts _)). set (pb := t_prio (nth (fst b) ts _)).
  destruct (Z.ltb_spec pa pb); [split; [intros _; left; left; assumption | reflexivity]|].
  destruct (Z.ltb_spec pb pa); [split; [discriminate | intros [[?|[? _]]|[? _]]; lia]|].
  destruct (Z.ltb_spec (snd a) (snd b)); [split; [intros _; left; right; split; [lia | left; assumption] | reflexivity]|].
  destruct (Z.ltb_spec (snd b) (snd a)); [split; [discriminate | intros [[?|[_ [?|[? _]]]]|[_ [? _]]]; lia]|].
  rewrite Nat.leb_le. split.
  - intro Hle. destruct (Nat.eq_dec (fst a) (fst b)) as [E|E].
    + right. repeat split; lia.
    + left. right. split; [lia|]. right. split; lia.
  - intros [[?|[_ [?|[_ ?]]]]|[_ [_ ?]]]; lia.
Qed.

Lemma key_leb_total ts a b : key_leb ts a b = true \/ key_leb ts b a = true.
Proof.
  rewrite !key_leb_spec. unfold key_lt.
  destruct (Z.lt_total (prio_of ts (fst a)) (prio_of ts (fst b))) as [?|[?|?]]; [left; left; left; assumption | | right; left; left; assumption].
  destruct (Z.lt_total (snd a) (snd b)) as [?|[?|?]];
    [left; left; right; split; [assumption | left; assumption] | | right; left; right; split; [lia | left; assumption]].
  destruct (Nat.le_ge_cases (fst a) (fst b)); [left | right]; right; repeat split; lia.
Qed.
Lemma key_leb_trans ts a b c : key_leb ts a b = true -> key_leb ts b c = true -> key_leb ts a c = true.
Proof. rewrite !key_leb_spec. unfold key_lt. intros. lia. Qed.

(* --- the cycle --- *)
Lemma cycle_order_sorted ts nprog sts now singles :
  let ready := isort (key_leb ts) (snd (collect now singles ts sts)) in
  StronglySorted (fun a b => key_leb ts a b = true) ready /\
  Permutation (snd (collect now singles ts sts)) ready /\
  snd (fst (cycle ts nprog sts now singles)) = map fst ready.
Proof.
  cbn zeta. split; [apply isort_sorted; [apply key_leb_total | apply key_leb_trans]|].
  split; [apply isort_perm|]. unfold cycle. destruct (collect now singles ts sts). reflexivity.
Qed.

Lemma cycle_at_most_once ts nprog sts now singles :
  NoDup (snd (fst (cycle ts nprog sts now singles))).
Proof.
  destruct (cycle_order_sorted ts nprog sts now singles) as [_ [Hp ->]].
  eapply Permutation_NoDup; [apply Permutation_map; exact Hp | apply collect_nodup].
Qed.

Lemma cycle_executes_exactly_due ts nprog sts now singles i :
  length ts = length sts ->
  (In i (snd (fst (cycle ts nprog sts now singles))) <->
   (i < length ts)%nat /\
   snd (step_task now (single_val singles (nth i ts dummy_task)) (nth i ts dummy_task)
          (nth i sts {| ts_last_single := false; ts_last_run := 0; ts_overruns := 0 |})) <> None).
Proof.
  intro Hl. destruct (cycle_order_sorted ts nprog sts now singles) as [_ [Hp ->]].
  rewrite in_map_iff. split.
  - intros [[i' d] [Hi Hin]]. cbn in Hi. subst i'.
    apply (Permutation_in _ (Permutation_sym Hp)) in Hin.
    apply (collect_from_spec now singles ts sts 0 i d Hl) in Hin as [j [Hi [Hj Hs]]].
    cbn in Hi. subst j. split; [exact Hj | congruence].
  - intros [Hi Hs].
    destruct (snd (step_task now (single_val singles (nth i ts dummy_task)) (nth i ts dummy_task)
          (nth i sts {| ts_last_single := false; ts_last_run := 0; ts_overruns := 0 |}))) as [d|] eqn:E; [|congruence].
    exists (i, d). split; [reflexivity|]. apply (Permutation_in _ Hp).
    apply (collect_from_spec now singles ts sts 0 i d Hl). exists i. repeat split; [exact Hi | exact E].
Qed.

Lemma cycle_background_last ts nprog sts now singles :
  exists taskprogs, snd (cycle ts nprog sts now singles) = taskprogs ++ background ts nprog /\
    taskprogs = flat_map (fun i => t_progs (nth i ts dummy_task)) (snd (fst (cycle ts nprog sts now singles))).
Proof. unfold cycle. destruct (collect now singles ts sts). eexists. split; reflexivity. Qed.

Lemma background_spec ts nprog p :
  In p (background ts nprog) <-> (p < nprog)%nat /\ forall t, In t ts -> ~ In p (t_progs t).
Proof.
  unfold background. rewrite filter_In, in_seq, negb_true_iff. unfold scheduled. split.
  - intros [[_ Hp] Hs]. split; [lia|]. intros t Ht Hin.
    assert (existsb (fun t0 => existsb (Nat.eqb p) (t_progs t0)) ts = true); [|congruence].
    apply existsb_exists. exists t. split; [exact Ht|]. apply existsb_exists. exists p. split; [exact Hin | apply Nat.eqb_refl].
  - intros [Hp Hn]. split; [lia|]. destruct (existsb _ ts) eqn:E; [|reflexivity].
    apply existsb_exists in E as [t [Ht E]]. apply existsb_exists in E as [q [Hq E]].
    apply Nat.eqb_eq in E. subst q. exfalso. exact (Hn t Ht Hq).
Qed.
Lemma background_order ts nprog : StronglySorted lt (background ts nprog).
Proof.
  unfold background. generalize 0%nat. induction nprog as [|n IH]; intro s; cbn; [constructor|].
  destruct (negb (scheduled ts s)); [|apply IH].
  constructor; [apply IH|]. apply Forall_forall. intros x Hx. apply filter_In in Hx as [Hx _]. apply in_seq in Hx. lia.
Qed.

(* --- over a timeline: last_single is the SINGLE value of the previous cycle, so an event
       task fires exactly on the rising edges of the sampled SINGLE variable --- *)
Lemma cycle_states_length ts nprog sts now singles :
  length ts = length sts -> length (fst (fst (cycle ts nprog sts now singles))) = length ts.
Proof.
  intro Hl. unfold cycle. pose proof (collect_from_length now singles ts sts 0 Hl) as H.
  unfold collect. destruct (collect_from 0 now singles ts sts). exact H.
Qed.
Lemma cycle_state_nth ts nprog sts now singles j :
  length ts = length sts -> (j < length ts)%nat ->
  nth j (fst (fst (cycle ts nprog sts now singles))) {| ts_last_single := false; ts_last_run := 0; ts_overruns := 0 |}
  = fst (step_task now (single_val singles (nth j ts dummy_task)) (nth j ts dummy_task)
            (nth j sts {| ts_last_single := false; ts_last_run := 0; ts_overruns := 0 |})).
Proof.
  intros Hl Hj. unfold cycle. pose proof (collect_from_states now singles ts sts 0 j Hl Hj) as H.
  unfold collect. destruct (collect_from 0 now singles ts sts). exact H.
Qed.

Lemma last_single_tracks ts nprog : forall tl sts now singles j,
  length ts = length sts -> (j < length ts)%nat ->
  ts_last_single (nth j (states_after ts nprog sts (tl ++ [(now, singles)]))
     {| ts_last_single := false; ts_last_run := 0; ts_overruns := 0 |})
  = single_val singles (nth j ts dummy_task).
Proof.
  induction tl as [|[n0 s0] tl IH]; intros sts now singles j Hl Hj.
  - cbn [app states_after]. rewrite cycle_state_nth by assumption. apply step_task_last_single.
  - cbn [app states_after]. apply IH; [|exact Hj]. symmetry. apply cycle_states_length. exact Hl.
Qed.

Lemma no_spurious_edge_at_registration now0 now singles t :
  t_interval t = 0 ->
  snd (step_task now (single_val singles t) t (reg_state now0 singles t)) = None.
Proof.
  intro Hi. unfold step_task, reg_state. cbn. rewrite Hi. cbn.
  destruct (single_val singles t); reflexivity.
Qed.

Lemma c06_nonvacuous_l :
  periodic_due 10 0 25 false /\ missed 10 0 25 = 1 /\ event_due false true /\ in_i64 (25 - 0) /\
  snd (cycle [ {| t_interval := 10; t_single := None; t_prio := 1; t_progs := [0%nat] |};
               {| t_interval := 0; t_single := Some 0%nat; t_prio := 0; t_progs := [1%nat] |} ] 3
             [ {| ts_last_single := false; ts_last_run := 0; ts_overruns := 0 |};
               {| ts_last_single := false; ts_last_run := 0; ts_overruns := 0 |} ] 25 [true]) = [1%nat; 0%nat; 2%nat].
Proof.
  unfold periodic_due, event_due, in_i64, i64min, i64max. repeat split; try lia; vm_compute; reflexivity.
Qed.
