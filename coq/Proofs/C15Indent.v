(* C15: the indentation pass never asks for a negative number of indentation units, and restores the level after a block *)
From Coq Require Import List Bool ZArith NArith Lia.
From TP Require Import Model.FmtIndent gen.C15Kinds Spec.C15Judge.
Import ListNotations.
Local Open Scope Z_scope.

Lemma istep_nonneg c lvl l : clamp c = true -> 0 <= lvl ->
  (match fst (istep c lvl l) with Some z => 0 <= z | None => True end) /\ 0 <= snd (istep c lvl l).
Proof.
  intros Hc Hl. destruct l as [|d e s]; cbn [istep fst snd]; [split; [exact I|exact Hl]|].
  rewrite Hc. destruct d, e, s, (aligned c); cbn [andb orb negb]; split; lia.
Qed.

Lemma indents_nonneg_l c : clamp c = true -> forall ls lvl, 0 <= lvl -> all_nonneg (indents c lvl ls) = true /\ 0 <= final c lvl ls.
Proof.
  intros Hc. induction ls as [|l r IH]; intros lvl Hl; cbn [indents final all_nonneg forallb]; [split; [reflexivity|exact Hl]|].
  destruct (istep_nonneg c lvl l Hc Hl) as [H1 H2].
  destruct (IH _ H2) as [H3 H4]. split; [|exact H4].
  unfold all_nonneg in H3. rewrite H3, andb_true_r.
  destruct (fst (istep c lvl l)); [apply Z.leb_le; exact H1|reflexivity].
Qed.

Definition refute_cfg := {| aligned := false; clamp := false |}.
Definition refute_lines := [LNorm true true false; LNorm false false false].
Lemma unclamped_negative_l : indents refute_cfg 0 refute_lines = [Some 0; Some (-1)] /\ all_nonneg (indents refute_cfg 0 refute_lines) = false.
Proof. split; vm_compute; reflexivity. Qed.

Lemma source_clamps_l : clamp_after_in_source = true.
Proof. reflexivity. Qed.

Lemma doc_indents_nonneg_l : forall style (lines : list (bool * list N)), all_nonneg (doc_indents style lines) = true.
Proof. intros style lines. unfold doc_indents. apply indents_nonneg_l; [exact source_clamps_l | apply Z.le_refl]. Qed.

Lemma end_kinds_are_dedent_l : forall k, In k end_kinds -> In k dedent_kinds.
Proof.
  assert (H : forallb (fun k => memN k dedent_kinds) end_kinds = true) by (vm_compute; reflexivity).
  intros k Hk. rewrite forallb_forall in H. specialize (H k Hk). unfold memN in H. apply existsb_exists in H.
  destruct H as [x [Hx He]]. apply N.eqb_eq in He. subst. exact Hx.
Qed.

(* append *)
Lemma final_app c a : forall b lvl, final c lvl (a ++ b) = final c (final c lvl a) b.
Proof. induction a as [|x a IH]; intros b lvl; cbn [app final]; [reflexivity|apply IH]. Qed.
Lemma indents_app c a : forall b lvl, indents c lvl (a ++ b) = indents c lvl a ++ indents c (final c lvl a) b.
Proof. induction a as [|x a IH]; intros b lvl; cbn [app indents final]; [reflexivity|]. now rewrite IH. Qed.

Definition lower (lvl : Z) (o : list (option Z)) : Prop := Forall (fun x => match x with Some z => lvl <= z | None => True end) o.
Lemma lower_weaken a b o : a <= b -> lower b o -> lower a o.
Proof. intros H Ho. unfold lower in *. eapply Forall_impl; [|exact Ho]. intros [z|]; cbn; [lia|trivial]. Qed.

Scheme balanced_mind := Minimality for balanced Sort Prop
  with balanced_body_mind := Minimality for balanced_body Sort Prop.
Combined Scheme balanced_both from balanced_mind, balanced_body_mind.

Notation closer := (LNorm true true false).
Notation sep := (LNorm true false true).
Notation opener := (LNorm false false true).

Lemma closer_step c lvl : 0 <= lvl -> snd (istep c (lvl + 1) closer) = lvl /\ exists z, fst (istep c (lvl + 1) closer) = Some z /\ lvl <= z.
Proof.
  intros H. cbn [istep fst snd andb negb orb].
  destruct (aligned c), (clamp c); cbn [andb negb orb]; split; try lia; eexists; split; try reflexivity; lia.
Qed.
Lemma sep_step c lvl : 0 <= lvl -> istep c (lvl + 1) sep = (Some lvl, lvl + 1).
Proof. intros H. cbn [istep andb negb orb]. rewrite orb_true_r. cbn [andb negb]. f_equal; [f_equal|]; lia. Qed.

Lemma balanced_both_l c :
  (forall ls, balanced ls -> forall lvl, 0 <= lvl -> final c lvl ls = lvl /\ lower lvl (indents c lvl ls)) /\
  (forall b, balanced_body b -> forall lvl, 0 <= lvl ->
     final c (lvl + 1) (b ++ [closer]) = lvl /\ lower lvl (indents c (lvl + 1) (b ++ [closer]))).
Proof.
  apply balanced_both.
  - intros lvl H. cbn. split; [reflexivity|constructor].
  - intros r _ IH lvl H. cbn [final indents istep fst snd]. destruct (IH lvl H) as [A B]. split; [exact A|]. constructor; [exact I|exact B].
  - intros r _ IH lvl H. cbn [final indents istep fst snd andb negb orb]. destruct (IH lvl H) as [A B]. split; [exact A|].
    constructor; [cbn; lia|exact B].
  - intros body r _ IHb _ IHr lvl H.
    replace (opener :: body ++ closer :: r) with ([opener] ++ (body ++ [closer]) ++ r) by (cbn; rewrite <- app_assoc; reflexivity).
    rewrite (final_app c [opener]), (indents_app c [opener]).
    assert (Ho : final c lvl [opener] = lvl + 1) by (cbn; reflexivity).
    rewrite Ho. rewrite (final_app c (body ++ [closer])), (indents_app c (body ++ [closer])). destruct (IHb lvl H) as [A B]. rewrite A. destruct (IHr lvl H) as [A' B']. split; [exact A'|].
    unfold lower. apply Forall_app. split; [cbn; constructor; [lia|constructor]|]. apply Forall_app. split; [exact B|exact B'].
  - intros b _ IH lvl H. rewrite final_app, indents_app.
    assert (H1 : 0 <= lvl + 1) by lia. destruct (IH (lvl + 1) H1) as [A B]. rewrite A.
    destruct (closer_step c lvl H) as [C [z [D E]]].
    cbn [final indents]. rewrite C, D. split; [reflexivity|].
    unfold lower. apply Forall_app. split; [apply (lower_weaken lvl (lvl + 1)); [lia|exact B]|constructor; [exact E|constructor]].
  - intros b rest _ IHb _ IHr lvl H.
    replace ((b ++ LNorm true false true :: rest) ++ [closer]) with (b ++ [sep] ++ (rest ++ [closer])) by (cbn; rewrite <- app_assoc; reflexivity).
    rewrite (final_app c b), (indents_app c b).
    assert (H1 : 0 <= lvl + 1) by lia. destruct (IHb (lvl + 1) H1) as [A B]. rewrite A.
    rewrite (final_app c [sep]), (indents_app c [sep]).
    cbn [final indents]. rewrite (sep_step c lvl H). cbn [fst snd].
    destruct (IHr lvl H) as [A' B']. split; [exact A'|].
    unfold lower. apply Forall_app. split; [apply (lower_weaken lvl (lvl + 1)); [lia|exact B]|].
    apply Forall_app. split; [constructor; [cbn; lia|constructor]|exact B'].
Qed.

Lemma balanced_restores_l c ls lvl : balanced ls -> 0 <= lvl -> final c lvl ls = lvl /\ lower lvl (indents c lvl ls).
Proof. intros Hb. exact (proj1 (balanced_both_l c) ls Hb lvl). Qed.

(* non-vacuity: PROGRAM / VAR..END_VAR / IF..ELSE..END_IF / END_PROGRAM *)
Definition demo_lines := [opener; opener; LNorm false false false; closer; opener; LNorm false false false; sep; LSkip; LNorm false false false; closer; closer].
Lemma demo_balanced : balanced demo_lines.
Proof.
  unfold demo_lines.
  apply (bal_block ([opener; LNorm false false false; closer; opener; LNorm false false false; sep; LSkip; LNorm false false false; closer]) []); [|constructor].
  apply bb_one.
  apply (bal_block [LNorm false false false] [opener; LNorm false false false; sep; LSkip; LNorm false false false; closer]).
  - apply bb_one. repeat constructor.
  - apply (bal_block [LNorm false false false; sep; LSkip; LNorm false false false] []); [|constructor].
    apply (bb_sep [LNorm false false false] [LSkip; LNorm false false false]); [repeat constructor|].
    apply bb_one. repeat constructor.
Qed.
Lemma demo_indents :
  indents {| aligned := true; clamp := true |} 0 demo_lines = [Some 0; Some 1; Some 2; Some 1; Some 1; Some 2; Some 1; None; Some 2; Some 1; Some 0] /\
  indents {| aligned := false; clamp := true |} 0 demo_lines = [Some 0; Some 1; Some 2; Some 2; Some 1; Some 2; Some 1; None; Some 2; Some 2; Some 1].
Proof. split; vm_compute; reflexivity. Qed.
