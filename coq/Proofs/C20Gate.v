From Coq Require Import Bool Arith List.
From TP Require Import Model.ResourceGate.
Import ListNotations.

(* reachable states never run a cycle or save anything while at the gate, and keep the flags monotone *)
Lemma gate_runs_nothing_l : forall c ls, g_cycles (grun c ginit ls) = 0 /\ g_saves (grun c ginit ls) = 0.
Proof.
  intros c ls. unfold grun.
  assert (H : forall s, g_cycles s = 0 /\ g_saves s = 0 -> g_cycles (fold_left (gstep c) ls s) = 0 /\ g_saves (fold_left (gstep c) ls s) = 0).
  { induction ls as [|l ls IH]; intros s Hs; [exact Hs|]. cbn [fold_left]. apply IH.
    destruct l; cbn [gstep]; try exact Hs.
    destruct (wake_enabled c s); [|exact Hs]. destruct (g_open s); [exact Hs|]. destruct (g_stop s); exact Hs. }
  apply H. split; reflexivity.
Qed.
(* with a timed wait, or a stop() that notifies the gate, no reachable state is wedged *)
Lemma notified_after_stop : forall c, stop_notifies c = true -> forall ls s,
  (g_phase s = GWait -> g_stop s = true \/ g_open s = true -> g_notified s = true) ->
  let s' := fold_left (gstep c) ls s in
  (g_phase s' = GWait -> g_stop s' = true \/ g_open s' = true -> g_notified s' = true).
Proof.
  intros c Hn ls. induction ls as [|l ls IH]; intros s Hs; [exact Hs|]. cbn [fold_left]. apply IH.
  destruct l; cbn [gstep].
  - cbn. intros _ _. reflexivity.
  - cbn. intros _ _. rewrite Hn. apply orb_true_r.
  - destruct (wake_enabled c s) eqn:Ew; [|exact Hs].
    destruct (g_open s) eqn:Eo; [cbn; discriminate|]. destruct (g_stop s) eqn:Es; [cbn; discriminate|].
    cbn. intros _ [H|H]; discriminate.
Qed.
Lemma gate_never_wedged_l : forall c, timed c = true \/ stop_notifies c = true -> forall ls, wedged c (grun c ginit ls) = false.
Proof.
  intros c [Ht|Hn] ls; unfold wedged.
  - unfold wake_enabled. destruct (g_phase (grun c ginit ls)); try reflexivity. rewrite Ht. cbn. apply andb_false_r.
  - pose proof (notified_after_stop c Hn ls ginit) as H. cbn zeta in H.
    assert (H0 : g_phase ginit = GWait -> g_stop ginit = true \/ g_open ginit = true -> g_notified ginit = true) by (cbn; intros _ [X|X]; discriminate).
    specialize (H H0). fold (grun c ginit ls) in H.
    destruct (g_phase (grun c ginit ls)) eqn:Ep; try reflexivity.
    unfold wake_enabled. rewrite Ep.
    destruct (g_stop (grun c ginit ls) || g_open (grun c ginit ls)) eqn:E; [|reflexivity].
    apply orb_true_iff in E. rewrite (H eq_refl E). rewrite orb_true_r. reflexivity.
Qed.
(* a stop request at the gate: the next wake-up ends the thread in Stopped (gate closed) without running anything *)
Lemma gate_stop_terminates_l : forall c s, g_phase s = GWait -> g_open s = false -> wake_enabled c (gstep c s GStop) = true ->
  g_phase (gstep c (gstep c s GStop) GWake) = GStopped.
Proof.
  intros c s Hp Ho Hw. cbn [gstep] in *. rewrite Hw. cbn. rewrite Ho. reflexivity.
Qed.
Lemma gate_open_enters_l : forall c s, g_phase s = GWait -> g_phase (gstep c (gstep c s GOpen) GWake) = GEntered.
Proof.
  intros c s Hp. cbn [gstep]. unfold wake_enabled. cbn. rewrite Hp. rewrite orb_true_r. reflexivity.
Qed.
(* an untimed wait together with a stop() that does not notify the gate wedges the thread: stop, and nothing can happen *)
Lemma untimed_wait_wedges : let c := {| timed := false; stop_notifies := false |} in
  wedged c (grun c ginit [GStop]) = true /\ forall n, g_phase (grun c ginit (GStop :: repeat GWake n)) = GWait.
Proof.
  cbn zeta. split; [reflexivity|]. intro n. unfold grun. cbn [fold_left].
  set (s := gstep _ ginit GStop). assert (Hs : wake_enabled {| timed := false; stop_notifies := false |} s = false) by reflexivity.
  assert (Hp : g_phase s = GWait) by reflexivity. clearbody s.
  induction n as [|n IH]; [exact Hp|]. cbn [repeat fold_left gstep]. rewrite Hs. exact IH.
Qed.
Lemma code_cfg_ok : timed code_cfg = true \/ stop_notifies code_cfg = true.
Proof. left. reflexivity. Qed.
