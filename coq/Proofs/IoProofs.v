From Coq Require Import ZArith List Bool Lia.
From TP Require Import Model.Io.
Import ListNotations.
Open Scope Z_scope.

Lemma get_nil i : get [] i = 0.
Proof. unfold get. destruct i; reflexivity. Qed.

Lemma get_set_same : forall img i b, get (set_byte img i b) i = b.
Proof.
  intros img i; revert img. induction i as [|i IH]; intros [|x r] b; cbn; try reflexivity; apply IH.
Qed.
Lemma get_set_other : forall img i j b, i <> j -> get (set_byte img i b) j = get img j.
Proof.
  intros img i; revert img. induction i as [|i IH]; intros [|x r] j b Hne; destruct j as [|j]; cbn;
    try reflexivity; try congruence.
  - destruct j; reflexivity.
  - unfold get in *. rewrite (IH [] j b) by congruence. destruct j; reflexivity.
  - apply (IH r j b). congruence.
Qed.
Lemma length_set_byte : forall img i b, length (set_byte img i b) = Nat.max (length img) (S i).
Proof.
  intros img i; revert img. induction i as [|i IH]; intros [|x r] b; cbn [set_byte length].
  - reflexivity.
  - lia.
  - rewrite IH. cbn. lia.
  - rewrite IH. lia.
Qed.

(* ---- multi-byte little-endian ---- *)
Lemma wr_le_outside : forall n a v img j, (j < a \/ a + n <= j)%nat -> get (wr_le n a v img) j = get img j.
Proof.
  induction n as [|n IH]; intros a v img j Hj; cbn [wr_le]; [reflexivity|].
  rewrite IH by lia. apply get_set_other. lia.
Qed.
Lemma length_wr_le : forall n a v img, (0 < n)%nat -> length (wr_le n a v img) = Nat.max (length img) (a + n).
Proof.
  induction n as [|n IH]; intros a v img Hn; [lia|]. cbn [wr_le].
  destruct n as [|n]; [cbn [wr_le]; rewrite length_set_byte; lia|].
  rewrite IH by lia. rewrite length_set_byte. lia.
Qed.
Lemma wr_le_inside : forall n a v img k, (k < n)%nat ->
  get (wr_le n a v img) (a + k) = (v / 256 ^ Z.of_nat k) mod 256.
Proof.
  induction n as [|n IH]; intros a v img k Hk; [lia|]. cbn [wr_le].
  destruct k as [|k].
  - rewrite Nat.add_0_r, wr_le_outside by lia. rewrite get_set_same. cbn. rewrite Z.div_1_r. reflexivity.
  - replace (a + S k)%nat with (S a + k)%nat by lia. rewrite IH by lia.
    rewrite Z.div_div by lia. f_equal. f_equal.
    rewrite Nat2Z.inj_succ, Z.pow_succ_r by lia. reflexivity.
Qed.
Lemma rd_le_ext : forall n a img img', (forall k, (k < n)%nat -> get img (a + k) = get img' (a + k)) ->
  rd_le n a img = rd_le n a img'.
Proof.
  induction n as [|n IH]; intros a img img' H; [reflexivity|]. cbn [rd_le].
  rewrite (IH (S a) img img'). { specialize (H 0%nat ltac:(lia)). rewrite Nat.add_0_r in H. rewrite H. reflexivity. }
  intros k Hk. specialize (H (S k) ltac:(lia)). replace (S a + k)%nat with (a + S k)%nat by lia. exact H.
Qed.
Lemma rd_wr_le : forall n a v img, 0 <= v < 256 ^ Z.of_nat n -> rd_le n a (wr_le n a v img) = v.
Proof.
  induction n as [|n IH]; intros a v img Hv.
  - cbn in *. lia.
  - cbn [wr_le rd_le]. rewrite wr_le_outside by lia. rewrite get_set_same.
    rewrite IH.
    + pose proof (Z.div_mod v 256 ltac:(lia)). lia.
    + rewrite Nat2Z.inj_succ, Z.pow_succ_r in Hv by lia.
      split; [apply Z.div_pos; lia | apply Z.div_lt_upper_bound; lia].
Qed.
(* the value read is the little-endian sum of the bytes *)
Lemma rd_le_sum n a img : rd_le n a img = fold_right (fun k acc => get img (a + k) * 256 ^ Z.of_nat k + acc) 0 (seq 0 n).
Proof.
  revert a. induction n as [|n IH]; intro a; [reflexivity|].
  cbn [rd_le]. rewrite IH. cbn [seq fold_right]. rewrite Nat.add_0_r. cbn [Z.of_nat Z.pow]. rewrite Z.mul_1_r.
  f_equal. rewrite <- seq_shift.
  generalize (seq 0 n). intro l. induction l as [|k l IHl]; cbn [map fold_right]; [lia|].
  rewrite <- IHl. replace (S a + k)%nat with (a + S k)%nat by lia.
  rewrite Nat2Z.inj_succ, Z.pow_succ_r by lia. lia.
Qed.

(* ---- bits ---- *)
Lemma rd_wr_bit a bit flag img : 0 <= bit -> rd_bit a bit (wr_bit a bit flag img) = flag.
Proof.
  intro Hb. unfold rd_bit, wr_bit. rewrite get_set_same. destruct flag.
  - rewrite Z.setbit_eqb by assumption. rewrite Z.eqb_refl. reflexivity.
  - rewrite Z.clearbit_eqb. rewrite Z.eqb_refl. apply andb_false_r.
Qed.
Lemma wr_bit_other_bits a bit flag img m : 0 <= bit -> 0 <= m -> m <> bit ->
  Z.testbit (get (wr_bit a bit flag img) a) m = Z.testbit (get img a) m.
Proof.
  intros Hb Hm Hne. unfold wr_bit. rewrite get_set_same. destruct flag.
  - rewrite Z.setbit_neq by lia. reflexivity.
  - rewrite Z.clearbit_neq by lia. reflexivity.
Qed.
Lemma wr_bit_other_bytes a bit flag img j : j <> a -> get (wr_bit a bit flag img) j = get img j.
Proof. intro H. unfold wr_bit. apply get_set_other. congruence. Qed.
Lemma wr_bit_byte_range a bit flag img : 0 <= bit < 8 -> 0 <= get img a < 256 ->
  0 <= get (wr_bit a bit flag img) a < 256.
Proof.
  intros Hb Hg. unfold wr_bit. rewrite get_set_same.
  assert (H8 : forall x, 0 <= x -> (forall m, 8 <= m -> Z.testbit x m = false) -> x < 256).
  { intros x Hx Hbits. destruct (Z.lt_ge_cases x 256) as [|Hge]; [assumption|exfalso].
    assert (Hl : 8 <= Z.log2 x) by (change 8 with (Z.log2 256); apply Z.log2_le_mono; lia).
    pose proof (Z.bit_log2 x ltac:(lia)) as Hbit. rewrite Hbits in Hbit by lia. discriminate. }
  assert (Hhi : forall m, 8 <= m -> Z.testbit (get img a) m = false).
  { intros m Hm. apply Z.bits_above_log2; [lia|].
    destruct (Z.eq_dec (get img a) 0) as [->|]; [cbn; lia|].
    assert (Z.log2 (get img a) < 8) by (apply Z.log2_lt_pow2; lia). lia. }
  destruct flag; split.
  - apply Z.bits_iff_nonneg_ex. exists 64. intros m Hm. rewrite Z.setbit_neq by lia.
    apply Z.bits_above_log2; [lia|]. destruct (Z.eq_dec (get img a) 0) as [->|]; [cbn; lia|].
    assert (Z.log2 (get img a) < 8) by (apply Z.log2_lt_pow2; lia). lia.
  - apply H8.
    + apply Z.bits_iff_nonneg_ex. exists 64. intros m Hm. rewrite Z.setbit_neq by lia.
      apply Z.bits_above_log2; [lia|]. destruct (Z.eq_dec (get img a) 0) as [->|]; [cbn; lia|].
      assert (Z.log2 (get img a) < 8) by (apply Z.log2_lt_pow2; lia). lia.
    + intros m Hm. rewrite Z.setbit_neq by lia. apply Hhi. exact Hm.
  - apply Z.bits_iff_nonneg_ex. exists 64. intros m Hm. rewrite Z.clearbit_neq by lia.
    apply Z.bits_above_log2; [lia|]. destruct (Z.eq_dec (get img a) 0) as [->|]; [cbn; lia|].
    assert (Z.log2 (get img a) < 8) by (apply Z.log2_lt_pow2; lia). lia.
  - apply H8.
    + apply Z.bits_iff_nonneg_ex. exists 64. intros m Hm. rewrite Z.clearbit_neq by lia.
      apply Z.bits_above_log2; [lia|]. destruct (Z.eq_dec (get img a) 0) as [->|]; [cbn; lia|].
      assert (Z.log2 (get img a) < 8) by (apply Z.log2_lt_pow2; lia). lia.
    + intros m Hm. rewrite Z.clearbit_neq by lia. apply Hhi. exact Hm.
Qed.

(* ---- addresses ---- *)
Lemma io_write_local ad v img j : in_span ad j = false -> get (io_write ad v img) j = get img j.
Proof.
  unfold in_span, io_write. intro H.
  apply andb_false_iff in H. rewrite Nat.leb_gt, Nat.ltb_ge in H.
  destruct (a_size ad) eqn:E; cbn [nbytes] in *;
    try (apply wr_le_outside; lia).
  apply wr_bit_other_bytes. lia.
Qed.
Lemma io_write_length ad v img :
  length (io_write ad v img) = Nat.max (length img) (a_byte ad + nbytes (a_size ad)).
Proof.
  unfold io_write. destruct (a_size ad); cbn [nbytes];
    try (rewrite length_wr_le by lia; reflexivity).
  unfold wr_bit. rewrite length_set_byte. lia.
Qed.
Lemma io_read_write_same ad v img :
  match a_size ad with
  | SzX => 0 <= a_bit ad /\ (v = 0 \/ v = 1)
  | s => 0 <= v < 256 ^ Z.of_nat (nbytes s)
  end -> io_read ad (io_write ad v img) = v.
Proof.
  unfold io_read, io_write. destruct (a_size ad); intro H;
    try (apply rd_wr_le; exact H).
  destruct H as [Hb [->| ->]]; rewrite rd_wr_bit by assumption; reflexivity.
Qed.
(* a read depends only on the bytes of its span *)
Lemma io_read_ext ad img img' : (forall j, in_span ad j = true -> get img j = get img' j) ->
  io_read ad img = io_read ad img'.
Proof.
  unfold io_read, in_span. intro H.
  assert (Hk : forall n, n = nbytes (a_size ad) -> forall k, (k < n)%nat -> get img (a_byte ad + k) = get img' (a_byte ad + k)).
  { intros n -> k Hk. apply H. apply andb_true_iff. rewrite Nat.leb_le, Nat.ltb_lt. lia. }
  destruct (a_size ad) eqn:E; cbn [nbytes] in *;
    try (apply rd_le_ext; apply Hk; reflexivity).
  unfold rd_bit. specialize (Hk 1%nat eq_refl 0%nat ltac:(lia)). rewrite Nat.add_0_r in Hk. rewrite Hk. reflexivity.
Qed.
(* hence a write to a disjoint span does not change what another address reads *)
Lemma io_read_write_disjoint ad ad' v img :
  (forall j, in_span ad j = true -> in_span ad' j = false) ->
  io_read ad (io_write ad' v img) = io_read ad img.
Proof. intro H. apply io_read_ext. intros j Hj. apply io_write_local. apply H. exact Hj. Qed.

(* ---- signed reinterpretation ---- *)
Lemma signed_roundtrip bits s : 0 < bits -> - 2 ^ (bits - 1) <= s < 2 ^ (bits - 1) ->
  to_signed bits (to_unsigned bits s) = s.
Proof.
  intros Hb Hs. unfold to_signed, to_unsigned.
  assert (Hp : 2 ^ bits = 2 * 2 ^ (bits - 1)) by (rewrite <- Z.pow_succ_r by lia; f_equal; lia).
  destruct (Z.lt_ge_cases s 0).
  - replace (s mod 2 ^ bits) with (s + 2 ^ bits).
    + destruct (Z.ltb_spec (s + 2 ^ bits) (2 ^ (bits - 1))); lia.
    + symmetry. rewrite <- (Z.mod_add _ 1) by lia. rewrite Z.mul_1_l. apply Z.mod_small. lia.
  - rewrite Z.mod_small by lia. destruct (Z.ltb_spec s (2 ^ (bits - 1))); lia.
Qed.
Lemma unsigned_roundtrip bits u : 0 < bits -> 0 <= u < 2 ^ bits ->
  to_unsigned bits (to_signed bits u) = u.
Proof.
  intros Hb Hu. unfold to_signed, to_unsigned.
  destruct (Z.ltb_spec u (2 ^ (bits - 1))).
  - apply Z.mod_small. lia.
  - rewrite <- (Z.mod_add _ 1) by lia. rewrite Z.mul_1_l. replace (u - 2 ^ bits + 2 ^ bits) with u by lia.
    apply Z.mod_small. lia.
Qed.
Lemma to_unsigned_range bits s : 0 < bits -> 0 <= to_unsigned bits s < 2 ^ bits.
Proof. intro H. unfold to_unsigned. apply Z.mod_pos_bound. lia. Qed.
