(* C11: the format calculus of Model/StbcFmt.v — generic round trip, bounds, allocation — and its instances
   for the STBC sections (Model/StbcSections.v). *)
From Coq Require Import List Bool Arith NArith ZArith Lia.
From TP Require Import Model.Stbc Model.StbcFmt Model.StbcSections Proofs.C11Proofs.
Import ListNotations.
Open Scope N_scope.
Ltac Zify.zify_post_hook ::= Z.to_euclidean_division_equations.

(* ---- induction on formats (nested in FRec, higher-order in FBind) ---- *)
Section FmtInd.
  Variable P : fmt -> Prop.
  Hypothesis H8 : P FU8. Hypothesis H16 : P FU16. Hypothesis H32 : P FU32. Hypothesis H64 : P FU64.
  Hypothesis HEnum : forall v, P (FEnum8 v).
  Hypothesis HSkip : forall n, P (FSkip n).
  Hypothesis HBytes : forall p v, P (FBytes p v).
  Hypothesis HRec : forall l, Forall P l -> P (FRec l).
  Hypothesis HRep : forall f, P f -> P (FRep f).
  Hypothesis HBind : forall f k, P f -> (forall t, P (k t)) -> P (FBind f k).
  Fixpoint fmt_induction (f : fmt) : P f :=
    match f with
    | FU8 => H8 | FU16 => H16 | FU32 => H32 | FU64 => H64
    | FEnum8 v => HEnum v
    | FSkip n => HSkip n
    | FBytes p v => HBytes p v
    | FRec l => HRec l ((fix go (l : list fmt) : Forall P l := match l with [] => Forall_nil P | x :: r => Forall_cons x (fmt_induction x) (go r) end) l)
    | FRep g => HRep g (fmt_induction g)
    | FBind g k => HBind g k (fmt_induction g) (fun t => fmt_induction (k t))
    end.
End FmtInd.

(* ---- bytes and words ---- *)
Lemma blen_app a b : blen (a ++ b) = blen a + blen b.
Proof. unfold blen. rewrite app_length. lia. Qed.
Lemma blen_cons x l : blen (x :: l) = 1 + blen l.
Proof. unfold blen. cbn [length]. lia. Qed.
Lemma blen_nil : blen [] = 0. Proof. reflexivity. Qed.
Lemma blen_zeros n : blen (zeros n) = n.
Proof. unfold blen, zeros. rewrite repeat_length. lia. Qed.
Lemma blen_enc32 n : blen (enc32 n) = 4. Proof. reflexivity. Qed.
Lemma all_zero_zeros n : all_zero (zeros n) = true.
Proof. unfold all_zero, zeros. induction (N.to_nat n); cbn; auto. Qed.
Lemma take_app a rest : take (blen a) (a ++ rest) = Some (a, rest).
Proof.
  unfold take. rewrite blen_app. destruct (N.ltb_spec (blen a + blen rest) (blen a)); [lia|].
  unfold blen. rewrite Nat2N.id. rewrite firstn_app, skipn_app, Nat.sub_diag, firstn_all, skipn_all. cbn. now rewrite app_nil_r.
Qed.
Lemma take_inv n bs a b : take n bs = Some (a, b) -> bs = a ++ b /\ blen a = n.
Proof.
  unfold take. destruct (N.ltb_spec (blen bs) n); [discriminate|]. intros E. inversion E; subst. split; [now rewrite firstn_skipn|].
  unfold blen in *. rewrite firstn_length. lia.
Qed.
Lemma dec_skip_zeros s n rest : dec_skip s n (zeros n ++ rest) = Some rest.
Proof.
  unfold dec_skip. rewrite <- (blen_zeros n) at 1. rewrite take_app, all_zero_zeros. now destruct s.
Qed.
Lemma le16_enc16 n : n < 65536 -> le16 (n mod 256) ((n / 256) mod 256) = n.
Proof. unfold le16. lia. Qed.
Lemma le64_enc64 n : n < 18446744073709551616 ->
  match enc64 n with [b0; b1; b2; b3; b4; b5; b6; b7] => le64 b0 b1 b2 b3 b4 b5 b6 b7 = n | _ => False end.
Proof.
  intros H. unfold enc64, enc32. cbn [app]. unfold le64. rewrite !le32_enc32; [lia| |]; lia.
Qed.
Lemma skip_of_some f n : skip_of f = Some n -> f = FSkip n.
Proof. destruct f; cbn; intros E; inversion E; reflexivity. Qed.

(* ---- every encoding is at least min_size long ---- *)
Definition MS (f : fmt) : Prop := forall t bs, enc f t = Some bs -> min_size f <= blen bs.
Lemma min_size_seq l : Forall MS l -> forall ts bs, enc_seq enc l ts = Some bs -> fold_right (fun g a => min_size g + a) 0 l <= blen bs.
Proof.
  induction 1 as [|f l Hf Hl IH]; intros ts bs E; cbn [enc_seq fold_right] in *.
  - lia.
  - destruct (skip_of f) as [n|] eqn:Es.
    + apply skip_of_some in Es. subst f. destruct (enc_seq enc l ts) as [r|] eqn:E2; [|discriminate]. inversion E; subst.
      rewrite blen_app, blen_zeros. cbn [min_size]. specialize (IH _ _ E2). lia.
    + destruct ts as [|t ts]; [discriminate|]. destruct (enc f t) as [a|] eqn:E1; [|discriminate].
      destruct (enc_seq enc l ts) as [r|] eqn:E2; [|discriminate]. inversion E; subst.
      rewrite blen_app. specialize (IH _ _ E2). specialize (Hf _ _ E1). lia.
Qed.
Lemma min_size_enc : forall f, MS f.
Proof.
  induction f using fmt_induction; intros t bs E; cbn [enc min_size] in *.
  - destruct t; try discriminate. injection E as <-. reflexivity.
  - destruct t; try discriminate. injection E as <-. reflexivity.
  - destruct t; try discriminate. injection E as <-. reflexivity.
  - destruct t; try discriminate. injection E as <-. reflexivity.
  - destruct t; try discriminate. injection E as <-. reflexivity.
  - destruct t as [| |[|]]; try discriminate. injection E as <-. rewrite blen_zeros. lia.
  - destruct t; try discriminate. injection E as <-. rewrite ?blen_app, ?blen_cons. lia.
  - destruct t; try discriminate. eapply min_size_seq; eauto.
  - destruct t; try discriminate. destruct (enc_all (enc f) l); try discriminate. injection E as <-. rewrite ?blen_app, ?blen_cons. lia.
  - destruct t as [| |[|t1 [|t2 [|]]]]; try discriminate. destruct (enc f t1) as [a|] eqn:E1; [|discriminate].
    destruct (enc (k t1) t2); try discriminate. injection E as <-. rewrite blen_app. specialize (IHf _ _ E1). lia.
Qed.
Lemma enc_all_length g : 1 <= min_size g -> forall ts r, enc_all (enc g) ts = Some r -> (length ts <= length r)%nat.
Proof.
  intros Hm. induction ts as [|t ts IH]; intros r E; cbn [enc_all] in E.
  - inversion E. cbn. lia.
  - destruct (enc g t) as [a|] eqn:E1; [|discriminate]. destruct (enc_all (enc g) ts) as [r'|] eqn:E2; [|discriminate]. inversion E; subst.
    specialize (IH _ eq_refl). pose proof (min_size_enc g _ _ E1) as Ha. unfold blen in Ha. rewrite app_length. cbn [length]. lia.
Qed.

(* ---- round trip: decoding what the encoder wrote, whatever follows ---- *)
Section RoundTrip.
  Variable s : bool.
  Definition RT (f : fmt) : Prop := forall t bs rest, wf f t -> enc f t = Some bs -> decg s f (bs ++ rest) = Some (t, rest).
  Lemma rt_seq l : Forall RT l -> forall ts bs rest, wf_seq wf l ts -> enc_seq enc l ts = Some bs -> dec_seq s (decg s) l (bs ++ rest) = Some (ts, rest).
  Proof.
    induction 1 as [|f l Hf Hl IH]; intros ts bs rest Hw E; cbn [wf_seq enc_seq dec_seq] in *.
    - subst ts. inversion E. reflexivity.
    - destruct (skip_of f) as [n|] eqn:Es.
      + destruct (enc_seq enc l ts) as [r|] eqn:E2; [|discriminate]. injection E as <-.
        rewrite <- app_assoc, dec_skip_zeros. now apply IH.
      + destruct ts as [|t ts]; [contradiction|]. destruct Hw as [Hw1 Hw2]. destruct (enc f t) as [a|] eqn:E1; [|discriminate].
        destruct (enc_seq enc l ts) as [r|] eqn:E2; [|discriminate]. injection E as <-.
        rewrite <- app_assoc, (Hf _ _ _ Hw1 E1), (IH _ _ _ Hw2 E2). reflexivity.
  Qed.
  Lemma rt_rep g : RT g -> forall ts r rest fuel, Forall (wf g) ts -> enc_all (enc g) ts = Some r -> (length ts <= fuel)%nat ->
    dec_rep (decg s g) fuel (N.of_nat (length ts)) (r ++ rest) = Some (ts, rest).
  Proof.
    intros Hg. induction ts as [|t ts IH]; intros r rest fuel Hw E Hf; cbn [enc_all length] in *.
    - inversion E. destruct fuel; reflexivity.
    - destruct fuel as [|fuel]; [lia|]. inversion Hw as [|? ? Hw1 Hw2]; subst.
      destruct (enc g t) as [a|] eqn:E1; [|discriminate]. destruct (enc_all (enc g) ts) as [r'|] eqn:E2; [|discriminate]. injection E as <-.
      cbn [dec_rep]. destruct (N.eqb_spec (N.of_nat (S (length ts))) 0) as [H0|_]; [lia|].
      rewrite <- app_assoc, (Hg _ _ _ Hw1 E1). replace (N.pred (N.of_nat (S (length ts)))) with (N.of_nat (length ts)) by lia.
      rewrite (IH _ _ _ Hw2 eq_refl) by lia. reflexivity.
  Qed.
  Lemma dec_enc_g : forall f, RT f.
  Proof.
    induction f using fmt_induction; intros t bs rest Hw E; cbn [wf enc] in *.
    - destruct t; try contradiction. injection E as <-. unfold enc8. cbn [app decg]. now rewrite N.mod_small by lia.
    - destruct t; try contradiction. injection E as <-. unfold enc16. cbn [app decg]. now rewrite le16_enc16.
    - destruct t; try contradiction. injection E as <-. unfold enc32. cbn [app decg]. now rewrite le32_enc32.
    - destruct t; try contradiction. injection E as <-. pose proof (le64_enc64 n Hw) as H. unfold enc64, enc32 in *. cbn [app decg] in *. now rewrite H.
    - destruct t; try contradiction. destruct Hw as [Hn Hv]. injection E as <-. unfold enc8. cbn [app decg]. rewrite N.mod_small by lia. now rewrite Hv.
    - destruct t as [| |[|]]; try contradiction. injection E as <-. cbn [decg]. now rewrite dec_skip_zeros.
    - destruct t; try contradiction. destruct Hw as (Hl & Hv & _). injection E as <-. cbn [decg]. unfold dec_bytes, enc32. cbn [app]. cbv zeta.
      rewrite le32_enc32 by assumption. rewrite <- app_assoc, take_app, Hv, dec_skip_zeros. reflexivity.
    - destruct t; try contradiction. cbn [decg]. now rewrite (rt_seq _ H _ _ _ Hw E).
    - destruct t as [| |ts]; try contradiction. destruct Hw as (Hm & Hc & Hw). destruct (enc_all (enc f) ts) as [r|] eqn:E2; [|discriminate]. injection E as <-.
      unfold enc32. cbn [app decg]. rewrite le32_enc32 by assumption.
      rewrite (rt_rep _ IHf _ _ _ _ Hw E2); [reflexivity|]. rewrite app_length. pose proof (enc_all_length _ Hm _ _ E2). lia.
    - destruct t as [| |[|t1 [|t2 [|]]]]; try contradiction. destruct Hw as [Hw1 Hw2]. destruct (enc f t1) as [a|] eqn:E1; [|discriminate].
      destruct (enc (k t1) t2) as [b|] eqn:E2; [|discriminate]. injection E as <-. cbn [decg].
      rewrite <- app_assoc, (IHf _ _ _ Hw1 E1), (H _ _ _ _ Hw2 E2). reflexivity.
  Qed.
End RoundTrip.
Theorem dec_enc_l : forall f t bs rest, wf f t -> enc f t = Some bs -> dec f (bs ++ rest) = Some (t, rest).
Proof. intros. now apply dec_enc_g. Qed.
(* what the encoder writes is canonical: the strict decoder accepts it too *)
Theorem enc_canonical_l : forall f t bs rest, wf f t -> enc f t = Some bs -> canonical f (bs ++ rest).
Proof. intros f t bs rest Hw E. unfold canonical. now rewrite (dec_enc_g true f _ _ rest Hw E). Qed.

(* ---- the converse: what an accepted input looks like ---- *)
Lemma le32_inv b0 b1 b2 b3 : b0 < 256 -> b1 < 256 -> b2 < 256 -> b3 < 256 ->
  le32 b0 b1 b2 b3 < 4294967296 /\ enc32 (le32 b0 b1 b2 b3) = [b0; b1; b2; b3].
Proof. intros. unfold le32, enc32. split; [lia|]. repeat f_equal; lia. Qed.
Lemma le16_inv b0 b1 : b0 < 256 -> b1 < 256 -> le16 b0 b1 < 65536 /\ enc16 (le16 b0 b1) = [b0; b1].
Proof. intros. unfold le16, enc16. split; [lia|]. repeat f_equal; lia. Qed.
Lemma le64_inv b0 b1 b2 b3 b4 b5 b6 b7 : b0 < 256 -> b1 < 256 -> b2 < 256 -> b3 < 256 -> b4 < 256 -> b5 < 256 -> b6 < 256 -> b7 < 256 ->
  le64 b0 b1 b2 b3 b4 b5 b6 b7 < 18446744073709551616 /\ enc64 (le64 b0 b1 b2 b3 b4 b5 b6 b7) = [b0; b1; b2; b3; b4; b5; b6; b7].
Proof.
  intros. destruct (le32_inv b0 b1 b2 b3) as [L1 E1]; auto. destruct (le32_inv b4 b5 b6 b7) as [L2 E2]; auto.
  unfold le64, enc64. set (lo := le32 b0 b1 b2 b3) in *. set (hi := le32 b4 b5 b6 b7) in *. split; [lia|].
  replace ((lo + 4294967296 * hi) mod 4294967296) with lo by lia. replace ((lo + 4294967296 * hi) / 4294967296) with hi by lia.
  now rewrite E1, E2.
Qed.
Lemma bytes_ok_cons b r : bytes_ok (b :: r) -> b < 256 /\ bytes_ok r.
Proof. intros H. inversion H; auto. Qed.
Lemma bytes_ok_app a b : bytes_ok (a ++ b) -> bytes_ok a /\ bytes_ok b.
Proof. unfold bytes_ok. rewrite Forall_app. auto. Qed.
Lemma all_zero_eq z : all_zero z = true -> z = zeros (blen z).
Proof.
  unfold all_zero, zeros, blen. rewrite Nat2N.id. induction z as [|x z IH]; cbn [forallb length repeat]; [reflexivity|].
  intros H. apply andb_prop in H. destruct H as [Hx Hz]. apply N.eqb_eq in Hx. subst x. now rewrite <- IH.
Qed.
Lemma dec_skip_inv s n bs rest : dec_skip s n bs = Some rest -> exists z, bs = z ++ rest /\ blen z = n /\ (s = true -> z = zeros n).
Proof.
  unfold dec_skip. destruct (take n bs) as [[z r]|] eqn:Et; [|discriminate]. apply take_inv in Et. destruct Et as [-> Hl].
  destruct s; cbn [andb].
  - destruct (all_zero z) eqn:Ez; cbn [negb]; [|discriminate]. intros E. injection E as <-. exists z. repeat split; auto. intros _. rewrite <- Hl. now apply all_zero_eq.
  - intros E. injection E as <-. exists z. repeat split; auto. discriminate.
Qed.

Section Inverse.
  Variable s : bool.
  Definition INV (f : fmt) : Prop := forall bs t rest, decg s f bs = Some (t, rest) ->
    exists used, bs = used ++ rest /\ (bytes_ok bs -> (fmt_ok f -> wf f t) /\ (s = true -> enc f t = Some used)).
  Lemma inv_seq l : Forall INV l -> forall bs ts rest, dec_seq s (decg s) l bs = Some (ts, rest) ->
    exists used, bs = used ++ rest /\
      (bytes_ok bs -> (fold_right (fun g a => fmt_ok g /\ a) True l -> wf_seq wf l ts) /\ (s = true -> enc_seq enc l ts = Some used)).
  Proof.
    induction 1 as [|f l Hf Hl IH]; intros bs ts rest D; cbn [dec_seq wf_seq enc_seq fold_right] in *.
    - injection D as <- <-. exists []. split; [reflexivity|]. auto.
    - destruct (skip_of f) as [n|] eqn:Es.
      + destruct (dec_skip s n bs) as [r|] eqn:Ed; [|discriminate]. apply dec_skip_inv in Ed. destruct Ed as (z & -> & Hz & Hzz).
        destruct (IH _ _ _ D) as (u & -> & Hu). exists (z ++ u). split; [now rewrite app_assoc|]. intros Hb.
        apply bytes_ok_app in Hb. destruct Hb as [_ Hb]. destruct (Hu Hb) as [Hw He]. split.
        * intros [_ Ho]. auto.
        * intros Hs. rewrite (He Hs), (Hzz Hs). reflexivity.
      + destruct (decg s f bs) as [[t r]|] eqn:E1; [|discriminate]. destruct (dec_seq s (decg s) l r) as [[ts' r']|] eqn:E2; [|discriminate].
        injection D as <- <-. destruct (Hf _ _ _ E1) as (u1 & -> & H1). destruct (IH _ _ _ E2) as (u2 & -> & H2).
        exists (u1 ++ u2). split; [now rewrite app_assoc|]. intros Hb. destruct (H1 Hb) as [Hw1 He1].
        apply bytes_ok_app in Hb. destruct Hb as [_ Hb]. destruct (H2 Hb) as [Hw2 He2]. split.
        * intros [Ho1 Ho2]. auto.
        * intros Hs. now rewrite (He1 Hs), (He2 Hs).
  Qed.
  Lemma inv_rep g : INV g -> forall fuel count bs ts rest, dec_rep (decg s g) fuel count bs = Some (ts, rest) ->
    N.of_nat (length ts) = count /\
    exists used, bs = used ++ rest /\ (bytes_ok bs -> (fmt_ok g -> Forall (wf g) ts) /\ (s = true -> enc_all (enc g) ts = Some used)).
  Proof.
    intros Hg. induction fuel as [|fuel IH]; intros count bs ts rest D; cbn [dec_rep] in D.
    - destruct (N.eqb_spec count 0) as [->|Hc]; [|discriminate]. injection D as <- <-. split; [reflexivity|]. exists []. split; [reflexivity|]. auto.
    - destruct (N.eqb_spec count 0) as [->|Hc].
      + injection D as <- <-. split; [reflexivity|]. exists []. split; [reflexivity|]. auto.
      + destruct (decg s g bs) as [[t r]|] eqn:E1; [|discriminate]. destruct (dec_rep (decg s g) fuel (N.pred count) r) as [[ts' r']|] eqn:E2; [|discriminate].
        injection D as <- <-. destruct (Hg _ _ _ E1) as (u1 & -> & H1). destruct (IH _ _ _ _ E2) as (Hn & u2 & -> & H2).
        split; [cbn [length]; lia|]. exists (u1 ++ u2). split; [now rewrite app_assoc|]. intros Hb. destruct (H1 Hb) as [Hw1 He1].
        apply bytes_ok_app in Hb. destruct Hb as [_ Hb]. destruct (H2 Hb) as [Hw2 He2]. split.
        * intros Ho. constructor; auto.
        * intros Hs. cbn [enc_all]. now rewrite (He1 Hs), (He2 Hs).
  Qed.
  Lemma dec_inv_g : forall f, INV f.
  Proof.
    induction f using fmt_induction; intros bs t rest D; cbn [decg] in D.
    - destruct bs as [|b r]; [discriminate|]. injection D as <- <-. exists [b]. split; [reflexivity|]. intros Hb. apply bytes_ok_cons in Hb. destruct Hb as [Hb _].
      cbn [wf enc]. split; auto. intros _. unfold enc8. now rewrite N.mod_small.
    - destruct bs as [|b0 [|b1 r]]; try discriminate. injection D as <- <-. exists [b0; b1]. split; [reflexivity|]. intros Hb.
      apply bytes_ok_cons in Hb. destruct Hb as [H0 Hb]. apply bytes_ok_cons in Hb. destruct Hb as [H1 Hb].
      destruct (le16_inv b0 b1 H0 H1) as [Hl He]. cbn [wf enc]. split; auto. intros _. now rewrite He.
    - destruct bs as [|b0 [|b1 [|b2 [|b3 r]]]]; try discriminate. injection D as <- <-. exists [b0; b1; b2; b3]. split; [reflexivity|]. intros Hb.
      apply bytes_ok_cons in Hb. destruct Hb as [H0 Hb]. apply bytes_ok_cons in Hb. destruct Hb as [H1 Hb].
      apply bytes_ok_cons in Hb. destruct Hb as [H2 Hb]. apply bytes_ok_cons in Hb. destruct Hb as [H3 Hb].
      destruct (le32_inv b0 b1 b2 b3 H0 H1 H2 H3) as [Hl He]. cbn [wf enc]. split; auto. intros _. now rewrite He.
    - destruct bs as [|b0 [|b1 [|b2 [|b3 [|b4 [|b5 [|b6 [|b7 r]]]]]]]]; try discriminate. injection D as <- <-. exists [b0; b1; b2; b3; b4; b5; b6; b7]. split; [reflexivity|]. intros Hb.
      apply bytes_ok_cons in Hb. destruct Hb as [H0 Hb]. apply bytes_ok_cons in Hb. destruct Hb as [H1 Hb].
      apply bytes_ok_cons in Hb. destruct Hb as [H2 Hb]. apply bytes_ok_cons in Hb. destruct Hb as [H3 Hb].
      apply bytes_ok_cons in Hb. destruct Hb as [H4 Hb]. apply bytes_ok_cons in Hb. destruct Hb as [H5 Hb].
      apply bytes_ok_cons in Hb. destruct Hb as [H6 Hb]. apply bytes_ok_cons in Hb. destruct Hb as [H7 Hb].
      destruct (le64_inv b0 b1 b2 b3 b4 b5 b6 b7 H0 H1 H2 H3 H4 H5 H6 H7) as [Hl He]. cbn [wf enc]. split; auto. intros _. now rewrite He.
    - destruct bs as [|b r]; [discriminate|]. destruct (v b) eqn:Ev; [|discriminate]. injection D as <- <-. exists [b]. split; [reflexivity|]. intros Hb.
      apply bytes_ok_cons in Hb. destruct Hb as [Hb _]. cbn [wf enc]. split; auto. intros _. unfold enc8. now rewrite N.mod_small.
    - destruct (dec_skip s n bs) as [r|] eqn:Ed; [|discriminate]. injection D as <- <-. apply dec_skip_inv in Ed. destruct Ed as (z & -> & Hz & Hzz).
      exists z. split; [reflexivity|]. intros _. cbn [wf enc]. split; auto. intros Hs. now rewrite (Hzz Hs).
    - unfold dec_bytes in D. destruct bs as [|b0 [|b1 [|b2 [|b3 r]]]]; try discriminate. cbv zeta in D.
      destruct (take (le32 b0 b1 b2 b3) r) as [[sb r']|] eqn:Et; [|discriminate]. destruct (v sb) eqn:Ev; [|discriminate].
      destruct (dec_skip s (pad_len p (le32 b0 b1 b2 b3)) r') as [r''|] eqn:Ed; [|discriminate]. injection D as <- <-.
      apply take_inv in Et. destruct Et as [-> Hl]. apply dec_skip_inv in Ed. destruct Ed as (z & -> & Hz & Hzz).
      exists ([b0; b1; b2; b3] ++ sb ++ z). split; [now rewrite <- !app_assoc|]. intros Hb.
      apply bytes_ok_cons in Hb. destruct Hb as [H0 Hb]. apply bytes_ok_cons in Hb. destruct Hb as [H1 Hb].
      apply bytes_ok_cons in Hb. destruct Hb as [H2 Hb]. apply bytes_ok_cons in Hb. destruct Hb as [H3 Hb].
      apply bytes_ok_app in Hb. destruct Hb as [Hsb _].
      destruct (le32_inv b0 b1 b2 b3 H0 H1 H2 H3) as [Hlt He]. cbn [wf enc]. rewrite Hl. split; [auto|]. intros Hs. now rewrite He, (Hzz Hs).
    - destruct (dec_seq s (decg s) l bs) as [[ts r]|] eqn:E; [|discriminate]. injection D as <- <-.
      destruct (inv_seq _ H _ _ _ E) as (u & -> & Hu). exists u. split; [reflexivity|]. intros Hb. destruct (Hu Hb) as [Hw He]. cbn [wf enc fmt_ok]. auto.
    - destruct bs as [|b0 [|b1 [|b2 [|b3 r]]]]; try discriminate.
      destruct (dec_rep (decg s f) (length r) (le32 b0 b1 b2 b3) r) as [[ts r']|] eqn:E; [|discriminate]. injection D as <- <-.
      destruct (inv_rep _ IHf _ _ _ _ _ E) as (Hn & u & -> & Hu). exists ([b0; b1; b2; b3] ++ u). split; [reflexivity|]. intros Hb.
      apply bytes_ok_cons in Hb. destruct Hb as [H0 Hb]. apply bytes_ok_cons in Hb. destruct Hb as [H1 Hb].
      apply bytes_ok_cons in Hb. destruct Hb as [H2 Hb]. apply bytes_ok_cons in Hb. destruct Hb as [H3 Hb].
      destruct (le32_inv b0 b1 b2 b3 H0 H1 H2 H3) as [Hlt He]. destruct (Hu Hb) as [Hw Hen]. cbn [wf enc fmt_ok]. rewrite Hn. split.
      + intros [Hm Ho]. auto.
      + intros Hs. now rewrite (Hen Hs), He.
    - destruct (decg s f bs) as [[t1 r1]|] eqn:E1; [|discriminate]. destruct (decg s (k t1) r1) as [[t2 r2]|] eqn:E2; [|discriminate]. injection D as <- <-.
      destruct (IHf _ _ _ E1) as (u1 & -> & H1). destruct (H _ _ _ _ E2) as (u2 & -> & H2). exists (u1 ++ u2). split; [now rewrite app_assoc|]. intros Hb.
      destruct (H1 Hb) as [Hw1 He1]. apply bytes_ok_app in Hb. destruct Hb as [_ Hb]. destruct (H2 Hb) as [Hw2 He2]. cbn [wf enc fmt_ok]. split.
      + intros [Ho1 Ho2]. auto.
      + intros Hs. now rewrite (He1 Hs), (He2 Hs).
  Qed.
End Inverse.

(* the strict decoder is a restriction of the decoder *)
Lemma dec_skip_sl n bs r : dec_skip true n bs = Some r -> dec_skip false n bs = Some r.
Proof. unfold dec_skip. destruct (take n bs) as [[z r']|]; [|discriminate]. cbn [andb]. destruct (all_zero z); cbn [negb]; [auto|discriminate]. Qed.
Definition SL (f : fmt) : Prop := forall bs r, decg true f bs = Some r -> decg false f bs = Some r.
Lemma sl_seq l : Forall SL l -> forall bs r, dec_seq true (decg true) l bs = Some r -> dec_seq false (decg false) l bs = Some r.
Proof.
  induction 1 as [|f l Hf Hl IH]; intros bs r D; cbn [dec_seq] in *; [exact D|].
  destruct (skip_of f) as [n|].
  - destruct (dec_skip true n bs) as [r'|] eqn:Ed; [|discriminate]. rewrite (dec_skip_sl _ _ _ Ed). now apply IH.
  - destruct (decg true f bs) as [[t r1]|] eqn:E1; [|discriminate]. rewrite (Hf _ _ E1).
    destruct (dec_seq true (decg true) l r1) as [[ts r2]|] eqn:E2; [|discriminate]. now rewrite (IH _ _ E2).
Qed.
Lemma sl_rep g : SL g -> forall fuel count bs r, dec_rep (decg true g) fuel count bs = Some r -> dec_rep (decg false g) fuel count bs = Some r.
Proof.
  intros Hg. induction fuel as [|fuel IH]; intros count bs r D; cbn [dec_rep] in *; [exact D|].
  destruct (count =? 0); [exact D|]. destruct (decg true g bs) as [[t r1]|] eqn:E1; [|discriminate]. rewrite (Hg _ _ E1).
  destruct (dec_rep (decg true g) fuel (N.pred count) r1) as [[ts r2]|] eqn:E2; [|discriminate]. now rewrite (IH _ _ _ E2).
Qed.
Lemma strict_lax : forall f, SL f.
Proof.
  induction f using fmt_induction; intros bs r D; cbn [decg] in *; try exact D.
  - destruct (dec_skip true n bs) as [r'|] eqn:Ed; [|discriminate]. now rewrite (dec_skip_sl _ _ _ Ed).
  - unfold dec_bytes in *. destruct bs as [|b0 [|b1 [|b2 [|b3 r0]]]]; try discriminate. cbv zeta in *.
    destruct (take (le32 b0 b1 b2 b3) r0) as [[sb r']|]; [|discriminate]. destruct (v sb); [|discriminate].
    destruct (dec_skip true (pad_len p (le32 b0 b1 b2 b3)) r') as [r''|] eqn:Ed; [|discriminate]. now rewrite (dec_skip_sl _ _ _ Ed).
  - destruct (dec_seq true (decg true) l bs) as [[ts r']|] eqn:E; [|discriminate]. now rewrite (sl_seq _ H _ _ E).
  - destruct bs as [|b0 [|b1 [|b2 [|b3 r0]]]]; try discriminate.
    destruct (dec_rep (decg true f) (length r0) (le32 b0 b1 b2 b3) r0) as [[ts r']|] eqn:E; [|discriminate]. now rewrite (sl_rep _ IHf _ _ _ _ E).
  - destruct (decg true f bs) as [[t1 r1]|] eqn:E1; [|discriminate]. rewrite (IHf _ _ E1).
    destruct (decg true (k t1) r1) as [[t2 r2]|] eqn:E2; [|discriminate]. now rewrite (H _ _ _ E2).
Qed.

(* never reads out of bounds: an accepted input is what was consumed followed by the untouched suffix *)
Theorem dec_consumes_l : forall f bs t rest, dec f bs = Some (t, rest) -> exists used, bs = used ++ rest.
Proof. intros f bs t rest D. destruct (dec_inv_g false f _ _ _ D) as (u & E & _). eauto. Qed.
(* decoded values are encodable *)
Theorem dec_wf_l : forall f bs t rest, fmt_ok f -> bytes_ok bs -> dec f bs = Some (t, rest) -> wf f t.
Proof. intros f bs t rest Ho Hb D. destruct (dec_inv_g false f _ _ _ D) as (u & E & Hu). destruct (Hu Hb) as [Hw _]. auto. Qed.
(* exact inverse on canonical inputs (reserved bytes and padding are zero): the encoder reproduces the consumed bytes *)
Theorem enc_dec_canonical_l : forall f bs t rest, bytes_ok bs -> canonical f bs -> dec f bs = Some (t, rest) ->
  exists used, bs = used ++ rest /\ enc f t = Some used.
Proof.
  intros f bs t rest Hb Hc D. unfold canonical in Hc. destruct (decg true f bs) as [[t' r']|] eqn:E; [|congruence].
  pose proof (strict_lax f _ _ E) as E'. unfold dec in D. rewrite D in E'. injection E' as <- <-.
  destruct (dec_inv_g true f _ _ _ E) as (u & Eu & Hu). destruct (Hu Hb) as [_ He]. exists u. auto.
Qed.
(* the decoder ignores reserved bytes, so without canonicity the inverse fails: *)
Example enc_dec_not_inverse : dec (FRec [FU8; FSkip 1]) [5; 9] = Some (TL [TN 5], []) /\ enc (FRec [FU8; FSkip 1]) (TL [TN 5]) = Some [5; 0].
Proof. split; reflexivity. Qed.

(* ---- allocation: no capacity request exceeds the number of input bytes ---- *)
Lemma dec_rest_le f bs t rest : dec f bs = Some (t, rest) -> blen rest <= blen bs.
Proof. intros D. destruct (dec_consumes_l _ _ _ _ D) as (u & ->). rewrite blen_app. lia. Qed.
Lemma dec_skip_rest_le s n bs rest : dec_skip s n bs = Some rest -> blen rest <= blen bs.
Proof. intros D. apply dec_skip_inv in D. destruct D as (z & -> & _). rewrite blen_app. lia. Qed.
Definition CB (f : fmt) : Prop := forall bs, cap f bs <= blen bs.
Lemma cb_seq l : Forall CB l -> forall bs, cap_seq cap l bs <= blen bs.
Proof.
  induction 1 as [|f l Hf Hl IH]; intros bs; cbn [cap_seq]; [lia|].
  destruct (skip_of f) as [n|].
  - destruct (dec_skip false n bs) as [r|] eqn:Ed; [|lia]. apply dec_skip_rest_le in Ed. specialize (IH r). lia.
  - specialize (Hf bs). destruct (dec f bs) as [[t r]|] eqn:E; [|lia]. apply dec_rest_le in E. specialize (IH r). lia.
Qed.
Lemma cb_rep g : CB g -> forall fuel count bs, cap_rep (cap g) (dec g) fuel count bs <= blen bs.
Proof.
  intros Hg. induction fuel as [|fuel IH]; intros count bs; cbn [cap_rep]; destruct (count =? 0); try lia.
  specialize (Hg bs). destruct (dec g bs) as [[t r]|] eqn:E; [|lia]. apply dec_rest_le in E. specialize (IH (N.pred count) r). lia.
Qed.
Theorem cap_bounded_l : forall f bs, cap f bs <= blen bs.
Proof.
  induction f using fmt_induction; intros bs; cbn [cap]; try lia.
  - destruct bs as [|b0 [|b1 [|b2 [|b3 r]]]]; try lia. cbv zeta. rewrite !blen_cons. destruct (N.ltb_spec (blen r) (le32 b0 b1 b2 b3)); lia.
  - now apply cb_seq.
  - destruct bs as [|b0 [|b1 [|b2 [|b3 r]]]]; try lia. cbv zeta. rewrite !blen_cons. pose proof (cb_rep _ IHf (length r) (le32 b0 b1 b2 b3) r). lia.
  - specialize (IHf bs). destruct (dec f bs) as [[t r]|] eqn:E; [|lia]. apply dec_rest_le in E. specialize (H t r). lia.
Qed.

(* ======== the STBC sections ======== *)
Ltac split_ifs := repeat match goal with |- context [if ?c then _ else _] => destruct c end.
Ltac ok_tac := cbn; repeat split; try lia.
Lemma type_entry_ok : fmt_ok type_entry.
Proof. cbn. repeat split; intros t; unfold type_body; split_ifs; ok_tac. Qed.
Lemma param_ok minor : fmt_ok (param minor) /\ 1 <= min_size (param minor).
Proof. unfold param. destruct (ge1 minor); ok_tac. Qed.
Lemma pou_entry_ok minor : fmt_ok (pou_entry minor).
Proof.
  destruct (param_ok minor) as [H1 H2]. unfold pou_entry. revert H1 H2. generalize (param minor). intros p H1 H2.
  cbn [fmt_ok fold_right]. repeat split; auto.
  intros t. destruct (class_like (pou_kind_of t)); ok_tac.
Qed.
Lemma ref_segment_ok : fmt_ok ref_segment.
Proof. cbn. repeat split. destruct t as [[|p]| |]; ok_tac. Qed.
Lemma ref_table_ok : fmt_ok ref_table.
Proof.
  pose proof ref_segment_ok as H. assert (H0 : 1 <= min_size ref_segment) by (cbn; lia). unfold ref_table, ref_entry.
  revert H H0. generalize ref_segment. intros s H H0. cbn. repeat split; auto; lia.
Qed.
Lemma pou_index_ok minor : fmt_ok (pou_index minor).
Proof.
  pose proof (pou_entry_ok minor) as H. assert (H0 : 1 <= min_size (pou_entry minor)) by (unfold pou_entry; cbn [min_size fold_right]; lia).
  unfold pou_index. cbn [fmt_ok]. auto.
Qed.
(* every descriptor satisfies the static side condition of the calculus *)
Theorem section_fmt_ok_l : forall minor id f, section_fmt minor id = Some f -> fmt_ok f.
Proof.
  intros minor id f. unfold section_fmt. split_ifs; intros E; inversion E; subst; clear E.
  - ok_tac.
  - pose proof type_entry_ok as H. cbn [fmt_ok]. split; [cbn; lia|exact H].
  - ok_tac.
  - apply ref_table_ok.
  - apply pou_index_ok.
  - ok_tac.
  - ok_tac.
  - ok_tac.
  - ok_tac.
  - ok_tac.
Qed.

(* ---- the offset-indexed type table ---- *)
Lemma some_inj {A : Type} (a b : A) : Some a = Some b -> a = b.
Proof. congruence. Qed.
Lemma enc_all_u32 l : enc_all (enc FU32) (map TN l) = Some (flat_map enc32 l).
Proof. induction l as [|x l IH]; cbn [map enc_all flat_map]; [reflexivity|]. change (enc FU32 (TN x)) with (Some (enc32 x)). now rewrite IH. Qed.
Lemma tn_list_map l : tn_list (map TN l) = l.
Proof. induction l; cbn; congruence. Qed.
Lemma blen_flat_enc32 l : blen (flat_map enc32 l) = 4 * N.of_nat (length l).
Proof. induction l as [|x l IH]; [reflexivity|]. cbn [flat_map length]. rewrite blen_app, blen_enc32, IH. lia. Qed.
Lemma enc_bufs_length es : forall bufs, enc_bufs es = Some bufs -> length bufs = length es.
Proof.
  induction es as [|e es IH]; intros bufs E; cbn [enc_bufs] in E; [now inversion E|].
  destruct (enc type_entry e); [|discriminate]. destruct (enc_bufs es) as [b'|]; [|discriminate]. injection E as <-. cbn [length]. now rewrite (IH _ eq_refl).
Qed.
Lemma offsets_length bufs : forall c, length (offsets_from c bufs) = length bufs.
Proof. induction bufs as [|b r IH]; intros c; cbn [offsets_from length]; [reflexivity|]. now rewrite IH. Qed.
Lemma offsets_bound bufs : forall c, Forall (fun o => o <= c + blen (concat bufs)) (offsets_from c bufs).
Proof.
  induction bufs as [|b r IH]; intros c; cbn [offsets_from concat]; constructor.
  - lia.
  - rewrite blen_app. eapply Forall_impl; [|apply IH]. cbn. intros o Ho. lia.
Qed.
Lemma slice_mid pre b post : slice (pre ++ b ++ post) (blen pre) (blen b) = b.
Proof.
  unfold slice, blen. rewrite !Nat2N.id. rewrite skipn_app, Nat.sub_diag, skipn_all. cbn [app skipn].
  rewrite firstn_app, Nat.sub_diag, firstn_all. cbn [firstn]. now rewrite app_nil_r.
Qed.
Lemma blen_slice bs o l : blen (slice bs o l) <= blen bs.
Proof. unfold slice, blen. rewrite firstn_length, skipn_length. lia. Qed.
Lemma tt_entries_ok payload base : forall es bufs pre prev, enc_bufs es = Some bufs -> Forall (wf type_entry) es ->
  payload = pre ++ concat bufs -> base <= blen pre -> prev <= blen pre ->
  dec_tt_entries payload (blen payload) base prev (offsets_from (blen pre) bufs) = Some es.
Proof.
  induction es as [|e es IH]; intros bufs pre prev E Hw Hp Hb Hv; cbn [enc_bufs] in E.
  - injection E as <-. reflexivity.
  - destruct (enc type_entry e) as [b|] eqn:E1; [|discriminate]. destruct (enc_bufs es) as [bufs'|] eqn:E2; [|discriminate]. injection E as <-.
    apply Forall_cons_iff in Hw. destruct Hw as [Hw1 Hw2]. cbn [offsets_from dec_tt_entries].
    assert (Hlen : blen payload = blen pre + blen b + blen (concat bufs')) by (rewrite Hp; cbn [concat]; rewrite !blen_app; lia).
    assert (Hnext : match offsets_from (blen pre + blen b) bufs' with o' :: _ => o' | [] => blen payload end = blen pre + blen b).
    { destruct bufs' as [|b' r]; cbn [offsets_from]; [|reflexivity]. rewrite Hlen. cbn [concat]. rewrite blen_nil. lia. }
    rewrite Hnext. clear Hnext.
    destruct (N.ltb_spec (blen pre) base); [lia|]. destruct (N.ltb_spec (blen payload) (blen pre)); [lia|].
    destruct (N.ltb_spec (blen payload) (blen pre + blen b)); [lia|]. destruct (N.ltb_spec (blen pre + blen b) (blen pre)); [lia|].
    cbn [orb]. destruct (N.ltb_spec (blen pre) prev); [lia|].
    replace (blen pre + blen b - blen pre) with (blen b) by lia.
    assert (Hs : slice payload (blen pre) (blen b) = b) by (rewrite Hp; cbn [concat]; apply slice_mid). rewrite Hs.
    pose proof (dec_enc_l _ _ _ [] Hw1 E1) as D. rewrite app_nil_r in D. rewrite D.
    replace (blen pre + blen b) with (blen (pre ++ b)) by (rewrite blen_app; lia).
    rewrite (IH bufs' (pre ++ b) (blen pre) eq_refl Hw2); [reflexivity| | |]; rewrite ?blen_app; try lia. rewrite Hp. cbn [concat]. now rewrite <- app_assoc.
Qed.
Theorem type_table_round_trip_l : forall t bs, wf_type_table t -> enc_type_table t = Some bs -> dec_type_table bs = Some t.
Proof.
  intros t bs Hw E. destruct t as [| |[|[| |offs] [|[| |es] [|]]]]; try contradiction.
  destruct Hw as (Hes & bufs & Eb & -> & Htot). cbn [enc_type_table] in E. rewrite Eb in E. apply some_inj in E. subst bs.
  set (cnt := N.of_nat (length es)) in *. set (ofl := offsets_from (4 + 4 * cnt) bufs).
  pose proof (enc_bufs_length _ _ Eb) as Hlb. assert (Hlo : length ofl = length es) by (unfold ofl; now rewrite offsets_length).
  assert (D : dec (FRep FU32) ((enc32 cnt ++ flat_map enc32 ofl) ++ concat bufs) = Some (TL (map TN ofl), concat bufs)).
  { apply dec_enc_l.
    - cbn [wf min_size]. rewrite map_length, Hlo. repeat split; try lia. apply Forall_forall. intros x Hx. apply in_map_iff in Hx. destruct Hx as (o & <- & Ho).
      pose proof (offsets_bound bufs (4 + 4 * cnt)) as Hbd. rewrite Forall_forall in Hbd. specialize (Hbd _ Ho). cbn [wf]. cbn beta in Hbd. lia.
    - cbn [enc]. rewrite enc_all_u32, map_length, Hlo. reflexivity. }
  unfold dec_type_table. rewrite app_assoc, D, tn_list_map.
  assert (Hpre : blen (enc32 cnt ++ flat_map enc32 ofl) = 4 + 4 * cnt) by (rewrite blen_app, blen_enc32, blen_flat_enc32, Hlo; reflexivity).
  cbv zeta. replace (blen ((enc32 cnt ++ flat_map enc32 ofl) ++ concat bufs) - blen (concat bufs)) with (4 + 4 * cnt) by (rewrite blen_app, Hpre; lia).
  pose proof (tt_entries_ok ((enc32 cnt ++ flat_map enc32 ofl) ++ concat bufs) (4 + 4 * cnt) es bufs (enc32 cnt ++ flat_map enc32 ofl) 0 Eb Hes eq_refl) as T.
  rewrite Hpre in T. unfold ofl in *. rewrite T; [reflexivity| |]; lia.
Qed.
Lemma cap_tt_bounded payload plen : forall offs, cap_tt_entries payload plen offs <= blen payload.
Proof.
  induction offs as [|o r IH]; cbn [cap_tt_entries]; [lia|]. cbv zeta.
  set (nx := match r with o' :: _ => o' | [] => plen end). pose proof (cap_bounded_l type_entry (slice payload o (nx - o))). pose proof (blen_slice payload o (nx - o)). lia.
Qed.

(* ---- section-level corollaries ---- *)
Theorem section_round_trip_l : forall minor id t bs, wf_section minor id t -> enc_section minor id t = Some bs -> dec_section minor id bs = Some t.
Proof.
  intros minor id t bs. unfold wf_section, enc_section, dec_section. destruct (section_fmt minor id) as [f|].
  - intros Hw E. pose proof (dec_enc_l f t bs [] Hw E) as D. rewrite app_nil_r in D. now rewrite D.
  - destruct (id =? 2).
    + apply type_table_round_trip_l.
    + intros [b ->] E. now injection E as <-.
Qed.
(* whatever follows the encoded contents inside the payload is ignored (format-described sections) *)
Theorem section_round_trip_trailing_l : forall minor id f t bs extra, section_fmt minor id = Some f -> wf f t -> enc f t = Some bs ->
  dec_section minor id (bs ++ extra) = Some t.
Proof. intros minor id f t bs extra Ef Hw E. unfold dec_section. rewrite Ef. now rewrite (dec_enc_l f t bs extra Hw E). Qed.
Theorem cap_section_bounded_l : forall minor id payload, cap_section minor id payload <= blen payload.
Proof.
  intros minor id payload. unfold cap_section. destruct (section_fmt minor id) as [f|]; [apply cap_bounded_l|].
  destruct (id =? 2); [|lia]. unfold cap_type_table. pose proof (cap_bounded_l (FRep FU32) payload).
  destruct (dec (FRep FU32) payload) as [[[| |offs] r]|]; try lia. pose proof (cap_tt_bounded payload (blen payload) (tn_list offs)). lia.
Qed.
(* a decoded format-described section is an encodable value; on canonical payloads the encoder reproduces the consumed prefix *)
Theorem section_dec_wf_l : forall minor id f payload t rest, section_fmt minor id = Some f -> bytes_ok payload -> dec f payload = Some (t, rest) -> wf f t.
Proof. intros minor id f payload t rest Ef Hb D. eapply dec_wf_l; eauto. eapply section_fmt_ok_l; eauto. Qed.

(* ---- the boolean test of encodability is sound ---- *)
Definition WS (f : fmt) : Prop := forall t, wfb f t = true -> wf f t.
Lemma ws_seq l : Forall WS l -> forall ts, wfb_seq wfb l ts = true -> wf_seq wf l ts.
Proof.
  induction 1 as [|f l Hf Hl IH]; intros ts Hb; cbn [wfb_seq wf_seq] in *.
  - destruct ts; [reflexivity|discriminate].
  - destruct (skip_of f); [auto|]. destruct ts as [|t ts]; [discriminate|]. apply andb_prop in Hb. destruct Hb as [H1 H2]. auto.
Qed.
Lemma forallb_Forall {A : Type} (p : A -> bool) (P : A -> Prop) l : (forall x, p x = true -> P x) -> forallb p l = true -> Forall P l.
Proof. intros Hp. induction l as [|x l IH]; cbn [forallb]; intros H; constructor; apply andb_prop in H; destruct H; auto. Qed.
Lemma wfb_sound : forall f, WS f.
Proof.
  induction f using fmt_induction; intros t Hb; cbn [wfb wf] in *.
  - destruct t; try discriminate. now apply N.ltb_lt.
  - destruct t; try discriminate. now apply N.ltb_lt.
  - destruct t; try discriminate. now apply N.ltb_lt.
  - destruct t; try discriminate. now apply N.ltb_lt.
  - destruct t; try discriminate. apply andb_prop in Hb. destruct Hb as [H1 H2]. split; [now apply N.ltb_lt|assumption].
  - destruct t as [| |[|]]; try discriminate. exact I.
  - destruct t; try discriminate. apply andb_prop in Hb. destruct Hb as [H1 H3]. apply andb_prop in H1. destruct H1 as [H1 H2].
    repeat split; [now apply N.ltb_lt|assumption|]. eapply forallb_Forall; [|exact H3]. intros x Hx. now apply N.ltb_lt.
  - destruct t; try discriminate. now apply ws_seq.
  - destruct t as [| |ts]; try discriminate. apply andb_prop in Hb. destruct Hb as [H1 H3]. apply andb_prop in H1. destruct H1 as [H1 H2].
    repeat split; [now apply N.leb_le|now apply N.ltb_lt|]. eapply forallb_Forall; [|exact H3]. exact IHf.
  - destruct t as [| |[|t1 [|t2 [|]]]]; try discriminate. apply andb_prop in Hb. destruct Hb as [H1 H2]. split; [now apply IHf|now apply H].
Qed.

(* ---- non-vacuity: concrete sections ---- *)
(* a FunctionBlock (kind 1, class-like) with one parameter, one implemented interface (two vtable slots) and one method, then a Program *)
Definition demo_pou_index : tree :=
  TL [TL [TL [TN 7; TN 2; TN 1; TN 0; TN 16; TN 0; TN 1; TN 4294967295; TN 4294967295; TL [TL [TN 3; TN 4; TN 1; TN 4294967295]]];
          TL [TN 4294967295; TL [TL [TN 9; TL [TN 0; TN 1]]]; TL [TL [TN 5; TN 8; TN 0; TN 1; TN 0]]]];
      TL [TL [TN 8; TN 6; TN 0; TN 16; TN 4; TN 1; TN 0; TN 4294967295; TN 4294967295; TL []]; TL []]].
(* location Instance, an Index segment [-1; 2] and a Field segment *)
Definition demo_ref_table : tree :=
  TL [TL [TN 2; TN 5; TN 7; TL [TL [TN 0; TL [TL [TN 18446744073709551615; TN 2]]]; TL [TN 1; TL [TN 9]]]]].
(* two entries: Primitive and Array with one dimension; offsets 12 and 24 *)
Definition demo_type_table : tree :=
  TL [TL [TN 12; TN 24]; TL [TL [TL [TN 0; TN 3]; TL [TN 8; TN 0]]; TL [TL [TN 1; TN 4294967295]; TL [TN 0; TL [TL [TN 0; TN 3]]]]]].
Lemma demo_wf : wf_section 1 5 demo_pou_index /\ wf_section 1 4 demo_ref_table.
Proof. split; apply wfb_sound; vm_compute; reflexivity. Qed.
Definition rt_of (minor id : N) (t : tree) : option N * option tree :=
  match enc_section minor id t with Some bs => (Some (blen bs), dec_section minor id bs) | None => (None, None) end.
Lemma demo_sections :
  rt_of 1 5 demo_pou_index = (Some 144, Some demo_pou_index) /\
  rt_of 1 4 demo_ref_table = (Some 52, Some demo_ref_table) /\
  rt_of 1 2 demo_type_table = (Some 56, Some demo_type_table) /\
  (* an invalid POU kind, a huge count: rejected, and the huge count asks for at most the bytes that are there *)
  dec_section 1 5 [1; 0; 0; 0; 0; 0; 0; 0; 0; 0; 0; 0; 5; 0; 0; 0] = None /\
  dec_section 1 8 [255; 255; 255; 255; 1; 0; 0; 0] = None /\ cap_section 1 8 [255; 255; 255; 255; 1; 0; 0; 0] = 4.
Proof. split; [vm_compute; reflexivity|]. split; [vm_compute; reflexivity|]. split; [vm_compute; reflexivity|]. split; [vm_compute; reflexivity|]. split; vm_compute; reflexivity. Qed.

Lemma demo_sections_all :
  (wf_section 1 5 demo_pou_index /\ wf_section 1 4 demo_ref_table) /\
  rt_of 1 5 demo_pou_index = (Some 144, Some demo_pou_index) /\ rt_of 1 4 demo_ref_table = (Some 52, Some demo_ref_table) /\
  rt_of 1 2 demo_type_table = (Some 56, Some demo_type_table) /\
  dec_section 1 5 [1; 0; 0; 0; 0; 0; 0; 0; 0; 0; 0; 0; 5; 0; 0; 0] = None /\
  dec_section 1 8 [255; 255; 255; 255; 1; 0; 0; 0] = None /\ cap_section 1 8 [255; 255; 255; 255; 1; 0; 0; 0] = 4.
Proof. split; [exact demo_wf|exact demo_sections]. Qed.
