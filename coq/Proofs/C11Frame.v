(* C11: the frame decoder accepts exactly what the frame encoder writes and gives the sections back. *)
From Coq Require Import List Bool Arith NArith Lia.
From TP Require Import Model.Stbc Model.StbcEnc Proofs.C11Proofs.
Import ListNotations.
Open Scope N_scope.

Lemma le16_enc16 n : n < 65536 -> le16 (n mod 256) ((n / 256) mod 256) = n.
Proof.
  intros H. unfold le16. assert (H1 : n / 256 < 256) by (apply N.div_lt_upper_bound; lia).
  rewrite (N.mod_small (n / 256) 256) by exact H1. pose proof (N.div_mod n 256). lia.
Qed.
Lemma to_nat_blen_add (a : list N) j : N.to_nat (blen a + j) = (length a + N.to_nat j)%nat.
Proof. unfold blen. lia. Qed.
Lemma byte_at_app_r a b j : byte_at (a ++ b) (blen a + j) = byte_at b j.
Proof. unfold byte_at. rewrite to_nat_blen_add. rewrite app_nth2 by lia. f_equal. lia. Qed.
Lemma u16_at_app_r a b j : u16_at (a ++ b) (blen a + j) = u16_at b j.
Proof. unfold u16_at. rewrite <- N.add_assoc. now rewrite !byte_at_app_r. Qed.
Lemma u32_at_app_r a b j : u32_at (a ++ b) (blen a + j) = u32_at b j.
Proof. unfold u32_at. rewrite <- !N.add_assoc. now rewrite !byte_at_app_r. Qed.

Definition wf_entry (e : entry) : Prop := e_id e < 65536 /\ e_flags e < 65536 /\ e_off e < 4294967296 /\ e_len e < 4294967296.
Lemma blen_enc_entry a b c d : blen (enc_entry a b c d) = 12.
Proof. reflexivity. Qed.
Lemma read_entry_at a b c d rest : a < 65536 -> b < 65536 -> c < 4294967296 -> d < 4294967296 ->
  u16_at (enc_entry a b c d ++ rest) 0 = a /\ u16_at (enc_entry a b c d ++ rest) 2 = b /\
  u32_at (enc_entry a b c d ++ rest) 4 = c /\ u32_at (enc_entry a b c d ++ rest) 8 = d.
Proof.
  intros Ha Hb Hc Hd. unfold enc_entry, enc16, enc32, u16_at, u32_at, byte_at. cbn.
  repeat split; [now apply le16_enc16|now apply le16_enc16|now apply le32_enc32|now apply le32_enc32].
Qed.
Lemma read_entries_enc : forall es pre rest, Forall wf_entry es ->
  read_entries (pre ++ enc_table es ++ rest) (blen pre) (length es) = es.
Proof.
  induction es as [|e es IH]; intros pre rest Hwf; [reflexivity|].
  inversion Hwf as [|? ? [H1 [H2 [H3 H4]]] Hr]; subst. cbn [length read_entries enc_table flat_map].
  rewrite <- !app_assoc.
  destruct (read_entry_at (e_id e) (e_flags e) (e_off e) (e_len e) (enc_table es ++ rest) H1 H2 H3 H4) as [A [B [C D]]].
  change (flat_map (fun e0 : entry => enc_entry (e_id e0) (e_flags e0) (e_off e0) (e_len e0)) es) with (enc_table es).
  rewrite <- (N.add_0_r (blen pre)) at 1. rewrite u16_at_app_r, u16_at_app_r, !u32_at_app_r. rewrite A, B, C, D.
  f_equal; [now destruct e|].
  replace (blen pre + 12) with (blen (pre ++ enc_entry (e_id e) (e_flags e) (e_off e) (e_len e))) by (rewrite blen_app, blen_enc_entry; reflexivity).
  rewrite app_assoc. now apply IH.
Qed.

(* ---- alignment arithmetic ---- *)
Lemma align4_mod n : align4 n mod 4 = 0.
Proof. unfold align4. now rewrite N.mod_mul by lia. Qed.
Lemma align4_add_mult4 a n : a mod 4 = 0 -> align4 (a + n) = a + align4 n.
Proof.
  intros H. unfold align4. assert (Ha : a = 4 * (a / 4)) by (pose proof (N.div_mod a 4); lia).
  rewrite Ha at 1. replace (4 * (a / 4) + n + 3) with (n + 3 + (a / 4) * 4) by lia.
  rewrite N.div_add by lia. lia.
Qed.
Lemma blen_padded (d : list N) : blen (d ++ pad_to4 (blen d)) = align4 (blen d).
Proof.
  rewrite blen_app. unfold pad_to4. unfold blen at 2. rewrite repeat_length, N2Nat.id. pose proof (align4_ge (blen d)). lia.
Qed.

(* ---- the layout written by the encoder ---- *)
Fixpoint layout_end (off : N) (ss : list sect) : N :=
  match ss with [] => off | s :: r => layout_end (align4 (off + blen (s_data s))) r end.
Lemma layout_end_ge ss : forall off, off <= layout_end off ss.
Proof. induction ss as [|s r IH]; intros off; cbn; [lia|]. specialize (IH (align4 (off + blen (s_data s)))). pose proof (align4_ge (off + blen (s_data s))). lia. Qed.
Lemma payloads_len ss : forall off, off mod 4 = 0 -> off + blen (enc_payloads ss) = layout_end off ss.
Proof.
  induction ss as [|s r IH]; intros off Hm; cbn [enc_payloads flat_map layout_end]; [unfold blen; cbn; lia|].
  change (flat_map (fun s0 : sect => s_data s0 ++ pad_to4 (blen (s_data s0))) r) with (enc_payloads r).
  rewrite blen_app, blen_padded. rewrite <- (IH (align4 (off + blen (s_data s)))) by apply align4_mod.
  rewrite (align4_add_mult4 off _ Hm). lia.
Qed.
Lemma layout_length ss : forall off, length (layout off ss) = length ss.
Proof. induction ss as [|s r IH]; intros off; cbn; [reflexivity|]. now rewrite IH. Qed.

(* offsets never decrease, so the stable sort leaves the table as it is *)
Fixpoint nondec (l : list entry) : Prop :=
  match l with x :: ((y :: _) as r) => e_off x <= e_off y /\ nondec r | _ => True end.
Lemma sort_nondec l : nondec l -> sort_entries l = l.
Proof.
  induction l as [|x r IH]; [reflexivity|]. intros H. cbn [sort_entries].
  destruct r as [|y r'].
  - reflexivity.
  - destruct H as [H1 H2]. rewrite (IH H2). cbn [insert]. now rewrite (proj2 (N.leb_le _ _) H1).
Qed.
Lemma layout_nondec ss : forall off, nondec (layout off ss).
Proof.
  induction ss as [|s r IH]; intros off; [exact I|]. cbn [layout]. destruct r as [|s2 r'].
  - exact I.
  - cbn [layout nondec e_off]. split; [pose proof (align4_ge (off + blen (s_data s))); lia|]. apply (IH (align4 (off + blen (s_data s)))).
Qed.
Lemma validate_layout file_len ss : forall off last, last <= off -> off mod 4 = 0 -> layout_end off ss <= file_len ->
  validate_sorted file_len last (layout off ss) = Ok tt.
Proof.
  induction ss as [|s r IH]; intros off last Hl Hm He; [reflexivity|]. cbn [layout validate_sorted e_off e_len layout_end] in *.
  rewrite Hm. cbn [N.eqb negb].
  pose proof (align4_ge (off + blen (s_data s))) as Ha. pose proof (layout_end_ge r (align4 (off + blen (s_data s)))) as Hg.
  assert (N.ltb file_len (off + blen (s_data s)) = false) as -> by (apply N.ltb_ge; lia).
  assert (N.ltb off last = false) as -> by (apply N.ltb_ge; lia).
  apply IH; [lia|apply align4_mod|exact He].
Qed.

(* ---- the header as the decoder reads it ---- *)
Lemma header_fields major minor flags count rest :
  major < 65536 -> minor < 65536 -> flags < 4294967296 -> count < 65536 ->
  let bs := header major minor flags count ++ rest in
  byte_at bs 0 = 83 /\ byte_at bs 1 = 84 /\ byte_at bs 2 = 66 /\ byte_at bs 3 = 67 /\
  u16_at bs 4 = major /\ u16_at bs 6 = minor /\ u32_at bs 8 = flags /\ u16_at bs 12 = 24 /\ u16_at bs 14 = count /\
  u32_at bs 16 = 24 /\ u32_at bs 20 = 0.
Proof.
  intros H1 H2 H3 H4. unfold header, enc16, enc32, u16_at, u32_at, byte_at. cbn.
  repeat split; try reflexivity; try (now apply le16_enc16); try (now apply le32_enc32).
Qed.
Lemma blen_header a b c d : blen (header a b c d) = 24.
Proof. reflexivity. Qed.
Lemma blen_enc_table es : blen (enc_table es) = 12 * N.of_nat (length es).
Proof.
  induction es as [|e es IH]; [reflexivity|]. cbn [enc_table flat_map]. change (flat_map _ es) with (enc_table es).
  rewrite blen_app, blen_enc_entry, IH. cbn [length]. lia.
Qed.
Lemma layout_wf ss : forall off, Forall (fun s => s_id s < 65536 /\ s_flags s < 65536) ss -> layout_end off ss < 4294967296 ->
  Forall wf_entry (layout off ss).
Proof.
  induction ss as [|s r IH]; intros off Hs He; [constructor|]. inversion Hs as [|? ? [H1 H2] Hr]; subst. cbn [layout layout_end] in *.
  pose proof (align4_ge (off + blen (s_data s))) as Ha. pose proof (layout_end_ge r (align4 (off + blen (s_data s)))) as Hg.
  constructor; [unfold wf_entry; cbn; repeat split; lia|]. now apply IH.
Qed.

Record wf_frame (minor flags : N) (ss : list sect) : Prop := {
  wf_minor : minor < 65536; wf_flags : flags < 4294967296; wf_nocrc : N.odd flags = false;
  wf_count : N.of_nat (length ss) < 65536;
  wf_ids : Forall (fun s => s_id s < 65536 /\ s_flags s < 65536) ss;
  wf_size : layout_end (first_offset (N.of_nat (length ss))) ss < 4294967296
}.

Lemma blen_enc_frame minor flags ss : blen (enc_frame 1 minor flags ss) = layout_end (first_offset (N.of_nat (length ss))) ss.
Proof.
  unfold enc_frame. rewrite !blen_app, blen_header, blen_enc_table, layout_length.
  rewrite <- (payloads_len ss (first_offset (N.of_nat (length ss)))) by apply align4_mod.
  unfold pad_to4, first_offset. unfold blen at 1. rewrite repeat_length, N2Nat.id.
  pose proof (align4_ge (24 + 12 * N.of_nat (length ss))). lia.
Qed.

(* decoding what the encoder wrote succeeds and returns exactly the table the encoder laid out *)
Lemma dec_enc_frame_l crc minor flags ss : wf_frame minor flags ss ->
  dec_frame crc (enc_frame 1 minor flags ss) =
  Ok {| f_major := 1; f_minor := minor; f_flags := flags; f_entries := layout (first_offset (N.of_nat (length ss))) ss |}.
Proof.
  intros [W1 W2 W3 W4 W5 W6]. set (n := N.of_nat (length ss)) in *.
  pose proof (blen_enc_frame minor flags ss) as HL. fold n in HL.
  pose proof (layout_end_ge ss (first_offset n)) as Hge. pose proof (align4_ge (24 + 12 * n)) as Hfo. fold (first_offset n) in Hfo.
  unfold dec_frame. rewrite HL.
  assert (N.ltb (layout_end (first_offset n) ss) 4 = false) as -> by (apply N.ltb_ge; lia).
  unfold enc_frame. fold n.
  destruct (header_fields 1 minor flags n (enc_table (layout (first_offset n) ss) ++ pad_to4 (24 + 12 * n) ++ enc_payloads ss)) as
    [B0 [B1 [B2 [B3 [F4 [F6 [F8 [F12 [F14 [F16 F20]]]]]]]]]]; try lia.
  cbn zeta in *. rewrite B0, B1, B2, B3. cbn [N.eqb Pos.eqb andb negb].
  assert (N.ltb (layout_end (first_offset n) ss) 24 = false) as -> by (apply N.ltb_ge; lia).
  rewrite F4, F6, F8, F12, F14, F16, F20. cbn [N.ltb N.compare Pos.compare Pos.compare_cont N.eqb Pos.eqb negb N.modulo N.div_eucl].
  change (24 mod 4) with 0. cbn [N.eqb negb].
  assert (N.ltb (layout_end (first_offset n) ss) (24 + n * 12) = false) as -> by (apply N.ltb_ge; lia).
  rewrite W3. cbn [andb].
  (* the entries *)
  assert (Hent : read_entries (header 1 minor flags n ++ enc_table (layout (first_offset n) ss) ++ pad_to4 (24 + 12 * n) ++ enc_payloads ss) 24 (N.to_nat n)
                 = layout (first_offset n) ss).
  { replace (N.to_nat n) with (length (layout (first_offset n) ss)) by (rewrite layout_length; unfold n; lia).
    change 24 with (blen (header 1 minor flags n)). apply read_entries_enc. apply layout_wf; assumption. }
  rewrite Hent. unfold validate_entries. rewrite sort_nondec by apply layout_nondec.
  rewrite (validate_layout (layout_end (first_offset n) ss) ss (first_offset n) 0); [reflexivity|lia|apply align4_mod|lia].
Qed.

(* ... and slicing the bytes at each table entry gives back exactly the section payloads *)
Lemma slice_app_mid (pre d rest : list N) : slice (pre ++ d ++ rest) (blen pre) (blen d) = d.
Proof.
  unfold slice, blen. rewrite !Nat2N.id. rewrite skipn_app, skipn_all, Nat.sub_diag. cbn [app skipn].
  rewrite firstn_app, firstn_all, Nat.sub_diag. cbn. now rewrite app_nil_r.
Qed.
Lemma payload_slices_l ss : forall pre tail, blen pre mod 4 = 0 ->
  Forall2 (fun e s => slice (pre ++ enc_payloads ss ++ tail) (e_off e) (e_len e) = s_data s /\ e_id e = s_id s /\ e_flags e = s_flags s)
          (layout (blen pre) ss) ss.
Proof.
  induction ss as [|s r IH]; intros pre tail Hm; [constructor|]. cbn [layout enc_payloads flat_map].
  change (flat_map (fun s0 : sect => s_data s0 ++ pad_to4 (blen (s_data s0))) r) with (enc_payloads r).
  constructor.
  - cbn [e_off e_len e_id e_flags]. split; [|auto]. rewrite <- !app_assoc. apply slice_app_mid.
  - assert (Hp : blen (pre ++ s_data s ++ pad_to4 (blen (s_data s))) = align4 (blen pre + blen (s_data s))).
    { rewrite blen_app, blen_padded. now rewrite (align4_add_mult4 (blen pre) _ Hm). }
    rewrite <- Hp. specialize (IH (pre ++ s_data s ++ pad_to4 (blen (s_data s))) tail).
    assert (Hm' : blen (pre ++ s_data s ++ pad_to4 (blen (s_data s))) mod 4 = 0) by (rewrite Hp; apply align4_mod).
    specialize (IH Hm'). rewrite <- !app_assoc in IH. rewrite <- !app_assoc. exact IH.
Qed.
Lemma frame_payloads_l minor flags ss :
  Forall2 (fun e s => slice (enc_frame 1 minor flags ss) (e_off e) (e_len e) = s_data s /\ e_id e = s_id s /\ e_flags e = s_flags s)
          (layout (first_offset (N.of_nat (length ss))) ss) ss.
Proof.
  set (n := N.of_nat (length ss)).
  pose (pre := header 1 minor flags n ++ enc_table (layout (first_offset n) ss) ++ pad_to4 (24 + 12 * n)).
  assert (Hpre : blen pre = first_offset n).
  { unfold pre. rewrite !blen_app, blen_header, blen_enc_table, layout_length. unfold pad_to4, first_offset. unfold blen at 1.
    rewrite repeat_length, N2Nat.id. pose proof (align4_ge (24 + 12 * n)). fold n. lia. }
  pose proof (payload_slices_l ss pre [] ) as H. rewrite Hpre in H. specialize (H (align4_mod _)).
  unfold enc_frame. fold n. unfold pre in H. rewrite app_nil_r in H. rewrite <- !app_assoc in H. exact H.
Qed.
(* non-vacuity *)
Lemma frame_demo :
  let ss := [{| s_id := 1; s_flags := 0; s_data := [1; 0; 0; 0; 97; 0; 0; 0] |}; {| s_id := 7; s_flags := 2; s_data := [9; 9; 9] |}; {| s_id := 3; s_flags := 0; s_data := [] |}] in
  wf_frame 1 0 ss /\ blen (enc_frame 1 1 0 ss) = 72 /\
  map e_off (layout (first_offset 3) ss) = [60; 68; 72] /\ map e_len (layout (first_offset 3) ss) = [8; 3; 0].
Proof. cbn zeta. split; [split; try (vm_compute; reflexivity); repeat constructor; vm_compute; reflexivity|]. vm_compute. auto. Qed.
