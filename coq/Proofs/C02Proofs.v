From Coq Require Import ZArith List Bool Lia.
From TP Require Import Model.StCore Model.StTyping Model.StRef.
Import ListNotations.
Open Scope Z_scope.

(* ---- the laws that make R recognisably IEC 61131-3 ---- *)
Lemma check_ok k z z' : check k z = Ok z' <-> (z' = z /\ in_range k z = true).
Proof. unfold check. destruct (in_range k z); split; intro H; try discriminate; [injection H as <-; auto | destruct H as [-> _]; reflexivity | destruct H; discriminate]. Qed.

(* exact arithmetic in the operand type: Ok iff the mathematical result is in range *)
Lemma add_exact s k l r a b : reval s k l = Ok a -> reval s k r = Ok b ->
  reval s k (EBin BAdd l r) = (if in_range k (a + b) then Ok (a + b) else Fault FOverflow).
Proof. intros Ha Hb. cbn [reval]. rewrite Ha, Hb. reflexivity. Qed.
Lemma sub_exact s k l r a b : reval s k l = Ok a -> reval s k r = Ok b ->
  reval s k (EBin BSub l r) = (if in_range k (a - b) then Ok (a - b) else Fault FOverflow).
Proof. intros Ha Hb. cbn [reval]. rewrite Ha, Hb. reflexivity. Qed.
Lemma mul_exact s k l r a b : reval s k l = Ok a -> reval s k r = Ok b ->
  reval s k (EBin BMul l r) = (if in_range k (a * b) then Ok (a * b) else Fault FOverflow).
Proof. intros Ha Hb. cbn [reval]. rewrite Ha, Hb. reflexivity. Qed.
(* division truncates toward zero, the remainder takes the sign of the dividend *)
Lemma div_truncates s k l r a b : reval s k l = Ok a -> reval s k r = Ok b -> b <> 0 ->
  in_range k (Z.quot a b) = true ->
  reval s k (EBin BDiv l r) = Ok (Z.quot a b) /\ Z.abs (Z.quot a b * b) <= Z.abs a /\ a = Z.quot a b * b + Z.rem a b.
Proof.
  intros Ha Hb Hnz Hr. cbn [reval]. rewrite Ha, Hb. cbn [bind].
  destruct (Z.eqb_spec b 0); [contradiction|]. unfold check. rewrite Hr. split; [reflexivity|].
  pose proof (Z.quot_rem' a b) as Hqr. pose proof (Z.mul_quot_le a b) as H1.
  split; [|lia].
  destruct (Z.le_ge_cases 0 a) as [Hpos|Hneg].
  - specialize (H1 Hpos Hnz). rewrite Z.mul_comm. pose proof (Z.rem_nonneg a b Hnz Hpos). lia.
  - pose proof (Z.mul_quot_ge a b ltac:(lia) Hnz). rewrite Z.mul_comm. lia.
Qed.
Lemma div_by_zero_faults s k l r a : reval s k l = Ok a -> reval s k r = Ok 0 ->
  reval s k (EBin BDiv l r) = Fault FDivZero /\ reval s k (EBin BMod l r) = Fault FModZero.
Proof. intros Ha Hb. cbn [reval]. rewrite Ha, Hb. split; reflexivity. Qed.

(* AND / OR short-circuit: a fault in the right operand is not observed when the left decides *)
Lemma and_short_circuit G s l r : rbool G s l = Ok false -> rbool G s (EBin BAnd l r) = Ok false.
Proof. intro H. cbn [rbool]. rewrite H. reflexivity. Qed.
Lemma or_short_circuit G s l r : rbool G s l = Ok true -> rbool G s (EBin BOr l r) = Ok true.
Proof. intro H. cbn [rbool]. rewrite H. reflexivity. Qed.
Lemma and_evaluates_right G s l r : rbool G s l = Ok true -> rbool G s (EBin BAnd l r) = rbool G s r.
Proof. intro H. cbn [rbool]. rewrite H. reflexivity. Qed.

(* FOR tests the bound before each iteration: with start beyond the bound the body never runs *)
Lemma for_tests_before_iteration o ex n depth x t ei pi body s cur :
  (0 < pi /\ ei < cur) \/ (pi < 0 /\ cur < ei) ->
  for_loop o ex (S n) depth x t ei pi body s cur = Ok (s, GNormal).
Proof.
  intro H. cbn [for_loop].
  replace (((0 <? pi) && (ei <? cur)) || ((pi <? 0) && (cur <? ei))) with true; [reflexivity|].
  symmetry. apply orb_true_iff. destruct H as [[H1 H2]|[H1 H2]]; [left | right]; apply andb_true_intro; split; apply Z.ltb_lt; assumption.
Qed.
(* assignment converts to the declared type and faults when the value does not fit *)
Lemma assignment_converts s x k zt k' z :
  rd s x = Ok (VInt k zt) ->
  write o_ref s x (VInt k' z) = (if ik_eqb k k' then Ok (upd s x (VInt k' z))
                                 else if in_range k z then Ok (upd s x (VInt k z)) else Fault FOverflow).
Proof.
  intro H. unfold write. rewrite H. cbn [bind o_coerce_write o_ref coerce_like].
  destruct (ik_eqb k k'); [reflexivity|]. unfold from_wide. destruct (in_range k z); reflexivity.
Qed.

(* the interpreter deviates from R exactly where intermediate results leave the declared type:
   untyped literals are DINT and assignments do not range-check (known finding) *)
Lemma widening_hides_overflow :
  let G := [TInt KSInt; TInt KSInt] in
  let body := [SAssign 1 (EBin BSub (EBin BAdd (EVar 0) (ELit true (VInt KDInt 1))) (ELit true (VInt KDInt 1)))] in
  tprogram false G body = true /\
  run_ref G 10 [VInt KSInt 127; VInt KSInt 0] body = Fault FOverflow /\
  run_program {| o_neg_checked := true; o_for_checked := true; o_coerce_write := false; o_case_unsigned := true; o_return_ok := true |}
    10 [VInt KSInt 127; VInt KSInt 0] body = Ok [VInt KSInt 127; VInt KDInt 127].
Proof. repeat split; vm_compute; reflexivity. Qed.

Lemma c02_nonvacuous_l :
  run_ref [TInt KInt; TInt KInt; TBool] 20 [VInt KInt 7; VInt KInt 0; VBool false]
    [SAssign 1 (EBin BDiv (EUn UNeg (EVar 0)) (ELit false (VInt KInt 2)));
     SAssign 2 (EBin BOr (EBin BLt (EVar 1) (ELit true (VInt KDInt 0))) (EBin BEq (EBin BDiv (EVar 0) (ELit true (VInt KDInt 0))) (EVar 0)))]
  = Ok [VInt KInt 7; VInt KInt (-3); VBool true].
Proof. vm_compute. reflexivity. Qed.
