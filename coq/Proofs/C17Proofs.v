(* C17: theorems about every schedule of the debugger LTS (invariant preservation is in C17Inv.v). *)
From Coq Require Import List Bool Arith Lia.
From TP Require Import Model.Debug Proofs.C17Inv.
Import ListNotations.

Lemma inv_step s l : enabled s l && wake_ok s l = true -> Inv s -> Inv (step s l).
Proof.
  intros He HI. apply andb_prop in He. destruct He as [He Hk].
  destruct l as [d bp hl|d|a| |t].
  - apply inv_hook; [|exact HI]. cbn in He. now destruct (d_waiting s).
  - cbn in Hk. apply Nat.eqb_eq in Hk. subst d. now apply inv_wake.
  - now apply inv_act.
  - now apply inv_entry.
  - apply inv_setthread; [|exact HI]. cbn in He. now destruct (d_waiting s).
Qed.

Lemma inv_run ls : forall s s', Inv s -> run s ls = Some s' -> Inv s'.
Proof.
  induction ls as [|l ls IH]; cbn; intros s s' HI Hr; [now inversion Hr; subst|].
  destruct (enabled s l && wake_ok s l) eqn:E; [|discriminate].
  eapply IH; [|exact Hr]. now apply inv_step.
Qed.

Definition reachable (s : dstate) : Prop := exists ls, run d_init ls = Some s.
Lemma reachable_inv s : reachable s -> Inv s.
Proof. intros [ls H]. eapply inv_run; [apply inv_init|exact H]. Qed.

(* ---- the property theorems ---- *)
Definition resume_action (a : action) : bool := match a with APause _ => false | _ => true end.

(* exactly one stop notification per pause: while the debugger is in Paused mode, the
   notifications sent since the last resume plus the still-pending one number exactly one;
   while Running none is owed; the cycle thread is parked only after the stop was sent, and
   Paused with nothing pending means the thread is parked on the target thread. *)
Lemma one_stop_per_pause_l s : reachable s ->
  length (d_stops s) = g_mark s + g_emitted s /\
  (d_mode s = Running -> d_pending s = None /\ g_emitted s = 0) /\
  (d_mode s = Paused -> g_emitted s + pend1 s = 1) /\
  (d_mode s = Paused -> d_pending s = None -> d_waiting s = true /\ is_target s = true) /\
  (d_waiting s = true -> d_mode s = Paused -> is_target s = true -> g_notified s = true \/ g_emitted s = 1).
Proof.
  intros R. destruct (reachable_inv _ R) as [I1 I2 I3 I4 I5 I6 I8 I9 I7].
  repeat split; auto; try (apply I1; auto); try (apply I2; auto); try (apply I3; auto).
  intros Hw Hm Ht. destruct (I4 Hw) as [?|[_ [_ Hp]]]; [auto|right].
  destruct (I2 Hm) as [E _]. unfold pend1 in E. rewrite Hp in E. lia.
Qed.

(* no lost wake-up: whenever the thread is parked and its wait condition is false, a notification
   is in flight; a wake-up with a false wait condition returns; hence every resuming action
   issued while the thread is parked makes the next wake-up return. *)
Lemma no_lost_wakeup_l s : reachable s -> d_waiting s = true ->
  (g_notified s = true \/ (d_mode s = Paused /\ is_target s = true /\ d_pending s = None)) /\
  (d_mode s = Running -> d_waiting (step s (LWake (d_last_depth s))) = false) /\
  (forall a, resume_action a = true ->
     let s1 := fst (apply_action s a) in
     snd (apply_action s a) = Applied /\ g_notified s1 = true /\ d_waiting s1 = true /\
     d_waiting (step s1 (LWake (d_last_depth s1))) = false).
Proof.
  intros R Hw. destruct (reachable_inv _ R) as [I1 I2 I3 I4 I5 I6 I8 I9 I7].
  split; [auto|]. split.
  - intros Hm. destruct s; cbn in *. subst. cbn. reflexivity.
  - intros a Ha. destruct s as [m p stp tg cur ld lds stops w em nt lg]; cbn in *. subst w.
    destruct a; try discriminate; cbn; auto.
Qed.

(* step-over / step-out never stop deeper than they were issued from; a Step stop always
   carries the step it ends *)
Lemma step_depth_l s : reachable s -> Forall stop_ok (d_stops s).
Proof. intros R. now destruct (reachable_inv _ R). Qed.
(* ... and the origin recorded for a step issued at a stop is the depth of the statement the thread is parked at *)
Lemma step_origin_l s t : reachable s -> d_waiting s = true -> (t = None \/ t = d_current s) ->
  (forall st, d_step (fst (apply_action s (AStepOver t))) = Some st -> st_origin st = d_last_depth s /\ st_depth st = d_last_depth s) /\
  (forall st, d_step (fst (apply_action s (AStepOut t))) = Some st -> st_origin st = d_last_depth s /\ st_depth st = d_last_depth s - 1).
Proof.
  intros R Hw Ht. destruct (reachable_inv _ R) as [I1 I2 I3 I4 I5 I6 I8 I9 I7].
  specialize (I5 Hw).
  destruct s as [m p stp tg cur ld lds stops w em nt lg]; cbn in *.
  assert (E : step_depth_for {| d_mode := m; d_pending := p; d_step := stp; d_target := tg; d_current := cur; d_last_depth := ld;
      d_last_depths := lds; d_stops := stops; d_waiting := w; g_emitted := em; g_notified := nt; g_mark := lg |} (or_else t cur) = ld).
  { unfold step_depth_for; cbn. destruct Ht as [->| ->]; destruct cur as [c|]; cbn; auto; now rewrite I5. }
  split; intros st H; inversion H; subst; cbn; rewrite E; auto.
Qed.

(* step-in from a stop: after the wake-up returns, the very next statement with a location on
   that thread stops with reason Step, and the thread parks there *)
Lemma step_in_next_l s d bp : reachable s -> d_waiting s = true ->
  let s1 := fst (apply_action s (AStepIn None)) in
  let s2 := step s1 (LWake (d_last_depth s1)) in
  d_waiting s2 = false /\
  (d_mode s = Paused ->
   d_stops (hook s2 d bp true) = {| sp_reason := RStep; sp_depth := d; sp_thread := d_current s; sp_step := Some (KInto, d_last_depth s) |} :: d_stops s /\
   d_waiting (hook s2 d bp true) = true /\ d_mode (hook s2 d bp true) = Paused).
Proof.
  intros R Hw. destruct s as [m p stp tg cur ld lds stops w em nt lg]; cbn in *. subst w.
  split; [reflexivity|]. intros ->.
  unfold hook, consume_pending, is_target, step_key_ok; cbn.
  destruct cur as [c|]; cbn.
  - unfold opt_eqb. rewrite !Nat.eqb_refl. cbn. unfold loop_turn, consume_pending, is_target; cbn.
    unfold opt_eqb. rewrite ?Nat.eqb_refl. cbn. rewrite ?Nat.eqb_refl. auto.
  - unfold loop_turn, consume_pending, is_target; cbn. auto.
Qed.

(* transparency, model side: the debugger state machine has no access to program state.  A
   program is a list of statements (effect on an arbitrary state type A, call depth, breakpoint
   oracle); the product system applies a statement's effect when its hook returns.  Whatever the
   schedule, the program state is the undebugged state after the completed statements. *)
Local Opaque hook loop_turn apply_action pause_entry.
Section Transparency.
  Variable A : Type.
  Record stmt := { s_eff : A -> A; s_depth : nat; s_bp : bool }.
  Record pstate := { p_done : nat; p_val : A; p_dbg : dstate }.
  Definition undebugged (prog : list stmt) (k : nat) (a : A) : A := fold_left (fun x st => s_eff st x) (firstn k prog) a.
  (* product step: LHook labels are replaced by "the cycle thread reaches its next statement" *)
  Inductive plabel := PStmt | PWake | PCtl (l : label).
  Definition pstep (prog : list stmt) (ps : pstate) (l : plabel) : option pstate :=
    match l with
    | PStmt =>
        if d_waiting (p_dbg ps) then None else
        match nth_error prog (p_done ps) with
        | None => None
        | Some st =>
            let d' := hook (p_dbg ps) (s_depth st) (s_bp st) true in
            if d_waiting d' then Some {| p_done := p_done ps; p_val := p_val ps; p_dbg := d' |}
            else Some {| p_done := S (p_done ps); p_val := s_eff st (p_val ps); p_dbg := d' |}
        end
    | PWake =>
        if d_waiting (p_dbg ps) then
          match nth_error prog (p_done ps) with
          | None => None
          | Some st =>
              let d' := step (p_dbg ps) (LWake (d_last_depth (p_dbg ps))) in
              if d_waiting d' then Some {| p_done := p_done ps; p_val := p_val ps; p_dbg := d' |}
              else Some {| p_done := S (p_done ps); p_val := s_eff st (p_val ps); p_dbg := d' |}
          end
        else None
    | PCtl (LAct a) => Some {| p_done := p_done ps; p_val := p_val ps; p_dbg := fst (apply_action (p_dbg ps) a) |}
    | PCtl LEntry => Some {| p_done := p_done ps; p_val := p_val ps; p_dbg := pause_entry (p_dbg ps) |}
    | PCtl (LSetThread t) => if d_waiting (p_dbg ps) then None else Some {| p_done := p_done ps; p_val := p_val ps; p_dbg := step (p_dbg ps) (LSetThread t) |}
    | PCtl _ => None
    end.
  Fixpoint prun (prog : list stmt) (ps : pstate) (ls : list plabel) : option pstate :=
    match ls with [] => Some ps | l :: ls' => match pstep prog ps l with Some ps' => prun prog ps' ls' | None => None end end.

  Lemma undebugged_S prog k st a : nth_error prog k = Some st -> undebugged prog (S k) a = s_eff st (undebugged prog k a).
  Proof.
    unfold undebugged. revert k a. induction prog as [|x prog IH]; intros [|k] a H; cbn in *; try discriminate.
    - now inversion H.
    - now apply IH.
  Qed.

  Lemma transparency_l prog a0 ls : forall ps ps', p_val ps = undebugged prog (p_done ps) a0 ->
    prun prog ps ls = Some ps' -> p_val ps' = undebugged prog (p_done ps') a0 /\ p_done ps <= p_done ps'.
  Proof.
    induction ls as [|l ls IH]; cbn; intros ps ps' Hv Hr; [inversion Hr; subst; auto|].
    destruct (pstep prog ps l) as [ps1|] eqn:E; [|discriminate].
    assert (p_val ps1 = undebugged prog (p_done ps1) a0 /\ p_done ps <= p_done ps1) as [H1 H2].
    { destruct l as [| |[]]; cbn in E.
      - destruct (d_waiting (p_dbg ps)); [discriminate|]. destruct (nth_error prog (p_done ps)) eqn:En; [|discriminate].
        destruct (d_waiting _); inversion E; subst; cbn [p_val p_done p_dbg]; [auto|]. split; [|lia]. erewrite undebugged_S by eauto. now rewrite Hv.
      - destruct (d_waiting (p_dbg ps)); [|discriminate]. destruct (nth_error prog (p_done ps)) eqn:En; [|discriminate].
        destruct (d_waiting _); inversion E; subst; cbn [p_val p_done p_dbg]; [auto|]. split; [|lia]. erewrite undebugged_S by eauto. now rewrite Hv.
      - discriminate.
      - discriminate.
      - inversion E; subst; cbn; auto.
      - inversion E; subst; cbn; auto.
      - destruct (d_waiting (p_dbg ps)); inversion E; subst; cbn; auto. }
    destruct (IH _ _ H1 Hr) as [H3 H4]. split; [auto|lia].
  Qed.
End Transparency.

(* non-vacuity: a schedule that pauses, steps over out of a call, hits a breakpoint, continues *)
Definition demo_schedule : list label :=
  [LSetThread (Some 1); LHook 0 false true; LAct (APause None); LHook 1 false true; LAct (AStepOut None); LWake 1;
   LHook 2 false true; LHook 1 false true; LHook 0 false true; LAct (AStepIn None); LWake 0; LHook 1 true true;
   LAct AContinue; LAct (APause (Some 1)); LWake 1; LAct (AStepOver None); LWake 1; LHook 2 false true; LHook 1 false true].
Lemma demo_reachable : exists s, run d_init demo_schedule = Some s /\ d_waiting s = true /\ d_mode s = Paused /\
  map sp_reason (d_stops s) = [RStep; RPause; RStep; RStep; RPause] /\ map sp_depth (d_stops s) = [1; 1; 1; 0; 1].
Proof. eexists. split; [vm_compute; reflexivity|]. vm_compute. auto. Qed.
